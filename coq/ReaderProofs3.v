(* Proofs about ReaderModel.v, part 3: provenance.  When no read went beyond the current payload (ghost flag
   rdm_stale = false at the end), everything the reader hands to the caller is a sub-range / a decoding of the
   payload of a chunk in the ghost trace, i.e. (part 1) of a chunk of the file whose header CRC and payload CRC
   are valid. *)
From Coq Require Import NArith ZArith List Bool Lia Arith.
From Coq Require Import ZifyBool ZifyN ZifyNat.
From JLS Require Import Generated CrcDefs Spec Format WmRaw WmCore WmFsr WriterModel RepairRaw RepairModel BitCopyModel
  RawReadProofs ReaderModel ReaderProofs.
Import ListNotations.
Local Open Scope N_scope.

(* ------------------------------------------------------------------ reads inside the payload *)
Lemma rdm_sub_inside : forall (b : list N) (len o n : N),
  length (rp_take len b) = N.to_nat len -> o + n <= len ->
  rdm_sub b o n = fm_sub o n (rp_take len b).
Proof.
  intros b len o n Hl Hb. unfold rdm_sub, fm_sub. rewrite !rr_take_eq, rr_skip_eq in *.
  rewrite firstn_length in Hl.
  assert (Hlen : (N.to_nat len <= length b)%nat) by lia.
  assert (H1 : length (firstn (N.to_nat n) (skipn (N.to_nat o) b)) = N.to_nat n).
  { rewrite firstn_length, skipn_length. lia. }
  rewrite H1, Nat.sub_diag. cbn [repeat]. rewrite app_nil_r.
  (* firstn n (skipn o b) = firstn n (skipn o (firstn len b)) *)
  rewrite <- (firstn_skipn (N.to_nat len) b) at 1.
  rewrite skipn_app. rewrite firstn_app.
  assert (H2 : (N.to_nat o - length (firstn (N.to_nat len) b) = 0)%nat) by (rewrite firstn_length; lia).
  assert (H3 : (N.to_nat n - length (skipn (N.to_nat o) (firstn (N.to_nat len) b)) = 0)%nat).
  { rewrite skipn_length, firstn_length. lia. }
  rewrite H3. cbn [firstn]. rewrite app_nil_r. reflexivity.
Qed.

(* the current payload is a complete one: what jls_core_rd_chunk left *)
Definition rdm_pay_ok (s : rp_io) : Prop := length (rp_payload s) = N.to_nat (rp_buf_len s).

Lemma rdm_mem_rd_inside : forall s off n b oob stale, rdm_pay_ok s ->
  rdm_mem_rd (rp_buf s) (rp_buf_len s) off n = (b, oob, stale) -> stale = false ->
  (0 <= off)%Z /\ Z.to_N off + n <= rp_buf_len s /\ oob = false /\ b = fm_sub (Z.to_N off) n (rp_payload s).
Proof.
  intros s off n b oob stale Hp H Hs. unfold rdm_mem_rd in H.
  destruct (off <? 0)%Z eqn:E0; [inversion H; congruence |].
  destruct (JLS_BUF_DEFAULT_SIZE <? Z.to_N off + n) eqn:E1; [inversion H; congruence |].
  inversion H as [[Hb Hoob Hst]]. rewrite Hs in Hst. apply N.ltb_ge in Hst.
  split; [lia | split; [exact Hst | split; [reflexivity |]]].
  apply rdm_sub_inside; [exact Hp | exact Hst].
Qed.

Lemma rdm_stale_set : forall st b, rdm_stale (rdm_set_stale st b) = false -> rdm_stale st = false /\ b = false.
Proof. intros st b H. cbn in H. apply orb_false_iff in H. exact H. Qed.
Lemma rdm_stale_fault_if : forall st b c, rdm_stale (rdm_fault_if st b c) = rdm_stale st.
Proof. intros st b c. destruct b; reflexivity. Qed.
Lemma rdm_io_fault_if : forall st b c, rp_buf (rdm_io (rdm_fault_if st b c)) = rp_buf (rdm_io st) /\
  rp_buf_len (rdm_io (rdm_fault_if st b c)) = rp_buf_len (rdm_io st) /\ rp_cur (rdm_io (rdm_fault_if st b c)) = rp_cur (rdm_io st) /\
  rp_r (rdm_io (rdm_fault_if st b c)) = rp_r (rdm_io st) /\ rdm_tr (rdm_fault_if st b c) = rdm_tr st.
Proof. intros st b c. destruct b; repeat split. Qed.

(* the part of the state a buffer read leaves alone *)
Definition rdm_same_buf (st st' : rdm_st) : Prop :=
  rp_buf (rdm_io st') = rp_buf (rdm_io st) /\ rp_buf_len (rdm_io st') = rp_buf_len (rdm_io st) /\
  rp_cur (rdm_io st') = rp_cur (rdm_io st) /\ rp_r (rdm_io st') = rp_r (rdm_io st) /\ rdm_tr st' = rdm_tr st /\
  rdm_c st' = rp_rd_set_io (rdm_c st) (rdm_io st').
Lemma rdm_same_buf_refl : forall st, rdm_same_buf st st.
Proof. intro st. repeat split. destruct st as [c]. destruct c. reflexivity. Qed.
Lemma rdm_same_buf_trans : forall a b c, rdm_same_buf a b -> rdm_same_buf b c -> rdm_same_buf a c.
Proof.
  intros a b c (A1 & A2 & A3 & A4 & A5 & A6) (B1 & B2 & B3 & B4 & B5 & B6).
  repeat split; try congruence. rewrite B6, A6. reflexivity.
Qed.
Lemma rdm_same_buf_payload : forall st st', rdm_same_buf st st' -> rp_payload (rdm_io st') = rp_payload (rdm_io st).
Proof. intros st st' (A1 & A2 & _). unfold rp_payload. now rewrite A1, A2. Qed.
Lemma rdm_same_buf_fault_if : forall st b c, rdm_same_buf st (rdm_fault_if st b c).
Proof. intros st b c. destruct b; [| apply rdm_same_buf_refl]. repeat split. Qed.
Lemma rdm_same_buf_set_stale : forall st b, rdm_same_buf st (rdm_set_stale st b).
Proof. intros st b. repeat split. destruct st as [c]. destruct c. reflexivity. Qed.

Lemma rdm_buf_rd_inside : forall st off n st1 b, rdm_pay_ok (rdm_io st) ->
  rdm_buf_rd st off n = (st1, b) -> rdm_stale st1 = false ->
  rdm_stale st = false /\ rdm_same_buf st st1 /\
  (0 <= off)%Z /\ Z.to_N off + n <= rp_buf_len (rdm_io st) /\ b = fm_sub (Z.to_N off) n (rp_payload (rdm_io st)).
Proof.
  intros st off n st1 b Hp H Hs. unfold rdm_buf_rd in H.
  destruct (rdm_mem_rd (rp_buf (rdm_io st)) (rp_buf_len (rdm_io st)) off n) as [[b0 oob] stale] eqn:E.
  inversion H; subst st1 b. apply rdm_stale_set in Hs. destruct Hs as [Hs1 Hs2]. rewrite rdm_stale_fault_if in Hs1.
  destruct (rdm_mem_rd_inside _ _ _ _ _ _ Hp E Hs2) as (A & B & C & D).
  split; [exact Hs1 | split; [| split; [exact A | split; [exact B | exact D]]]].
  eapply rdm_same_buf_trans; [apply rdm_same_buf_fault_if | apply rdm_same_buf_set_stale].
Qed.
Lemma rdm_buf_u_inside : forall st off n st1 v, rdm_pay_ok (rdm_io st) ->
  rdm_buf_u st off n = (st1, v) -> rdm_stale st1 = false ->
  rdm_stale st = false /\ rdm_same_buf st st1 /\
  (0 <= off)%Z /\ Z.to_N off + n <= rp_buf_len (rdm_io st) /\ v = fm_dec (fm_sub (Z.to_N off) n (rp_payload (rdm_io st))).
Proof.
  intros st off n st1 v Hp H Hs. unfold rdm_buf_u in H. destruct (rdm_buf_rd st off n) as [s b] eqn:E.
  inversion H; subst s v. destruct (rdm_buf_rd_inside _ _ _ _ _ Hp E Hs) as (A & B & C & D & F).
  repeat split; try assumption; try apply B. now rewrite F.
Qed.
Lemma rdm_buf_i64_inside : forall st off st1 v, rdm_pay_ok (rdm_io st) ->
  rdm_buf_i64 st off = (st1, v) -> rdm_stale st1 = false ->
  rdm_stale st = false /\ rdm_same_buf st st1 /\
  (0 <= off)%Z /\ Z.to_N off + 8 <= rp_buf_len (rdm_io st) /\ v = fm_i64_of_u64 (fm_dec (fm_sub (Z.to_N off) 8 (rp_payload (rdm_io st)))).
Proof.
  intros st off st1 v Hp H Hs. unfold rdm_buf_i64 in H. destruct (rdm_buf_rd st off 8) as [s b] eqn:E.
  inversion H; subst s v. destruct (rdm_buf_rd_inside _ _ _ _ _ Hp E Hs) as (A & B & C & D & F).
  repeat split; try assumption; try apply B. now rewrite F.
Qed.
Lemma rdm_buf_rd_same : forall st off n st1 b, rdm_buf_rd st off n = (st1, b) -> rdm_same_buf st st1.
Proof.
  intros st off n st1 b H. unfold rdm_buf_rd in H.
  destruct (rdm_mem_rd (rp_buf (rdm_io st)) (rp_buf_len (rdm_io st)) off n) as [[b0 oob] stale].
  inversion H; subst. eapply rdm_same_buf_trans; [apply rdm_same_buf_fault_if | apply rdm_same_buf_set_stale].
Qed.
Lemma rdm_buf_u_same : forall st off n st1 v, rdm_buf_u st off n = (st1, v) -> rdm_same_buf st st1.
Proof. intros st off n st1 v H. unfold rdm_buf_u in H. destruct (rdm_buf_rd st off n) as [s b] eqn:E. inversion H; subst. eapply rdm_buf_rd_same; eassumption. Qed.
Lemma rdm_buf_i64_same : forall st off st1 v, rdm_buf_i64 st off = (st1, v) -> rdm_same_buf st st1.
Proof. intros st off st1 v H. unfold rdm_buf_i64 in H. destruct (rdm_buf_rd st off 8) as [s b] eqn:E. inversion H; subst. eapply rdm_buf_rd_same; eassumption. Qed.
Lemma rdm_i64_same : forall st z st1 v, rdm_i64 st z = (st1, v) -> rdm_same_buf st st1 /\ rdm_stale st1 = rdm_stale st /\ v = rdm_wrap z.
Proof.
  intros st z st1 v H. unfold rdm_i64 in H. inversion H; subst st1 v.
  split; [apply rdm_same_buf_fault_if | split; [apply rdm_stale_fault_if | reflexivity]].
Qed.
Lemma rdm_pay_ok_same : forall st st', rdm_same_buf st st' -> rdm_pay_ok (rdm_io st) -> rdm_pay_ok (rdm_io st').
Proof. intros st st' H Hp. unfold rdm_pay_ok in *. rewrite (rdm_same_buf_payload _ _ H). destruct H as (_ & H2 & _). now rewrite H2. Qed.

(* a successful chunk read: the new head of the trace is the chunk in the buffer *)
Lemma rdm_rd_chunk_head : forall st st' f, rdm_inv f st -> rdm_rd_chunk st = (st', 0) ->
  exists e, rdm_tr st' = e :: rdm_tr st /\ rdm_ev_ok f e /\
            rdm_ev_hdr e = wm_ck_hdr (rp_cur (rdm_io st')) /\ rdm_ev_pay e = rp_payload (rdm_io st') /\
            rdm_ev_off e = rp_offset (rp_r (rdm_io st)) /\
            rdm_pay_ok (rdm_io st') /\ rdm_stale st' = rdm_stale st.
Proof.
  intros st st' f Hinv H. pose proof (rdm_rd_chunk_ok st f Hinv) as [Hinv' _]. rewrite H in Hinv'. cbn [fst] in Hinv'.
  unfold rdm_rd_chunk in H. destruct (rp_rd_chunk (rdm_io st)) as [s1 rc] eqn:E.
  destruct (rc =? 0) eqn:Erc.
  2:{ inversion H; subst. rewrite N.eqb_refl in Erc. discriminate. }
  apply N.eqb_eq in Erc. subst rc. inversion H; subst st'. clear H.
  destruct Hinv as (Hf & Hi & Ht).
  destruct (rr_rd_chunk_ok _ _ Hi E) as (_ & _ & Hoff & _ & _ & Hlen & _).
  eexists. split; [reflexivity |]. split.
  { destruct Hinv' as (_ & _ & Hall). cbn [rdm_set_tr rdm_tr] in Hall. inversion Hall; assumption. }
  cbn [rdm_ev_hdr rdm_ev_pay rdm_ev_off]. repeat split; try assumption.
  unfold rdm_pay_ok. cbn [rdm_io rdm_set_tr rdm_set_io rdm_set_c rdm_c rp_rd_set_io rp_io_].
  revert E Hlen. unfold rp_rd_chunk. cbv zeta.
  destruct (rp_raw_rd_header _) as [sa rca]. destruct (negb (rca =? 0)) eqn:Ea.
  { intro E. inversion E; subst. discriminate Ea. }
  destruct (rp_raw_rd_payload _ _) as [sb rcb]. destruct (rcb =? JLS_ERROR_TOO_BIG) eqn:Eb.
  { destruct (_ <? _); intro E; inversion E. }
  destruct (rcb =? 0) eqn:Ec; intro E; inversion E; subst.
  - intro Hlen. exact Hlen.
  - discriminate Ec.
Qed.

(* ------------------------------------------------------------------ trace membership is monotone *)
Lemma rdm_ext_in : forall st st' e, rdm_ext st st' -> In e (rdm_tr st) -> In e (rdm_tr st').
Proof. intros st st' e ([l H] & _) Hin. rewrite H. apply in_or_app. now right. Qed.
Lemma rdm_ext_stale : forall st st', rdm_ext st st' -> rdm_stale st' = false -> rdm_stale st = false.
Proof. intros st st' (_ & H & _) Hs. destruct (rdm_stale st); [rewrite H in Hs; auto | reflexivity]. Qed.

(* ------------------------------------------------------------------ jls_rd_user_data *)
(* an item is the payload of a USER_DATA chunk of the trace *)
Definition rdm_ud_from (tr : list rdm_ev) (it : rdm_ud) : Prop :=
  exists e, In e tr /\ fm_tag (rdm_ev_hdr e) = JLS_TAG_USER_DATA /\
            rdm_ud_data it = rdm_ev_pay e /\
            rdm_ud_meta it = N.land (fm_chunk_meta (rdm_ev_hdr e)) 4095 /\
            rdm_ud_stype it = N.land (N.shiftr (fm_chunk_meta (rdm_ev_hdr e)) 12) 15.

Lemma rdm_ud_from_mono : forall st st' it, rdm_ext st st' -> rdm_ud_from (rdm_tr st) it -> rdm_ud_from (rdm_tr st') it.
Proof. intros st st' it Hx (e & Hin & H). exists e. split; [eapply rdm_ext_in; eassumption | exact H]. Qed.

Lemma rdm_ud_loop_prov : forall f fuel st stopf pos items n st' rc out,
  rdm_inv f st -> Forall (rdm_ud_from (rdm_tr st)) items ->
  rdm_ud_loop fuel st stopf pos items n = (st', rc, out) ->
  Forall (rdm_ud_from (rdm_tr st')) out.
Proof.
  intros f. induction fuel as [| fu IH]; intros st stopf pos items n st' rc out Hinv Hit H; cbn [rdm_ud_loop] in H.
  - destruct (pos =? 0); inversion H; subst; exact Hit.
  - destruct (pos =? 0); [inversion H; subst; exact Hit |].
    pose proof (rdm_seek_ok st pos f Hinv) as [Hinv1 Hx1].
    destruct (rdm_seek st pos) as [st1 rc1]. cbn [fst] in Hinv1, Hx1.
    assert (M1 : Forall (rdm_ud_from (rdm_tr st1)) items).
    { eapply Forall_impl; [| exact Hit]. intros a Ha. eapply rdm_ud_from_mono; eassumption. }
    destruct (negb (rc1 =? 0)); [inversion H; subst; exact M1 |].
    pose proof (rdm_rd_chunk_ok st1 f Hinv1) as [Hinv2 Hx2].
    destruct (rdm_rd_chunk st1) as [st2 rc2] eqn:E2. cbn [fst] in Hinv2, Hx2.
    assert (M2 : Forall (rdm_ud_from (rdm_tr st2)) items).
    { eapply Forall_impl; [| exact M1]. intros a Ha. eapply rdm_ud_from_mono; eassumption. }
    destruct (negb (rc2 =? 0)) eqn:Erc2; [inversion H; subst; exact M2 |].
    apply negb_false_iff in Erc2. apply N.eqb_eq in Erc2. subst rc2.
    destruct (rdm_rd_chunk_head _ _ f Hinv1 E2) as (e & Htr & _ & Hh & Hp & _).
    destruct (negb (fm_tag (wm_ck_hdr (rp_cur (rdm_io st2))) =? JLS_TAG_USER_DATA)) eqn:Etag; [inversion H; subst; exact M2 |].
    apply negb_false_iff in Etag. apply N.eqb_eq in Etag.
    match type of H with context [if ?c then rdm_ud_loop _ _ _ _ _ _ else _] => destruct c end.
    { eapply IH; [exact Hinv2 | exact M2 | exact H]. }
    match type of H with context [if negb ?c then _ else _] => destruct (negb c) end; [inversion H; subst; exact M2 |].
    match type of H with context [rdm_ud_loop fu st2 stopf _ (?it :: items) _] =>
      assert (M3 : Forall (rdm_ud_from (rdm_tr st2)) (it :: items)) end.
    { constructor; [| exact M2]. exists e. rewrite Htr. split; [now left |]. cbn [rdm_ud_data rdm_ud_meta rdm_ud_stype].
      rewrite Hh, Hp. repeat split; try reflexivity. exact Etag. }
    destruct (stopf (n + 1)); [inversion H; subst; exact M3 |].
    eapply IH; [exact Hinv2 | exact M3 | exact H].
Qed.

Lemma rdm_Forall_rev : forall {A} (P : A -> Prop) (l : list A), Forall P l -> Forall P (wm_rev l).
Proof.
  intros A P l H. unfold wm_rev. rewrite <- rev_alt. apply Forall_forall. intros x Hx. apply in_rev in Hx.
  rewrite Forall_forall in H. auto.
Qed.

Theorem rdm_user_data_prov : forall f st stopf st' rc items,
  rdm_inv f st -> rdm_user_data st stopf = (st', rc, items) ->
  rdm_inv f st' /\ rp_file (rdm_io st') = f /\
  Forall (fun it => exists e, In e (rdm_tr st') /\ rdm_ev_ok f e /\ fm_tag (rdm_ev_hdr e) = JLS_TAG_USER_DATA /\
                    rdm_ud_data it = rdm_ev_pay e /\
                    rdm_ud_meta it = N.land (fm_chunk_meta (rdm_ev_hdr e)) 4095 /\
                    rdm_ud_stype it = N.land (N.shiftr (fm_chunk_meta (rdm_ev_hdr e)) 12) 15) items.
Proof.
  intros f st stopf st' rc items Hinv H.
  pose proof (rdm_user_data_ok st stopf f Hinv) as [Hinv' _]. rewrite H in Hinv'. cbn [fst] in Hinv'.
  split; [exact Hinv' | split; [apply Hinv' |]].
  unfold rdm_user_data in H.
  destruct (rdm_ud_loop (rdm_chain_fuel st) st stopf (fm_item_next (wm_ck_hdr (rp_ud_head (rdm_c st)))) [] 0) as [[s1 r1] its] eqn:E.
  inversion H; subst s1 r1 items.
  pose proof (rdm_ud_loop_prov f _ _ _ _ _ _ _ _ _ Hinv (Forall_nil _) E) as K.
  apply rdm_Forall_rev. eapply Forall_impl; [| exact K].
  intros it (e & Hin & Ht & Hd & Hm & Hs). exists e. split; [exact Hin |]. split.
  - destruct Hinv' as (_ & _ & Hall). rewrite Forall_forall in Hall. apply Hall. exact Hin.
  - repeat split; assumption.
Qed.

(* ------------------------------------------------------------------ jls_rd_annotations *)
Lemma rdm_buf_wr_same : forall st off d, rdm_stale (rdm_buf_wr st off d) = rdm_stale st /\ rdm_tr (rdm_buf_wr st off d) = rdm_tr st.
Proof. intros st off d. unfold rdm_buf_wr. destruct (JLS_BUF_DEFAULT_SIZE <? off + rp_len d); split; reflexivity. Qed.

Definition rdm_anno_from (sid0 : Z) (tr : list rdm_ev) (it : rdm_anno) : Prop :=
  exists e, In e tr /\ fm_tag (rdm_ev_hdr e) = JLS_TAG_TRACK_ANNOTATION_DATA /\
            it = rdm_anno_of_payload sid0 (rdm_ev_pay e) /\
            rdm_anno_data_off + rdm_an_size it <= N.of_nat (length (rdm_ev_pay e)).
Lemma rdm_anno_from_mono : forall sid0 st st' it, rdm_ext st st' -> rdm_anno_from sid0 (rdm_tr st) it -> rdm_anno_from sid0 (rdm_tr st') it.
Proof. intros sid0 st st' it Hx (e & Hin & H). exists e. split; [eapply rdm_ext_in; eassumption | exact H]. Qed.

Lemma rdm_anno_loop_prov : forall f sid0 fuel st stopf pos items n st' rc out,
  rdm_inv f st -> Forall (rdm_anno_from sid0 (rdm_tr st)) items ->
  rdm_anno_loop fuel st sid0 stopf pos items n = (st', rc, out) -> rdm_stale st' = false ->
  Forall (rdm_anno_from sid0 (rdm_tr st')) out.
Proof.
  intros f sid0. induction fuel as [| fu IH]; intros st stopf pos items n st' rc out Hinv Hit H Hst; cbn [rdm_anno_loop] in H.
  - destruct (pos =? 0); inversion H; subst; exact Hit.
  - destruct (pos =? 0); [inversion H; subst; exact Hit |].
    pose proof (rdm_seek_ok st pos f Hinv) as [Hinv1 Hx1].
    destruct (rdm_seek st pos) as [st1 rc1]. cbn [fst] in Hinv1, Hx1.
    assert (M1 : Forall (rdm_anno_from sid0 (rdm_tr st1)) items).
    { eapply Forall_impl; [| exact Hit]. intros a Ha. eapply rdm_anno_from_mono; eassumption. }
    destruct (negb (rc1 =? 0)); [inversion H; subst; exact M1 |].
    pose proof (rdm_rd_chunk_ok st1 f Hinv1) as [Hinv2 Hx2].
    destruct (rdm_rd_chunk st1) as [st2 rc2] eqn:E2. cbn [fst] in Hinv2, Hx2.
    assert (M2 : Forall (rdm_anno_from sid0 (rdm_tr st2)) items).
    { eapply Forall_impl; [| exact M1]. intros a Ha. eapply rdm_anno_from_mono; eassumption. }
    destruct (negb (rc2 =? 0)) eqn:Erc2; [inversion H; subst; exact M2 |].
    apply negb_false_iff in Erc2. apply N.eqb_eq in Erc2. subst rc2.
    destruct (rdm_rd_chunk_head _ _ f Hinv1 E2) as (e & Htr & _ & Hh & Hp & _ & Hpok & _).
    destruct (negb (fm_tag (wm_ck_hdr (rp_cur (rdm_io st2))) =? JLS_TAG_TRACK_ANNOTATION_DATA)) eqn:Etag; [inversion H; subst; exact M2 |].
    apply negb_false_iff in Etag. apply N.eqb_eq in Etag.
    pose proof (rdm_buf_i64_ok st2 0 f Hinv2) as [Hinv3 Hx3].
    destruct (rdm_buf_i64 st2 0) as [st3 ts0] eqn:E3. cbn [fst] in Hinv3, Hx3.
    pose proof (rdm_i64_ok st3 (ts0 - sid0)%Z f Hinv3) as [Hinv4 Hx4].
    destruct (rdm_i64 st3 (ts0 - sid0)%Z) as [st4 ts] eqn:E4. cbn [fst] in Hinv4, Hx4.
    pose proof (rdm_buf_rd_ok st4 (Z.of_N OFFSETOF_annotation_type) (rdm_anno_data_off - OFFSETOF_annotation_type) f Hinv4) as [Hinv5 Hx5].
    destruct (rdm_buf_rd st4 (Z.of_N OFFSETOF_annotation_type) (rdm_anno_data_off - OFFSETOF_annotation_type)) as [st5 fx] eqn:E5.
    cbn [fst] in Hinv5, Hx5.
    pose proof (rdm_buf_rd_ok st5 (Z.of_N rdm_anno_data_off) (rdm_anno_size fx) f Hinv5) as [Hinv6 Hx6].
    destruct (rdm_buf_rd st5 (Z.of_N rdm_anno_data_off) (rdm_anno_size fx)) as [st6 data] eqn:E6. cbn [fst] in Hinv6, Hx6.
    pose proof (rdm_buf_wr_ok st6 0 (fm_enc_i64 ts) f Hinv6) as [Hinv7 Hx7].
    destruct (rdm_buf_wr_same st6 0 (fm_enc_i64 ts)) as [Hs7 Ht7].
    set (st7 := rdm_buf_wr st6 0 (fm_enc_i64 ts)) in *.
    (* stale: false at the end, hence at st7 and before *)
    assert (S7 : rdm_stale st7 = false).
    { destruct (stopf (n + 1)); [inversion H; subst; exact Hst |].
      pose proof (rdm_anno_loop_ok fu st7 sid0 stopf (fm_item_next (wm_ck_hdr (rp_cur (rdm_io st2)))) (rdm_anno_of ts fx data :: items) (n + 1) f Hinv7) as [_ Hx].
      rewrite H in Hx. cbn [fst] in Hx. eapply rdm_ext_stale; eassumption. }
    assert (S6 : rdm_stale st6 = false) by congruence.
    (* forward: the buffer is the chunk's payload all along *)
    pose proof (rdm_buf_i64_same _ _ _ _ E3) as B3.
    destruct (rdm_i64_same _ _ _ _ E4) as (B4 & S4eq & Hts).
    pose proof (rdm_buf_rd_same _ _ _ _ _ E5) as B5.
    pose proof (rdm_pay_ok_same _ _ B3 Hpok) as P3. pose proof (rdm_pay_ok_same _ _ B4 P3) as P4.
    pose proof (rdm_pay_ok_same _ _ B5 P4) as P5.
    (* backward: every read was inside the payload *)
    destruct (rdm_buf_rd_inside _ _ _ _ _ P5 E6 S6) as (S5 & B6 & _ & L6 & D6).
    destruct (rdm_buf_rd_inside _ _ _ _ _ P4 E5 S5) as (S4 & _ & _ & L5 & D5).
    assert (S3 : rdm_stale st3 = false) by congruence.
    destruct (rdm_buf_i64_inside _ _ _ _ Hpok E3 S3) as (S2 & _ & _ & L3 & D3).
    assert (Q5 : rp_payload (rdm_io st5) = rdm_ev_pay e).
    { rewrite (rdm_same_buf_payload _ _ B5), (rdm_same_buf_payload _ _ B4), (rdm_same_buf_payload _ _ B3). now rewrite Hp. }
    assert (Q4 : rp_payload (rdm_io st4) = rdm_ev_pay e).
    { rewrite (rdm_same_buf_payload _ _ B4), (rdm_same_buf_payload _ _ B3). now rewrite Hp. }
    assert (T7 : rdm_tr st7 = rdm_tr st2).
    { rewrite Ht7. destruct B6 as (_ & _ & _ & _ & X6 & _). destruct B5 as (_ & _ & _ & _ & X5 & _).
      destruct B4 as (_ & _ & _ & _ & X4 & _). destruct B3 as (_ & _ & _ & _ & X3 & _). congruence. }
    assert (M7 : Forall (rdm_anno_from sid0 (rdm_tr st7)) (rdm_anno_of ts fx data :: items)).
    { rewrite T7. constructor; [| exact M2]. exists e. rewrite Htr. split; [now left |]. split; [now rewrite Hh |].
      unfold rdm_anno_of_payload.
      change (Z.to_N (Z.of_N OFFSETOF_annotation_type)) with OFFSETOF_annotation_type in D5.
      change (Z.to_N (Z.of_N rdm_anno_data_off)) with rdm_anno_data_off in D6, L6.
      change (Z.to_N 0) with 0 in D3.
      rewrite Q4 in D5. rewrite Q5 in D6. rewrite <- Hp in D3. rewrite <- D5, <- D6, <- D3, <- Hts.
      split; [reflexivity |].
      cbn [rdm_anno_of rdm_an_size]. destruct B5 as (_ & X5 & _). destruct B4 as (_ & X4 & _). destruct B3 as (_ & X3 & _).
      rewrite X5, X4, X3 in L6. unfold rdm_pay_ok in Hpok. rewrite <- Hp in Hpok. lia. }
    destruct (stopf (n + 1)); [inversion H; subst; exact M7 |].
    eapply IH; [exact Hinv7 | exact M7 | exact H | exact Hst].
Qed.

Theorem rdm_annotations_prov : forall f st id ts stopf st' rc items,
  rdm_inv f st -> rdm_annotations st id ts stopf = (st', rc, items) -> rdm_stale st' = false ->
  rdm_inv f st' /\ rp_file (rdm_io st') = f /\
  Forall (fun it => exists e, In e (rdm_tr st') /\ rdm_ev_ok f e /\ fm_tag (rdm_ev_hdr e) = JLS_TAG_TRACK_ANNOTATION_DATA /\
                    it = rdm_anno_of_payload (rdm_sid0 st id) (rdm_ev_pay e) /\
                    rdm_anno_data_off + rdm_an_size it <= N.of_nat (length (rdm_ev_pay e))) items.
Proof.
  intros f st id ts stopf st' rc items Hinv H Hst.
  pose proof (rdm_annotations_ok st id ts stopf f Hinv) as [Hinv' _]. rewrite H in Hinv'. cbn [fst] in Hinv'.
  split; [exact Hinv' | split; [apply Hinv' |]].
  unfold rdm_annotations in H.
  destruct (negb (rp_signal_validate (rdm_c st) id =? 0)); [inversion H; constructor |].
  pose proof (rdm_ts_seek_ok st id 0 JLS_TRACK_TYPE_ANNOTATION (rdm_add_saturate ts (rdm_sid0 st id)) f Hinv) as [Hinv1 _].
  destruct (rdm_ts_seek st id 0 JLS_TRACK_TYPE_ANNOTATION (rdm_add_saturate ts (rdm_sid0 st id))) as [st1 rv]. cbn [fst] in Hinv1.
  destruct (rv =? JLS_ERROR_NOT_FOUND); [inversion H; constructor |].
  destruct (negb (rv =? 0)); [inversion H; constructor |].
  destruct (rdm_anno_loop (rdm_chain_fuel st1) st1 (rdm_sid0 st id) stopf (rp_offset (rp_r (rdm_io st1))) [] 0) as [[s2 r2] its] eqn:E.
  inversion H; subst s2 r2 items.
  pose proof (rdm_anno_loop_prov f _ _ _ _ _ _ _ _ _ _ Hinv1 (Forall_nil _) E Hst) as K.
  apply rdm_Forall_rev. eapply Forall_impl; [| exact K].
  intros it (e & Hin & Ht & Hd & Hl). exists e. split; [exact Hin |]. split.
  - destruct Hinv' as (_ & _ & Hall). rewrite Forall_forall in Hall. apply Hall. exact Hin.
  - repeat split; assumption.
Qed.

(* ------------------------------------------------------------------ jls_rd_fsr *)
Section ProvFsr.
Variable recon : bool -> bool -> Z -> N -> N -> N -> list N.
Variable f32_of_f64 : N -> N.

(* jls_core_rd_fsr_data0 returned 0 without reconstructing: the buffer holds the payload of a chunk of the trace *)
Lemma rdm_data0_fresh : forall f st id start st' omitted, rdm_inv f st ->
  rdm_rd_fsr_data0 recon f32_of_f64 st id start = (st', 0, omitted) -> omitted = false -> rdm_stale st' = false ->
  exists e, In e (rdm_tr st') /\ rdm_ev_pay e = rp_payload (rdm_io st') /\ rdm_pay_ok (rdm_io st').
Proof.
  intros f st id start st' omitted Hinv H Hom Hst. unfold rdm_rd_fsr_data0 in H. cbv zeta in H.
  pose proof (rdm_rd_fsr_level1_ok st id start f Hinv) as [Hinv1 _].
  destruct (rdm_rd_fsr_level1 st id start) as [st1 rc1]. cbn [fst] in Hinv1.
  destruct (negb (rc1 =? 0)) eqn:Erc1; [inversion H; subst; discriminate Erc1 |].
  destruct (sg_spd (rdm_def st1 id) =? 0); [inversion H |].
  pose proof (rdm_idx_rd_ok st1 0 8 f Hinv1) as [Hinv2 _].
  destruct (rdm_idx_rd st1 0 8) as [st2 b1]. cbn [fst] in Hinv2.
  match type of H with context [rdm_i64 st2 ?z] => pose proof (rdm_i64_ok st2 z f Hinv2) as [Hinv3 _]; destruct (rdm_i64 st2 z) as [st3 d1] end.
  cbn [fst] in Hinv3.
  match type of H with context [rdm_idx_rd st3 ?o 8] => pose proof (rdm_idx_rd_ok st3 o 8 f Hinv3) as [Hinv4 _]; destruct (rdm_idx_rd st3 o 8) as [st4 b2] end.
  cbn [fst] in Hinv4.
  destruct (fm_dec b2 =? 0).
  { (* offset 0: either reconstructed (omitted = true) or flagged stale *)
    unfold rdm_data0_finish in H.
    destruct (start <? rdm_i64_max - 2147483647)%Z eqn:Elt.
    - destruct (rdm_reconstruct recon f32_of_f64 _ id start) as [s r]. destruct (negb (r =? 0)); [inversion H; congruence |].
      destruct (rdm_buf_u s _ 2) as [s7 esb]. destruct (negb (esb =? _)); inversion H; congruence.
    - cbn [negb] in H. cbv beta iota zeta in H. cbn [negb N.eqb] in H.
      match type of H with context [rdm_buf_u ?x ?o 2] => pose proof (rdm_buf_u_ok x o 2 f) as Kx; destruct (rdm_buf_u x o 2) as [s7 esb] eqn:E7 end.
      assert (Hs7 : rdm_stale s7 = true).
      { unfold rdm_buf_u in E7.
        destruct (rdm_buf_rd _ _ 2) as [sx bx] eqn:Ex. inversion E7; subst sx. unfold rdm_buf_rd in Ex.
        destruct (rdm_mem_rd _ _ _ 2) as [[b0 oob] stl]. inversion Ex; subst s7. cbn. rewrite rdm_stale_fault_if. cbn.
        rewrite orb_true_r. reflexivity. }
      destruct (negb (esb =? _)); inversion H; subst; congruence. }
  match type of H with context [rdm_seek st4 ?o] => pose proof (rdm_seek_ok st4 o f Hinv4) as [Hinv5 _]; destruct (rdm_seek st4 o) as [st5 rc5] end.
  cbn [fst] in Hinv5.
  destruct (negb (rc5 =? 0)); [inversion H |].
  destruct (rdm_rd_chunk st5) as [st6 rc6] eqn:E6.
  destruct (rc6 =? JLS_ERROR_EMPTY); [inversion H |].
  destruct (negb (rc6 =? 0)) eqn:Erc6; [inversion H; subst; discriminate |].
  apply negb_false_iff in Erc6. apply N.eqb_eq in Erc6. subst rc6.
  destruct (rdm_rd_chunk_head _ _ f Hinv5 E6) as (e & Htr & _ & _ & Hp & _ & Hpok & _).
  destruct (rdm_buf_i64 st6 0) as [st7 ts] eqn:E7. pose proof (rdm_buf_i64_same _ _ _ _ E7) as B7.
  unfold rdm_data0_finish in H.
  destruct (start <? ts)%Z.
  { destruct (rdm_reconstruct recon f32_of_f64 st7 id start) as [s r]. destruct (negb (r =? 0)); [inversion H; congruence |].
    destruct (rdm_buf_u s _ 2) as [s8 esb]. destruct (negb (esb =? _)); inversion H; congruence. }
  cbn [negb N.eqb] in H. cbv beta iota zeta in H. cbn [negb N.eqb] in H.
  destruct (rdm_buf_u st7 (Z.of_N OFFSETOF_payload_entry_size_bits) 2) as [st8 esb] eqn:E8.
  pose proof (rdm_buf_u_same _ _ _ _ _ E8) as B8.
  assert (Hst8 : st' = st8) by (destruct (negb (esb =? _)); inversion H; reflexivity).
  subst st'. exists e.
  pose proof (rdm_same_buf_trans _ _ _ B7 B8) as B.
  split; [| split].
  - destruct B as (_ & _ & _ & _ & X & _). rewrite X, Htr. now left.
  - rewrite (rdm_same_buf_payload _ _ B). exact Hp.
  - eapply rdm_pay_ok_same; eassumption.
Qed.

(* the pieces: each one from a block that was not reconstructed is a byte range of the payload of a chunk of the trace *)
Definition rdm_piece_from (tr : list rdm_ev) (pc : rdm_piece) : Prop :=
  rdm_pc_omit pc = false ->
  exists e o, In e tr /\ rdm_pc_src pc = fm_sub (SIZEOF_payload_header + o) (rp_len (rdm_pc_src pc)) (rdm_ev_pay e) /\
              SIZEOF_payload_header + o + rp_len (rdm_pc_src pc) <= N.of_nat (length (rdm_ev_pay e)).
Lemma rdm_piece_from_mono : forall st st' pc, rdm_ext st st' -> rdm_piece_from (rdm_tr st) pc -> rdm_piece_from (rdm_tr st') pc.
Proof. intros st st' pc Hx H Ho. destruct (H Ho) as (e & o & Hin & K). exists e, o. split; [eapply rdm_ext_in; eassumption | exact K]. Qed.
End ProvFsr.

Section ProvFsr2.
Variable recon : bool -> bool -> Z -> N -> N -> N -> list N.
Variable f32_of_f64 : N -> N.

Lemma rdm_apply_pieces_app : forall a b dst mid out,
  rdm_apply_pieces dst a = Some mid -> rdm_apply_pieces mid b = Some out -> rdm_apply_pieces dst (a ++ b) = Some out.
Proof.
  induction a as [| p a IH]; intros b dst mid out H1 H2; cbn [rdm_apply_pieces app] in *.
  - inversion H1; subst. exact H2.
  - destruct (rdm_apply_piece dst p); try discriminate. eapply IH; eassumption.
Qed.

Lemma rdm_fsr_loop_prov : forall f fuel st id esb start dl dst dbit pcs st' rc out pcs',
  rdm_inv f st -> Forall (rdm_piece_from (rdm_tr st)) pcs ->
  rdm_fsr_loop recon f32_of_f64 fuel st id esb start dl dst dbit pcs = (st', rc, out, pcs') -> rdm_stale st' = false ->
  Forall (rdm_piece_from (rdm_tr st')) pcs' /\
  exists new, pcs' = new ++ pcs /\ rdm_apply_pieces dst (rev new) = Some out.
Proof.
  intros f. induction fuel as [| fu IH]; intros st id esb start dl dst dbit pcs st' rc out pcs' Hinv Hpc H Hst; cbn [rdm_fsr_loop] in H.
  - destruct (dl <=? 0)%Z; inversion H; subst; (split; [exact Hpc | exists []; split; reflexivity]).
  - destruct (dl <=? 0)%Z; [inversion H; subst; (split; [exact Hpc | exists []; split; reflexivity]) |].
    pose proof (rdm_rd_fsr_data0_ok recon f32_of_f64 st id start f Hinv) as [Hinv1 Hx1].
    destruct (rdm_rd_fsr_data0 recon f32_of_f64 st id start) as [[st1 rc1] omitted] eqn:E1. cbn [fst] in Hinv1, Hx1.
    assert (M1 : forall s, rdm_ext st1 s -> Forall (rdm_piece_from (rdm_tr s)) pcs).
    { intros s Hs. eapply Forall_impl; [| exact Hpc]. intros a Ha. eapply rdm_piece_from_mono; [| exact Ha].
      eapply rdm_ext_trans; eassumption. }
    destruct (negb (rc1 =? 0)) eqn:Erc1.
    { inversion H; subst. split; [apply M1, rdm_ext_refl | exists []; split; reflexivity]. }
    apply negb_false_iff in Erc1. apply N.eqb_eq in Erc1. subst rc1.
    pose proof (rdm_buf_i64_ok st1 0 f Hinv1) as [Hinv2 Hx2].
    destruct (rdm_buf_i64 st1 0) as [st2 csid] eqn:E2. cbn [fst] in Hinv2, Hx2.
    pose proof (rdm_buf_u_ok st2 (Z.of_N OFFSETOF_payload_entry_count) 4 f Hinv2) as [Hinv3 Hx3].
    destruct (rdm_buf_u st2 (Z.of_N OFFSETOF_payload_entry_count) 4) as [st3 count] eqn:E3. cbn [fst] in Hinv3, Hx3.
    pose proof (rdm_buf_u_ok st3 (Z.of_N OFFSETOF_payload_entry_size_bits) 2 f Hinv3) as [Hinv4 Hx4].
    destruct (rdm_buf_u st3 (Z.of_N OFFSETOF_payload_entry_size_bits) 2) as [st4 esb1] eqn:E4. cbn [fst] in Hinv4, Hx4.
    pose proof (rdm_ext_trans _ _ _ Hx2 (rdm_ext_trans _ _ _ Hx3 Hx4)) as Hx14.
    destruct (negb (esb1 =? esb)).
    { inversion H; subst. split; [apply M1; exact Hx14 | exists []; split; reflexivity]. }
    assert (K5 : exists st5 idx_start, (if (csid <? start)%Z then rdm_i64 st4 (start - csid)%Z else (st4, 0%Z)) = (st5, idx_start) /\
                 rdm_inv f st5 /\ rdm_ext st4 st5 /\ rdm_same_buf st4 st5 /\ rdm_stale st5 = rdm_stale st4).
    { destruct (csid <? start)%Z.
      - pose proof (rdm_i64_ok st4 (start - csid)%Z f Hinv4) as [A B]. destruct (rdm_i64 st4 (start - csid)%Z) as [s5 i5] eqn:E5.
        destruct (rdm_i64_same _ _ _ _ E5) as (C & D & _). exists s5, i5. cbn [fst] in A, B.
        split; [reflexivity |]. split; [exact A |]. split; [exact B |]. split; [exact C | exact D].
      - exists st4, 0%Z. split; [reflexivity |]. split; [exact Hinv4 |]. split; [apply rdm_ext_refl |]. split; [apply rdm_same_buf_refl | reflexivity]. }
    destruct K5 as (st5 & idx_start & E5 & Hinv5 & Hx5 & B5 & S5eq). rewrite E5 in H.
    pose proof (rdm_ext_trans _ _ _ Hx14 Hx5) as Hx15.
    match type of H with context [if (?sz <=? 0)%Z then _ else _] => destruct (sz <=? 0)%Z end.
    { inversion H; subst. split; [apply M1; exact Hx15 | exists []; split; reflexivity]. }
    match type of H with context [(if omitted then rdm_buf_rd_fresh else rdm_buf_rd) st5 ?o ?nb] =>
      set (off := o) in *; set (nbytes := nb) in *;
      assert (K6 : exists st6 src, (if omitted then rdm_buf_rd_fresh else rdm_buf_rd) st5 off nbytes = (st6, src) /\
                   rdm_inv f st6 /\ rdm_ext st5 st6 /\
                   (omitted = false -> rdm_buf_rd st5 off nbytes = (st6, src)))
    end.
    { destruct omitted.
      - pose proof (rdm_buf_rd_fresh_ok st5 off nbytes f Hinv5) as [A B]. destruct (rdm_buf_rd_fresh st5 off nbytes) as [s6 sr].
        exists s6, sr. cbn [fst] in A, B. split; [reflexivity |]. split; [exact A |]. split; [exact B | discriminate].
      - pose proof (rdm_buf_rd_ok st5 off nbytes f Hinv5) as [A B]. destruct (rdm_buf_rd st5 off nbytes) as [s6 sr].
        exists s6, sr. cbn [fst] in A, B. split; [reflexivity |]. split; [exact A |]. split; [exact B | reflexivity]. }
    destruct K6 as (st6 & src & E6 & Hinv6 & Hx6 & E6'). rewrite E6 in H.
    pose proof (rdm_ext_trans _ _ _ Hx15 Hx6) as Hx16.
    match type of H with context [rdm_apply_piece dst ?p] => set (pc := p) in * end.
    destruct (rdm_apply_piece dst pc) as [dst1 | |] eqn:Eap.
    2:{ inversion H; subst. split; [apply M1; eapply rdm_ext_trans; [exact Hx16 | apply (rdm_fault_ok st6 RdmF_dst f Hinv6)] | exists []; split; reflexivity]. }
    2:{ inversion H; subst. split; [apply M1; eapply rdm_ext_trans; [exact Hx16 | apply (rdm_fault_ok st6 RpF_fuel f Hinv6)] | exists []; split; reflexivity]. }
    match type of H with context [rdm_i64 st6 ?z] => pose proof (rdm_i64_ok st6 z f Hinv6) as [Hinv7 Hx7];
      destruct (rdm_i64 st6 z) as [st7 start1] eqn:E7 end.
    cbn [fst] in Hinv7, Hx7.
    pose proof (rdm_ext_trans _ _ _ Hx16 Hx7) as Hx17.
    (* stale: false at the end, hence at st7 *)
    assert (S7 : rdm_stale st7 = false).
    { match type of H with rdm_fsr_loop _ _ fu st7 ?a ?b ?c ?d ?e ?g ?h = _ =>
        pose proof (rdm_fsr_loop_ok recon f32_of_f64 fu st7 a b c d e g h f Hinv7) as [_ Hx] end.
      rewrite H in Hx. cbn [fst] in Hx. eapply rdm_ext_stale; eassumption. }
    (* the new piece *)
    assert (Mpc : rdm_piece_from (rdm_tr st7) pc).
    { intro Hom. subst pc. cbn [rdm_pc_omit rdm_pc_src] in *. specialize (E6' Hom).
      destruct (rdm_i64_same _ _ _ _ E7) as (B7 & S7eq & _).
      assert (S6 : rdm_stale st6 = false) by congruence.
      pose proof (rdm_buf_i64_same _ _ _ _ E2) as B2. pose proof (rdm_buf_u_same _ _ _ _ _ E3) as B3.
      pose proof (rdm_buf_u_same _ _ _ _ _ E4) as B4.
      pose proof (rdm_same_buf_trans _ _ _ B2 (rdm_same_buf_trans _ _ _ B3 (rdm_same_buf_trans _ _ _ B4 B5))) as B15.
      assert (S1 : rdm_stale st1 = false) by (eapply rdm_ext_stale; [exact Hx17 | exact S7]).
      destruct (rdm_data0_fresh recon f32_of_f64 f st id start st1 omitted Hinv E1 Hom S1) as (e & Hin & Hp & Hpok).
      pose proof (rdm_pay_ok_same _ _ B15 Hpok) as P5.
      destruct (rdm_buf_rd_inside _ _ _ _ _ P5 E6' S6) as (_ & B6 & _ & L6 & D6).
      exists e. subst off. rewrite Nat2Z.id in * || idtac.
      match type of D6 with src = fm_sub (Z.to_N (Z.of_N (SIZEOF_payload_header + ?o))) _ _ => exists o end.
      rewrite N2Z.id in D6, L6.
      assert (Hlen : rp_len src = nbytes).
      { rewrite D6. unfold rp_len. rewrite rr_sub_length; [apply N2Nat.id |].
        unfold rdm_pay_ok in P5. rewrite P5. rewrite Nat2N.id || rewrite N2Nat.id. exact L6. }
      split; [eapply rdm_ext_in; [exact Hx17 | exact Hin] |].
      rewrite Hlen. rewrite (rdm_same_buf_payload _ _ B15), <- Hp in D6. split; [exact D6 |].
      unfold rdm_pay_ok in Hpok. rewrite <- Hp in Hpok. destruct B15 as (_ & X & _). rewrite X in L6. lia. }
    match type of H with rdm_fsr_loop _ _ fu st7 ?a ?b ?c ?d ?e ?g ?h = _ =>
      destruct (IH st7 a b c d e g h st' rc out pcs' Hinv7) as [F1 (new & Hn & Hap)]; [| exact H | exact Hst |] end.
    { constructor; [exact Mpc | apply M1; exact Hx17]. }
    split; [exact F1 |]. exists (new ++ [pc]). split; [rewrite Hn, <- app_assoc; reflexivity |].
    rewrite rev_app_distr. cbn [rev app]. cbn [rdm_apply_pieces]. rewrite Eap. exact Hap.
Qed.
End ProvFsr2.

Theorem rdm_fsr_prov : forall recon f32_of_f64 f st id start dl dst st' rc out pcs,
  rdm_inv f st -> rdm_fsr recon f32_of_f64 st id start dl dst = (st', rc, out, pcs) -> rdm_stale st' = false ->
  rdm_inv f st' /\ rp_file (rdm_io st') = f /\
  rdm_apply_pieces dst pcs = Some out /\
  Forall (fun pc => rdm_pc_omit pc = false ->
            exists e o, In e (rdm_tr st') /\ rdm_ev_ok f e /\
                        rdm_pc_src pc = fm_sub (SIZEOF_payload_header + o) (rp_len (rdm_pc_src pc)) (rdm_ev_pay e) /\
                        SIZEOF_payload_header + o + rp_len (rdm_pc_src pc) <= N.of_nat (length (rdm_ev_pay e))) pcs.
Proof.
  intros recon f32_of_f64 f st id start dl dst st' rc out pcs Hinv H Hst.
  pose proof (rdm_fsr_ok recon f32_of_f64 st id start dl dst f Hinv) as [Hinv' _]. rewrite H in Hinv'. cbn [fst] in Hinv'.
  split; [exact Hinv' | split; [apply Hinv' |]].
  unfold rdm_fsr in H.
  destruct (negb (rp_signal_validate_typed (rdm_c st) id JLS_SIGNAL_TYPE_FSR =? 0)); [inversion H; split; [reflexivity | constructor] |].
  pose proof (rdm_fsr_length_ok st id f Hinv) as [Hinv1 _].
  destruct (rdm_fsr_length st id) as [[st1 rc1] samples]. cbn [fst] in Hinv1.
  destruct (negb (rc1 =? 0)); [inversion H; split; [reflexivity | constructor] |].
  destruct (dl <=? 0)%Z; [inversion H; split; [reflexivity | constructor] |].
  destruct (start <? 0)%Z; [inversion H; split; [reflexivity | constructor] |].
  match type of H with context [if ?c then (st1, JLS_ERROR_PARAMETER_INVALID, dst, []) else _] => destruct c end;
    [inversion H; split; [reflexivity | constructor] |].
  destruct (dt_bits (sg_dtype (rdm_def st1 id)) =? 0); [inversion H; split; [reflexivity | constructor] |].
  match type of H with context [if ?c then (rdm_fault st1 RdmF_dst, 0, dst, []) else _] => destruct c end;
    [inversion H; split; [reflexivity | constructor] |].
  match type of H with context [rdm_i64 st1 ?z] => pose proof (rdm_i64_ok st1 z f Hinv1) as [Hinv2 _]; destruct (rdm_i64 st1 z) as [st2 start1] end.
  cbn [fst] in Hinv2.
  match type of H with context [rdm_fsr_loop _ _ ?a ?b ?c ?d ?e ?g ?h ?i ?j] =>
    destruct (rdm_fsr_loop recon f32_of_f64 a b c d e g h i j) as [[[st3 rc3] dst3] pcs3] eqn:E end.
  inversion H; subst st3 rc3 dst3 pcs. clear H.
  destruct (rdm_fsr_loop_prov recon f32_of_f64 f _ _ _ _ _ _ _ _ _ _ _ _ _ Hinv2 (Forall_nil _) E Hst) as [F1 (new & Hn & Hap)].
  rewrite app_nil_r in Hn. subst pcs3. unfold wm_rev. rewrite <- rev_alt. split; [exact Hap |].
  apply Forall_forall. intros pc Hpc Hom. apply in_rev in Hpc. rewrite Forall_forall in F1.
  destruct (F1 pc Hpc Hom) as (e & o & Hin & K1 & K2). exists e, o. split; [exact Hin |]. split.
  - destruct Hinv' as (_ & _ & Hall). rewrite Forall_forall in Hall. apply Hall. exact Hin.
  - split; assumption.
Qed.

(* ------------------------------------------------------------------ jls_rd_utc *)
Definition rdm_utc_from (sid0 t : Z) (tr : list rdm_ev) (batch : list (Z * Z)) : Prop :=
  exists e, In e tr /\
    (batch = [rdm_utc_data_of sid0 (rdm_ev_pay e)] \/
     (fm_tag (rdm_ev_hdr e) = JLS_TAG_TRACK_UTC_SUMMARY /\ batch = rdm_utc_summary_of sid0 t (rdm_ev_pay e))).
Definition rdm_utc_acc (sid0 t : Z) (tr : list rdm_ev) (items : list (Z * Z)) : Prop :=
  exists batches, rev items = concat batches /\ Forall (rdm_utc_from sid0 t tr) batches.
Lemma rdm_utc_acc_mono : forall sid0 t st st' items, rdm_ext st st' -> rdm_utc_acc sid0 t (rdm_tr st) items -> rdm_utc_acc sid0 t (rdm_tr st') items.
Proof.
  intros sid0 t st st' items Hx (bs & H1 & H2). exists bs. split; [exact H1 |].
  eapply Forall_impl; [| exact H2]. intros b (e & Hin & K). exists e. split; [eapply rdm_ext_in; eassumption | exact K].
Qed.
Lemma rdm_utc_acc_add : forall sid0 t tr items batch, rdm_utc_acc sid0 t tr items -> rdm_utc_from sid0 t tr batch ->
  rdm_utc_acc sid0 t tr (rev_append batch items).
Proof.
  intros sid0 t tr items batch (bs & H1 & H2) Hb. exists (bs ++ [batch]). split.
  - rewrite rev_append_rev, rev_app_distr, rev_involutive, H1, concat_app. cbn [concat]. now rewrite app_nil_r.
  - apply Forall_app. split; [exact H2 | constructor; [exact Hb | constructor]].
Qed.

Lemma rdm_utc_loop_prov : forall f sid0 t fuel st stopf pos items n st' rc out,
  rdm_inv f st -> rdm_utc_acc sid0 t (rdm_tr st) items ->
  rdm_utc_loop fuel st sid0 t stopf pos items n = (st', rc, out) -> rdm_stale st' = false ->
  rdm_utc_acc sid0 t (rdm_tr st') out.
Proof.
  intros f sid0 t. induction fuel as [| fu IH]; intros st stopf pos items n st' rc out Hinv Hit H Hst; cbn [rdm_utc_loop] in H.
  - destruct (pos =? 0); inversion H; subst; exact Hit.
  - destruct (pos =? 0); [inversion H; subst; exact Hit |].
    pose proof (rdm_seek_ok st pos f Hinv) as [Hinv1 Hx1].
    destruct (rdm_seek st pos) as [st1 rc1]. cbn [fst] in Hinv1, Hx1.
    assert (M : forall s, rdm_ext st1 s -> rdm_utc_acc sid0 t (rdm_tr s) items).
    { intros s Hs. eapply rdm_utc_acc_mono; [| exact Hit]. eapply rdm_ext_trans; eassumption. }
    destruct (negb (rc1 =? 0)); [inversion H; subst; apply M, rdm_ext_refl |].
    pose proof (rdm_rd_header_ok st1 f Hinv1) as [Hinv2 Hx2].
    destruct (rdm_rd_header st1) as [st2 rc2]. cbn [fst] in Hinv2, Hx2.
    destruct (negb (rc2 =? 0)); [inversion H; subst; apply M; exact Hx2 |].
    destruct (fm_tag (rp_hdr (rp_r (rdm_io st2))) =? JLS_TAG_TRACK_UTC_DATA).
    { (* DATA *)
      pose proof (rdm_rd_chunk_ok st2 f Hinv2) as [Hinv3 Hx3].
      destruct (rdm_rd_chunk st2) as [st3 rc3] eqn:E3. cbn [fst] in Hinv3, Hx3.
      pose proof (rdm_ext_trans _ _ _ Hx2 Hx3) as Hx13.
      destruct (negb (rc3 =? 0)) eqn:Erc3; [inversion H; subst; apply M; exact Hx13 |].
      apply negb_false_iff in Erc3. apply N.eqb_eq in Erc3. subst rc3.
      destruct (rdm_rd_chunk_head _ _ f Hinv2 E3) as (e & Htr & _ & _ & Hp & _ & Hpok & _).
      pose proof (rdm_buf_i64_ok st3 0 f Hinv3) as [Hinv4 Hx4].
      destruct (rdm_buf_i64 st3 0) as [st4 ts0] eqn:E4. cbn [fst] in Hinv4, Hx4.
      pose proof (rdm_buf_i64_ok st4 (Z.of_N SIZEOF_payload_header) f Hinv4) as [Hinv5 Hx5].
      destruct (rdm_buf_i64 st4 (Z.of_N SIZEOF_payload_header)) as [st5 utc] eqn:E5. cbn [fst] in Hinv5, Hx5.
      pose proof (rdm_i64_ok st5 (ts0 - sid0)%Z f Hinv5) as [Hinv6 Hx6].
      destruct (rdm_i64 st5 (ts0 - sid0)%Z) as [st6 sid] eqn:E6. cbn [fst] in Hinv6, Hx6.
      pose proof (rdm_ext_trans _ _ _ Hx13 (rdm_ext_trans _ _ _ Hx4 (rdm_ext_trans _ _ _ Hx5 Hx6))) as Hx16.
      assert (S6 : rdm_stale st6 = false).
      { destruct (stopf (n + 1)); [inversion H; subst; exact Hst |].
        match type of H with rdm_utc_loop fu st6 _ _ _ ?a ?b ?c = _ =>
          pose proof (rdm_utc_loop_ok fu st6 sid0 t stopf a b c f Hinv6) as [_ Hx] end.
        rewrite H in Hx. cbn [fst] in Hx. eapply rdm_ext_stale; eassumption. }
      pose proof (rdm_buf_i64_same _ _ _ _ E4) as B4. pose proof (rdm_buf_i64_same _ _ _ _ E5) as B5.
      destruct (rdm_i64_same _ _ _ _ E6) as (B6 & S6eq & Hsid).
      pose proof (rdm_pay_ok_same _ _ B4 Hpok) as P4.
      assert (S5 : rdm_stale st5 = false) by congruence.
      destruct (rdm_buf_i64_inside _ _ _ _ P4 E5 S5) as (S4 & _ & _ & _ & D5).
      destruct (rdm_buf_i64_inside _ _ _ _ Hpok E4 S4) as (_ & _ & _ & _ & D4).
      assert (A6 : rdm_utc_acc sid0 t (rdm_tr st6) ((sid, utc) :: items)).
      { change ((sid, utc) :: items) with (rev_append [(sid, utc)] items). apply rdm_utc_acc_add; [apply M; exact Hx16 |].
        exists e. split; [eapply rdm_ext_in; [eapply rdm_ext_trans; [exact Hx4 | eapply rdm_ext_trans; [exact Hx5 | exact Hx6]] | rewrite Htr; now left] |].
        left. unfold rdm_utc_data_of. rewrite N2Z.id in D5. change (Z.to_N 0) with 0 in D4.
        rewrite (rdm_same_buf_payload _ _ B4), <- Hp in D5. rewrite <- Hp in D4. rewrite <- D4, <- D5, Hsid. reflexivity. }
      destruct (stopf (n + 1)); [inversion H; subst; exact A6 |].
      eapply IH; [exact Hinv6 | exact A6 | exact H | exact Hst]. }
    destruct (fm_tag (rp_hdr (rp_r (rdm_io st2))) =? JLS_TAG_TRACK_UTC_INDEX); [| inversion H; subst; apply M; exact Hx2].
    (* INDEX: the SUMMARY that follows *)
    pose proof (rdm_chunk_next_ok st2 f Hinv2) as [Hinv3 Hx3].
    destruct (rdm_chunk_next st2) as [st3 rc3]. cbn [fst] in Hinv3, Hx3.
    pose proof (rdm_ext_trans _ _ _ Hx2 Hx3) as Hx13.
    destruct (negb (rc3 =? 0)); [inversion H; subst; apply M; exact Hx13 |].
    pose proof (rdm_rd_chunk_ok st3 f Hinv3) as [Hinv4 Hx4].
    destruct (rdm_rd_chunk st3) as [st4 rc4] eqn:E4. cbn [fst] in Hinv4, Hx4.
    pose proof (rdm_ext_trans _ _ _ Hx13 Hx4) as Hx14.
    destruct (negb (rc4 =? 0)) eqn:Erc4; [inversion H; subst; apply M; exact Hx14 |].
    apply negb_false_iff in Erc4. apply N.eqb_eq in Erc4. subst rc4.
    destruct (rdm_rd_chunk_head _ _ f Hinv3 E4) as (e & Htr & _ & Hh & Hp & _ & Hpok & _).
    destruct (negb (fm_tag (wm_ck_hdr (rp_cur (rdm_io st4))) =? JLS_TAG_TRACK_UTC_SUMMARY)) eqn:Etag; [inversion H; subst; apply M; exact Hx14 |].
    apply negb_false_iff in Etag. apply N.eqb_eq in Etag.
    pose proof (rdm_buf_u_ok st4 (Z.of_N OFFSETOF_payload_entry_count) 4 f Hinv4) as [Hinv5 Hx5].
    destruct (rdm_buf_u st4 (Z.of_N OFFSETOF_payload_entry_count) 4) as [st5 ec] eqn:E5. cbn [fst] in Hinv5, Hx5.
    pose proof (rdm_ext_trans _ _ _ Hx14 Hx5) as Hx15.
    match type of H with context [if ?c then (rdm_fault st5 RpF_buf, 0, items) else _] => destruct c end.
    { inversion H; subst. apply M. eapply rdm_ext_trans; [exact Hx15 | apply (rdm_fault_ok st5 RpF_buf f Hinv5)]. }
    pose proof (rdm_buf_rd_ok st5 (Z.of_N SIZEOF_payload_header) (SIZEOF_utc_summary_entry * ec) f Hinv5) as [Hinv6 Hx6].
    destruct (rdm_buf_rd st5 (Z.of_N SIZEOF_payload_header) (SIZEOF_utc_summary_entry * ec)) as [st6 raw] eqn:E6. cbn [fst] in Hinv6, Hx6.
    pose proof (rdm_ext_trans _ _ _ Hx15 Hx6) as Hx16.
    set (all := rdm_dec_utc (N.to_nat ec) raw) in *. set (rest := rdm_utc_skip t all) in *.
    destruct (rdm_utc_shift sid0 rest) as [shifted ok] eqn:Esh.
    match type of H with context [rdm_buf_wr ?x ?o ?d] =>
      assert (K7 : rdm_ok f st6 (rdm_buf_wr x o d)) by rdm_solve;
      destruct (rdm_buf_wr_same x o d) as [Hs7 Ht7]; set (st7 := rdm_buf_wr x o d) in * end.
    destruct (K7 Hinv6) as [Hinv7 Hx7]. pose proof (rdm_ext_trans _ _ _ Hx16 Hx7) as Hx17.
    assert (S7 : rdm_stale st7 = false).
    { destruct rest as [| r0 rest'] eqn:Er.
      - match type of H with rdm_utc_loop fu st7 _ _ _ ?a ?b ?c = _ =>
          pose proof (rdm_utc_loop_ok fu st7 sid0 t stopf a b c f Hinv7) as [_ Hx] end.
        rewrite H in Hx. cbn [fst] in Hx. eapply rdm_ext_stale; eassumption.
      - match type of H with context [if stopf ?k then _ else _] => destruct (stopf k) end; [inversion H; subst; exact Hst |].
        match type of H with rdm_utc_loop fu st7 _ _ _ ?a ?b ?c = _ =>
          pose proof (rdm_utc_loop_ok fu st7 sid0 t stopf a b c f Hinv7) as [_ Hx] end.
        rewrite H in Hx. cbn [fst] in Hx. eapply rdm_ext_stale; eassumption. }
    rewrite rdm_stale_fault_if in Hs7.
    assert (S6 : rdm_stale st6 = false) by congruence.
    pose proof (rdm_buf_u_same _ _ _ _ _ E5) as B5.
    pose proof (rdm_pay_ok_same _ _ B5 Hpok) as P5.
    destruct (rdm_buf_rd_inside _ _ _ _ _ P5 E6 S6) as (S5 & _ & _ & _ & D6).
    destruct (rdm_buf_u_inside _ _ _ _ _ Hpok E5 S5) as (_ & _ & _ & _ & D5).
    assert (A7 : rdm_utc_from sid0 t (rdm_tr st7) shifted).
    { exists e. split; [eapply rdm_ext_in; [eapply rdm_ext_trans; [exact Hx5 | eapply rdm_ext_trans; [exact Hx6 | exact Hx7]] | rewrite Htr; now left] |].
      right. split; [now rewrite Hh |]. unfold rdm_utc_summary_of.
      rewrite N2Z.id in D5, D6. rewrite (rdm_same_buf_payload _ _ B5), <- Hp in D6. rewrite <- Hp in D5.
      rewrite <- D5, <- D6. fold all. fold rest. rewrite Esh. reflexivity. }
    destruct rest as [| r0 rest'] eqn:Er.
    + eapply IH; [exact Hinv7 | apply M; exact Hx17 | exact H | exact Hst].
    + assert (A8 : rdm_utc_acc sid0 t (rdm_tr st7) (rev_append shifted items)).
      { apply rdm_utc_acc_add; [apply M; exact Hx17 | exact A7]. }
      match type of H with context [if stopf ?k then _ else _] => destruct (stopf k) end; [inversion H; subst; exact A8 |].
      eapply IH; [exact Hinv7 | exact A8 | exact H | exact Hst].
Qed.

Theorem rdm_utc_prov : forall f st id sample_id stopf st' rc items,
  rdm_inv f st -> rdm_utc st id sample_id stopf = (st', rc, items) -> rdm_stale st' = false ->
  rdm_inv f st' /\ rp_file (rdm_io st') = f /\
  exists batches, items = concat batches /\
    Forall (fun batch => exists e, In e (rdm_tr st') /\ rdm_ev_ok f e /\
              (batch = [rdm_utc_data_of (rdm_sid0 st id) (rdm_ev_pay e)] \/
               (fm_tag (rdm_ev_hdr e) = JLS_TAG_TRACK_UTC_SUMMARY /\
                batch = rdm_utc_summary_of (rdm_sid0 st id) (rdm_add_saturate sample_id (rdm_sid0 st id)) (rdm_ev_pay e)))) batches.
Proof.
  intros f st id sample_id stopf st' rc items Hinv H Hst.
  pose proof (rdm_utc_ok st id sample_id stopf f Hinv) as [Hinv' _]. rewrite H in Hinv'. cbn [fst] in Hinv'.
  split; [exact Hinv' | split; [apply Hinv' |]].
  unfold rdm_utc in H.
  destruct (negb (rp_signal_validate (rdm_c st) id =? 0)); [inversion H; exists []; split; [reflexivity | constructor] |].
  set (t := rdm_add_saturate sample_id (rdm_sid0 st id)) in *.
  pose proof (rdm_ts_seek_ok st id 1 JLS_TRACK_TYPE_UTC t f Hinv) as [Hinv1 _].
  destruct (rdm_ts_seek st id 1 JLS_TRACK_TYPE_UTC t) as [st1 rv]. cbn [fst] in Hinv1.
  destruct (rv =? JLS_ERROR_NOT_FOUND); [inversion H; exists []; split; [reflexivity | constructor] |].
  destruct (negb (rv =? 0)); [inversion H; exists []; split; [reflexivity | constructor] |].
  destruct (rdm_utc_loop (rdm_chain_fuel st1) st1 (rdm_sid0 st id) t stopf (rp_offset (rp_r (rdm_io st1))) [] 0) as [[s2 r2] its] eqn:E.
  inversion H; subst s2 r2 items.
  assert (A0 : rdm_utc_acc (rdm_sid0 st id) t (rdm_tr st1) []) by (exists []; split; [reflexivity | constructor]).
  destruct (rdm_utc_loop_prov f _ _ _ _ _ _ _ _ _ _ _ Hinv1 A0 E Hst) as (bs & K1 & K2).
  exists bs. split; [unfold wm_rev; rewrite <- rev_alt; exact K1 |].
  eapply Forall_impl; [| exact K2]. intros b (e & Hin & K). exists e. split; [exact Hin |]. split; [| exact K].
  destruct Hinv' as (_ & _ & Hall). rewrite Forall_forall in Hall. apply Hall. exact Hin.
Qed.
