(* Proofs about the model of REPAIR-ON-OPEN (RepairRaw.v, RepairModel.v), part 1:
     - the read side never touches the file: every function of RepairRaw.v leaves rp_file / rp_flen (and the
       raw's fend, except read_verify) alone  (rpp_*_frame)
     - C19 part 1: an open that does not enter the repair branch emits no backend event and leaves the file
       unchanged (rpp_open_not_did); a file whose last 32 bytes are a CRC-valid END chunk header never enters
       the repair branch (rpp_closed_not_did), for every byte string shorter than 2^63.
   Lemma names start with rpp_. *)
From Coq Require Import NArith ZArith List Bool Lia.
From Coq Require Import ZifyBool ZifyN ZifyNat.
From JLS Require Import Generated CrcDefs Spec Format FormatProofs WmRaw WmCore WmFsr WriterModel RepairRaw RepairModel.
Import ListNotations.
Local Open Scope N_scope.
Ltac Zify.zify_post_hook ::= Z.div_mod_to_equations.

(* ------------------------------------------------------------------ lists *)
Lemma rpp_skipn_skipn : forall (A : Type) (b a : nat) (l : list A), skipn a (skipn b l) = skipn (b + a) l.
Proof.
  induction b as [| b IH]; intros a l; [reflexivity |].
  destruct l as [| x t]; [now rewrite !skipn_nil | simpl; apply IH].
Qed.
Lemma rpp_skip_pos_eq : forall p l, rp_skip_pos p l = skipn (Pos.to_nat p) l.
Proof.
  induction p as [q IH | q IH | ]; intros l; destruct l as [| x t]; simpl rp_skip_pos.
  - now rewrite skipn_nil.
  - rewrite !IH. rewrite Pos2Nat.inj_xI. simpl skipn.
    rewrite rpp_skipn_skipn. f_equal. lia.
  - now rewrite skipn_nil.
  - rewrite !IH. rewrite Pos2Nat.inj_xO. rewrite rpp_skipn_skipn. f_equal. lia.
  - reflexivity.
  - reflexivity.
Qed.
Lemma rpp_skip_eq : forall n l, rp_skip n l = skipn (N.to_nat n) l.
Proof. intros [| p] l; simpl; [reflexivity | apply rpp_skip_pos_eq]. Qed.
Lemma rpp_len_app : forall a b, rp_len (a ++ b) = rp_len a + rp_len b.
Proof. intros a b. unfold rp_len. rewrite app_length. lia. Qed.
Lemma rpp_len_skip : forall n l, rp_len (rp_skip n l) = rp_len l - n.
Proof. intros n l. unfold rp_len. rewrite rpp_skip_eq, skipn_length. lia. Qed.
Lemma rpp_len_take : forall n l, rp_len (rp_take n l) = N.min n (rp_len l).
Proof. intros n l. unfold rp_len, rp_take. rewrite firstn_length. lia. Qed.
Lemma rpp_skip_skip : forall a b l, rp_skip a (rp_skip b l) = rp_skip (b + a) l.
Proof. intros a b l. rewrite !rpp_skip_eq, rpp_skipn_skipn. f_equal. lia. Qed.
Lemma rpp_take_all : forall n l, rp_len l <= n -> rp_take n l = l.
Proof. intros n l H. unfold rp_take. apply firstn_all2. unfold rp_len in H. lia. Qed.
Lemma rpp_skip_all : forall n l, rp_len l <= n -> rp_skip n l = [].
Proof. intros n l H. rewrite rpp_skip_eq. apply skipn_all2. unfold rp_len in H. lia. Qed.
Lemma rpp_skip_take : forall a n l, rp_skip a (rp_take n l) = rp_take (n - a) (rp_skip a l).
Proof.
  intros a n l. unfold rp_take. rewrite !rpp_skip_eq, skipn_firstn_comm. f_equal. lia.
Qed.
Lemma rpp_skip_app_exact : forall a b, rp_skip (rp_len a) (a ++ b) = b.
Proof. intros a b. rewrite rpp_skip_eq. unfold rp_len. rewrite Nat2N.id. apply skipn_app_exact. reflexivity. Qed.
Lemma rpp_has_true : forall l, fm_ch_complete l = true <-> 32 <= rp_len l.
Proof.
  intros l. unfold fm_ch_complete. rewrite fm_has_true. unfold rp_len.
  change (N.to_nat SIZEOF_chunk_header) with 32%nat. lia.
Qed.
Lemma rpp_has_false : forall l, fm_ch_complete l = false <-> rp_len l < 32.
Proof.
  intros l. pose proof (rpp_has_true l) as [H1 H2]. destruct (fm_ch_complete l) eqn:E; split; intros H.
  - discriminate.
  - specialize (H1 eq_refl). lia.
  - destruct (N.lt_ge_cases (rp_len l) 32) as [G | G]; [assumption | specialize (H2 G); discriminate].
  - reflexivity.
Qed.

(* ------------------------------------------------------------------ frame: reads leave the file alone *)
Definition rpp_frame (s s' : rp_io) : Prop :=
  rp_file s' = rp_file s /\ rp_flen s' = rp_flen s /\ rp_fend (rp_r s') = rp_fend (rp_r s).
Lemma rpp_frame_refl : forall s, rpp_frame s s.
Proof. intros; repeat split. Qed.
Lemma rpp_frame_trans : forall a b c, rpp_frame a b -> rpp_frame b c -> rpp_frame a c.
Proof. unfold rpp_frame; intros a b c (A1 & A2 & A3) (B1 & B2 & B3); repeat split; congruence. Qed.
#[global] Hint Resolve rpp_frame_refl : rpp.

Lemma rpp_fread_frame : forall s n, rpp_frame s (fst (rp_bk_fread s n)).
Proof. intros; repeat split. Qed.
Lemma rpp_fseek_frame : forall s p, rpp_frame s (fst (rp_bk_fseek s p)).
Proof. intros s p. unfold rp_bk_fseek. destruct (rp_two63 <=? p); repeat split. Qed.
Lemma rpp_chunk_seek_frame : forall s o, rpp_frame s (fst (rp_chunk_seek s o)).
Proof.
  intros s o. unfold rp_chunk_seek, rp_bk_fseek. destruct (o =? 0); [repeat split |].
  destruct (rp_two63 <=? o); repeat split.
Qed.
Lemma rpp_seek_end_frame : forall s, rpp_frame s (rp_seek_end s).
Proof. intros; repeat split. Qed.
Lemma rpp_rd_header_frame : forall s, rpp_frame s (fst (rp_raw_rd_header s)).
Proof.
  intros s. unfold rp_raw_rd_header.
  destruct (rp_r_valid (rp_r s)); [apply rpp_frame_refl |].
  destruct (rp_fend (rp_r s) <=? rp_fpos (rp_r s)); [apply rpp_frame_refl |].
  match goal with |- context [rp_bk_fread ?x ?n] => destruct (rp_bk_fread x n) as [s3 b] eqn:E;
    pose proof (rpp_fread_frame x n) as F; rewrite E in F; simpl in F end.
  destruct F as (F1 & F2 & F3).
  assert (G : rpp_frame s s3).
  { repeat split; [rewrite F1 | rewrite F2 | rewrite F3]; destruct (rp_offset (rp_r s) =? rp_fpos (rp_r s)); reflexivity. }
  destruct (negb (fm_ch_complete b)); [exact G |].
  destruct (negb (fm_ch_crc_ok b)); [exact G |].
  destruct G as (G1 & G2 & G3). repeat split; simpl; assumption.
Qed.
Lemma rpp_rd_payload_frame : forall s max, rpp_frame s (fst (rp_raw_rd_payload s max)).
Proof.
  intros s max. unfold rp_raw_rd_payload.
  set (p := if rp_r_valid (rp_r s) then (s, 0) else rp_raw_rd_header s).
  assert (P : rpp_frame s (fst p)).
  { unfold p. destruct (rp_r_valid (rp_r s)); [apply rpp_frame_refl | apply rpp_rd_header_frame]. }
  destruct p as [s1 rc1]. simpl in P.
  destruct (negb (rc1 =? 0)); [exact P |].
  destruct (fm_payload_length (rp_hdr (rp_r s1)) =? 0).
  { destruct P as (P1 & P2 & P3). repeat split; simpl; assumption. }
  destruct (max <? fm_disk_len (fm_payload_length (rp_hdr (rp_r s1)))); [exact P |].
  match goal with |- context [rp_bk_fread ?x ?n] => destruct (rp_bk_fread x n) as [s3 b] eqn:E;
    pose proof (rpp_fread_frame x n) as F; rewrite E in F; simpl in F end.
  destruct F as (F1 & F2 & F3). destruct P as (P1 & P2 & P3).
  assert (G : rpp_frame s s3).
  { repeat split; [rewrite F1 | rewrite F2 | rewrite F3];
      destruct (rp_offset (rp_r s1) + SIZEOF_chunk_header =? rp_fpos (rp_r s1)); simpl; assumption. }
  destruct G as (G1 & G2 & G3).
  destruct (rp_len b <? fm_disk_len (fm_payload_length (rp_hdr (rp_r s1)))); [repeat split; simpl; assumption |].
  match goal with |- context [negb ?c] => destruct (negb c) end; repeat split; simpl; assumption.
Qed.
Lemma rpp_rd_chunk_frame : forall s, rpp_frame s (fst (rp_rd_chunk s)).
Proof.
  intros s. unfold rp_rd_chunk.
  match goal with |- context [rp_raw_rd_header ?x] => destruct (rp_raw_rd_header x) as [s1 rc1] eqn:E1;
    pose proof (rpp_rd_header_frame x) as F1; rewrite E1 in F1; simpl in F1 end.
  assert (G1 : rpp_frame s s1) by (destruct F1 as (A & B & C); repeat split; assumption).
  destruct (negb (rc1 =? 0)); [exact G1 |].
  match goal with |- context [rp_raw_rd_payload ?x ?m] => destruct (rp_raw_rd_payload x m) as [s3 rc2] eqn:E2;
    pose proof (rpp_rd_payload_frame x m) as F2; rewrite E2 in F2; simpl in F2 end.
  assert (G3 : rpp_frame s s3).
  { destruct G1 as (A & B & C). destruct F2 as (A' & B' & C'). repeat split; simpl in *; congruence. }
  destruct G3 as (A & B & C).
  destruct (rc2 =? JLS_ERROR_TOO_BIG).
  { destruct (rp_fend (rp_r s3) <? fm_payload_length (wm_ck_hdr (rp_cur s3))); repeat split; simpl; assumption. }
  destruct (rc2 =? 0); repeat split; simpl; assumption.
Qed.

Lemma rpp_try_cands_frame : forall cs s pos, rpp_frame s (fst (rp_try_cands s pos cs)).
Proof.
  induction cs as [| c r IH]; intros s pos; cbn [rp_try_cands]; [apply rpp_frame_refl |].
  destruct (rp_chunk_seek s (pos + c)) as [s1 rc1] eqn:E1.
  pose proof (rpp_chunk_seek_frame s (pos + c)) as F1. rewrite E1 in F1. simpl in F1.
  destruct (negb (rc1 =? 0)); [exact F1 |].
  destruct (rp_rd_chunk s1) as [s2 rc2] eqn:E2.
  pose proof (rpp_rd_chunk_frame s1) as F2. rewrite E2 in F2. simpl in F2.
  destruct (rc2 =? 0).
  - simpl. eapply rpp_frame_trans; [exact F1 |]. eapply rpp_frame_trans; [exact F2 |]. apply rpp_chunk_seek_frame.
  - eapply rpp_frame_trans; [exact F1 |]. eapply rpp_frame_trans; [exact F2 |]. apply IH.
Qed.
Lemma rpp_io_fault_frame : forall s c, rpp_frame s (rp_io_fault s c).
Proof. intros; repeat split. Qed.
Lemma rpp_end_loop_frame : forall fuel s e l, rpp_frame s (fst (rp_end_loop fuel s e l)).
Proof.
  induction fuel as [| fu IH]; intros s e l; cbn [rp_end_loop]; [apply rpp_io_fault_frame |].
  destruct ((0 <? e) && (SIZEOF_chunk_header <? l)); [| apply rpp_frame_refl].
  destruct (rp_bk_fseek s (e - RpEnd_window)) as [s1 ok] eqn:E1.
  pose proof (rpp_fseek_frame s (e - RpEnd_window)) as F1. rewrite E1 in F1. simpl in F1.
  destruct (rp_bk_fread s1 (e - (e - RpEnd_window))) as [s2 d] eqn:E2.
  pose proof (rpp_fread_frame s1 (e - (e - RpEnd_window))) as F2. rewrite E2 in F2. simpl in F2.
  pose proof (rpp_frame_trans _ _ _ F1 F2) as G2.
  destruct (rp_len d <? e - (e - RpEnd_window)); [exact G2 |].
  destruct (e - (e - RpEnd_window) <? SIZEOF_chunk_header).
  { eapply rpp_frame_trans; [exact G2 | apply rpp_io_fault_frame]. }
  match goal with |- context [rp_try_cands ?a ?b ?c] => destruct (rp_try_cands a b c) as [s3 found] eqn:E3;
    pose proof (rpp_try_cands_frame c a b) as F3; rewrite E3 in F3; simpl in F3 end.
  pose proof (rpp_frame_trans _ _ _ G2 F3) as G3.
  destruct found; [exact G3 |]. destruct (e - RpEnd_window =? 0); [exact G3 |]. eapply rpp_frame_trans; [exact G3 | apply IH].
Qed.
Lemma rpp_rd_chunk_end_frame : forall s, rpp_frame s (fst (rp_rd_chunk_end s)).
Proof. intros s. unfold rp_rd_chunk_end. apply rpp_end_loop_frame. Qed.

(* ------------------------------------------------------------------ frame: the scans of core.c *)
Definition rpp_cframe (c c' : rp_rd) : Prop := rpp_frame (rp_io_ c) (rp_io_ c').
Lemma rpp_cframe_refl : forall c, rpp_cframe c c.
Proof. intros; apply rpp_frame_refl. Qed.
Lemma rpp_cframe_trans : forall a b c, rpp_cframe a b -> rpp_cframe b c -> rpp_cframe a c.
Proof. unfold rpp_cframe; intros; eapply rpp_frame_trans; eauto. Qed.
Lemma rpp_put_sig_io : forall c id g, rp_io_ (rp_put_sig c id g) = rp_io_ c.
Proof. reflexivity. Qed.

Lemma rpp_scan_initial_loop_frame : forall fuel c found, rpp_cframe c (fst (rp_scan_initial_loop fuel c found)).
Proof.
  induction fuel as [| fu IH]; intros c found; cbn [rp_scan_initial_loop]; [apply rpp_io_fault_frame |].
  destruct (found =? 7); [apply rpp_cframe_refl |].
  destruct (rp_rd_chunk (rp_io_ c)) as [s1 rc] eqn:E.
  pose proof (rpp_rd_chunk_frame (rp_io_ c)) as F. rewrite E in F. simpl in F.
  destruct (rc =? JLS_ERROR_EMPTY); [exact F |].
  destruct (negb (rc =? 0)); [exact F |].
  assert (G : forall c1, rp_io_ c1 = s1 -> forall fd, rpp_cframe c (fst (rp_scan_initial_loop fu c1 fd))).
  { intros c1 H1 fd. eapply rpp_cframe_trans; [| apply IH]. unfold rpp_cframe. rewrite H1. exact F. }
  destruct (fm_tag (wm_ck_hdr (rp_cur s1)) =? JLS_TAG_USER_DATA).
  { apply G. destruct (wm_ck_offset (rp_ud_head (rp_rd_set_io c s1)) =? 0); reflexivity. }
  destruct (fm_tag (wm_ck_hdr (rp_cur s1)) =? JLS_TAG_SOURCE_DEF).
  { apply G. destruct (wm_ck_offset (rp_src_head (rp_rd_set_io c s1)) =? 0); reflexivity. }
  destruct (fm_tag (wm_ck_hdr (rp_cur s1)) =? JLS_TAG_SIGNAL_DEF).
  { apply G. destruct (wm_ck_offset (rp_sig_head (rp_rd_set_io c s1)) =? 0); reflexivity. }
  apply G. reflexivity.
Qed.
Lemma rpp_scan_initial_frame : forall c, rpp_cframe c (fst (rp_scan_initial c)).
Proof. intros; apply rpp_scan_initial_loop_frame. Qed.

Lemma rpp_scan_sources_loop_frame : forall fuel s, rpp_frame s (fst (rp_scan_sources_loop fuel s)).
Proof.
  induction fuel as [| fu IH]; intros s; cbn [rp_scan_sources_loop]; [apply rpp_io_fault_frame |].
  destruct (rp_rd_chunk s) as [s1 rc] eqn:E.
  pose proof (rpp_rd_chunk_frame s) as F. rewrite E in F. simpl in F.
  destruct (negb (rc =? 0)); [exact F |].
  match goal with |- context [negb (?x =? 0)] => destruct (negb (x =? 0)); [exact F |] end.
  destruct (fm_item_next (wm_ck_hdr (rp_cur s1)) =? 0); [exact F |].
  destruct (rp_chunk_seek s1 (fm_item_next (wm_ck_hdr (rp_cur s1)))) as [s2 rc3] eqn:E2.
  pose proof (rpp_chunk_seek_frame s1 (fm_item_next (wm_ck_hdr (rp_cur s1)))) as F2. rewrite E2 in F2. simpl in F2.
  pose proof (rpp_frame_trans _ _ _ F F2) as G.
  destruct (negb (rc3 =? 0)); [exact G |]. eapply rpp_frame_trans; [exact G | apply IH].
Qed.
Lemma rpp_scan_sources_frame : forall c, rpp_cframe c (fst (rp_scan_sources c)).
Proof.
  intros c. unfold rp_scan_sources.
  destruct (rp_chunk_seek (rp_io_ c) (wm_ck_offset (rp_src_head c))) as [s1 rc] eqn:E.
  pose proof (rpp_chunk_seek_frame (rp_io_ c) (wm_ck_offset (rp_src_head c))) as F. rewrite E in F. simpl in F.
  destruct (negb (rc =? 0)); [exact F |].
  destruct (rp_scan_sources_loop (rp_chain_fuel s1) s1) as [s2 rc2] eqn:E2.
  pose proof (rpp_scan_sources_loop_frame (rp_chain_fuel s1) s1) as F2. rewrite E2 in F2. simpl in F2.
  unfold rpp_cframe. simpl. eapply rpp_frame_trans; eauto.
Qed.

Lemma rpp_handle_signal_def_io : forall c, rp_io_ (rp_handle_signal_def c) = rp_io_ c.
Proof.
  intros c. unfold rp_handle_signal_def.
  destruct (JLS_SIGNAL_COUNT <=? fm_chunk_meta (wm_ck_hdr (rp_cur (rp_io_ c)))); reflexivity.
Qed.
Lemma rpp_handle_track_head_io : forall c, rp_io_ (rp_handle_track_head c) = rp_io_ c.
Proof.
  intros c. unfold rp_handle_track_head.
  match goal with |- context [negb (?x =? 0)] => destruct (negb (x =? 0)); [reflexivity |] end.
  match goal with |- context [negb ?x] => destruct (negb x); [reflexivity |] end.
  match goal with |- context [rp_sg_track ?a ?b] => destruct (rp_sg_track a b) end. reflexivity.
Qed.

Lemma rpp_scan_signals_loop_frame : forall fuel c, rpp_cframe c (fst (rp_scan_signals_loop fuel c)).
Proof.
  induction fuel as [| fu IH]; intros c; cbn [rp_scan_signals_loop]; [apply rpp_io_fault_frame |].
  destruct (rp_rd_chunk (rp_io_ c)) as [s1 rc] eqn:E.
  pose proof (rpp_rd_chunk_frame (rp_io_ c)) as F. rewrite E in F. simpl in F.
  destruct (negb (rc =? 0)); [exact F |].
  set (c2 := if fm_tag (wm_ck_hdr (rp_cur s1)) =? JLS_TAG_SIGNAL_DEF then rp_handle_signal_def (rp_rd_set_io c s1)
             else if N.land (fm_tag (wm_ck_hdr (rp_cur s1))) 7 =? JLS_TRACK_CHUNK_DEF then rp_rd_set_io c s1
             else if N.land (fm_tag (wm_ck_hdr (rp_cur s1))) 7 =? JLS_TRACK_CHUNK_HEAD then rp_handle_track_head (rp_rd_set_io c s1)
             else rp_rd_set_io c s1).
  assert (H2 : rp_io_ c2 = s1).
  { unfold c2. destruct (fm_tag (wm_ck_hdr (rp_cur s1)) =? JLS_TAG_SIGNAL_DEF); [now rewrite rpp_handle_signal_def_io |].
    destruct (N.land (fm_tag (wm_ck_hdr (rp_cur s1))) 7 =? JLS_TRACK_CHUNK_DEF); [reflexivity |].
    destruct (N.land (fm_tag (wm_ck_hdr (rp_cur s1))) 7 =? JLS_TRACK_CHUNK_HEAD); [now rewrite rpp_handle_track_head_io | reflexivity]. }
  assert (G : rpp_cframe c c2) by (unfold rpp_cframe; rewrite H2; exact F).
  destruct (fm_item_next (wm_ck_hdr (rp_cur s1)) =? 0); [exact G |].
  destruct (rp_chunk_seek (rp_io_ c2) (fm_item_next (wm_ck_hdr (rp_cur s1)))) as [s2 rc3] eqn:E2.
  pose proof (rpp_chunk_seek_frame (rp_io_ c2) (fm_item_next (wm_ck_hdr (rp_cur s1)))) as F2. rewrite E2 in F2. simpl in F2.
  assert (G2 : rpp_cframe c (rp_rd_set_io c2 s2)) by (unfold rpp_cframe in *; simpl; eapply rpp_frame_trans; eauto).
  destruct (negb (rc3 =? 0)); [exact G2 |]. eapply rpp_cframe_trans; [exact G2 | apply IH].
Qed.
Lemma rpp_scan_signals_frame : forall c, rpp_cframe c (fst (rp_scan_signals c)).
Proof.
  intros c. unfold rp_scan_signals.
  destruct (rp_chunk_seek (rp_io_ c) (wm_ck_offset (rp_sig_head c))) as [s1 rc] eqn:E.
  pose proof (rpp_chunk_seek_frame (rp_io_ c) (wm_ck_offset (rp_sig_head c))) as F. rewrite E in F. simpl in F.
  destruct (negb (rc =? 0)); [exact F |].
  eapply rpp_cframe_trans; [| apply rpp_scan_signals_loop_frame]. exact F.
Qed.

Lemma rpp_buf_sub_frame : forall s off n, rpp_frame s (fst (rp_buf_sub s off n)).
Proof. intros s off n. unfold rp_buf_sub. destruct (JLS_BUF_DEFAULT_SIZE <? off + n); repeat split. Qed.
Lemma rpp_scan_sid_loop_frame : forall ids c, rpp_cframe c (fst (rp_scan_sid_loop ids c)).
Proof.
  induction ids as [| id rest IH]; intros c; cbn [rp_scan_sid_loop]; [apply rpp_cframe_refl |].
  match goal with |- context [if ?b then rp_scan_sid_loop rest c else _] => destruct b; [apply IH |] end.
  match goal with |- context [if ?b then rp_scan_sid_loop rest c else _] => destruct b; [apply IH |] end.
  match goal with |- context [rp_chunk_seek ?a ?b] => destruct (rp_chunk_seek a b) as [s1 rc1] eqn:E1;
    pose proof (rpp_chunk_seek_frame a b) as F1; rewrite E1 in F1; simpl in F1 end.
  destruct (negb (rc1 =? 0)); [exact F1 |].
  destruct (rp_rd_chunk s1) as [s2 rc2] eqn:E2.
  pose proof (rpp_rd_chunk_frame s1) as F2. rewrite E2 in F2. simpl in F2.
  pose proof (rpp_frame_trans _ _ _ F1 F2) as G2.
  destruct (negb (rc2 =? 0)); [exact G2 |].
  match goal with |- context [if ?b then rp_scan_sid_loop rest _ else _] => destruct b end.
  { eapply rpp_cframe_trans; [| apply IH]. exact G2. }
  destruct (rp_buf_sub s2 0 8) as [s3 b] eqn:E3.
  pose proof (rpp_buf_sub_frame s2 0 8) as F3. rewrite E3 in F3. simpl in F3.
  eapply rpp_cframe_trans; [| apply IH]. unfold rpp_cframe. rewrite rpp_put_sig_io. simpl.
  eapply rpp_frame_trans; eauto.
Qed.
Lemma rpp_scan_fsr_sample_id_frame : forall c, rpp_cframe c (fst (rp_scan_fsr_sample_id c)).
Proof. intros; apply rpp_scan_sid_loop_frame. Qed.

(* read_verify / raw_open: the file stays; fend becomes the file length or stays what it was *)
Lemma rpp_read_verify_file : forall s, let s' := fst (fst (rp_read_verify s)) in
  rp_file s' = rp_file s /\ rp_flen s' = rp_flen s /\ (rp_fend (rp_r s') = rp_flen s \/ rp_fend (rp_r s') = rp_fend (rp_r s)).
Proof.
  intros s. unfold rp_read_verify. cbv zeta.
  destruct (rp_bk_fread s SIZEOF_file_header) as [s1 b] eqn:E.
  pose proof (rpp_fread_frame s SIZEOF_file_header) as F. rewrite E in F. simpl in F. destruct F as (F1 & F2 & F3).
  cbn [fst]. destruct (rp_fh_ok b); destruct (rp_len b <? OFFSETOF_file_header_version); cbn; repeat split; auto.
Qed.
Lemma rpp_raw_open_file : forall s a, let s' := fst (rp_raw_open s a) in
  rp_file s' = rp_file s /\ rp_flen s' = rp_flen s /\ (rp_fend (rp_r s') = rp_flen s \/ rp_fend (rp_r s') = 0).
Proof.
  intros s a. unfold rp_raw_open. cbv zeta.
  pose proof (rpp_read_verify_file (rp_io_set_r s rp_raw0)) as V. cbv zeta in V.
  destruct (rp_read_verify (rp_io_set_r s rp_raw0)) as [[s1 rc] version]. cbn [fst] in V. simpl in V.
  match goal with |- context [if ?b then _ else _] => destruct b end; cbn [fst]; exact V.
Qed.

(* ------------------------------------------------------------------ the scan phase *)
Definition rpp_scan_inv (f : list N) (c : rp_rd) : Prop :=
  rp_file (rp_io_ c) = f /\ rp_flen (rp_io_ c) = rp_len f /\
  (rp_fend (rp_r (rp_io_ c)) = rp_len f \/ rp_fend (rp_r (rp_io_ c)) = 0).
Lemma rpp_scan_inv_frame : forall f c c', rpp_scan_inv f c -> rpp_cframe c c' -> rpp_scan_inv f c'.
Proof. unfold rpp_scan_inv, rpp_cframe, rpp_frame. intros f c c' (A & B & C) (D & E & F). rewrite D, E, F. auto. Qed.

(* the state before jls_core_rd_chunk_end, when the scans succeeded *)
Definition rpp_pre_end (f : list N) : option rp_rd :=
  let '(s1, rc) := rp_raw_open (rp_io0 f) false in
  let c0 := rp_rd0 s1 in
  if negb (rc =? 0) && negb (rc =? JLS_ERROR_TRUNCATED) then None
  else let '(c1, rc1) := rp_scan_initial c0 in
    if negb (rc1 =? 0) then None
    else let '(c2, rc2) := rp_scan_sources c1 in
      if negb (rc2 =? 0) then None
      else let '(c3, rc3) := rp_scan_signals c2 in
        if negb (rc3 =? 0) then None else Some c3.

Lemma rpp_scan_cases : forall f,
  match rp_scan f with
  | inl (c, _) => rp_file (rp_io_ c) = f /\ rp_flen (rp_io_ c) = rp_len f
  | inr c => exists c3, rpp_pre_end f = Some c3 /\ rpp_scan_inv f c3 /\
                        rp_rd_chunk_end (rp_io_ c3) = (rp_io_ c, 0) /\ rp_file (rp_io_ c) = f
  end.
Proof.
  intros f. unfold rp_scan, rpp_pre_end.
  pose proof (rpp_raw_open_file (rp_io0 f) false) as O. cbv zeta in O.
  destruct (rp_raw_open (rp_io0 f) false) as [s1 rc]. cbn [fst] in O. simpl in O.
  assert (I0 : rpp_scan_inv f (rp_rd0 s1)) by exact O.
  destruct (negb (rc =? 0) && negb (rc =? JLS_ERROR_TRUNCATED)); [destruct I0 as (A & B & _); split; assumption |].
  pose proof (rpp_scan_initial_frame (rp_rd0 s1)) as F1.
  destruct (rp_scan_initial (rp_rd0 s1)) as [c1 rc1]. cbn [fst] in F1.
  pose proof (rpp_scan_inv_frame _ _ _ I0 F1) as I1.
  destruct (negb (rc1 =? 0)); [destruct I1 as (A & B & _); split; assumption |].
  pose proof (rpp_scan_sources_frame c1) as F2.
  destruct (rp_scan_sources c1) as [c2 rc2]. cbn [fst] in F2.
  pose proof (rpp_scan_inv_frame _ _ _ I1 F2) as I2.
  destruct (negb (rc2 =? 0)); [destruct I2 as (A & B & _); split; assumption |].
  pose proof (rpp_scan_signals_frame c2) as F3.
  destruct (rp_scan_signals c2) as [c3 rc3]. cbn [fst] in F3.
  pose proof (rpp_scan_inv_frame _ _ _ I2 F3) as I3.
  destruct (negb (rc3 =? 0)); [destruct I3 as (A & B & _); split; assumption |].
  pose proof (rpp_rd_chunk_end_frame (rp_io_ c3)) as F4.
  destruct (rp_rd_chunk_end (rp_io_ c3)) as [s4 rc4] eqn:E4. cbn [fst] in F4.
  assert (I4 : rp_file s4 = f) by (destruct F4 as (A & _); destruct I3 as (B & _); congruence).
  assert (J4 : rp_flen s4 = rp_len f) by (destruct F4 as (_ & A & _); destruct I3 as (_ & B & _); congruence).
  destruct (negb (rc4 =? 0)) eqn:N4; [split; [exact I4 | exact J4] |].
  exists c3. split; [reflexivity |]. split; [exact I3 |]. split; [| exact I4].
  rewrite E4. simpl. f_equal. apply negb_false_iff in N4. now apply N.eqb_eq in N4.
Qed.

(* ------------------------------------------------------------------ C19 part 1, general form *)
Section OPEN.
Variable summ1 : N -> list N -> wm_sentry.
Variable summN : bool -> list wm_sentry -> wm_sentry.

Lemma rpp_finish_quiet : forall c, rp_events (rp_finish (rp_w0 c) false 0) = [] /\
  rp_after (rp_finish (rp_w0 c) false 0) = rp_file (rp_io_ c) /\ rp_did (rp_finish (rp_w0 c) false 0) = false.
Proof.
  intros c. unfold rp_finish.
  pose proof (rpp_scan_fsr_sample_id_frame (rp_c (rp_w0 c))) as F.
  destruct (rp_scan_fsr_sample_id (rp_c (rp_w0 c))) as [c1 rc]. cbn [fst] in F.
  destruct F as (F1 & _). repeat split. exact F1.
Qed.

Lemma rpp_exit_did : forall w rc, rp_did (rp_exit summ1 summN w rc) = true.
Proof. reflexivity. Qed.
Lemma rpp_finish_did : forall w d e, rp_did (rp_finish w d e) = d.
Proof. intros w d e. unfold rp_finish. destruct (rp_scan_fsr_sample_id (rp_c w)). reflexivity. Qed.
Lemma rpp_repair_end_did : forall w, rp_did (rp_repair_end w) = true.
Proof.
  intros w. unfold rp_repair_end.
  repeat first
    [ rewrite rpp_finish_did | reflexivity
    | match goal with |- context [let '(_, _) := ?x in _] => destruct x end
    | match goal with |- rp_did (if ?b then _ else _) = true => destruct b end ].
Qed.
Lemma rpp_repair_did : forall c, rp_did (rp_repair summ1 summN c) = true.
Proof.
  intros c. unfold rp_repair.
  repeat first
    [ rewrite rpp_exit_did | rewrite rpp_finish_did | rewrite rpp_repair_end_did | reflexivity
    | match goal with |- context [let '(_, _) := ?x in _] => destruct x end
    | match goal with |- rp_did (if ?b then _ else _) = true => destruct b end ].
Qed.

(* an open that does not enter the repair branch performs no write and leaves the file as it is *)
Theorem rpp_open_not_did : forall f, rp_did (rp_open summ1 summN f) = false ->
  rp_events (rp_open summ1 summN f) = [] /\ rp_after (rp_open summ1 summN f) = f.
Proof.
  intros f. unfold rp_open. pose proof (rpp_scan_cases f) as S.
  destruct (rp_scan f) as [[c rc] | c].
  - intros _. split; [reflexivity | apply S].
  - destruct S as (c3 & _ & _ & _ & Hf).
    destruct (fm_tag (wm_ck_hdr (rp_cur (rp_io_ c))) =? JLS_TAG_END).
    + intros _. pose proof (rpp_finish_quiet c) as (A & B & _). split; [exact A | now rewrite B].
    + rewrite rpp_repair_did. discriminate.
Qed.
End OPEN.

(* ------------------------------------------------------------------ the backward scan on a closed file *)
Lemma rpp_cands_short : forall fuel i d acc, rp_len d < 32 -> rp_cands fuel i d acc = acc.
Proof.
  intros [| fu] i d acc H; cbn [rp_cands]; [reflexivity |].
  apply rpp_has_false in H. now rewrite H.
Qed.
Lemma rpp_cands_last : forall k fuel i d acc,
  rp_len d = 32 + 8 * N.of_nat k -> (k < fuel)%nat -> fm_ch_crc_ok (rp_skip (8 * N.of_nat k) d) = true ->
  exists r, rp_cands fuel i d acc = 8 * (i + N.of_nat k) :: r.
Proof.
  induction k as [| k IH]; intros fuel i d acc Hl Hf Hc.
  - destruct fuel as [| fu]; [lia |]. cbn [rp_cands].
    assert (C : fm_ch_complete d = true) by (apply rpp_has_true; lia). rewrite C.
    change (8 * N.of_nat 0) with 0 in Hc. cbn [rp_skip] in Hc. rewrite Hc.
    rewrite rpp_cands_short by (rewrite rpp_len_skip; lia).
    exists acc. f_equal. lia.
  - destruct fuel as [| fu]; [lia |]. cbn [rp_cands].
    assert (C : fm_ch_complete d = true) by (apply rpp_has_true; lia). rewrite C.
    destruct (IH fu (i + 1) (rp_skip 8 d) (if fm_ch_crc_ok d then 8 * i :: acc else acc)) as [r Hr].
    + rewrite rpp_len_skip. lia.
    + lia.
    + rewrite rpp_skip_skip. replace (8 + 8 * N.of_nat k) with (8 * N.of_nat (S k)) by lia. exact Hc.
    + exists r. rewrite Hr. f_equal. lia.
Qed.

Lemma rpp_valid_fields : forall r h, fm_tag h <> JLS_TAG_INVALID -> rp_r_valid (rp_r_set_hdr r h) = true.
Proof. intros r h H. unfold rp_r_valid. cbn. apply negb_true_iff. now apply N.eqb_neq. Qed.
Lemma rpp_invalidate_invalid : forall r, rp_r_valid (rp_r_invalidate r) = false.
Proof. intros r. unfold rp_r_valid, rp_r_invalidate. cbn. reflexivity. Qed.

(* jls_core_rd_chunk on a CRC-valid header with an empty payload *)
Lemma rpp_rd_chunk_empty : forall s o h,
  rp_r_valid (rp_r s) = false -> rp_fpos (rp_r s) = o -> rp_offset (rp_r s) = o -> o < rp_fend (rp_r s) ->
  rp_file_read (rp_file s) (rp_flen s) o SIZEOF_chunk_header = h ->
  fm_ch_complete h = true -> fm_ch_crc_ok h = true ->
  fm_payload_length (fm_ch_fields h) = 0 -> fm_tag (fm_ch_fields h) <> JLS_TAG_INVALID ->
  exists s', rp_rd_chunk s = (s', 0) /\ wm_ck_hdr (rp_cur s') = fm_ch_fields h.
Proof.
  intros s o h Hv Hp Ho He Hr Hc Hk Hl Ht.
  unfold rp_rd_chunk.
  set (s0 := rp_io_set_cur s _).
  assert (R0 : rp_r s0 = rp_r s) by reflexivity.
  unfold rp_raw_rd_header. rewrite R0, Hv.
  replace (rp_fend (rp_r s) <=? rp_fpos (rp_r s)) with false by (symmetry; apply N.leb_gt; lia).
  rewrite Ho, Hp, N.eqb_refl.
  unfold rp_bk_fread. cbn [rp_r rp_io_set_r rp_file rp_flen rp_fpos rp_r_set_offset].
  change (rp_file s0) with (rp_file s). change (rp_flen s0) with (rp_flen s). rewrite R0, Hp, Hr.
  rewrite Hc, Hk. cbn [negb].
  cbv beta iota zeta.
  set (s3 := rp_io_set_r _ (rp_r_set_hdr _ (fm_ch_fields h))).
  set (s2 := rp_io_set_cur s3 _).
  unfold rp_raw_rd_payload.
  assert (V2 : rp_r_valid (rp_r s2) = true) by (apply rpp_valid_fields; exact Ht).
  rewrite V2. cbn [negb N.eqb].
  assert (H2 : rp_hdr (rp_r s2) = fm_ch_fields h) by reflexivity.
  rewrite H2, Hl. cbn [N.eqb].
  cbv beta iota zeta. cbn [N.eqb JLS_ERROR_TOO_BIG].
  eexists. split; [reflexivity |]. reflexivity.
Qed.

Lemma rpp_chunk_seek_cur : forall s o, rp_cur (fst (rp_chunk_seek s o)) = rp_cur s.
Proof.
  intros s o. unfold rp_chunk_seek, rp_bk_fseek. destruct (o =? 0); [reflexivity |].
  destruct (rp_two63 <=? o); reflexivity.
Qed.
Lemma rpp_file_read_eq : forall f n off k, rp_len f = n -> off < n -> rp_file_read f n off k = rp_take k (rp_skip off f).
Proof. intros f n off k Hn Ho. unfold rp_file_read. replace (n <=? off) with false by (symmetry; apply N.leb_gt; lia). reflexivity. Qed.

(* jls_core_rd_chunk_end finds the END chunk in the last 32 bytes at once *)
Lemma rpp_rd_chunk_end_closed : forall s f,
  rp_file s = f -> rp_flen s = rp_len f -> rp_fend (rp_r s) = rp_len f ->
  64 <= rp_len f -> rp_len f < rp_two63 -> rp_len f mod 8 = 0 ->
  fm_ch_crc_ok (rp_skip (rp_len f - 32) f) = true ->
  fm_tag (fm_ch_fields (rp_skip (rp_len f - 32) f)) = JLS_TAG_END ->
  fm_payload_length (fm_ch_fields (rp_skip (rp_len f - 32) f)) = 0 ->
  exists s', rp_rd_chunk_end s = (s', 0) /\ fm_tag (wm_ck_hdr (rp_cur s')) = JLS_TAG_END.
Proof.
  intros s f Hf Hn He H64 H63 H8 Hc Ht Hl.
  set (n := rp_len f) in *. set (h := rp_skip (n - 32) f) in *.
  assert (Hh : rp_len h = 32) by (unfold h; rewrite rpp_len_skip; fold n; lia).
  unfold rp_rd_chunk_end. rewrite He.
  replace (n / 8 * 8) with n by lia.
  cbn [rp_end_loop].
  replace ((0 <? n) && (SIZEOF_chunk_header <? n)) with true
    by (symmetry; apply andb_true_iff; split; apply N.ltb_lt; unfold SIZEOF_chunk_header; lia).
  set (pos := n - RpEnd_window). set (len1 := n - pos).
  assert (Hpos : pos + len1 = n) by (unfold len1, pos, RpEnd_window; lia).
  assert (Hlen1 : 64 <= len1 /\ len1 mod 8 = 0 /\ len1 <= 1024) by (unfold len1, pos, RpEnd_window; lia).
  unfold rp_bk_fseek at 1. unfold rp_two63 in H63.
  replace (rp_two63 <=? pos) with false by (symmetry; apply N.leb_gt; unfold rp_two63; lia).
  unfold rp_bk_fread at 1.
  cbn [rp_r rp_io_set_r rp_file rp_flen rp_fpos rp_r_set_fpos].
  rewrite Hf, Hn. fold n.
  rewrite (rpp_file_read_eq f n pos len1) by (auto; lia).
  set (d := rp_take len1 (rp_skip pos f)).
  assert (Hd : rp_len d = len1) by (unfold d; rewrite rpp_len_take, rpp_len_skip; fold n; lia).
  rewrite Hd.
  replace (len1 <? len1) with false by (symmetry; apply N.ltb_ge; lia).
  replace (len1 <? SIZEOF_chunk_header) with false by (symmetry; apply N.ltb_ge; unfold SIZEOF_chunk_header; lia).
  (* the candidates *)
  set (k := N.to_nat ((len1 - 40) / 8)).
  assert (Hk : 8 * N.of_nat k = len1 - 40) by (unfold k; lia).
  destruct (rpp_cands_last k (N.to_nat (len1 / 8)) 1 (rp_skip 8 d) []) as [r Hr].
  { rewrite rpp_len_skip, Hd. lia. }
  { unfold k. lia. }
  { rewrite rpp_skip_skip. replace (8 + 8 * N.of_nat k) with (len1 - 32) by lia.
    unfold d. rewrite rpp_skip_take, rpp_skip_skip.
    replace (len1 - (len1 - 32)) with 32 by lia. replace (pos + (len1 - 32)) with (n - 32) by lia.
    fold h. rewrite rpp_take_all by lia. exact Hc. }
  rewrite Hr. replace (8 * (1 + N.of_nat k)) with (len1 - 32) by lia.
  cbn [rp_try_cands].
  replace (pos + (len1 - 32)) with (n - 32) by lia.
  set (s2 := rp_io_set_r _ _).
  unfold rp_chunk_seek at 1.
  replace (n - 32 =? 0) with false by (symmetry; apply N.eqb_neq; lia).
  unfold rp_bk_fseek at 1.
  replace (rp_two63 <=? n - 32) with false by (symmetry; apply N.leb_gt; unfold rp_two63; lia).
  cbn [negb N.eqb].
  set (s3 := rp_io_set_r _ _).
  destruct (rpp_rd_chunk_empty s3 (n - 32) h) as (s4 & E4 & H4).
  - unfold s3. cbn [rp_r rp_io_set_r]. unfold rp_r_valid. reflexivity.
  - reflexivity.
  - reflexivity.
  - unfold s3, s2. cbn. rewrite He. fold n. lia.
  - unfold s3, s2. cbn [rp_file rp_flen rp_io_set_r]. rewrite Hf, Hn. fold n.
    rewrite rpp_file_read_eq by (auto; lia). fold h. apply rpp_take_all. unfold SIZEOF_chunk_header. lia.
  - apply rpp_has_true. lia.
  - exact Hc.
  - exact Hl.
  - rewrite Ht. discriminate.
  - rewrite E4. cbn [N.eqb]. eexists. split; [reflexivity |].
    rewrite rpp_chunk_seek_cur, H4. exact Ht.
Qed.

(* ------------------------------------------------------------------ C19 part 1 for closed files *)
Section CLOSED.
Variable summ1 : N -> list N -> wm_sentry.
Variable summN : bool -> list wm_sentry -> wm_sentry.

(* a file whose last 32 bytes are a CRC-valid END chunk header (8-aligned): whatever the rest of the file holds,
   the open does not enter the repair branch, emits no backend event and leaves the file as it is *)
Theorem rpp_closed_quiet : forall f,
  64 <= rp_len f -> rp_len f < rp_two63 -> rp_len f mod 8 = 0 ->
  fm_ch_crc_ok (rp_skip (rp_len f - 32) f) = true ->
  fm_tag (fm_ch_fields (rp_skip (rp_len f - 32) f)) = JLS_TAG_END ->
  fm_payload_length (fm_ch_fields (rp_skip (rp_len f - 32) f)) = 0 ->
  rp_did (rp_open summ1 summN f) = false /\ rp_events (rp_open summ1 summN f) = [] /\ rp_after (rp_open summ1 summN f) = f.
Proof.
  intros f H64 H63 H8 Hc Ht Hl.
  assert (D : rp_did (rp_open summ1 summN f) = false).
  { unfold rp_open. pose proof (rpp_scan_cases f) as S.
    destruct (rp_scan f) as [[c rc] | c]; [reflexivity |].
    destruct S as (c3 & _ & (I1 & I2 & I3) & E & _).
    destruct I3 as [I3 | I3].
    - destruct (rpp_rd_chunk_end_closed (rp_io_ c3) f I1 I2 I3 H64 H63 H8 Hc Ht Hl) as (s' & E' & T').
      rewrite E in E'. inversion E'; subst s'. rewrite T', N.eqb_refl.
      pose proof (rpp_finish_quiet c) as (_ & _ & Dd). exact Dd.
    - (* fend = 0: the scan finds nothing and jls_rd_open fails *)
      exfalso. unfold rp_rd_chunk_end in E. rewrite I3 in E. cbn in E. discriminate. }
  split; [exact D |]. apply rpp_open_not_did. exact D.
Qed.

Corollary rpp_ends_with_end_quiet : forall f, rp_ends_with_end f = true ->
  rp_did (rp_open summ1 summN f) = false /\ rp_events (rp_open summ1 summN f) = [] /\ rp_after (rp_open summ1 summN f) = f.
Proof.
  intros f H. unfold rp_ends_with_end in H. cbv zeta in H.
  repeat (apply andb_true_iff in H; destruct H as [H ?]).
  apply rpp_closed_quiet.
  - now apply N.leb_le.
  - now apply N.ltb_lt.
  - now apply N.eqb_eq.
  - assumption.
  - now apply N.eqb_eq.
  - now apply N.eqb_eq.
Qed.
End CLOSED.

(* ------------------------------------------------------------------ coherence: file = original file + events *)
Lemma rpp_len_repeat : forall x n, rp_len (repeat x n) = N.of_nat n.
Proof. intros. unfold rp_len. now rewrite repeat_length. Qed.
Lemma rpp_apply_write_len : forall f off b, snd (rp_apply_write f (rp_len f) off b) = rp_len (fst (rp_apply_write f (rp_len f) off b)).
Proof.
  intros f off b. unfold rp_apply_write. cbv zeta.
  destruct (rp_len f <=? off) eqn:E; cbn [fst snd].
  - apply N.leb_le in E. rewrite !rpp_len_app, rpp_len_repeat. lia.
  - apply N.leb_gt in E. rewrite !rpp_len_app, rpp_len_take, rpp_len_skip. lia.
Qed.
Lemma rpp_apply_len : forall fl e, snd fl = rp_len (fst fl) -> snd (rp_apply fl e) = rp_len (fst (rp_apply fl e)).
Proof.
  intros [f n] e H. cbn [fst snd] in H. subst n. destruct e as [off b | len |]; cbn [rp_apply fst snd].
  - apply rpp_apply_write_len.
  - destruct (len <? rp_len f) eqn:E; cbn [fst snd].
    + apply N.ltb_lt in E. rewrite rpp_len_take. lia.
    + apply N.ltb_ge in E. rewrite rpp_len_app, rpp_len_repeat. lia.
  - reflexivity.
Qed.
Lemma rpp_apply_log_len : forall l fl, snd fl = rp_len (fst fl) -> snd (rp_apply_log fl l) = rp_len (fst (rp_apply_log fl l)).
Proof.
  induction l as [| e l IH]; intros fl H; [exact H |]. cbn [rp_apply_log fold_right]. apply rpp_apply_len. apply IH. exact H.
Qed.
Lemma rpp_apply_log_app : forall l1 l2 fl, rp_apply_log fl (l1 ++ l2) = rp_apply_log (rp_apply_log fl l2) l1.
Proof. intros l1 l2 fl. unfold rp_apply_log. apply fold_right_app. Qed.

Definition rpp_coh (f0 : list N) (w : rp_w) : Prop :=
  rp_flen (rp_w_io w) = rp_len (rp_file (rp_w_io w)) /\
  (rp_file (rp_w_io w), rp_flen (rp_w_io w)) = rp_apply_log (f0, rp_len f0) (rp_log w).
Definition rpp_wpres (w w' : rp_w) : Prop := forall f0, rpp_coh f0 w -> rpp_coh f0 w'.
Lemma rpp_wpres_refl : forall w, rpp_wpres w w.
Proof. intros w f0 H; exact H. Qed.
Lemma rpp_wpres_trans : forall a b c, rpp_wpres a b -> rpp_wpres b c -> rpp_wpres a c.
Proof. intros a b c H1 H2 f0 H. apply H2, H1, H. Qed.
(* anything that keeps file, length and log *)
Lemma rpp_wpres_same : forall w w', rp_file (rp_w_io w') = rp_file (rp_w_io w) -> rp_flen (rp_w_io w') = rp_flen (rp_w_io w) ->
  rp_log w' = rp_log w -> rpp_wpres w w'.
Proof. intros w w' A B C f0 (H1 & H2). unfold rpp_coh. rewrite A, B, C. split; assumption. Qed.
Lemma rpp_wpres_io : forall w s', rpp_frame (rp_w_io w) s' -> rpp_wpres w (rp_w_set_io w s').
Proof. intros w s' (A & B & _). apply rpp_wpres_same; [exact A | exact B | reflexivity]. Qed.
Lemma rpp_wpres_c : forall w c, rpp_frame (rp_w_io w) (rp_io_ c) -> rpp_wpres w (rp_w_set_c w c).
Proof. intros w c (A & B & _). apply rpp_wpres_same; [exact A | exact B | reflexivity]. Qed.
Lemma rpp_wpres_fault : forall w code, rpp_wpres w (rp_w_fault w code).
Proof. intros. apply rpp_wpres_same; reflexivity. Qed.
Lemma rpp_wpres_uninit : forall w, rpp_wpres w (rp_w_set_uninit w).
Proof. intros. apply rpp_wpres_same; reflexivity. Qed.
Lemma rpp_wpres_commit : forall w b, rpp_wpres w (rp_commit w b).
Proof.
  intros w b f0 (H1 & H2). unfold rp_commit.
  destruct (rp_apply_log (rp_file (rp_w_io w), rp_flen (rp_w_io w)) (wm_rlog (wm_b_raw b))) as [f1 n1] eqn:E.
  unfold rpp_coh. cbn [rp_w_io rp_c rp_io_ rp_file rp_flen rp_log].
  split.
  - pose proof (rpp_apply_log_len (wm_rlog (wm_b_raw b)) (rp_file (rp_w_io w), rp_flen (rp_w_io w)) H1) as L.
    rewrite E in L. exact L.
  - rewrite rpp_apply_log_app, <- H2, E. reflexivity.
Qed.
Lemma rpp_wpres_with_raw : forall w k, rpp_wpres w (rp_with_raw w k).
Proof. intros. apply rpp_wpres_commit. Qed.
Lemma rpp_wpres_truncate : forall w, rpp_wpres w (rp_bk_truncate w).
Proof. intros. apply rpp_wpres_with_raw. Qed.
Lemma rpp_wpres_update_chunk_header : forall w ch, rpp_wpres w (rp_update_chunk_header w ch).
Proof. intros w ch. unfold rp_update_chunk_header. destruct (wm_ck_offset ch =? 0); [apply rpp_wpres_refl | apply rpp_wpres_with_raw]. Qed.
#[global] Hint Resolve rpp_wpres_refl rpp_wpres_commit rpp_wpres_with_raw rpp_wpres_truncate rpp_wpres_update_chunk_header
  rpp_wpres_fault rpp_wpres_uninit : rpp.
