(* Byte-faithful executable model of REPAIR-ON-OPEN of the reader: jls_rd_open (/repo/src/reader.c) on a file
   that was or was not closed properly.

     rp_open summ1 summN f : rp_result     f = the bytes of the file
       rp_rc      the return code of jls_rd_open
       rp_events  the backend calls of the open, in order (WmRaw.wm_entry: WmWrite off bytes | WmTrunc len | WmSync)
       rp_after   the file afterwards
       rp_fault   0, or the reason the model left its domain (RepairRaw.RpF_ constants)
       rp_uninit_ppl  the C wrote uninitialised stack bytes into a payload_prev_length field (the model writes 0)
       rp_did     whether the repair branch was entered
       rp_end_off where the open wrote its END chunk header (0: none); since /repo 6df24a0 the C seeks to the end
                  of the file before jls_core_wr_end (before that commit it did not: the END header could land
                  on a chunk in the middle of the file)
   is meant to be EXACTLY what the harness observes (tools/props/RP.py compares rc, log and file).

   C functions modelled, in the C's control flow (read side in RepairRaw.v):
     reader.c   jls_rd_open  = rp_open (scan phase rp_scan, repair phase rp_repair, final phase rp_finish);
                jls_rd_close on the error paths = rp_exit (jls_fsr_close of every open track_fsr, then
                jls_raw_close, which rewrites the file header when the file is open for append)
     raw.c      jls_raw_open r / a, read_verify, rd_file_header, jls_raw_rd_header, jls_raw_rd_payload,
                jls_raw_chunk_seek, jls_raw_seek_end (RepairRaw.v); jls_raw_wr, jls_raw_wr_header,
                jls_raw_wr_payload, wr_file_header / jls_raw_close = the WRITER model's WmRaw.wm_raw_* (imported)
     backend    jls_bk_fread, jls_bk_fseek (RepairRaw.v), jls_bk_truncate = rp_bk_truncate,
                jls_bk_fwrite = WmRaw.wm_bk_fwrite
     core.c     jls_core_rd_chunk, jls_core_rd_chunk_end, jls_core_scan_initial / _sources / _signals /
                _fsr_sample_id, handle_signal_def / _track_def / _track_head, jls_core_signal_validate(_typed),
                jls_core_validate_track_tag (RepairRaw.v); jls_core_update_chunk_header = rp_update_chunk_header;
                jls_core_repair_fsr = rp_repair_fsr (level walk rp_fsr_levels, data walk rp_fsr_data);
                jls_core_wr_end, jls_core_wr_index, jls_core_wr_summary, jls_core_update_item_head = WmCore (imported)
     track.c    jls_track_repair_pointers = rp_repair_pointers (level walk rp_ptr_levels, data walk rp_ptr_data);
                jls_track_wr_head, jls_track_update = WmCore.wm_track_wr_head / wm_track_update (imported)
     wr_fsr.c   jls_fsr_open, jls_core_fsr_summary_level_alloc, jls_core_fsr_summaryN (= wm_fsr_summaryN_add + the
                flush test, rp_fsr_summaryN), jls_core_fsr_summary1, wr_summary, wr_index, summary_close,
                jls_fsr_close = WmFsr (imported); the level buffers are filled from the INDEX / SUMMARY payloads
                read back (memcpy in jls_core_repair_fsr = rp_lvl_load_index / rp_lvl_load_summary)
   The writer-model functions work on WmRaw.wm_raw (which has no file); [rp_wm_base] builds one from the reader
   state (ghost disk = the header of the one TRACK_HEAD chunk they may re-read), [rp_commit] applies their log
   to the file and copies the raw state back.

   Left out: I/O errors, allocation failures; the buffer capacities of the level / sample buffers are only
   checked (RpF_heap), the content of bytes beyond what the C initialised is a fault (RpF_buf); summary values
   come from the oracles summ1 / summN as in WmFsr; chunk contents the summary state can not carry (entry size
   other than the data type's, non-zero rsv16) are faults (RpF_fmt); signal parameters for which
   jls_core_fsr_summary_level_alloc divides by zero are a fault (RpF_param).
   Definitions only.  Every top-level name starts with rp_ / Rp. *)
From Coq Require Import NArith ZArith List Bool.
From JLS Require Import Generated CrcDefs Spec Format WmRaw WmCore WmFsr WriterModel RepairRaw.
Import ListNotations.
Local Open Scope N_scope.

(* ---- backend events applied to the file ---- *)
Definition rp_apply_write (f : list N) (flen off : N) (b : list N) : list N * N :=
  let n := rp_len b in
  if flen <=? off then (f ++ repeat 0 (N.to_nat (off - flen)) ++ b, off + n)
  else (rp_take off f ++ b ++ rp_skip (off + n) f, N.max flen (off + n)).
Definition rp_apply (fl : list N * N) (e : wm_entry) : list N * N :=
  match e with
  | WmWrite off b => rp_apply_write (fst fl) (snd fl) off b
  | WmTrunc len => if len <? snd fl then (rp_take len (fst fl), len)
                   else (fst fl ++ repeat 0 (N.to_nat (len - snd fl)), len)
  | WmSync => fl
  end.
(* a log, newest entry first *)
Definition rp_apply_log (fl : list N * N) (l : wm_log) : list N * N := fold_right (fun e a => rp_apply a e) fl l.

(* ---- reader state + the events so far (newest first) ---- *)
(* rp_uninit: the C has written a chunk header whose payload_prev_length is uninitialised stack memory (a fresh
   header written by jls_core_wr_index / _summary while the raw position is not the end of the file: no stamp in
   jls_raw_wr_header); the model writes 0 there *)
Record rp_w := { rp_c : rp_rd; rp_log : wm_log; rp_uninit : bool }.
Definition rp_w_io (w : rp_w) : rp_io := rp_io_ (rp_c w).
Definition rp_w_set_io (w : rp_w) (s : rp_io) : rp_w := {| rp_c := rp_rd_set_io (rp_c w) s; rp_log := rp_log w; rp_uninit := rp_uninit w |}.
Definition rp_w_set_c (w : rp_w) (c : rp_rd) : rp_w := {| rp_c := c; rp_log := rp_log w; rp_uninit := rp_uninit w |}.
Definition rp_w_set_uninit (w : rp_w) : rp_w := {| rp_c := rp_c w; rp_log := rp_log w; rp_uninit := true |}.
Definition rp_w0 (c : rp_rd) : rp_w := {| rp_c := c; rp_log := []; rp_uninit := false |}.
Definition rp_w_fault (w : rp_w) (code : N) : rp_w := rp_w_set_io w (rp_io_fault (rp_w_io w) code).
(* the C's own "appending" test of jls_raw_wr_header: a fresh header written while it fails keeps the
   caller's uninitialised payload_prev_length *)
Definition rp_w_inplace (w : rp_w) : bool := rp_fpos (rp_r (rp_w_io w)) <? rp_fend (rp_r (rp_w_io w)).

(* ---- bridge to the writer model ---- *)
Definition rp_ghost (s : rp_io) (off : N) : list (N * fm_chunk_header) :=
  let b := rp_file_read (rp_file s) (rp_flen s) off SIZEOF_chunk_header in
  if fm_ch_complete b && fm_ch_crc_ok b then [(off, fm_ch_fields b)] else [].
Definition rp_wm_raw (s : rp_io) (ghost : list (N * fm_chunk_header)) : wm_raw :=
  let r := rp_r s in
  {| wm_fpos := rp_fpos r; wm_fend := rp_fend r; wm_offset := rp_offset r; wm_hdr := rp_hdr r; wm_last_pl := rp_last_pl r;
     wm_disk := ghost; wm_rlog := []; wm_fault := false |}.
Definition rp_wm_base (w : rp_w) (ghost_off : N) : wm_base :=
  let c := rp_c w in
  {| wm_b_raw := rp_wm_raw (rp_io_ c) (rp_ghost (rp_io_ c) ghost_off);
     wm_b_source_head := rp_src_head c; wm_b_signal_head := rp_sig_head c; wm_b_ud_head := rp_ud_head c |}.
(* take the writer model's state back: its log entries are applied to the file, oldest first *)
Definition rp_commit (w : rp_w) (b : wm_base) : rp_w :=
  let r := wm_b_raw b in
  let s := rp_w_io w in
  let '(f1, n1) := rp_apply_log (rp_file s, rp_flen s) (wm_rlog r) in
  let s1 := {| rp_file := f1; rp_flen := n1;
               rp_r := {| rp_fpos := wm_fpos r; rp_fend := wm_fend r; rp_offset := wm_offset r; rp_hdr := wm_hdr r;
                          rp_last_pl := wm_last_pl r |};
               rp_buf := rp_buf s; rp_buf_len := rp_buf_len s; rp_cur := rp_cur s;
               rp_flt := if (rp_flt s =? 0) && wm_fault r then RpF_wm else rp_flt s |} in
  {| rp_c := {| rp_io_ := s1; rp_src_head := wm_b_source_head b; rp_sig_head := wm_b_signal_head b;
                rp_ud_head := wm_b_ud_head b; rp_sigs := rp_sigs (rp_c w) |};
     rp_log := wm_rlog r ++ rp_log w; rp_uninit := rp_uninit w |}.
Definition rp_with_raw (w : rp_w) (k : wm_raw -> wm_raw) : rp_w :=
  let b := rp_wm_base w 0 in rp_commit w (wm_b_set_raw b (k (wm_b_raw b))).

(* jls_bk_truncate: ftruncate(fd, fpos) *)
Definition rp_bk_truncate (w : rp_w) : rp_w :=
  rp_with_raw w (fun r =>
    let r1 := wm_log_add r (WmTrunc (wm_fpos r)) in
    {| wm_fpos := wm_fpos r1; wm_fend := N.min (wm_fend r1) (wm_fpos r1); wm_offset := wm_offset r1; wm_hdr := wm_hdr r1;
       wm_last_pl := wm_last_pl r1; wm_disk := wm_disk r1; wm_rlog := wm_rlog r1; wm_fault := wm_fault r1 |}).

(* jls_raw_close of a file open for append = wr_file_header: the length it writes is the REAL size of the file
   (lseek(fd, 0, SEEK_END)), not the raw's fend *)
Definition rp_wm_wr_file_header (file_sz : N) (r : wm_raw) : wm_raw :=
  let pos := wm_fpos r in
  let r1 := wm_bk_fwrite (wm_bk_fseek r 0) (wm_file_header_bytes file_sz) in
  if pos =? 0 then wm_set_offset r1 (wm_fpos r1) else wm_bk_fseek r1 pos.
Definition rp_raw_close (w : rp_w) : rp_w := rp_with_raw w (rp_wm_wr_file_header (rp_flen (rp_w_io w))).

(* jls_core_update_chunk_header: rewrite the 32 bytes of chunk->hdr at chunk->offset, return to the current chunk *)
Definition rp_update_chunk_header (w : rp_w) (ch : wm_chunk) : rp_w :=
  if wm_ck_offset ch =? 0 then w
  else rp_with_raw w (fun r =>
    let current_pos := wm_raw_chunk_tell r in
    let r1 := wm_raw_chunk_seek r (wm_ck_offset ch) in
    let '(r2, _) := wm_raw_wr_header r1 (wm_ck_hdr ch) in
    wm_raw_chunk_seek r2 current_pos).

(* ---- track field updates ---- *)
Definition rp_ck_set_offset (c : wm_chunk) (o : N) : wm_chunk := {| wm_ck_offset := o; wm_ck_hdr := wm_ck_hdr c |}.
Definition rp_tk_set_off (t : wm_track) (level v : N) : wm_track :=
  wm_tk_set_offsets t (wm_upd (N.to_nat level) v (wm_tk_offsets t)).
Definition rp_tk_set_idx (t : wm_track) (level : N) (c : wm_chunk) : wm_track :=
  wm_tk_set_index_head t (wm_upd (N.to_nat level) c (wm_tk_index_head t)).
Definition rp_tk_set_sum (t : wm_track) (level : N) (c : wm_chunk) : wm_track :=
  wm_tk_set_summary_head t (wm_upd (N.to_nat level) c (wm_tk_summary_head t)).
Definition rp_tk_set_idx_off (t : wm_track) (level o : N) : wm_track :=
  rp_tk_set_idx t level (rp_ck_set_offset (wm_get_chunk (wm_tk_index_head t) level) o).
Definition rp_tk_set_sum_off (t : wm_track) (level o : N) : wm_track :=
  rp_tk_set_sum t level (rp_ck_set_offset (wm_get_chunk (wm_tk_summary_head t) level) o).
Definition rp_tk_clear_level (t : wm_track) (level : N) : wm_track :=
  rp_tk_set_off (rp_tk_set_sum_off (rp_tk_set_idx_off t level 0) level 0) level 0.

(* "find first non-empty level": k counts down from 15; a level whose offset can not be sought is cleared
   (all three arrays in jls_track_repair_pointers, head_offsets only in jls_core_repair_fsr) *)
Fixpoint rp_first_level (k : nat) (s : rp_io) (t : wm_track) (clear_heads : bool) : rp_io * wm_track * N :=
  match k with
  | O => (s, t, 0)
  | S k' =>
    let level := N.of_nat k in
    let o := wm_get_off (wm_tk_offsets t) level in
    if o =? 0 then rp_first_level k' s t clear_heads
    else
      let '(s1, rc) := rp_chunk_seek s o in
      if rc =? 0 then (s1, t, level)
      else rp_first_level k' s1 (if clear_heads then rp_tk_clear_level t level else rp_tk_set_off t level 0) clear_heads
  end.
Definition rp_top_level : nat := 15.

(* ================= track.c: jls_track_repair_pointers ================= *)
(* the branch "if (descend || (0 == offset))" *)
Definition rp_ptr_descend (w : rp_w) (t : wm_track) (level offset : N) (idx sum : wm_chunk) (desc : N)
  : rp_w * wm_track * N :=
  if negb (desc =? 0) && negb (wm_ck_offset idx =? 0) && negb (wm_ck_offset sum =? 0) then
    let idx1 := {| wm_ck_offset := wm_ck_offset idx; wm_ck_hdr := wm_hdr_set_next (wm_ck_hdr idx) 0 |} in
    let sum1 := {| wm_ck_offset := wm_ck_offset sum; wm_ck_hdr := wm_hdr_set_next (wm_ck_hdr sum) 0 |} in
    (rp_update_chunk_header (rp_update_chunk_header w idx1) sum1, t, desc)
  else
    let t1 := rp_tk_clear_level t level in
    (w, t1, wm_get_off (wm_tk_offsets t1) (level - 1)).

Fixpoint rp_ptr_levels (fuel : nat) (w : rp_w) (t : wm_track) (level offset : N) (idx sum : wm_chunk) (desc : N)
  : rp_w * wm_track * N * wm_chunk :=
  match fuel with
  | O => (rp_w_fault w RpF_fuel, t, 0, sum)
  | S fu =>
    if level =? 0 then (w, t, offset, sum)
    else
      let '(s1, rc1) := rp_chunk_seek (rp_w_io w) offset in
      let '(s2, rc2) := if rc1 =? 0 then rp_rd_chunk s1 else (s1, rc1) in
      if negb (rc2 =? 0) then
        let '(w1, t1, offset1) := rp_ptr_descend (rp_w_set_io w s2) t level offset idx sum desc in
        rp_ptr_levels fu w1 t1 (level - 1) offset1 (rp_ck_set_offset idx 0) (rp_ck_set_offset sum 0) 0
      else
        let idxn := rp_cur s2 in
        let '(s3, ec) := rp_buf_u32 s2 OFFSETOF_payload_entry_count in
        let '(s4, dnext) :=
          if ec =? 0 then (s3, 0)
          else if wm_tk_type t =? JLS_TRACK_TYPE_FSR then rp_buf_u64 s3 (SIZEOF_payload_header + 8 * (ec - 1))
          else rp_buf_u64 s3 (SIZEOF_payload_header + SIZEOF_index_entry * (ec - 1) + 8) in
        let '(s5, rc3) := rp_rd_chunk s4 in
        if negb (rc3 =? 0) then
          let '(w1, t1, offset1) := rp_ptr_descend (rp_w_set_io w s5) t level offset idx sum desc in
          rp_ptr_levels fu w1 t1 (level - 1) offset1 (rp_ck_set_offset idx 0) (rp_ck_set_offset sum 0) 0
        else
          let sum1 := rp_cur s5 in
          let offset1 := fm_item_next (wm_ck_hdr idxn) in
          let t1 := rp_tk_set_sum_off (rp_tk_set_idx_off t level (wm_ck_offset idxn)) level (wm_ck_offset sum1) in
          let w1 := rp_w_set_io w s5 in
          if offset1 =? 0 then
            let '(w2, t2, offset2) := rp_ptr_descend w1 t1 level offset1 idxn sum1 dnext in
            rp_ptr_levels fu w2 t2 (level - 1) offset2 (rp_ck_set_offset idxn 0) (rp_ck_set_offset sum1 0) 0
          else rp_ptr_levels fu w1 t1 level offset1 idxn sum1 dnext
  end.

(* "update level 0 (data)": follow the data chain; on a failed read the C rewrites summary_chunk (whose
   offset is 0 by then: no effect) *)
Fixpoint rp_ptr_data (fuel : nat) (w : rp_w) (offset : N) (data sum : wm_chunk) : rp_w :=
  match fuel with
  | O => rp_w_fault w RpF_fuel
  | S fu =>
    if offset =? 0 then w
    else
      let '(s1, rc1) := rp_chunk_seek (rp_w_io w) offset in
      let '(s2, rc2) := if rc1 =? 0 then rp_rd_chunk s1 else (s1, rc1) in
      let w1 := rp_w_set_io w s2 in
      if negb (rc2 =? 0) then (if wm_ck_offset data =? 0 then w1 else rp_update_chunk_header w1 sum)
      else rp_ptr_data fu w1 (fm_item_next (wm_ck_hdr (rp_cur s2))) (rp_cur s2) sum
  end.

(* jls_track_wr_head on the reader's core *)
Definition rp_track_wr_head (w : rp_w) (id : N) (t : wm_track) : rp_w * wm_track :=
  let '(b1, t1) := wm_track_wr_head (rp_wm_base w (wm_ck_offset (wm_tk_head t))) id t in
  (rp_commit w b1, t1).

Definition rp_repair_pointers (w : rp_w) (id : N) (t : wm_track) : rp_w * wm_track :=
  let '(s1, t1, level) := rp_first_level rp_top_level (rp_w_io w) t true in
  let w1 := rp_w_set_io w s1 in
  let offset := wm_get_off (wm_tk_offsets t1) level in
  let fuel := rp_chain_fuel s1 in
  let '(w2, t2, offset2, sum2) := rp_ptr_levels (fuel + 16) w1 t1 level offset wm_chunk0 wm_chunk0 0 in
  let w3 := rp_ptr_data fuel w2 offset2 wm_chunk0 sum2 in
  rp_track_wr_head w3 id t2.

(* the loops of jls_rd_open over signals and tracks *)
Definition rp_repair_tracks (w : rp_w) (id : N) : rp_w :=
  fold_left (fun (w0 : rp_w) (ty : N) =>
               let g := rp_get_sig (rp_c w0) id in
               let '(has, t) := rp_sg_track g ty in
               if has then
                 let '(w1, t1) := rp_repair_pointers w0 id t in
                 let g1 := rp_get_sig (rp_c w1) id in
                 rp_w_set_c w1 (rp_put_sig (rp_c w1) id (rp_sg_set_tk g1 (wm_upd (N.to_nat ty) (true, t1) (rp_sg_tk g1))))
               else w0)
            [0; 1; 2; 3] w.
Definition rp_repair_all_pointers (w : rp_w) : rp_w :=
  fold_left (fun (w0 : rp_w) (id : N) => if rp_sg_sigid (rp_get_sig (rp_c w0) id) =? id then rp_repair_tracks w0 id else w0)
            rp_signal_ids w.

(* ================= core.c: jls_core_repair_fsr ================= *)
Definition rp_round16 (x : N) : N := ((x + 15) / 16) * 16.
Definition rp_index_sz (d : sigdef) (level : N) : N :=
  rp_round16 (SIZEOF_payload_header + 8 * (if level =? 1 then sg_eps d / (sg_spd d / sg_sdf d) else sg_sumdf d)).
Definition rp_summary_sz (d : sigdef) : N :=
  rp_round16 (SIZEOF_payload_header + (sg_eps d * wm_summary_entry_bits (sg_dtype d)) / 8).

(* memcpy(lvl->index, buf->start, payload_length): (level, entry_size_bits, complete, representable) *)
Definition rp_lvl_load_index (lv : wm_flevel) (p : list N) (pl : N) : wm_flevel * N * bool * bool :=
  let ec := fm_u32_at OFFSETOF_payload_entry_count p in
  let complete := SIZEOF_payload_header + 8 * ec <=? pl in
  let offs := if complete then rp_dec_u64s (N.to_nat ec) (rp_skip SIZEOF_payload_header p) else [] in
  ({| wm_fl_its := fm_i64_at 0 p; wm_fl_nidx := ec; wm_fl_idx := wm_rev offs;
      wm_fl_sts := wm_fl_sts lv; wm_fl_nsum := wm_fl_nsum lv; wm_fl_sum := wm_fl_sum lv |},
   fm_u16_at OFFSETOF_payload_entry_size_bits p, complete,
   (SIZEOF_payload_header <=? pl) && (fm_u16_at (OFFSETOF_payload_entry_size_bits + 2) p =? 0)).
Fixpoint rp_dec_entries (n : nat) (k : N) (l : list N) : list wm_sentry :=
  match n with
  | O => []
  | S n' => (fm_dec (rp_take k l), fm_dec (rp_take k (rp_skip k l)), fm_dec (rp_take k (rp_skip (2 * k) l)),
             fm_dec (rp_take k (rp_skip (3 * k) l))) :: rp_dec_entries n' k (rp_skip (4 * k) l)
  end.
(* memcpy(lvl->summary, buf->start, payload_length): (level, representable) *)
Definition rp_lvl_load_summary (dt : N) (lv : wm_flevel) (p : list N) (pl : N) : wm_flevel * bool :=
  let ec := fm_u32_at OFFSETOF_payload_entry_count p in
  let k := if wm_summary_is64 dt then 8 else 4 in
  let ok := (SIZEOF_payload_header + 4 * k * ec <=? pl)
            && (fm_u16_at OFFSETOF_payload_entry_size_bits p =? wm_summary_entry_bits dt)
            && (fm_u16_at (OFFSETOF_payload_entry_size_bits + 2) p =? 0) in
  let es := if ok then rp_dec_entries (N.to_nat ec) k (rp_skip SIZEOF_payload_header p) else [] in
  ({| wm_fl_its := wm_fl_its lv; wm_fl_nidx := wm_fl_nidx lv; wm_fl_idx := wm_fl_idx lv;
      wm_fl_sts := fm_i64_at 0 p; wm_fl_nsum := ec; wm_fl_sum := wm_rev es |}, ok).

(* samples of a DATA payload (inverse of WmFsr.wm_pack) *)
Fixpoint rp_unpack_sub (w : N) (per : nat) (b : N) : list N :=
  match per with O => [] | S p => (b mod 2 ^ w) :: rp_unpack_sub w p (b / 2 ^ w) end.
Fixpoint rp_dec_many (n : nat) (k : N) (l : list N) : list N :=
  match n with O => [] | S n' => fm_dec (rp_take k l) :: rp_dec_many n' k (rp_skip k l) end.
Definition rp_unpack (w count : N) (bytes : list N) : list N :=
  if w =? 0 then []
  else if w <? 8 then firstn (N.to_nat count) (flat_map (rp_unpack_sub w (N.to_nat (8 / w))) bytes)
  else rp_dec_many (N.to_nat count) (w / 8) bytes.

Section RP.
Variable summ1 : N -> list N -> wm_sentry.
Variable summN : bool -> list wm_sentry -> wm_sentry.

(* the FSR writer state of one signal: reader state, the FSR track, track_fsr *)
Definition rp_fx (w : rp_w) (t : wm_track) (f : wm_fsr) : wm_fx :=
  {| wm_fx_base := rp_wm_base w (wm_ck_offset (wm_tk_head t)); wm_fx_tk := t; wm_fx_fsr := f |}.
Definition rp_unfx (w : rp_w) (x : wm_fx) : rp_w * wm_track * wm_fsr :=
  (rp_commit w (wm_fx_base x), wm_fx_tk x, wm_fx_fsr x).

(* jls_core_fsr_summaryN(track_fsr, level, pos) *)
Definition rp_fsr_summaryN (d : sigdef) (w : rp_w) (t : wm_track) (f : wm_fsr) (level pos : N) : rp_w * wm_track * wm_fsr :=
  if JLS_SUMMARY_LEVEL_COUNT <=? level then (rp_w_fault w RpF_heap, t, f)
  else
    match wm_f_get_level f (level - 1) with
    | None => (rp_w_fault w RpF_heap, t, f)
    | Some src =>
      let f1 := wm_fsr_summaryN_add summN d level pos src (wm_rev (wm_fl_sum src)) f in
      match wm_f_get_level f1 level with
      | Some up =>
        if sg_eps d <=? wm_fl_nsum up
        then rp_unfx w (wm_fsr_wr_summary summN wm_level_count d level (rp_fx w t f1))
        else (w, t, f1)
      | None => (w, t, f1)
      end
    end.

Definition rp_fsr_set_level (f : wm_fsr) (level : N) (lv : wm_flevel) : wm_fsr := wm_f_set_level f level (Some lv).

(* the "while (level > 0)" loop.  Result code: 0 = go on with the data walk (also after a break), else the
   error jls_core_repair_fsr returns *)
Fixpoint rp_fsr_levels (fuel : nat) (d : sigdef) (w : rp_w) (t : wm_track) (f : wm_fsr) (level offset : N) (skip : bool)
  : rp_w * wm_track * wm_fsr * N * bool * N :=
  match fuel with
  | O => (rp_w_fault w RpF_fuel, t, f, 0, skip, 0)
  | S fu =>
    if level =? 0 then (w, t, f, offset, skip, 0)
    else
      match wm_f_get_level f level with
      | None => (rp_w_fault w RpF_heap, t, f, 0, skip, 0)
      | Some lv =>
        let '(s1, rc1) := rp_rd_chunk (rp_w_io w) in                        (* index *)
        if negb (rc1 =? 0) then (rp_w_set_io w s1, t, f, offset, skip, 0)
        (* since /repo cf5fc54: not an INDEX chunk of this signal and level: break *)
        else if negb (fm_tag (wm_ck_hdr (rp_cur s1)) =? JLS_TAG_TRACK_FSR_INDEX)
                || negb (fm_chunk_meta (wm_ck_hdr (rp_cur s1)) =? wm_meta (sg_id d) level)
        then (rp_w_set_io w s1, t, f, offset, skip, 0)
        else
          let index_head := rp_cur s1 in
          let pl_i := fm_payload_length (wm_ck_hdr index_head) in
          let '(lv1, esb, complete, repr) := rp_lvl_load_index lv (rp_payload s1) pl_i in
          let s1a := if rp_index_sz d level <? pl_i then rp_io_fault s1 RpF_heap
                     else if negb repr then rp_io_fault s1 RpF_fmt else s1 in
          let f1 := rp_fsr_set_level f level lv1 in
          let '(s2, rc2) := rp_rd_chunk s1a in                               (* summary *)
          if negb (rc2 =? 0) then (rp_w_set_io w (if complete then s2 else rp_io_fault s2 RpF_buf), t, f1, offset, skip, 0)
          (* the chunk that follows is not this index's SUMMARY: break (the index is already in the level buffer) *)
          else if negb (fm_tag (wm_ck_hdr (rp_cur s2)) =? JLS_TAG_TRACK_FSR_SUMMARY)
                  || negb (fm_chunk_meta (wm_ck_hdr (rp_cur s2)) =? wm_meta (sg_id d) level)
          then (rp_w_set_io w (if complete then s2 else rp_io_fault s2 RpF_buf), t, f1, offset, skip, 0)
          else
            let summary_head := rp_cur s2 in
            let pl_s := fm_payload_length (wm_ck_hdr summary_head) in
            let t1 := rp_tk_set_sum (rp_tk_set_idx t level index_head) level summary_head in
            let offset_index_next := fm_item_next (wm_ck_hdr index_head) in
            let '(lv2, repr2) := rp_lvl_load_summary (sg_dtype d) lv1 (rp_payload s2) pl_s in
            let s2a := if rp_summary_sz d <? pl_s then rp_io_fault s2 RpF_heap
                       else if negb repr2 then rp_io_fault s2 RpF_fmt else s2 in
            let f2 := rp_fsr_set_level f1 level lv2 in
            let w2 := rp_w_set_io w s2a in
            if negb (esb =? 64) then (w2, t1, f2, offset, skip, JLS_ERROR_PARAMETER_INVALID)
            else if negb complete then (w2, t1, f2, offset, skip, JLS_ERROR_PARAMETER_INVALID)
            else
              let w3 := rp_w_set_io w2 (rp_seek_end s2a) in
              let '(w4, t4, f4) := if skip then (w3, t1, f2) else rp_fsr_summaryN d w3 t1 f2 (level + 1) offset in
              if (0 <? offset_index_next) && (offset_index_next <? rp_two63) then
                let '(s5, _) := rp_chunk_seek (rp_w_io w4) offset_index_next in
                rp_fsr_levels fu d (rp_w_set_io w4 s5) t4 f4 level offset_index_next false
              else
                let level1 := level - 1 in
                match wm_f_get_level f4 level with
                | None => (rp_w_fault w4 RpF_heap, t4, f4, 0, true, 0)
                | Some lv4 =>
                  if wm_fl_nidx lv4 =? 0 then (w4, t4, f4, offset, true, JLS_ERROR_NOT_SUPPORTED)
                  else
                    let offset1 := hd 0 (wm_fl_idx lv4) in
                    let f5 := rp_fsr_set_level f4 level (wm_fl_reset lv4) in
                    let '(s6, rc6) := rp_chunk_seek (rp_w_io w4) offset1 in
                    let w6 := rp_w_set_io w4 s6 in
                    if negb (rc6 =? 0) then (w6, t4, f5, offset1, true, 0)
                    else
                      let f6 := if 0 <? level1 then wm_fsr_level_alloc f5 level1 else f5 in
                      rp_fsr_levels fu d w6 t4 f6 level1 offset1 true
                end
      end
  end.

(* "update level 0 (data)" *)
Fixpoint rp_fsr_data (fuel : nat) (d : sigdef) (w : rp_w) (t : wm_track) (f : wm_fsr) (offset : N) (skip : bool)
  : rp_w * wm_track * wm_fsr :=
  match fuel with
  | O => (rp_w_fault w RpF_fuel, t, f)
  | S fu =>
    if offset =? 0 then (w, t, f)
    else
      let '(s1, rc1) := rp_chunk_seek (rp_w_io w) offset in
      let '(s2, rc2) := if rc1 =? 0 then rp_rd_chunk s1 else (s1, rc1) in
      let w1 := rp_w_set_io w s2 in
      if negb (rc2 =? 0) then (w1, t, f)
      else
        let bits := dt_bits (sg_dtype d) in
        let sample_buffer_sz := SIZEOF_payload_header + (sg_spd d * bits) / 8 in
        let len := rp_buf_len s2 in
        if negb (fm_tag (wm_ck_hdr (rp_cur s2)) =? JLS_TAG_TRACK_FSR_DATA) || (sample_buffer_sz <? len) || (len <? SIZEOF_payload_header)
        then (w1, t, f)
        else
          let p := rp_payload s2 in
          let ec := fm_u32_at OFFSETOF_payload_entry_count p in
          let f1 := wm_f_set_block f false (fm_i64_at 0 p) ec [] in
          let next := fm_item_next (wm_ck_hdr (rp_cur s2)) in
          (* jls_raw_seek_end before jls_core_fsr_summary1 (since /repo f440422): a flush appends *)
          let w1e := rp_w_set_io w1 (rp_seek_end (rp_w_io w1)) in
          if skip then rp_fsr_data fu d w1e t f1 next false
          else
            let w2 := if sg_spd d <? ec then rp_w_fault w1e RpF_heap
                      else if len - SIZEOF_payload_header <? (ec * bits + 7) / 8 then rp_w_fault w1e RpF_buf else w1e in
            let samples := rp_unpack bits ec (rp_skip SIZEOF_payload_header p) in
            let '(w3, t3, f3) := rp_unfx w2 (wm_fsr_summary1 summ1 summN d offset samples (rp_fx w2 t f1)) in
            let inplace := rp_w_inplace w2 in
            let flushed := negb (Nat.eqb (length (rp_log w3)) (length (rp_log w2))) in
            let w3a := if inplace && flushed then rp_w_set_uninit w3 else w3 in
            rp_fsr_data fu d w3a t3 f3 next false
  end.

(* jls_core_repair_fsr: (state, rc) *)
Definition rp_repair_fsr (w : rp_w) (id : N) : rp_w * N :=
  let rc0 := rp_signal_validate_typed (rp_c w) id JLS_SIGNAL_TYPE_FSR in
  if negb (rc0 =? 0) then (w, rc0)
  else
    let g := rp_get_sig (rp_c w) id in
    let d := rp_sg_d g in
    let '(_, t) := rp_sg_track g JLS_TRACK_TYPE_FSR in
    let w0 := if (sg_sdf d =? 0) || (sg_spd d / sg_sdf d =? 0) || (sg_sumdf d =? 0) then rp_w_fault w RpF_param else w in
    let '(s1, t1, level) := rp_first_level rp_top_level (rp_w_io w0) t false in
    let w1 := rp_w_set_io w0 s1 in
    let offset := wm_get_off (wm_tk_offsets t1) level in
    let f0 := if 0 <? level then wm_fsr_level_alloc wm_fsr_open level else wm_fsr_open in
    let fuel := rp_chain_fuel s1 in
    let '(w2, t2, f2, offset2, skip2, rc2) := rp_fsr_levels (fuel + 16) d w1 t1 f0 level offset false in
    let put (w' : rp_w) (t' : wm_track) (f' : option wm_fsr) : rp_w :=
      let g' := rp_get_sig (rp_c w') id in
      rp_w_set_c w' (rp_put_sig (rp_c w') id
        (rp_sg_set_fsr (rp_sg_set_tk g' (wm_upd (N.to_nat JLS_TRACK_TYPE_FSR) (true, t') (rp_sg_tk g'))) f')) in
    if negb (rc2 =? 0) then (put w2 t2 (Some f2), rc2)
    else
      let '(w3, t3, f3) := rp_fsr_data fuel d w2 t2 f2 offset2 skip2 in
      let w4 := rp_w_set_io w3 (rp_seek_end (rp_w_io w3)) in
      let '(w5, t5, _) := rp_unfx w4 (wm_fsr_close summ1 summN d (rp_fx w4 t3 f3)) in
      (put w5 t5 None, 0).

Fixpoint rp_repair_fsr_all (ids : list N) (w : rp_w) : rp_w * N :=
  match ids with
  | [] => (w, 0)
  | id :: rest =>
    let g := rp_get_sig (rp_c w) id in
    if (rp_sg_sigid g =? id) && (sg_type (rp_sg_d g) =? JLS_SIGNAL_TYPE_FSR) then
      let '(w1, rc) := rp_repair_fsr w id in
      if rc =? 0 then rp_repair_fsr_all rest w1 else (w1, rc)
    else rp_repair_fsr_all rest w
  end.

(* ================= reader.c ================= *)
(* rp_end_off: the offset at which the open wrote its END chunk header (0 = it wrote none) *)
Record rp_result := { rp_rc : N; rp_events : list wm_entry; rp_after : list N; rp_fault : N; rp_did : bool; rp_uninit_ppl : bool;
                      rp_end_off : N }.
Definition rp_res_end (rc : N) (w : rp_w) (did : bool) (end_off : N) : rp_result :=
  {| rp_rc := rc; rp_events := wm_rev (rp_log w); rp_after := rp_file (rp_w_io w); rp_fault := rp_flt (rp_w_io w); rp_did := did;
     rp_uninit_ppl := rp_uninit w; rp_end_off := end_off |}.
Definition rp_res (rc : N) (w : rp_w) (did : bool) : rp_result := rp_res_end rc w did 0.

(* jls_rd_close on an error path while the file is open for append: jls_fsr_close of every track_fsr that is
   still open, then jls_raw_close = the file header with the current size *)
Definition rp_exit_fsr (w : rp_w) (id : N) : rp_w :=
  let g := rp_get_sig (rp_c w) id in
  match rp_sg_fsr g with
  | None => w
  | Some f =>
    let '(_, t) := rp_sg_track g JLS_TRACK_TYPE_FSR in
    let '(w1a, t1, _) := rp_unfx w (wm_fsr_close summ1 summN (rp_sg_d g) (rp_fx w t f)) in
    (* no jls_raw_seek_end on this path: chunks are written where the raw stands *)
    let w1 := if rp_w_inplace w && negb (Nat.eqb (length (rp_log w1a)) (length (rp_log w))) then rp_w_set_uninit w1a else w1a in
    let g1 := rp_get_sig (rp_c w1) id in
    rp_w_set_c w1 (rp_put_sig (rp_c w1) id
      (rp_sg_set_fsr (rp_sg_set_tk g1 (wm_upd (N.to_nat JLS_TRACK_TYPE_FSR) (true, t1) (rp_sg_tk g1))) None))
  end.
Definition rp_exit (w : rp_w) (rc : N) : rp_result :=
  let w1 := fold_left rp_exit_fsr rp_signal_ids w in
  rp_res rc (rp_raw_close w1) true.

(* the end of jls_rd_open: (jls_fsr_open of every FSR signal,) jls_core_scan_fsr_sample_id *)
Definition rp_finish (w : rp_w) (did : bool) (end_off : N) : rp_result :=
  let '(c1, rc) := rp_scan_fsr_sample_id (rp_c w) in
  rp_res_end rc (rp_w_set_c w c1) did end_off.

(* the scan phase: jls_raw_open r, scan_initial, scan_sources, scan_signals, rd_chunk_end.
   inl = jls_rd_open returns this code without having written anything *)
Definition rp_scan (f : list N) : (rp_rd * N) + rp_rd :=
  let '(s1, rc) := rp_raw_open (rp_io0 f) false in
  let c0 := rp_rd0 s1 in
  if negb (rc =? 0) && negb (rc =? JLS_ERROR_TRUNCATED) then inl (c0, rc)
  else
    let '(c1, rc1) := rp_scan_initial c0 in
    if negb (rc1 =? 0) then inl (c1, rc1)
    else
      let '(c2, rc2) := rp_scan_sources c1 in
      if negb (rc2 =? 0) then inl (c2, rc2)
      else
        let '(c3, rc3) := rp_scan_signals c2 in
        if negb (rc3 =? 0) then inl (c3, rc3)
        else
          let '(s4, rc4) := rp_rd_chunk_end (rp_io_ c3) in
          if negb (rc4 =? 0) then inl (rp_rd_set_io c3 s4, JLS_ERROR_EMPTY)
          else inr (rp_rd_set_io c3 s4).

(* the end of the repair branch: jls_raw_seek_end (since /repo 6df24a0), jls_core_wr_end, jls_raw_close; then
   jls_raw_open r and the final phase.  rp_end_off = raw->offset at jls_core_wr_end = where the END header goes *)
Definition rp_end_seek (w9 : rp_w) : rp_w := rp_w_set_io w9 (rp_seek_end (rp_w_io w9)).
Definition rp_end_state (w9 : rp_w) : rp_w :=
  let w9s := rp_end_seek w9 in
  let w9a := if rp_w_inplace w9s then rp_w_set_uninit w9s else w9s in
  let b9 := rp_wm_base w9a 0 in
  rp_raw_close (rp_commit w9a (wm_core_wr_end b9)).
Definition rp_repair_end (w9 : rp_w) : rp_result :=
  let end_off := rp_offset (rp_r (rp_w_io (rp_end_seek w9))) in
  let w10 := rp_end_state w9 in
  let '(s11, rc11) := rp_raw_open (rp_w_io w10) false in
  let w11 := rp_w_set_io w10 s11 in
  if negb (rc11 =? 0) then rp_res_end rc11 w11 true end_off
  else rp_finish w11 true end_off.

(* the repair branch of jls_rd_open *)
Definition rp_repair (c : rp_rd) : rp_result :=
  let pos := rp_offset (rp_r (rp_io_ c)) in
  let w0 := rp_w0 c in
  (* jls_raw_close (read only: nothing); jls_raw_open a *)
  let '(s1, rc1) := rp_raw_open (rp_io_ c) true in
  let w1 := rp_w_set_io w0 s1 in
  if negb (rc1 =? 0) && negb (rc1 =? JLS_ERROR_TRUNCATED) then rp_res rc1 w1 true       (* core->raw = NULL: nothing to close *)
  else
    (* find last full chunk and truncate remainder *)
    let '(s2, rc2) := rp_chunk_seek s1 pos in
    if negb (rc2 =? 0) then rp_exit (rp_w_set_io w1 s2) rc2
    else
      let '(s3, rc3) := rp_rd_chunk s2 in
      if negb (rc3 =? 0) then rp_exit (rp_w_set_io w1 s3) rc3
      else
        let w4 := rp_bk_truncate (rp_w_set_io w1 s3) in
        (* rewrite last full chunk *)
        let '(s5, rc5) := rp_chunk_seek (rp_w_io w4) pos in
        if negb (rc5 =? 0) then rp_exit (rp_w_set_io w4 s5) rc5
        else
          let w5 := rp_w_set_io w4 s5 in
          let cur := rp_cur s5 in
          let b5 := rp_wm_base w5 0 in
          let '(r6, h6) := wm_raw_wr (wm_b_raw b5) (wm_ck_hdr cur) (rp_payload s5) in
          let w6 := rp_commit w5 (wm_b_set_raw b5 r6) in
          let w6a := rp_w_set_io w6 (rp_io_set_cur (rp_w_io w6) {| wm_ck_offset := wm_ck_offset cur; wm_ck_hdr := h6 |}) in
          let w7 := rp_repair_all_pointers w6a in
          let '(c8, rc8) := rp_scan_fsr_sample_id (rp_c w7) in
          let w8 := rp_w_set_c w7 c8 in
          if negb (rc8 =? 0) then rp_exit w8 rc8
          else
            let '(w9, rc9) := rp_repair_fsr_all rp_signal_ids w8 in
            if negb (rc9 =? 0) then rp_exit w9 rc9
            else rp_repair_end w9.

(* "properly closed" as the reader can see it: the last 32 bytes of the file are a CRC-valid END chunk header
   (jls_core_wr_end is the last chunk a graceful close appends) at an 8-aligned offset *)
Definition rp_ends_with_end (f : list N) : bool :=
  let n := rp_len f in
  let h := rp_skip (n - SIZEOF_chunk_header) f in
  (64 <=? n) && (n <? rp_two63) && (n mod 8 =? 0) && fm_ch_crc_ok h
  && (fm_tag (fm_ch_fields h) =? JLS_TAG_END) && (fm_payload_length (fm_ch_fields h) =? 0).

(* guard for the termination theorems (not part of the C): every CRC-valid chunk header image in the file, at any
   byte offset, has item_next = 0 or item_next beyond its own offset.  The writer only produces such files; a
   file that violates it (a chain that links backwards or to itself) makes the list walks of the C loop forever *)
Fixpoint rp_links_fwd_go (o : N) (l : list N) : bool :=
  match l with
  | [] => true
  | _ :: t =>
    (let b := rp_take SIZEOF_chunk_header l in
     if fm_ch_complete b && fm_ch_crc_ok b
     then (fm_item_next (fm_ch_fields b) =? 0) || (o <? fm_item_next (fm_ch_fields b))
     else true) && rp_links_fwd_go (o + 1) t
  end.
Definition rp_links_forward (f : list N) : bool := rp_links_fwd_go 0 f.

Definition rp_open (f : list N) : rp_result :=
  match rp_scan f with
  | inl (c, rc) => rp_res rc (rp_w0 c) false
  | inr c =>
    if fm_tag (wm_ck_hdr (rp_cur (rp_io_ c))) =? JLS_TAG_END
    then rp_finish (rp_w0 c) false 0
    else rp_repair c
  end.

End RP.
