(* The executable form of Spec.wstep used by the extracted `prog` driver.

   Spec.sp_align searches entries_per_data downwards with unary fuel (as the C loop does); for
   definition parameters near 2^31 that costs minutes.  sf_wstep is Spec.wstep with the signal
   definition normalised by the C16 model's divisor search (SigDef.sd_align_fast, proved equal to
   the loop in SigDefProofs.align_fast_eq) and with the C16 model's REJECTION of definitions whose
   normalisation overflows uint32 or whose buffers would exceed the limits (Spec.sp_align has no
   rejection).  Proved below:
     - every op other than a signal definition: sf_wstep = wstep;
     - an accepted signal definition: sf_wstep = wstep (same content, same stored parameters);
     - a rejected one leaves the content unchanged.
   So every theorem about Spec.wstep / run_spec applies to the programs the driver accepts. *)
From Coq Require Import NArith ZArith List Bool Lia.
From JLS Require Import Generated Spec SigDef SigDefProofs SigDefSpec.
Import ListNotations.
Local Open Scope N_scope.

Definition sf_align (d : sigdef) : option sigdef :=
  match sd_align_fast (dt_bits (sg_dtype d)) (sd_of_spec d) with
  | SdOk d' =>
    Some {| sg_id := sg_id d; sg_src := sg_src d; sg_type := sg_type d; sg_dtype := sg_dtype d;
            sg_rate := if sg_type d =? JLS_SIGNAL_TYPE_VSR then 0 else sg_rate d;
            sg_spd := spd d'; sg_sdf := sdf d'; sg_eps := eps d'; sg_sumdf := sumdf d';
            sg_adf := sd_anno d'; sg_udf := sd_utc d';
            sg_name := sg_name d; sg_units := sg_units d |}
  | _ => None
  end.

Definition sf_sig_guard (c : content) (d : sigdef) : bool :=
  (sg_id d <? JLS_SIGNAL_COUNT) && (sg_src d <? JLS_SOURCE_COUNT)
  && (match find_src c (sg_src d) with None => false | Some _ => true end)
  && (match find_sig c (sg_id d) with None => true | Some _ => false end)
  && ((sg_type d =? JLS_SIGNAL_TYPE_FSR) || (sg_type d =? JLS_SIGNAL_TYPE_VSR))
  && dt_valid (sg_dtype d)
  && ((sg_type d =? JLS_SIGNAL_TYPE_VSR) || negb (sg_rate d =? 0))
  && str_fits (sg_name d) && str_fits (sg_units d).

(* Spec.fsr_write skips the already accepted part of an overlapping write with skipn (Z.to_nat (next - sid)):
   for a write that lies 2^32 or more samples in the past that is a unary number the extracted code
   cannot build.  sf_skip compares first (Z) and is proved equal to the skipn. *)
Definition sf_skip {A : Type} (z : Z) (l : list A) : list A :=
  if (Z.of_nat (length l) <=? z)%Z then [] else skipn (Z.to_nat z) l.
Definition sf_fsr_write (s : sigstate) (sid : Z) (samples : list N) : sigstate :=
  match samples with
  | [] => s
  | _ =>
    match ss_first s with
    | None => {| ss_def := ss_def s; ss_first := Some sid; ss_samples := samples; ss_annos := ss_annos s; ss_utcs := ss_utcs s |}
    | Some f =>
      let next := (f + Z.of_nat (length (ss_samples s)))%Z in
      let strm :=
        if (sid >=? next)%Z
        then ss_samples s ++ repeat (fill_value (sg_dtype (ss_def s))) (Z.to_nat (sid - next)) ++ samples
        else ss_samples s ++ sf_skip (next - sid) samples in
      {| ss_def := ss_def s; ss_first := Some f; ss_samples := strm; ss_annos := ss_annos s; ss_utcs := ss_utcs s |}
    end
  end.

Definition sf_wstep (c : content) (o : wop) : content * bool :=
  match o with
  | WFsr sig sid samples =>
    match find_sig c sig with
    | Some s => if sg_type (ss_def s) =? JLS_SIGNAL_TYPE_FSR then (upd_sig c (sf_fsr_write s sid samples), true) else (c, false)
    | None => (c, false)
    end
  | WSig d =>
    if sf_sig_guard c d then
      match sf_align d with
      | Some d' => ({| c_sources := c_sources c; c_signals := c_signals c ++ [new_sig d']; c_udata := c_udata c |}, true)
      | None => (c, false)
      end
    else (c, false)
  | _ => wstep c o
  end.

Fixpoint sf_run (c : content) (p : list wop) : content * list bool :=
  match p with
  | [] => (c, [])
  | o :: r => let '(c1, a) := sf_wstep c o in let '(c2, l) := sf_run c1 r in (c2, a :: l)
  end.

(* ---- proofs ---- *)
Lemma sf_dt_bits_k dt : dt_bits dt = N.shiftr (N.land dt 65535) 8.
Proof.
  unfold dt_bits. rewrite N.shiftr_land. change (N.shiftr 65535 8) with 255. reflexivity.
Qed.

Lemma sf_valid_width dt : dt_valid dt = true -> In (dt_bits dt) sd_widths.
Proof.
  unfold dt_valid. intros H. apply andb_prop in H. destruct H as [H _].
  apply existsb_exists in H. destruct H as (x & Hin & Hx). apply N.eqb_eq in Hx.
  rewrite sf_dt_bits_k, Hx. clear Hx.
  cbn [In] in Hin.
  repeat (destruct Hin as [Hin|Hin]; [subst x; vm_compute; tauto|]).
  contradiction.
Qed.

Lemma sf_sig_eta d' d : sd_of_spec (sp_align d) = d' ->
  sp_align d =
  {| sg_id := sg_id d; sg_src := sg_src d; sg_type := sg_type d; sg_dtype := sg_dtype d;
     sg_rate := if sg_type d =? JLS_SIGNAL_TYPE_VSR then 0 else sg_rate d;
     sg_spd := spd d'; sg_sdf := sdf d'; sg_eps := eps d'; sg_sumdf := sumdf d';
     sg_adf := sd_anno d'; sg_udf := sd_utc d';
     sg_name := sg_name d; sg_units := sg_units d |}.
Proof. intros <-. reflexivity. Qed.

Lemma sf_align_agrees d d' : dt_valid (sg_dtype d) = true -> sf_align d = Some d' -> d' = sp_align d.
Proof.
  intros Hv. unfold sf_align.
  destruct (sd_align_fast (dt_bits (sg_dtype d)) (sd_of_spec d)) as [r|rc|f] eqn:E; try discriminate.
  intros H. injection H as <-. symmetry. apply sf_sig_eta.
  apply sp_align_agrees.
  - apply sf_valid_width. exact Hv.
  - rewrite <- align_fast_eq. exact E.
Qed.

Lemma sf_guard_valid c d : sf_sig_guard c d = true -> dt_valid (sg_dtype d) = true.
Proof.
  unfold sf_sig_guard. intros H.
  repeat (apply andb_prop in H; destruct H as [H ?]). assumption.
Qed.

Lemma sf_skip_eq {A : Type} (z : Z) (l : list A) : sf_skip z l = skipn (Z.to_nat z) l.
Proof.
  unfold sf_skip. destruct (Z.leb_spec (Z.of_nat (length l)) z) as [H|H]; [|reflexivity].
  symmetry. apply skipn_all2. lia.
Qed.

Lemma sf_fsr_write_eq s sid samples : sf_fsr_write s sid samples = fsr_write s sid samples.
Proof.
  unfold sf_fsr_write, fsr_write. destruct samples as [|x r]; [reflexivity|].
  destruct (ss_first s) as [f|]; [|reflexivity]. cbv zeta. rewrite sf_skip_eq. reflexivity.
Qed.

Lemma sf_wstep_fsr c sig sid samples : sf_wstep c (WFsr sig sid samples) = wstep c (WFsr sig sid samples).
Proof.
  cbn [sf_wstep wstep]. destruct (find_sig c sig) as [s|]; [|reflexivity].
  rewrite sf_fsr_write_eq. reflexivity.
Qed.

Theorem sf_wstep_other : forall c o, (forall d, o <> WSig d) -> sf_wstep c o = wstep c o.
Proof. intros c o H. destruct o; try reflexivity; [exfalso; eapply H; reflexivity | apply sf_wstep_fsr]. Qed.

Theorem sf_wstep_accepted : forall c o c', sf_wstep c o = (c', true) -> wstep c o = (c', true).
Proof.
  intros c o c' H. destruct o; try exact H; [|rewrite sf_wstep_fsr in H; exact H].
  cbn [sf_wstep] in H. cbn [wstep]. fold (sf_sig_guard c d).
  destruct (sf_sig_guard c d) eqn:G; [|discriminate].
  destruct (sf_align d) as [d'|] eqn:A; [|discriminate].
  apply sf_align_agrees in A; [|eapply sf_guard_valid; exact G]. subst d'. exact H.
Qed.

Theorem sf_wstep_rejected : forall c o c', sf_wstep c o = (c', false) -> c' = c \/ wstep c o = (c', false).
Proof.
  intros c o c' H. destruct o; try (right; exact H); [|right; rewrite sf_wstep_fsr in H; exact H].
  cbn [sf_wstep] in H.
  destruct (sf_sig_guard c d); [destruct (sf_align d)|]; try discriminate; injection H as <-; left; reflexivity.
Qed.

(* a program all of whose calls the driver accepts runs exactly as in the specification *)
Theorem sf_run_accepted : forall p c c' l, sf_run c p = (c', l) -> forallb (fun b => b) l = true ->
  run_spec c p = (c', l).
Proof.
  induction p as [|o r IH]; intros c c' l H Hl; cbn [sf_run run_spec] in *.
  - exact H.
  - destruct (sf_wstep c o) as [c1 a] eqn:E1. destruct (sf_run c1 r) as [c2 l2] eqn:E2.
    injection H as <- <-. cbn [forallb] in Hl. apply andb_prop in Hl. destruct Hl as [Ha Hl]. subst a.
    apply sf_wstep_accepted in E1. rewrite E1. rewrite (IH _ _ _ E2 Hl). reflexivity.
Qed.
