(* Private extraction file of the tmap slice (copy of Extract.v naming only the tmap
   entry points).  At integration add to the Extraction list of coq/Extract.v:
     TmapModel.tmap_alloc TmapModel.tmap_add TmapModel.tmap_rate TmapModel.tmap_unchecked
     TmapModel.tmap_sample_id_to_timestamp TmapModel.tmap_timestamp_to_sample_id
     TmapModel.tmap_sample_id_to_timestamp_old TmapModel.tmap_timestamp_to_sample_id_old
     TmapModel.TMAP_ERROR_UNAVAILABLE TmapModel.TMAP_TIME_SECOND TmapModel.TMAP_CELL_BYTES
     Generated.JLS_ERROR_PARAMETER_INVALID Generated.SIZEOF_utc_summary_entry
   and `QArith` / `TmapModel` to the two Require lines. *)
From Coq Require Import Extraction ExtrOcamlBasic NArith ZArith QArith List.
From JLS Require Import Generated TmapModel.
Extraction Language OCaml.
Extraction "jlsmodel_ext"
  BinInt.Z.add BinInt.Z.opp BinInt.Z.of_N BinInt.Z.to_N BinNat.N.add BinNat.N.mul BinNat.N.of_nat BinNat.N.to_nat
  TmapModel.tmap_alloc TmapModel.tmap_add TmapModel.tmap_rate TmapModel.tmap_unchecked
  TmapModel.tmap_sample_id_to_timestamp TmapModel.tmap_timestamp_to_sample_id
  TmapModel.tmap_sample_id_to_timestamp_old TmapModel.tmap_timestamp_to_sample_id_old
  TmapModel.TMAP_ERROR_UNAVAILABLE TmapModel.TMAP_TIME_SECOND TmapModel.TMAP_CELL_BYTES
  Generated.JLS_ERROR_PARAMETER_INVALID Generated.SIZEOF_utc_summary_entry.
