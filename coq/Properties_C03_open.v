(* C03 (reader side) - "opening the file afterwards always terminates ...": termination of jls_rd_open.
   Model: coq/RepairRaw.v + coq/RepairModel.v; a loop of the C that does not terminate = the model's fuel
   (computed from the length of the file) runs out = fault code RpF_fuel (first fault wins, sticky).
   What is here:  the open does NOT terminate on every byte string (refuted with a file; the C hangs on it);
   the two position-driven loops (backward scan, sequential scan) terminate on every byte string; the whole
   scan phase and every open that does not enter the repair branch terminate when all links go forward.
   NOT proved: termination of the repair branch's walks (jls_track_repair_pointers, jls_core_repair_fsr) - they
   follow item_next and index entries of a file that the repair itself is rewriting.
   Only `exact` + Print Assumptions here; proofs in RepairProofs3.v. *)
From Coq Require Import NArith List Bool.
From JLS Require Import Generated CrcDefs Format WmRaw WmCore WmFsr WmProofs RepairRaw RepairModel
  RepairProofs RepairProofs2 RepairProofs3 RepairProofsData.
Import ListNotations.
Local Open Scope N_scope.

(* "jls_rd_open terminates on every file" is FALSE: a file that ends with a valid END chunk (832 bytes, a real
   closed file with item_next of its SOURCE_DEF chunk pointing to the chunk itself and the header CRC
   recomputed) on which jls_core_scan_sources never terminates.  Replayed on the C: FAULT TIMEOUT. *)
Theorem C03_open_terminates_refuted :
  exists f, rp_fault (rp_open wm_zero_summ1 wm_zero_summN f) = RpF_fuel /\ rp_ends_with_end f = true.
Proof. exact rpp_open_fuel_refuted. Qed.
Print Assumptions C03_open_terminates_refuted.

(* jls_core_rd_chunk_end (the backward scan for the last valid chunk) terminates in every state *)
Theorem C03_backward_scan_terminates :
  forall s : rp_io, rp_flt s <> RpF_fuel -> rp_flt (fst (rp_rd_chunk_end s)) <> RpF_fuel.
Proof. exact rpp_rd_chunk_end_nofuel. Qed.
Print Assumptions C03_backward_scan_terminates.

(* jls_core_scan_initial (the sequential walk from offset 32) terminates on every byte string *)
Theorem C03_scan_initial_terminates :
  forall f : list N,
  rp_flt (rp_io_ (fst (rp_scan_initial (rp_rd0 (fst (rp_raw_open (rp_io0 f) false)))))) <> RpF_fuel.
Proof. exact rpp_scan_initial_nofuel. Qed.
Print Assumptions C03_scan_initial_terminates.

(* the scan phase (jls_raw_open, scan_initial, scan_sources, scan_signals, rd_chunk_end) terminates on every byte
   string in which every CRC-valid chunk header image, at any offset, links forward (rp_links_forward) *)
Theorem C03_scan_phase_terminates :
  forall f : list N, rp_links_forward f = true ->
  match rp_scan f with
  | inl (c, _) => rp_flt (rp_io_ c) <> RpF_fuel
  | inr c => rp_flt (rp_io_ c) <> RpF_fuel
  end.
Proof. exact rpp_scan_nofuel. Qed.
Print Assumptions C03_scan_phase_terminates.

(* every open that does not enter the repair branch terminates under the same guard.  Partial with respect to
   the property: the repair branch is not covered *)
Theorem C03_open_terminates_partial :
  forall (summ1 : N -> list N -> wm_sentry) (summN : bool -> list wm_sentry -> wm_sentry) (f : list N),
  rp_links_forward f = true -> rp_did (rp_open summ1 summN f) = false -> rp_fault (rp_open summ1 summN f) <> RpF_fuel.
Proof. exact rpp_open_readonly_terminates. Qed.
Print Assumptions C03_open_terminates_partial.

(* the guard holds for real files and is exactly what the refuting file violates *)
Example C03_links_forward_closed_file : rp_links_forward rpp_closed_file = true.
Proof. exact rpp_closed_file_links_forward. Qed.
Example C03_links_forward_crash_image : rp_links_forward rpp_crash_image = true.
Proof. exact rpp_crash_image_links_forward. Qed.
Example C03_links_not_forward_cyclic_file : rp_links_forward rpp_cyclic_file = false.
Proof. exact rpp_cyclic_file_links_not_forward. Qed.
