(* C14 / C03 layer 1 for the writer model, part 4: the statements used by Properties_C14_writer.v and
   Properties_C03_shape.v.
     wmw_bounded_b             the boolean form of the guard [wmw_bounded] (for concrete logs)
     wmw_run_write_once / wmw_steps_write_once
                               composition of wmw_run_accepted / wmw_steps_accepted (WmWriteOnce3.v) with the soundness
                               of the checker: the semantic write-once statement for every write of every program
     wmw_ex_prog               a concrete program (2 sources, 2 signals, 3000 + 700 samples, annotations, UTC,
                               user data, omit, flush) and its facts by vm_compute
     wmw_crash_clean           C03 layer 1 at clean crash points: after the first k backend calls of any program the
                               checker's chunk chain is the genuine chunk chain of the file
   Every top-level name starts with wmw_. *)
From Coq Require Import NArith ZArith List Bool Lia Arith.
From JLS Require Import Generated CrcDefs Spec Format FormatProofs WriteOnce WriteOnceProofs
                        WmRaw WmCore WmTs WmFsr WriterModel WmProofs WmWriteOnce WmWriteOnce2 WmWriteOnce3.
Import ListNotations.
Local Open Scope N_scope.

(* ================================================================ the guard, decidable *)
Definition wmw_bounded_b (l : wm_log) : bool :=
  forallb (fun e => match e with
                    | WmWrite off b => (off + N.of_nat (length b) <? fm_two64) && (N.of_nat (length b) <? wmw_two32)
                    | _ => true
                    end) l.

Lemma wmw_bounded_b_sound : forall l, wmw_bounded_b l = true -> wmw_bounded l.
Proof.
  intros l H off b Hin. unfold wmw_bounded_b in H. rewrite forallb_forall in H.
  specialize (H _ Hin). cbv beta iota in H. apply andb_true_iff in H. destruct H as [H1 H2].
  apply N.ltb_lt in H1. apply N.ltb_lt in H2. split; assumption.
Qed.

(* ================================================================ semantic write-once for every program *)
Lemma wmw_write_once_of_accepted : forall l, wo_check_log l = true ->
  forall l1 w l2, l = l1 ++ w :: l2 ->
    let f := wo_file_after l1 in
    let f' := wo_file_after (l1 ++ [w]) in
    (length f <= length f')%nat /\
    forall o h, wo_completed f o h ->
      (exists h', fm_decode_chunk_header (skipn (N.to_nat o) f') = Some h' /\
         fm_item_prev h' = fm_item_prev h /\ fm_tag h' = fm_tag h /\ fm_rsv0 h' = fm_rsv0 h /\
         fm_chunk_meta h' = fm_chunk_meta h /\ fm_payload_length h' = fm_payload_length h /\
         fm_payload_prev_length h' = fm_payload_prev_length h) /\
      (fm_is_head_tag (fm_tag h) = false ->
         forall i, o + 32 <= i -> i < o + fm_chunk_size (fm_payload_length h) -> nth (N.to_nat i) f' 0 = nth (N.to_nat i) f 0).
Proof. exact wo_check_log_sound_explicit. Qed.

Theorem wmw_run_write_once : forall summ1 summN p,
  let st := fst (wm_run_full summ1 summN p) in
  wm_st_fault st = false -> wmw_bounded (wm_st_log st) ->
  forall l1 w l2, wmw_evs (wm_st_log st) = l1 ++ w :: l2 ->
    let f := wo_file_after l1 in
    let f' := wo_file_after (l1 ++ [w]) in
    (length f <= length f')%nat /\
    forall o h, wo_completed f o h ->
      (exists h', fm_decode_chunk_header (skipn (N.to_nat o) f') = Some h' /\
         fm_item_prev h' = fm_item_prev h /\ fm_tag h' = fm_tag h /\ fm_rsv0 h' = fm_rsv0 h /\
         fm_chunk_meta h' = fm_chunk_meta h /\ fm_payload_length h' = fm_payload_length h /\
         fm_payload_prev_length h' = fm_payload_prev_length h) /\
      (fm_is_head_tag (fm_tag h) = false ->
         forall i, o + 32 <= i -> i < o + fm_chunk_size (fm_payload_length h) -> nth (N.to_nat i) f' 0 = nth (N.to_nat i) f 0).
Proof.
  intros summ1 summN p st Hf Hb l1 w l2 Hl.
  exact (wmw_write_once_of_accepted _ (wmw_run_accepted summ1 summN p Hf Hb) l1 w l2 Hl).
Qed.

Theorem wmw_steps_write_once : forall summ1 summN p,
  let st := fst (wm_steps summ1 summN wm_api_open p []) in
  wm_st_fault st = false -> wmw_bounded (wm_st_log st) ->
  forall l1 w l2, wmw_evs (wm_st_log st) = l1 ++ w :: l2 ->
    let f := wo_file_after l1 in
    let f' := wo_file_after (l1 ++ [w]) in
    (length f <= length f')%nat /\
    forall o h, wo_completed f o h ->
      (exists h', fm_decode_chunk_header (skipn (N.to_nat o) f') = Some h' /\
         fm_item_prev h' = fm_item_prev h /\ fm_tag h' = fm_tag h /\ fm_rsv0 h' = fm_rsv0 h /\
         fm_chunk_meta h' = fm_chunk_meta h /\ fm_payload_length h' = fm_payload_length h /\
         fm_payload_prev_length h' = fm_payload_prev_length h) /\
      (fm_is_head_tag (fm_tag h) = false ->
         forall i, o + 32 <= i -> i < o + fm_chunk_size (fm_payload_length h) -> nth (N.to_nat i) f' 0 = nth (N.to_nat i) f 0).
Proof.
  intros summ1 summN p st Hf Hb l1 w l2 Hl.
  exact (wmw_write_once_of_accepted _ (wmw_steps_accepted summ1 summN p Hf Hb) l1 w l2 Hl).
Qed.

(* in terms of wm_run (the log oldest first, as the correspondence driver prints it) *)
Lemma wmw_evs_run : forall summ1 summN p,
  wmw_evs (wm_st_log (fst (wm_run_full summ1 summN p))) = map wmw_to_wo (wm_run summ1 summN p).
Proof. intros. unfold wm_run, wmw_evs. rewrite wm_rev_eq. reflexivity. Qed.

Theorem wmw_wm_run_accepted : forall summ1 summN p,
  let st := fst (wm_run_full summ1 summN p) in
  wm_st_fault st = false -> wmw_bounded (wm_st_log st) ->
  wo_check_log (map wmw_to_wo (wm_run summ1 summN p)) = true.
Proof. intros summ1 summN p st Hf Hb. rewrite <- wmw_evs_run. apply wmw_run_accepted; assumption. Qed.

(* the log of the run without close is a prefix of the log of the run with close: its crash points are crash points
   of the closed run *)
Lemma wmw_open_log_prefix : forall summ1 summN p, exists l2,
  wmw_evs (wm_st_log (fst (wm_run_full summ1 summN p))) =
  wmw_evs (wm_st_log (fst (wm_steps summ1 summN wm_api_open p []))) ++ l2.
Proof.
  intros summ1 summN p. destruct (wmw_run_pre summ1 summN p) as [_ Heq]. rewrite Heq.
  set (st1 := fst (wm_steps summ1 summN wm_api_open p [])).
  destruct (wmw_close_pre_step summ1 summN st1) as [L _]. apply wmw_le_log_ext in L. destruct L as [l Hl].
  set (pre := wmw_close_pre summ1 summN st1) in *. clearbody pre.
  destruct (wmw_close_log (wm_b_raw (wm_st_base pre))) as [Lc _].
  exists (map wmw_to_wo (rev l) ++ [WoWrite 0 (wm_file_header_bytes (wm_fend (wm_b_raw (wm_st_base pre))))]).
  unfold wmw_fin, wm_st_log. cbn [wm_st_base wm_st_set_base wm_b_raw wm_b_set_raw].
  rewrite Lc, wmw_evs_cons. cbn [wmw_to_wo]. unfold wmw_evs. rewrite Hl, rev_app_distr, map_app, app_assoc. reflexivity.
Qed.

(* ================================================================ C03 layer 1, clean crash points *)
Lemma wmw_accepted_prefix_inv : forall l, wo_check_log l = true ->
  forall k, exists s, wo_run false wo_st0 0 (firstn k l) = inl s /\ wo_inv s (wo_file_after (firstn k l)).
Proof.
  intros l H k. pose proof (wmw_check_log_prefix (firstn k l) (skipn k l)) as Hp. rewrite firstn_skipn in Hp.
  specialize (Hp H). unfold wo_check_log, wo_check_log_gen in Hp.
  destruct (wo_run false wo_st0 0 (firstn k l)) as [s|e] eqn:E; [|discriminate].
  exists s. split; [reflexivity|]. eapply wo_run_tracks_chunks; exact E.
Qed.

(* what wo_inv says about the bytes, without the checker's state: the file is empty, or it has a chain of completed
   chunks from offset 32 (every header CRC-valid, every chunk completely inside the file, each starting where the
   previous one ends) that contains EVERY completed chunk of the file, after which nothing complete follows *)
Lemma wmw_inv_shape : forall s f, wo_inv s f ->
  f = [] \/
  exists L e, wo_chunks f L e /\ e <= N.of_nat (length f) /\
    (forall o h, wo_completed f o h -> In (o, h) L) /\
    (forall h, fm_decode_chunk_header (skipn (N.to_nat e) f) = Some h -> N.of_nat (length f) < e + fm_chunk_size (fm_payload_length h)).
Proof.
  intros s f I. destruct (N.eq_dec (wo_len s) 0) as [E0|Hne].
  - left. pose proof (wi_len _ _ I) as Hl. rewrite E0 in Hl. destruct f; [reflexivity|cbn in Hl; lia].
  - right. pose proof (wi_chain _ _ I Hne) as Hc. pose proof (wo_inv_tail _ _ I Hne) as Ht.
    exists (wo_pairs (wo_exts s)), (wo_end s). split; [exact Hc|]. split.
    + destruct (wo_pairs (wo_exts s)) as [|[o h] r] eqn:Ep.
      * inversion Hc; subst. pose proof (wi_len _ _ I) as Hl. pose proof (wi_pend _ _ I Hne) as Hp.
        unfold wo_pend_ok in Hp. destruct (wo_pending s); lia.
      * destruct (wo_chunks_bounds _ _ _ Hc) as [_ Hb]. destruct (Hb o h (or_introl eq_refl)) as (_ & _ & C & _). exact C.
    + split; [|exact Ht]. intros o h Hcm. eapply wo_completed_in; eauto.
Qed.

Theorem wmw_crash_clean : forall summ1 summN p,
  let st := fst (wm_run_full summ1 summN p) in
  wm_st_fault st = false -> wmw_bounded (wm_st_log st) ->
  forall k, exists s, wo_run false wo_st0 0 (firstn k (wmw_evs (wm_st_log st))) = inl s /\
                      wo_inv s (wo_file_after (firstn k (wmw_evs (wm_st_log st)))).
Proof.
  intros summ1 summN p st Hf Hb k. apply wmw_accepted_prefix_inv. apply wmw_run_accepted; assumption.
Qed.

Theorem wmw_crash_clean_shape : forall summ1 summN p,
  let st := fst (wm_run_full summ1 summN p) in
  wm_st_fault st = false -> wmw_bounded (wm_st_log st) ->
  forall k, let f := wo_file_after (firstn k (wmw_evs (wm_st_log st))) in
    f = [] \/
    exists L e, wo_chunks f L e /\ e <= N.of_nat (length f) /\
      (forall o h, wo_completed f o h -> In (o, h) L) /\
      (forall h, fm_decode_chunk_header (skipn (N.to_nat e) f) = Some h -> N.of_nat (length f) < e + fm_chunk_size (fm_payload_length h)).
Proof.
  intros summ1 summN p st Hf Hb k f. destruct (wmw_crash_clean summ1 summN p Hf Hb k) as (s & _ & I).
  exact (wmw_inv_shape _ _ I).
Qed.

(* ================================================================ a concrete program *)
Definition wmw_ex_src (k : N) : wop :=
  WSrc {| so_id := k; so_name := SBytes [97; 98]; so_vendor := SNull; so_model := SBytes []; so_version := SBytes [49]; so_serial := SNull |}.
Definition wmw_ex_sig (k s dt : N) : wop :=
  WSig {| sg_id := k; sg_src := s; sg_type := 0; sg_dtype := dt; sg_rate := 1000; sg_spd := 64; sg_sdf := 32;
          sg_eps := 10; sg_sumdf := 10; sg_adf := 10; sg_udf := 10; sg_name := SBytes [120]; sg_units := SBytes [86] |}.
Definition wmw_ex_anno (t : Z) : anno :=
  {| an_ts := t; an_y := 0x3f800000; an_type := 1; an_group := 2; an_stype := 2; an_data := [104; 105; 0] |}.
Definition wmw_ex_prog : list wop :=
  [wmw_ex_src 1; wmw_ex_src 3; wmw_ex_sig 5 3 JLS_DATATYPE_U8; wmw_ex_sig 6 1 JLS_DATATYPE_F32;
   WFsr 5 0%Z (map (fun i => N.of_nat i mod 256) (seq 0 3000)); WFsr 6 10%Z (repeat 1065353216 700)]
  ++ map (fun i => WAnno 5 (wmw_ex_anno (Z.of_nat i))) (seq 0 25)
  ++ map (fun i => WUtc 5 (Z.of_nat (100 * i)) (Z.of_nat (1000 * i))) (seq 0 12)
  ++ [WAnno 0 (wmw_ex_anno 7%Z); WUd {| ud_meta := 0xf123; ud_stype := 3; ud_data := [123; 125; 0] |}; WFlush;
      WOmit 5 1; WFsr 5 3500%Z (repeat 3 200); WFsr 6 900%Z (repeat 0 40)].

(* every call accepted, no fault, bounded; 709 backend calls; the checker's counters per class of write:
   181 chunks appended, 152 link rewrites, 15 head-table updates, 2 file headers; final size 23344 bytes *)
Lemma wmw_ex_facts :
  let r := wm_run_full wm_zero_summ1 wm_zero_summN wmw_ex_prog in
  let st := fst r in
  forallb (N.eqb 0) (snd r) = true /\ length (snd r) = 49%nat /\
  wm_st_fault st = false /\ wmw_bounded (wm_st_log st) /\ length (wm_st_log st) = 709%nat /\
  exists s, wo_run false wo_st0 0 (wmw_evs (wm_st_log st)) = inl s /\
            wo_n_app s = 181 /\ wo_n_link s = 152 /\ wo_n_tbl s = 15 /\ wo_n_fh s = 2 /\ wo_len s = 23344.
Proof.
  cbv zeta. split; [vm_compute; reflexivity|]. split; [vm_compute; reflexivity|].
  split; [vm_compute; reflexivity|]. split; [apply wmw_bounded_b_sound; vm_compute; reflexivity|].
  split; [vm_compute; reflexivity|].
  destruct (wo_run false wo_st0 0 (wmw_evs (wm_st_log (fst (wm_run_full wm_zero_summ1 wm_zero_summN wmw_ex_prog))))) as [s|e] eqn:E.
  - exists s. split; [reflexivity|]. revert E. vm_compute. intro E. inversion E. repeat split; reflexivity.
  - exfalso. revert E. vm_compute. discriminate.
Qed.
