(* C02 - Summaries and statistics describe exactly the samples that were written (slice `summ`).
   Model: SummQ.v - jls_core_fsr_summary1 / SUMMARYN_BODY_TEMPLATE of /repo/src/wr_fsr.c and
   jls_core_fsr_statistics / fsr_statistics / f32_to_stats / f64_to_stats / stats_to_f64 of
   /repo/src/reader.c over the rationals (every double operation exact; None = a non-finite double;
   sqrt symbolic: entries and results carry the VARIANCE, the C stores / returns std = its square root).
   Proofs: SummQProofs.v.  Binary32/64 rounding is not part of these statements; tools/props/C02_summ.py
   measures it on real files (every entry of every SUMMARY chunk, and statistics requests).

   Reading the statements.  xs = the samples of a gap-free stream (converted to double), all within the
   double range (stats_in_range dbl_max).  d = sample_decimate_factor, sumdf = summary_decimate_factor
   (any values >= 1).  sq_levels d sumdf (map Some xs) L = all entries of summary level L in file order
   (the chunk/index geometry around them is Properties_C01_pyr.v).  mean_of, ssq_of (sum of squared
   deviations from the mean), min_of, max_of, qlen are the specification functions of StatsQ.v
   (Properties_C20.v: C20_min_of_spec, C20_max_of_spec).  sq_core_stats ... fuel start incr count is
   jls_rd_fsr_statistics; `top` = the highest level that has chunks, `l0_ok` = the sample type is at
   most 32 bits wide (the level-0 path rejects wider types), fuel = recursion depth allowed (17 in
   sq_rd_statistics; exhausting it is the distinct result SqFault SF_Nonterm, never SqOk). *)
From Coq Require Import NArith ZArith QArith List.
From JLS Require Import StatsQ StatsQProofs SummQ SummQProofs.
Import ListNotations.
Local Open Scope Q_scope.

(* 1. summary_exact.  Entry k of level L equals the exact statistics of its d * sumdf^(L-1) samples:
   mean, POPULATION variance (sum of squared deviations / count), min, max.  For L >= 2 this is the
   mean-of-means and pooled-variance identity (1/m) sum (var_i + (mean_i - mean)^2) for groups of equal
   size, by induction on L. *)
Theorem summary_exact : forall (d sumdf : nat) (xs : list Q) (L k : nat) (e : sq_ent),
  (1 <= d)%nat -> (1 <= sumdf)%nat -> (1 <= L)%nat ->
  stats_in_range dbl_max xs ->
  nth_error (sq_levels d sumdf (map Some xs) L) k = Some e ->
  let n := (d * sumdf ^ (L - 1))%nat in
  let w := firstn n (skipn (k * n) xs) in
  length w = n /\
  exists m v lo hi, e = mkSqEnt (Some m) (Some v) (Some lo) (Some hi) /\
    m == mean_of w /\ v == ssq_of w / qlen w /\ lo == min_of w /\ hi == max_of w.
Proof. exact sq_C02_summary_exact. Qed.
Print Assumptions summary_exact.

(* every whole group of samples gets an entry, the incomplete tail gets none *)
Theorem summary_count : forall (d sumdf : nat) (xs : list Q) (L : nat),
  (1 <= d)%nat -> (1 <= sumdf)%nat -> (1 <= L)%nat -> stats_in_range dbl_max xs ->
  length (sq_levels d sumdf (map Some xs) L) = (length xs / (d * sumdf ^ (L - 1)))%nat.
Proof. exact sq_levels_length. Qed.
Print Assumptions summary_count.

(* 2. single_window.  A request of count 1 over n samples, whatever level the selection loop picks,
   including the head / tail edge recursion to lower levels down to the samples: min, max and mean are
   exact, and (d-1)/d * S^2 <= var_out <= S^2 where S^2 = ssq / (n - 1) is the exact SAMPLE variance
   (this is the std clause of the property: sqrt((d-1)/d) S <= std <= S).
   Where (d-1)/d comes from: an entry over m = d*sumdf^(L-1) samples stores the POPULATION variance
   ssq_i / m; f32/f64_to_stats re-read it as s_i = std^2 * (m - 1) = ssq_i * (m-1)/m; jls_statistics_combine
   adds the exact between-entry terms, so s_out = sum_i (m-1)/m * ssq_i + between, with
   (d-1)/d <= (m-1)/m <= 1, and var_out = s_out / (n - 1).  Pieces answered from the samples (level 0)
   and results of the recursion (s = var * (k - 1) undoes the division) lose nothing. *)
Theorem single_window : forall (d sumdf : nat) (xs : list Q) (top : nat) (l0_ok : bool) (fuel : nat)
    (start n : Z) (outs : list sq_out),
  (1 <= d)%nat -> (1 <= sumdf)%nat -> stats_in_range dbl_max xs -> (N.of_nat (length xs) < stats_two64)%N ->
  sq_core_stats (Z.of_nat d) (Z.of_nat sumdf) (map Some xs) (sq_levels d sumdf (map Some xs)) top l0_ok fuel start n 1 = SqOk outs ->
  (0 <= start)%Z /\ (0 < n)%Z /\ (start + n <= Z.of_nat (length xs))%Z /\
  let w := firstn (Z.to_nat n) (skipn (Z.to_nat start) xs) in
  let S2 := ssq_of w / (qlen w - 1) in
  let D := inject_Z (Z.of_nat d) in
  exists o, outs = [o] /\ so_min o == min_of w /\ so_max o == max_of w /\ so_mean o == mean_of w /\
    (D - 1) / D * S2 <= so_var o /\ so_var o <= S2.
Proof. exact sq_C02_single_window. Qed.
Print Assumptions single_window.

(* the same for fsr_statistics entered at ANY level whose entries are not longer than the window
   ("at every summary level the request is served from"), the edges served by jls_core_fsr_statistics *)
Theorem single_window_every_level : forall (d sumdf : nat) (xs : list Q) (top : nat) (l0_ok : bool) (fuel level : nat)
    (start n : Z) (outs : list sq_out),
  (1 <= d)%nat -> (1 <= sumdf)%nat -> stats_in_range dbl_max xs -> (N.of_nat (length xs) < stats_two64)%N ->
  (1 <= level)%nat -> (0 <= start)%Z -> (Z.of_nat (d * sumdf ^ (level - 1)) <= n)%Z -> (start + n <= Z.of_nat (length xs))%Z ->
  sq_fsr_stats (Z.of_nat d) (Z.of_nat sumdf) (sq_levels d sumdf (map Some xs)) top
    (fun s i => sq_core_stats (Z.of_nat d) (Z.of_nat sumdf) (map Some xs) (sq_levels d sumdf (map Some xs)) top l0_ok fuel s i 1%Z)
    start n level 1 = SqOk outs ->
  let w := firstn (Z.to_nat n) (skipn (Z.to_nat start) xs) in
  let S2 := ssq_of w / (qlen w - 1) in
  let D := inject_Z (Z.of_nat d) in
  exists o, outs = [o] /\ so_min o == min_of w /\ so_max o == max_of w /\ so_mean o == mean_of w /\
    (D - 1) / D * S2 <= so_var o /\ so_var o <= S2.
Proof. exact sq_C02_single_window_level. Qed.
Print Assumptions single_window_every_level.

(* 3. multi_window.  Any start, any increment (aligned to the entries or not), any count >= 1:
   count entries are returned; the average of their means is the exact mean of the whole requested
   range (both outer edges are taken exactly: the head and the tail are answered by recursion, and an
   entry shared by two windows is split r / (step - r) between them); and every entry's min, max and
   mean lie within the extremes of its window widened by one increment on each side (clipped to the
   signal). *)
Theorem multi_window : forall (d sumdf : nat) (xs : list Q) (top : nat) (l0_ok : bool) (fuel : nat)
    (start incr count : Z) (outs : list sq_out),
  (1 <= d)%nat -> (1 <= sumdf)%nat -> stats_in_range dbl_max xs ->
  (2 * Z.of_nat (length xs) < 2 ^ 64)%Z -> (1 <= count)%Z ->
  sq_core_stats (Z.of_nat d) (Z.of_nat sumdf) (map Some xs) (sq_levels d sumdf (map Some xs)) top l0_ok fuel start incr count = SqOk outs ->
  (0 <= start)%Z /\ (0 < incr)%Z /\ (start + count * incr <= Z.of_nat (length xs))%Z /\
  length outs = Z.to_nat count /\
  qsum (map so_mean outs) / inject_Z count == mean_of (firstn (Z.to_nat (count * incr)) (skipn (Z.to_nat start) xs)) /\
  forall p o, nth_error outs p = Some o ->
    let a := (start + (Z.of_nat p - 1) * incr)%Z in
    let b := (start + (Z.of_nat p + 2) * incr)%Z in
    let ww := firstn (Z.to_nat b - Z.to_nat a) (skipn (Z.to_nat a) xs) in
    min_of ww <= so_min o /\ so_max o <= max_of ww /\ min_of ww <= so_mean o /\ so_mean o <= max_of ww.
Proof. exact sq_C02_multi_window. Qed.
Print Assumptions multi_window.

(* ---- the hypotheses are satisfiable; the reader answers (non-vacuity) ---- *)
Definition C02_ramp (n : nat) : list Q := map (fun i => inject_Z (Z.of_nat i)) (seq 0 n).

(* d = 16, sumdf = 10, 4000-sample ramp: 250 / 25 / 2 / 0 entries at levels 1..4; entry 1 of level 3
   describes samples 1600..3199: mean 2399.5, population variance (1600^2 - 1)/12 *)
Example summary_exact_example :
  map (fun L => length (sq_levels 16 10 (map Some (C02_ramp 4000)) L)) [1; 2; 3; 4]%nat = [250; 25; 2; 0]%nat /\
  nth_error (sq_levels 16 10 (map Some (C02_ramp 4000)) 3) 1 =
    Some (mkSqEnt (Some (4799 # 2)) (Some (853333 # 4)) (Some 1600) (Some 3199)).
Proof. vm_compute. split; reflexivity. Qed.
Print Assumptions summary_exact_example.

(* a 4400-sample ramp, request start 7, 4100 samples, count 1: served from level 2 with both edges
   unaligned; exact S^2 = 4100 * 4101 / 12 = 5744817500 # 4100 *)
Example single_window_example :
  sq_rd_statistics 16 10 (map Some (C02_ramp 4400)) 3 true 7 4100 1 =
    SqOk [mkSqOut (4113 # 2) (5743365127 # 4099) 7 4106].
Proof. vm_compute. reflexivity. Qed.
Print Assumptions single_window_example.

(* the factor (d-1)/d is approached: d = 4, samples 0 1 1 0 repeated (all level-1 entries have the
   same mean, so all of the variance is inside the entries): S^2 = 25/99, returned 19/99 = 0.76 S^2
   (24 entries at 3/4, the last 4 samples exact); (d-1)/d = 0.75 *)
Example single_window_bound_approached :
  let xs := concat (repeat [0; 1; 1; 0] 25) in
  sq_rd_statistics 4 2 (map Some xs) 3 true 0 100 1 = SqOk [mkSqOut (1 # 2) (19 # 99) 0 1] /\
  ssq_of xs / (qlen xs - 1) == 25 # 99.
Proof. vm_compute. split; reflexivity. Qed.
Print Assumptions single_window_bound_approached.

(* 10 windows of 419 samples from sample 3 (level 1, nothing aligned): entry 1 has min 320 although its
   window starts at sample 422 - inside the widened window, as the property allows *)
Example multi_window_example :
  exists outs, sq_rd_statistics 16 10 (map Some (C02_ramp 4400)) 3 true 3 419 10 = SqOk outs /\
    length outs = 10%nat /\
    nth_error outs 1 = Some (mkSqOut (527741 # 838) (14406845505 # 700568) 320 959) /\
    qsum (map so_mean outs) / 10 == (3 + 4192) / 2.
Proof. eexists. split; [vm_compute; reflexivity|]. vm_compute. repeat split; reflexivity. Qed.
Print Assumptions multi_window_example.
