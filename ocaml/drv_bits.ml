(* kind "bits": same script as harness/jlsrun_k_bits.h.
     c|n <dst_hex|-> <dst_bit> <src_hex|-> <src_bit> <bit_count>   -> dst after bc_bit_copy, or FAULT ASAN (BC_oob) / FAULT TIMEOUT (BC_nonterm)
     consts                                                    -> fill_bytes=.. nan32=.. nan64=..
   argv[2] = "slow" selects bc_bit_copy_slow (the loop without the memcpy fast path). *)
open Jlsmodel_ext
open Util
let n_of_dec (s : string) : n = n_of_hex (Printf.sprintf "%x" (int_of_string s))
let buf_of s = if s = "-" then [] else bytes_of_hexstr s
let rec take k l = if k <= 0 then [] else match l with [] -> [] | x :: r -> x :: take (k - 1) r
let () = register "bits" (fun ic ->
  let slow = Array.length Sys.argv > 2 && Sys.argv.(2) = "slow" in
  iter_lines ic (fun line ->
    match split_ws line with
    | [("c" | "n"); d; db; s; sb; cnt] ->
      let f = if slow then bc_bit_copy_slow else bc_bit_copy in
      (match f (buf_of d) (n_of_dec db) (buf_of s) (n_of_dec sb) (n_of_dec cnt) with
       | BC_ok l -> print_endline (if l = [] then "-" else hexstr_of_bytes l)
       | BC_oob -> print_endline "FAULT ASAN"
       | BC_nonterm -> print_endline "FAULT TIMEOUT")
    | "consts" :: _ ->
      Printf.printf "fill_bytes=%d nan32=%s nan64=%s\n" (int_of_n fP_FILL_BYTES)
        (hexstr_of_bytes (take 4 (fp_fill_buf jLS_DATATYPE_F32)))
        (hexstr_of_bytes (take 8 (fp_fill_buf jLS_DATATYPE_F64)))
    | _ -> print_endline "?"))
