(* kind "pyr": the index/summary pyramid of one FSR signal (coq/PyramidModel.v).
   One case per line:
     spd sdf eps sumdf small t0 pos0 | op op ... | id id ...
   ops:  b<n>,<c>  a block of n samples reaches wr_data (c = 1: constant content, only used when small = 1)
         o<en>     jls_wr_fsr_omit_data(enable)
         k<n>      n units of other chunks in between
   ids: sample ids read with rd_fsr_data0 in this order, the level-1 cache threaded through.
   Output (one line): the chunks in write order
     D:<ts>:<n> | I<L>:<ts>:<n>:<e>,<e>,... | S<L>:<ts>:<n>      entries = 1-based ordinal of the target chunk, 0 = omitted
   then H:<16 head ordinals>, len=<length or E..>, then per id r=<D:ts:n | O:ts:n | E..>.
   A writer fault prints FAULT <name>. *)
open Jlsmodel_ext
open Util
let zi (i : int) : z = if i < 0 then z_of_hex (Printf.sprintf "-%x" (-i)) else z_of_hex (Printf.sprintf "%x" i)
let iz (v : z) : int =
  let s = hex_of_z v in
  if String.length s > 0 && s.[0] = '-' then - (int_of_string ("0x" ^ String.sub s 1 (String.length s - 1)))
  else int_of_string ("0x" ^ s)
let fault_name = function
  | PF_LevelOOB -> "LEVEL_OOB" | PF_IndexOverflow -> "INDEX_OVERFLOW" | PF_SummaryOverflow -> "SUMMARY_OVERFLOW" | PF_DivZero -> "DIVZERO"
let err_name = function
  | PE_NotFound -> "E_NOT_FOUND" | PE_IO -> "E_IO" | PE_Param -> "E_PARAM" | PE_Seek -> "E_SEEK" | PE_OOB -> "E_OOB"
  | PE_Fault f -> "FAULT_" ^ fault_name f
let rec split_bar acc cur = function
  | [] -> List.rev (List.rev cur :: acc)
  | "|" :: r -> split_bar (List.rev cur :: acc) [] r
  | x :: r -> split_bar acc (x :: cur) r
let () = register "pyr" (fun ic ->
  iter_lines ic (fun line ->
    match split_bar [] [] (split_ws line) with
    | [spd; sdf; eps; sumdf; small; t0; pos0] :: rest ->
      let ops = (match rest with o :: _ -> o | [] -> []) in
      let ids = (match rest with _ :: i :: _ -> i | _ -> []) in
      let d = { py_spd = zi (int_of_string spd); py_sdf = zi (int_of_string sdf);
                py_eps = zi (int_of_string eps); py_sumdf = zi (int_of_string sumdf) } in
      let sop (t : string) =
        let a = String.sub t 1 (String.length t - 1) in
        match t.[0] with
        | 'b' -> (match String.split_on_char ',' a with
                  | [n; c] -> PsBlk (zi (int_of_string n), c = "1")
                  | _ -> failwith "b")
        | 'o' -> PsOmit (a <> "0")
        | 'k' -> PsSkip (zi (int_of_string a))
        | _ -> failwith ("op " ^ t) in
      (match py_srun d (small = "1") (zi (int_of_string t0)) (zi (int_of_string pos0)) (List.map sop ops) with
       | PyErr e -> print_endline ("FAULT " ^ err_name e)
       | PyOk st ->
         let disk = st.pw_disk in
         let tbl = Hashtbl.create 64 in
         List.iteri (fun i c -> Hashtbl.replace tbl (iz c.pc_off) (i + 1)) disk;
         let ord o = let o = iz o in if o = 0 then 0 else (try Hashtbl.find tbl o with Not_found -> -1) in
         let buf = Buffer.create 4096 in
         List.iter (fun c ->
           (match c.pc_kind with
            | PyData -> Buffer.add_string buf (Printf.sprintf "D:%d:%d " (iz c.pc_ts) (iz c.pc_count))
            | PyIndex l -> Buffer.add_string buf (Printf.sprintf "I%d:%d:%d:%s " (int_of_nat l) (iz c.pc_ts) (iz c.pc_count)
                             (String.concat "," (List.map (fun e -> string_of_int (ord e)) c.pc_entries)))
            | PySummary l -> Buffer.add_string buf (Printf.sprintf "S%d:%d:%d " (int_of_nat l) (iz c.pc_ts) (iz c.pc_count)))) disk;
         let heads = Array.make 16 0 in
         List.iteri (fun i h -> if i < 16 then heads.(i) <- ord h) st.pw_heads;
         Buffer.add_string buf ("H:" ^ String.concat "," (Array.to_list (Array.map string_of_int heads)));
         (match py_fsr_length d disk st.pw_heads with
          | PyOk l -> Buffer.add_string buf (Printf.sprintf " len=%d" (iz l))
          | PyErr e -> Buffer.add_string buf (" len=" ^ err_name e));
         let cache = ref py_cache0 in
         List.iter (fun id ->
           let (r, c') = py_rd_data0 d disk st.pw_heads (zi 1) !cache (zi (int_of_string id)) in
           cache := c';
           (match r with
            | PyOk (PyStored c) -> Buffer.add_string buf (Printf.sprintf " r=D:%d:%d" (iz c.pc_ts) (iz c.pc_count))
            | PyOk (PyOmitted (ts, n)) -> Buffer.add_string buf (Printf.sprintf " r=O:%d:%d" (iz ts) (iz n))
            | PyErr e -> Buffer.add_string buf (" r=" ^ err_name e))) ids;
         print_endline (Buffer.contents buf))
    | _ -> print_endline "BADLINE"))
