(* kind "prog": the model side of harness/jlsrun_k_prog.h.  Reads the same script
   line, interprets writer ops with the extracted wstep and prints, for each
   op, what the property demands of the implementation's answer:
     - writer ops:  "<op> 0" (must be accepted) or "<op> E" (must be rejected)
     - reader ops with a determined answer: the same text the C harness prints
     - an (annotation seek): the tail from the earliest allowed start plus "@k"
       = how many leading items are optional
     - ops the specification does not determine: "<op> ?"
   Glue (parsing, generators, hashing, float bit conversion) is OCaml; the meaning
   of the script is v. *)
open Jlsmodel_ext
open Util

let mix64 (x : int64) : int64 =
  let open Int64 in
  let x = add x 0x9E3779B97F4A7C15L in
  let x = mul (logxor x (shift_right_logical x 30)) 0xBF58476D1CE4E5B9L in
  let x = mul (logxor x (shift_right_logical x 27)) 0x94D049BB133111EBL in
  logxor x (shift_right_logical x 31)

let fnv64 (l : int list) : int64 =
  List.fold_left (fun h b -> Int64.mul (Int64.logxor h (Int64.of_int b)) 0x100000001b3L) 0xcbf29ce484222325L l

let n_of_i64 (v : int64) : n = n_of_hex (Printf.sprintf "%Lx" v)
let i64_of_n (x : n) : int64 = Int64.of_string ("0x" ^ hex_of_n x)
let z_of_i64 (v : int64) : z =
  if Int64.compare v 0L >= 0 then (match n_of_i64 v with N0 -> Z0 | Npos p -> Zpos p)
  else if v = Int64.min_int then z_of_hex "-8000000000000000"
  else (match n_of_i64 (Int64.neg v) with N0 -> Z0 | Npos p -> Zneg p)
let i64_of_z (x : z) : int64 = match x with
  | Z0 -> 0L | Zpos p -> i64_of_n (Npos p) | Zneg p -> Int64.neg (i64_of_n (Npos p))
let int_of_z x = Int64.to_int (i64_of_z x)

let dt_bits dt = (dt lsr 8) land 0xff
let dt_is_float dt = dt land 0x0f = 4

let gen_sample dt pat (seed : int64) (k : int64) : int64 =
  let w = dt_bits dt in
  let h () = mix64 (Int64.add (Int64.mul seed 1000003L) k) in
  let v = match pat with
    | 0 -> seed
    | 1 -> Int64.add seed k
    | 3 -> Int64.unsigned_rem (Int64.add (Int64.mul k 7L) seed) 17L
    | 4 -> Int64.sub (Int64.unsigned_rem (h ()) 2001L) 1000L
    | _ -> h () in
  if dt_is_float dt then begin
    let iv = if pat = 2 then Int64.sub (Int64.unsigned_rem (h ()) 2000001L) 1000000L
      else if pat = 0 || pat = 1 then Int64.unsigned_rem v 100000L else v in
    if w = 32 then Int64.logand (Int64.of_int32 (Int32.bits_of_float (Int64.to_float iv))) 0xffffffffL
    else Int64.bits_of_float (Int64.to_float iv)
  end else if w = 64 then v
  else Int64.logand v (Int64.sub (Int64.shift_left 1L w) 1L)

let gen_bytes (spec : string) (printable : bool) : int list option =
  if spec = "" || spec.[0] = '-' then None
  else if spec.[0] = 'e' then Some []
  else if spec.[0] = 'g' then begin
    let body = String.sub spec 1 (String.length spec - 1) in
    match String.split_on_char '.' body with
    | [n; seed] ->
      let n = int_of_string n and seed = Int64.of_string seed in
      Some (List.init n (fun i ->
          let r = mix64 (Int64.add (Int64.mul seed 7919L) (Int64.of_int i)) in
          if printable then 33 + Int64.to_int (Int64.unsigned_rem r 94L)
          else Int64.to_int (Int64.logand (Int64.shift_right_logical r 13) 0xffL)))
    | _ -> None
  end else if spec.[0] = 'x' then begin
    let h = String.sub spec 1 (String.length spec - 1) in
    Some (List.init (String.length h / 2) (fun i -> int_of_string ("0x" ^ String.sub h (2 * i) 2)))
  end else None

(* n<len>: a NULL pointer with a claimed size of len > 0: the library rejects the call (no state change) *)
let null_sized (sp : string) : bool =
  String.length sp > 1 && sp.[0] = 'n' && (match int_of_string_opt (String.sub sp 1 (String.length sp - 1)) with Some k -> k > 0 | None -> false)

let strv_of spec = match gen_bytes spec true with None -> SNull | Some l -> SBytes (List.map (fun b -> byte_tab.(b)) l)

let ints_of_bytes (l : n list) : int list = List.map int_of_n l
let str_out (l : n list) : string =
  let il = ints_of_bytes l in
  let n = List.length il in
  if n <= 24 then "s" ^ String.concat "" (List.map (Printf.sprintf "%02x") il)
  else Printf.sprintf "h%d.%016Lx" n (fnv64 il)
let dec_of_n x = Int64.to_string (i64_of_n x)   (* values < 2^63 *)
let udec_of_n x = Printf.sprintf "%Lu" (i64_of_n x)
let dec_of_z x = Int64.to_string (i64_of_z x)

let tok l i = if i < List.length l then List.nth l i else "0"
let toki l i = Int64.of_string (tok l i)
let tokn l i = n_of_i64 (toki l i)
let tokz l i = z_of_i64 (toki l i)

let find_sig c id = find_sig c id

let () = register "prog" (fun ic ->
  iter_lines ic (fun line ->
    let ops = String.split_on_char ';' line in
    let c = ref content0 in
    let dtype = Hashtbl.create 8 in
    let out = Buffer.create 256 in
    let first = ref true in
    let emit s = (if not !first then Buffer.add_char out ';'); first := false; Buffer.add_string out s in
    let wr name op =
      let (c', ok) = sf_wstep !c op in
      c := c'; emit (name ^ (if ok then " 0" else " E")) in
    List.iter (fun opline ->
      let t = split_ws opline in
      match t with
      | [] -> ()
      | name :: _ ->
        (match name with
         | "wopen" | "topen" -> c := content0; emit (name ^ " 0")
         | "src" ->
           wr name (WSrc { so_id = tokn t 1; so_name = strv_of (tok t 2); so_vendor = strv_of (tok t 3);
                                so_model = strv_of (tok t 4); so_version = strv_of (tok t 5); so_serial = strv_of (tok t 6) })
         | "sig" ->
           let id = Int64.to_int (toki t 1) in
           Hashtbl.replace dtype id (Int64.to_int (toki t 4));
           wr name (WSig { sg_id = tokn t 1; sg_src = tokn t 2; sg_type = tokn t 3; sg_dtype = tokn t 4; sg_rate = tokn t 5;
                                sg_spd = tokn t 6; sg_sdf = tokn t 7; sg_eps = tokn t 8; sg_sumdf = tokn t 9; sg_adf = tokn t 10;
                                sg_udf = tokn t 11; sg_name = strv_of (tok t 12); sg_units = strv_of (tok t 13) })
         | "fsr" ->
           let sig_ = Int64.to_int (toki t 1) in
           let dt = (match Hashtbl.find_opt dtype (sig_ land 0xff) with Some d when d <> 0 -> d | _ -> 0x2004) in
           let count = Int64.to_int (toki t 3) and pat = Int64.to_int (toki t 4) and seed = toki t 5 in
           let samples = List.init count (fun k -> n_of_i64 (gen_sample dt pat seed (Int64.of_int k))) in
           wr name (WFsr (tokn t 1, tokz t 2, samples))
         | "omit" -> wr name (WOmit (tokn t 1, tokn t 2))
         | "anno" ->
           let st = Int64.to_int (toki t 6) in
           let is_str = (st = 2 || st = 3) in
           let data = (match gen_bytes (tok t 7) is_str with None -> [] | Some l -> if is_str then l @ [0] else l) in
           if null_sized (tok t 7) then emit (name ^ " E") else
           wr name (WAnno (tokn t 1, { an_ts = tokz t 2; an_y = n_of_hex (tok t 3); an_type = tokn t 4; an_group = tokn t 5;
                                            an_stype = tokn t 6; an_data = List.map (fun b -> byte_tab.(b)) data }))
         | "utc" -> wr name (WUtc (tokn t 1, tokz t 2, tokz t 3))
         | "ud" ->
           let st = Int64.to_int (toki t 2) in
           let is_str = (st = 2 || st = 3) in
           let data = (match gen_bytes (tok t 3) is_str with None -> [] | Some l -> if is_str then l @ [0] else l) in
           if null_sized (tok t 3) then emit (name ^ " E") else
           wr name (WUd { ud_meta = tokn t 1; ud_stype = tokn t 2; ud_data = List.map (fun b -> byte_tab.(b)) data })
         | "wflush" -> wr name WFlush
         | "wclose" -> emit "wclose 0"
         | "ropen" -> emit "ropen 0"
         | "rclose" -> emit "rclose 0"
         | "srcs" ->
           let l = rd_sources !c in
           emit (Printf.sprintf "srcs 0 %d%s" (List.length l)
                   (String.concat "" (List.map (fun s -> Printf.sprintf " %s,%s,%s,%s,%s,%s" (dec_of_n s.so_id)
                      (str_out (str_read s.so_name)) (str_out (str_read s.so_vendor)) (str_out (str_read s.so_model))
                      (str_out (str_read s.so_version)) (str_out (str_read s.so_serial))) l)))
         | "sigs" | "sigq" ->
           let all = rd_signals !c in
           let l = if name = "sigs" then Some all else
               (match List.filter (fun s -> s.ss_def.sg_id = tokn t 1) all with [] -> None | l -> Some l) in
           (match l with
            | None -> emit (name ^ " E")
            | Some l ->
              emit (Printf.sprintf "%s 0 %d%s" name (List.length l)
                      (String.concat "" (List.map (fun s -> let d = s.ss_def in
                         Printf.sprintf " %s,%s,%s,%s,%s,%s,%s,%s,%s,%s,%s,%s,%s,%s" (dec_of_n d.sg_id) (dec_of_n d.sg_src)
                           (dec_of_n d.sg_type) (dec_of_n d.sg_dtype) (dec_of_n d.sg_rate) (dec_of_n d.sg_spd) (dec_of_n d.sg_sdf)
                           (dec_of_n d.sg_eps) (dec_of_n d.sg_sumdf) (dec_of_n d.sg_adf) (dec_of_n d.sg_udf)
                           (dec_of_z (rd_offset s)) (str_out (str_read d.sg_name)) (str_out (str_read d.sg_units))) l))))
         | "len" ->
           (match find_sig !c (tokn t 1) with
            | Some s when s.ss_def.sg_type = jLS_SIGNAL_TYPE_FSR -> emit ("len 0 " ^ dec_of_n (rd_length s))
            | _ -> emit "len E")
         | "rd" | "rdn" ->
           let start = toki t 2 and count = toki t 3 in
           (match find_sig !c (tokn t 1) with
            | Some s when s.ss_def.sg_type = jLS_SIGNAL_TYPE_FSR ->
              if Int64.compare count 0L <= 0 then emit (name ^ " 0")
              else if Int64.compare start 0L < 0 then emit (name ^ " E")
              else (match rd_window s (n_of_i64 start) (n_of_i64 count) with
                  | None -> emit (name ^ " E")
                  | Some bytes ->
                    let il = ints_of_bytes bytes in
                    let nb = List.length il in
                    let head = List.filteri (fun i _ -> i < 24) il in
                    if name = "rdn" then emit (Printf.sprintf "rdn 0 %d" nb) else
                    emit (Printf.sprintf "rd 0 %d %016Lx %s" nb (fnv64 il) (String.concat "" (List.map (Printf.sprintf "%02x") head))))
            | _ -> emit (name ^ " E"))
         | "st" ->
           (* exact sums per window: "st 0 n:sum:sumsq:min:max ..." (decimal); E when outside the signal *)
           let start = toki t 2 and incr = toki t 3 and count = toki t 4 in
           (match find_sig !c (tokn t 1) with
            | Some s when s.ss_def.sg_type = jLS_SIGNAL_TYPE_FSR ->
              let len = Int64.of_int (List.length s.ss_samples) in
              if Int64.compare incr 0L <= 0 || Int64.compare start 0L < 0 then emit "st E"
              else if Int64.compare count 0L <= 0 then emit "st 0"
              else if Int64.compare incr len > 0 || Int64.compare count (Int64.div len incr) > 0
                      || Int64.compare start (Int64.sub len (Int64.mul incr count)) > 0 then emit "st E"
              else begin
                let dt = int_of_n s.ss_def.sg_dtype in
                let w = dt_bits dt in
                let signed = (dt land 0x0f) = 1 in
                let value (raw : n) : z =
                  let v = i64_of_n raw in
                  if dt_is_float dt then
                    (let f = if w = 32 then Int32.float_of_bits (Int64.to_int32 v) else Int64.float_of_bits v in
                     if Float.is_integer f then z_of_i64 (Int64.of_float f) else z_of_hex "7fffffffffffffff")
                  else if signed && w < 64 && Int64.logand v (Int64.shift_left 1L (w - 1)) <> 0L then
                    z_of_i64 (Int64.sub v (Int64.shift_left 1L w))
                  else if (not signed) && w = 64 then (match raw with N0 -> Z0 | Npos p -> Zpos p)
                  else z_of_i64 v in
                let vals = List.map value s.ss_samples in
                let ws = stats_windows vals (nat_of_int (Int64.to_int start)) (nat_of_int (Int64.to_int incr)) (nat_of_int (Int64.to_int count)) in
                let dec x = let h = hex_of_z x in (* decimal via OCaml arbitrary? values fit in 2 int64 limbs rarely; print hex *) h in
                emit ("st 0" ^ String.concat "" (List.map (fun (((sm, sq), mn), mx) ->
                    Printf.sprintf " %Ld:%s:%s:%s:%s" incr (dec sm) (dec sq) (dec mn) (dec mx)) ws))
              end
            | _ -> emit "st E")
         | "an" ->
           (match find_sig !c (tokn t 1) with
            | None -> emit "an E"
            | Some s ->
              let off = rd_offset s in
              let tq = Z.add (tokz t 2) off in      (* seek timestamp in file units *)
              let (lo, hi) = anno_seek_range s tq in
              let lo = int_of_nat lo and hi = int_of_nat hi in
              let stop = Int64.to_int (toki t 3) in
              let items = List.filteri (fun i _ -> i >= lo) s.ss_annos in
              let fmt a = Printf.sprintf " %s,%s,%s,%s,%s,%d,%016Lx" (dec_of_z (Z.add a.an_ts (Z.opp off)))
                  (dec_of_n a.an_type) (dec_of_n a.an_stype) (dec_of_n a.an_group) (hex_of_n a.an_y)
                  (List.length a.an_data) (fnv64 (ints_of_bytes a.an_data)) in
              emit (Printf.sprintf "an [%s ] 0 %d @%d stop=%d" (String.concat "" (List.map fmt items)) (List.length items) (hi - lo) stop))
         | "ut" ->
           (match find_sig !c (tokn t 1) with
            | Some s when s.ss_def.sg_type = jLS_SIGNAL_TYPE_FSR ->
              let off = rd_offset s in
              let items = utc_from s (Z.add (tokz t 2) off) in
              let stop = Int64.to_int (toki t 3) in
              emit (Printf.sprintf "ut [%s ] 0 %d stop=%d"
                      (String.concat "" (List.map (fun (i, u) -> Printf.sprintf " %s,%s" (dec_of_z (Z.add i (Z.opp off))) (dec_of_z u)) items))
                      (List.length items) stop)
            | _ -> emit "ut E")
         | "udr" ->
           let l = !c.c_udata in
           let stop = Int64.to_int (toki t 1) in
           emit (Printf.sprintf "udr [%s ] 0 %d stop=%d"
                   (String.concat "" (List.map (fun u -> Printf.sprintf " %s,%s,%d,%016Lx" (dec_of_n u.ud_meta) (dec_of_n u.ud_stype)
                                                  (List.length u.ud_data) (fnv64 (ints_of_bytes u.ud_data))) l))
                   (List.length l) stop)
         | _ -> emit (name ^ " ?"))) ops;
    print_endline (Buffer.contents out)))
