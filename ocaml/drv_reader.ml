(* kind "reader": the byte-level reader model (coq/ReaderModel.v, extracted) on a saved file.
   Input line  = <path of the file>;<reader op>;<reader op>;...      ops of harness/jlsrun_k_prog.h:
                 ropen | len sig | rd sig start count | rdall sig | an sig ts [stop] | ut sig id [stop] | udr [stop] | rclose
   Output line = the results of the ops in the text format of the C harness (kind prog), separated by ';'.
     A model fault ends the op's text with ` FAULT<code>` (RepairRaw.RpF_ / ReaderModel.RdmF_ codes) and every
     later op prints `<op> -`.   ropen on a file that makes the C enter its repair branch prints `ropen REPAIR`.
     An op that read a block reconstructed for an f32 / f64 signal (oracle rdm_recon: logf cosf sinf in the C)
     prints ` APPROX` after its text: its sample bytes are not comparable.  ` STALE` = the model read buffer
     bytes beyond the current payload (the C returns what earlier reads left there; the model has the same bytes).
   Glue (trusted for the correspondence only): file -> byte list, FNV-1a 64, text formatting, the caller's buffer
   (0xA5 / zero filled as the harness does), the stop rule of the harness callbacks, (float) of a double. *)
open Jlsmodel_ext
open Util

let rec rd_pos_of_u64 (v : int64) : positive =
  if v = 1L then XH
  else let r = rd_pos_of_u64 (Int64.shift_right_logical v 1) in
    if Int64.logand v 1L = 1L then XI r else XO r
let rd_n_of_u64 (v : int64) : n = if v = 0L then N0 else Npos (rd_pos_of_u64 v)
let rd_u64_of_n (x : n) : int64 =
  let rec go p = match p with
    | XH -> 1L
    | XO q -> Int64.shift_left (go q) 1
    | XI q -> Int64.logor (Int64.shift_left (go q) 1) 1L in
  match x with N0 -> 0L | Npos p -> go p
let rd_int_of_n (x : n) : int = Int64.to_int (rd_u64_of_n x)
let rd_n_of_int (i : int) : n = rd_n_of_u64 (Int64.of_int i)
let rd_z_of_i64 (v : int64) : z =
  if v = 0L then Z0
  else if Int64.compare v 0L > 0 then Zpos (rd_pos_of_u64 v)
  else Zneg (rd_pos_of_u64 (Int64.neg v))
let rd_i64_of_z (x : z) : int64 =
  match x with Z0 -> 0L | Zpos p -> rd_u64_of_n (Npos p) | Zneg p -> Int64.neg (rd_u64_of_n (Npos p))
let rd_byte_tab : n array = Array.init 256 rd_n_of_int

let rd_read_file (path : string) : n list =
  let ic = open_in_bin path in
  let len = in_channel_length ic in
  let s = really_input_string ic len in
  close_in ic;
  let r = ref [] in
  for i = len - 1 downto 0 do r := rd_byte_tab.(Char.code s.[i]) :: !r done;
  !r

let rd_fnv (l : int list) : int64 =
  List.fold_left (fun h b -> Int64.mul (Int64.logxor h (Int64.of_int b)) 0x100000001b3L) 0xcbf29ce484222325L l
let rd_ints (l : n list) : int list = List.map rd_int_of_n l

let rd_parse_i64 (s : string) : int64 =
  try Int64.of_string s with _ -> (try Int64.of_string ("0u" ^ s) with _ -> 0L)
let rd_tok l i = if i < List.length l then List.nth l i else "0"
let rd_toki l i = rd_parse_i64 (rd_tok l i)
let rd_tok_u16 l i = rd_n_of_u64 (Int64.logand (rd_toki l i) 0xffffL)

(* oracles *)
let rd_approx = ref false
let rd_recon (_ : bool) (_ : bool) (_ : z) (_ : n) (_ : n) (_ : n) : n list = rd_approx := true; []
let rd_f32_of_f64 (x : n) : n =
  rd_n_of_u64 (Int64.logand (Int64.of_int32 (Int32.bits_of_float (Int64.float_of_bits (rd_u64_of_n x)))) 0xffffffffL)

let rd_stopf (stop : int) (k : n) : bool = stop > 0 && rd_int_of_n k >= stop

let rd_repeat (v : int) (k : int) : n list = List.init k (fun _ -> rd_byte_tab.(v))

let () = register "reader" (fun ic ->
  iter_lines ic (fun line ->
    let ops = String.split_on_char ';' line in
    match ops with
    | [] -> print_endline ""
    | path :: ops ->
      let buf = Buffer.create 4096 in
      let t0 = Unix.gettimeofday () in
      let st : rdm_st option ref = ref None in
      let dead = ref false in
      let first = ref true in
      (try
        List.iter (fun op ->
          let t = split_ws op in
          match t with
          | [] -> ()
          | c :: _ ->
            if not !first then Buffer.add_char buf ';';
            first := false;
            Buffer.add_string buf c;
            if !dead then Buffer.add_string buf " -"
            else begin
              rd_approx := false;
              let finish (s1 : rdm_st) =
                let s1 = (if s1.rdm_stale then (Buffer.add_string buf " STALE";
                                               { s1 with rdm_stale = false }) else s1) in
                if !rd_approx then Buffer.add_string buf " APPROX";
                let f = rd_int_of_n (rdm_flt s1) in
                if f <> 0 then (Buffer.add_string buf (Printf.sprintf " FAULT%d" f); dead := true);
                st := Some (rdm_set_tr s1 []) in
              match c with
              | "ropen" ->
                (match rdm_open (rd_read_file path) with
                 | RdmOpened s0 ->
                   Buffer.add_string buf " 0";
                   let f = rd_int_of_n (rdm_flt s0) in
                   if f <> 0 then (Buffer.add_string buf (Printf.sprintf " FAULT%d" f); dead := true);
                   st := Some s0
                 | RdmOpenErr (rc, flt) ->
                   Buffer.add_string buf (Printf.sprintf " %d" (rd_int_of_n rc));
                   if rd_int_of_n flt <> 0 then (Buffer.add_string buf (Printf.sprintf " FAULT%d" (rd_int_of_n flt)); dead := true);
                   st := None
                 | RdmNeedsRepair -> Buffer.add_string buf " REPAIR"; dead := true; st := None)
              | "rclose" -> Buffer.add_string buf " 0"; st := None
              | _ ->
                (match !st with
                 | None -> Buffer.add_string buf " -1"
                 | Some s ->
                   (match c with
                    | "len" ->
                      let ((s1, rc), v) = rdm_fsr_length s (rd_tok_u16 t 1) in
                      let rc = rd_int_of_n rc in
                      Buffer.add_string buf (Printf.sprintf " %d %Ld" rc (if rc <> 0 then 0L else rd_i64_of_z v));
                      finish s1
                    | "rd" | "rdall" ->
                      let id = rd_tok_u16 t 1 in
                      let dt = (if rd_int_of_n (rp_signal_validate s.rdm_c id) = 0 then rd_int_of_n (rdm_def s id).sg_dtype else 0x2004) in
                      let w = (dt lsr 8) land 0xff in
                      if c = "rd" then begin
                        let start = rd_toki t 2 and count = rd_toki t 3 in
                        let nb = if Int64.compare count 0L > 0 then
                            (if Int64.compare count (Int64.shift_left 1L 26) > 0 then 16
                             else Int64.to_int (Int64.div (Int64.add (Int64.mul count (Int64.of_int w)) 7L) 8L)) else 0 in
                        let (((s1, rc), out), _) = rdm_fsr rd_recon rd_f32_of_f64 s id (rd_z_of_i64 start) (rd_z_of_i64 count) (rd_repeat 0xA5 nb) in
                        let rc = rd_int_of_n rc in
                        if rc = 0 && nb > 0 then begin
                          let b = Array.of_list (rd_ints out) in
                          let rem = Int64.to_int (Int64.rem (Int64.mul count (Int64.of_int w)) 8L) in
                          if rem <> 0 then b.(nb - 1) <- b.(nb - 1) land ((1 lsl rem) - 1);
                          let l = Array.to_list b in
                          Buffer.add_string buf (Printf.sprintf " 0 %d %016Lx " nb (rd_fnv l));
                          List.iteri (fun i x -> if i < 24 then Buffer.add_string buf (Printf.sprintf "%02x" x)) l
                        end else Buffer.add_string buf (Printf.sprintf " %d" rc);
                        finish s1
                      end else begin
                        let ((s1, rc), v) = rdm_fsr_length s id in
                        let rc = rd_int_of_n rc in
                        if rc <> 0 || rd_int_of_n (rdm_flt s1) <> 0 then (Buffer.add_string buf (Printf.sprintf " %d" rc); finish s1)
                        else begin
                          let n = rd_i64_of_z v in
                          let nb = if Int64.compare n 0L > 0 then Int64.to_int (Int64.div (Int64.add (Int64.mul n (Int64.of_int w)) 7L) 8L) else 0 in
                          if Int64.compare n 0L > 0 then begin
                            let (((s2, rc), out), _) = rdm_fsr rd_recon rd_f32_of_f64 s1 id Z0 v (rd_repeat 0 nb) in
                            let rc = rd_int_of_n rc in
                            if rc <> 0 then Buffer.add_string buf (Printf.sprintf " %d %Ld" rc n)
                            else begin
                              let b = Array.of_list (rd_ints out) in
                              let rem = Int64.to_int (Int64.rem (Int64.mul n (Int64.of_int w)) 8L) in
                              if rem <> 0 && nb > 0 then b.(nb - 1) <- b.(nb - 1) land ((1 lsl rem) - 1);
                              Buffer.add_string buf (Printf.sprintf " 0 %Ld %016Lx" n (rd_fnv (Array.to_list b)))
                            end;
                            finish s2
                          end else begin
                            Buffer.add_string buf (Printf.sprintf " 0 %Ld %016Lx" n (rd_fnv []));
                            finish s1
                          end
                        end
                      end
                    | "an" ->
                      let stop = Int64.to_int (rd_toki t 3) in
                      let ((s1, rc), items) = rdm_annotations s (rd_tok_u16 t 1) (rd_z_of_i64 (rd_toki t 2)) (rd_stopf stop) in
                      Buffer.add_string buf " [";
                      List.iter (fun (a : rdm_anno) ->
                        Buffer.add_string buf (Printf.sprintf " %Ld,%d,%d,%d,%x,%d,%016Lx" (rd_i64_of_z a.rdm_an_ts) (rd_int_of_n a.rdm_an_type)
                          (rd_int_of_n a.rdm_an_stype) (rd_int_of_n a.rdm_an_group) (rd_int_of_n a.rdm_an_y) (rd_int_of_n a.rdm_an_size)
                          (rd_fnv (rd_ints a.rdm_an_data)))) items;
                      Buffer.add_string buf (Printf.sprintf " ] %d %d" (rd_int_of_n rc) (List.length items));
                      finish s1
                    | "ut" ->
                      let stop = Int64.to_int (rd_toki t 3) in
                      let ((s1, rc), items) = rdm_utc s (rd_tok_u16 t 1) (rd_z_of_i64 (rd_toki t 2)) (rd_stopf stop) in
                      Buffer.add_string buf " [";
                      List.iter (fun (a, b) -> Buffer.add_string buf (Printf.sprintf " %Ld,%Ld" (rd_i64_of_z a) (rd_i64_of_z b))) items;
                      Buffer.add_string buf (Printf.sprintf " ] %d %d" (rd_int_of_n rc) (List.length items));
                      finish s1
                    | "udr" ->
                      let stop = Int64.to_int (rd_toki t 1) in
                      let ((s1, rc), items) = rdm_user_data s (rd_stopf stop) in
                      Buffer.add_string buf " [";
                      List.iter (fun (u : rdm_ud) ->
                        Buffer.add_string buf (Printf.sprintf " %d,%d,%d,%016Lx" (rd_int_of_n u.rdm_ud_meta) (rd_int_of_n u.rdm_ud_stype)
                          (List.length u.rdm_ud_data) (rd_fnv (rd_ints u.rdm_ud_data)))) items;
                      Buffer.add_string buf (Printf.sprintf " ] %d %d" (rd_int_of_n rc) (List.length items));
                      finish s1
                    | _ -> Buffer.add_string buf " ?"))
            end) ops
      with e -> Buffer.add_string buf (" MODELFAIL " ^ Printexc.to_string e));
      (* RDM_SLOW=<seconds>: report lines that took longer on stderr (performance diagnosis only) *)
      (match Sys.getenv_opt "RDM_SLOW" with
       | Some lim -> let dt = Unix.gettimeofday () -. t0 in
         if dt > float_of_string lim then prerr_endline (Printf.sprintf "SLOW %.1fs %s" dt (String.sub line 0 (min 400 (String.length line))))
       | None -> ());
      print_endline (Buffer.contents buf)))
