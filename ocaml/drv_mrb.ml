(* kind "mrb": same script as harness/jlsrun_k_mrb.h, executed on the extracted MrbModel.
     jlsmodel mrb [orig|fixed]          one result line per program line
     jlsmodel mrb gen <orig|fixed>      stdin lines "cap=<n> [sizes=a,b,..]": prints programs that together
                                        exercise every transition (sizes 0..cap+1 or the given ones, peek, pop) of every
                                        state reachable from the initial one in the model (BFS), then a line
                                        "#stats cap=.. states=.. edges=.. lines=.." *)
open Jlsmodel_ext
open Util

let rec ipos = function XH -> 1 | XO p -> 2 * ipos p | XI p -> 2 * ipos p + 1
let i_of_n = function N0 -> 0 | Npos p -> ipos p
let rec pos_i i = if i = 1 then XH else if i land 1 = 0 then XO (pos_i (i lsr 1)) else XI (pos_i (i lsr 1))
let n_i i = if i = 0 then N0 else Npos (pos_i i)

let pattern k n = List.init n (fun i -> byte_tab.((31 * k + 3 * i + 1) mod 251))

let digest (m : n list) : string =
  let a = Array.of_list (List.map i_of_n m) in
  let n = Array.length a in
  let hex lo hi = String.concat "" (List.init (hi - lo) (fun i -> Printf.sprintf "%02x" a.(lo + i))) in
  if n <= 24 then hex 0 n
  else begin
    let sum = Array.fold_left (fun s x -> (s + x) land 0xffffffff) 0 a in
    Printf.sprintf "%s..%s+%d" (hex 0 8) (hex (n - 8) n) sum
  end

let st s = Printf.sprintf "@%d,%d,%d " (i_of_n s.head) (i_of_n s.tail) (i_of_n s.count)
let fault_tok = function
  | OOB_write i -> Printf.sprintf "FAULT:W%d" (i_of_n i)
  | OOB_read i -> Printf.sprintf "FAULT:R%d" (i_of_n i)

exception Stop of string

type opk = A of int | K | P
let parse_ops toks =
  List.filter_map (fun t ->
    if t = "k" then Some K else if t = "p" then Some P
    else if String.length t > 2 && t.[0] = 'a' && t.[1] = ':' then Some (A (int_of_string (String.sub t 2 (String.length t - 2))))
    else None) toks
let parse_cap toks =
  List.fold_left (fun c t -> if String.length t > 4 && String.sub t 0 4 = "cap=" then int_of_string (String.sub t 4 (String.length t - 4)) else c) 0 toks

(* one op on the model; returns new state and the token (without the state suffix) *)
let do_op al s k = function
  | A n ->
    (match al s (n_i n) with
     | Fault f -> raise (Stop (fault_tok f))
     | Ok (s1, None) -> (s1, "a=NULL")
     | Ok (s1, Some p) ->
       (match fill_fast s1 p (pattern k n) with
        | Fault f -> raise (Stop (fault_tok f))
        | Ok s2 -> (s2, Printf.sprintf "a=%d" (i_of_n p))))
  | (K | P) as o ->
    let c = if o = K then "k" else "p" in
    (match (if o = K then peek s else pop s) with
     | Fault f -> raise (Stop (fault_tok f))
     | Ok (s1, None) -> (s1, c ^ "=NULL")
     | Ok (s1, Some (p, sz)) ->
       (match read_msg s1 p sz with
        | Fault f -> raise (Stop (fault_tok f))
        | Ok m -> (s1, Printf.sprintf "%s=%d:%d:%s" c (i_of_n p) (i_of_n sz) (digest m))))

let run_line al line =
  let toks = split_ws line in
  let cap = parse_cap toks in
  let b = Buffer.create 256 in
  (try
    let s = ref (init (n_i cap)) in
    let k = ref 0 in
    List.iter (fun o ->
      let (s1, tok) = do_op al !s !k o in
      (match o with A _ -> incr k | _ -> ());
      s := s1;
      Buffer.add_string b tok; Buffer.add_string b (st s1)) (parse_ops toks)
  with Stop f -> Buffer.add_string b f);
  print_endline (Buffer.contents b)

(* ---- state-space generation ---- *)
let op_str = function A n -> Printf.sprintf "a:%d" n | K -> "k" | P -> "p"
(* control state: head, tail and the chain of un-popped messages; `count` is left out (it only
   feeds `if (count) --count` and would make the defective original's state space infinite) *)
let key s = (i_of_n s.head, i_of_n s.tail,
             List.map (fun (o, z) -> (i_of_n o, i_of_n z)) (extents s))

let gen al cap sizes maxlen =
  let ids = Hashtbl.create 4096 in            (* key -> id *)
  let states = ref [||] in
  let parent = Hashtbl.create 4096 in         (* id -> (parent id, op) *)
  let nstates = ref 0 in
  let add s =
    let k = key s in
    match Hashtbl.find_opt ids k with
    | Some i -> (i, false)
    | None ->
      let i = !nstates in
      Hashtbl.add ids k i; incr nstates;
      if i >= Array.length !states then states := Array.append !states (Array.make (max 1024 i) s);
      (!states).(i) <- s; (i, true) in
  let all_ops = List.map (fun n -> A n) sizes @ [K; P] in
  let nops = List.length all_ops in
  let ops_a = Array.of_list all_ops in
  (* edges.(i).(j) = target id or -1 (fault) *)
  let edges = Hashtbl.create 4096 in
  let q = Queue.create () in
  let (i0, _) = add (init (n_i cap)) in
  Queue.add i0 q;
  while not (Queue.is_empty q) do
    let i = Queue.pop q in
    let s = (!states).(i) in
    let e = Array.make nops (-1) in
    Array.iteri (fun j o ->
      match (try Some (fst (do_op al s 0 o)) with Stop _ -> None) with
      | None -> e.(j) <- (-1)
      | Some s1 ->
        let (t, fresh) = add s1 in
        e.(j) <- t;
        if fresh then (Hashtbl.add parent t (i, o); Queue.add t q)) ops_a;
    Hashtbl.add edges i e
  done;
  let n = !nstates in
  let path_to i =
    let rec go i acc = if i = i0 then acc else let (p, o) = Hashtbl.find parent i in go p (o :: acc) in
    go i [] in
  let covered = Hashtbl.create 4096 in        (* (i, j) *)
  let uncov = Array.make n nops in
  let nedges = n * nops in
  let lines = ref 0 in
  (* greedy covering walks: from the start state follow the BFS-tree path to a state with
     uncovered transitions, there take first every uncovered transition that does not leave
     the state, then one that does (a faulting one ends the line), and continue from there *)
  let next_with_uncov = ref 0 in
  let finished = ref false in
  while not !finished do
    while !next_with_uncov < n && uncov.(!next_with_uncov) = 0 do incr next_with_uncov done;
    if !next_with_uncov >= n then finished := true
    else begin
      let start = !next_with_uncov in
      let prog = ref (List.rev (path_to start)) in   (* reversed op list *)
      let cur = ref start in
      let count = ref (List.length !prog) in
      let go = ref true in
      while !go do
        let e = Hashtbl.find edges !cur in
        let leave = ref (-1) in
        Array.iteri (fun j o ->
          if not (Hashtbl.mem covered (!cur, j)) then begin
            if e.(j) = !cur then begin
              Hashtbl.add covered (!cur, j) (); uncov.(!cur) <- uncov.(!cur) - 1;
              prog := o :: !prog; incr count
            end else if !leave < 0 || (e.(!leave) < 0 && e.(j) >= 0) then leave := j
          end) ops_a;
        if !leave < 0 || !count > maxlen then go := false
        else begin
          let j = !leave in
          Hashtbl.add covered (!cur, j) (); uncov.(!cur) <- uncov.(!cur) - 1;
          prog := ops_a.(j) :: !prog; incr count;
          if e.(j) < 0 then go := false else cur := e.(j)
        end
      done;
      incr lines;
      print_endline (Printf.sprintf "cap=%d %s" cap (String.concat " " (List.rev_map op_str !prog)))
    end
  done;
  print_endline (Printf.sprintf "#stats cap=%d states=%d edges=%d lines=%d" cap n nedges !lines)

let () = register "mrb" (fun ic ->
  let argn k = if Array.length Sys.argv > k then Sys.argv.(k) else "" in
  let sel v = if v = "fixed" then alloc_fixed else alloc in
  if argn 2 = "gen" then begin
    let al = sel (argn 3) in
    iter_lines ic (fun line ->
      let toks = split_ws line in
      let cap = parse_cap toks in
      let sizes = List.fold_left (fun c t ->
          if String.length t > 6 && String.sub t 0 6 = "sizes=" then
            List.map int_of_string (String.split_on_char ',' (String.sub t 6 (String.length t - 6)))
          else c) (List.init (cap + 2) (fun n -> n)) toks in
      gen al cap sizes 600)
  end else begin
    let al = sel (argn 2) in
    iter_lines ic (fun line -> run_line al line)
  end)
