(* kind "sd_sigdef" (C16): same script as harness/jlsrun_k_sigdef.h.
     <data_type> <spd> <sdf> <eps> <sumdf> <sd_anno> <sd_utc> [<signal_id> <source_id> <signal_type>]
     (a leading "F" - whole path through a file on the C side - is the same computation here)
   numbers decimal or 0x-hex, all < 2^32 (the C side stores them in uint32_t fields).
   argv[2] selects what is printed:
     align (default)  the result line of the C: "<rc> <6 fields>" | "FAULT SIGFPE" | "FAULT TIMEOUT"
                      rc 0: the stored parameters; rejected by validation: the fields as given; rejected by
                      jls_core_signal_def_align: the fields after defaults (what the C leaves in the struct)
     loopargs         "<eps1> <epd0>" = the loop's arguments (0 0 if rejected before the loop); the loop itself
                      is NOT run in this mode (used to budget long-running cases)
     consistent       the line is a stored definition; prints "<11 clause bits of Consistent> <Entry256 bit>" *)
open Jlsmodel_ext
open Util
let n_of_tok (s : string) : n =
  let i = int_of_string s in           (* accepts 0x.. and decimal; OCaml int is 63 bits *)
  if i < 0 || i > 0xffffffff then failwith ("out of uint32 range: " ^ s) else n_of_int i
let dec_of_n (x : n) : string = string_of_int (int_of_n x)
let bits (l : bool list) : string = String.concat "" (List.map (fun b -> if b then "1" else "0") l)
let fields (d : sd_sigdef) : string =
  String.concat " " (List.map dec_of_n [d.spd; d.sdf; d.eps; d.sumdf; d.sd_anno; d.sd_utc])
let () = register "sigdef" (fun ic ->
  let mode = if Array.length Sys.argv > 2 then Sys.argv.(2) else "align" in
  iter_lines ic (fun line ->
    let toks = match split_ws line with "F" :: r -> r | r -> r in
    match (try Some (List.map n_of_tok toks) with _ -> None) with
    | Some (dt :: a :: b :: c :: e :: f :: g :: rest) when rest = [] || List.length rest = 3 ->
      let d = { spd = a; sdf = b; eps = c; sumdf = e; sd_anno = f; sd_utc = g } in
      let (sid, src, ty) = match rest with [x; y; z] -> (x, y, z) | _ -> (n_of_int 1, n_of_int 1, N0) in
      let w = sample_size dt in
      (match mode with
       | "align" ->
         (match sd_define sid src ty dt d with
          | Inl rc -> print_endline (dec_of_n rc ^ " " ^ fields d)
          | Inr (SdOk (d', _)) -> print_endline ("0 " ^ fields d')
          | Inr (SdErr rc) -> print_endline (dec_of_n rc ^ " " ^ fields (sd_defaults w d))
          | Inr (SdFault SdDivZero) -> print_endline "FAULT SIGFPE"
          | Inr (SdFault SdNonterm) -> print_endline "FAULT TIMEOUT")
       | "loopargs" ->
         let (e1, e0) = if sd_validate sid src ty dt = N0 then sd_loop_args w d else (N0, N0) in
         print_endline (dec_of_n e1 ^ " " ^ dec_of_n e0)
       | "consistent" ->
         print_endline (bits (consistent_clauses w d) ^ " " ^ bits [entry256b w d])
       | _ -> failwith "mode")
    | _ -> print_endline "?"))
