(* kind "summ": the numeric content of the FSR summaries (coq/SummQ.v) on given samples.
   One case per line:
     L d sumdf nlevels | v v v ...          v = signed decimal integer, or n (NaN / fill)
       -> for each level 1..nlevels:  "L<k> e;e;..." joined by " | ",
          e = mean,var,min,max each <signed hex num>/<hex den> or nan  (var = std^2)
     R d sumdf top l0ok start incr count | v v v ...
       -> OK mean,var,min,max;...   |  ERR  |  NAN  |  FAULT_<name>        (jls_rd_fsr_statistics) *)
open Jlsmodel_ext
open Util
let zi_s (i : int) : z = if i < 0 then z_of_hex (Printf.sprintf "-%x" (-i)) else z_of_hex (Printf.sprintf "%x" i)
let str_q (x : q) : string = hex_of_z x.qnum ^ "/" ^ hex_of_n (Npos x.qden)
let str_oq = function None -> "nan" | Some x -> str_q x
let rec split_bar_s acc cur = function
  | [] -> List.rev (List.rev cur :: acc)
  | "|" :: r -> split_bar_s (List.rev cur :: acc) [] r
  | x :: r -> split_bar_s acc (x :: cur) r
let sample (t : string) : q option =
  if t = "n" then None else Some { qnum = zi_s (int_of_string t); qden = XH }
let () = register "summ" (fun ic ->
  iter_lines ic (fun line ->
    try
      match split_bar_s [] [] (split_ws line) with
      | ["L"; d; sumdf; nl] :: rest ->
        let vs = List.map sample (match rest with v :: _ -> v | [] -> []) in
        let d = nat_of_int (int_of_string d) and sumdf = nat_of_int (int_of_string sumdf) in
        let nl = int_of_string nl in
        let l1 = sq_level1 d vs in
        let buf = Buffer.create 65536 in
        let cur = ref l1 in
        for k = 1 to nl do
          if k > 1 then (Buffer.add_string buf " | "; cur := sq_level_next sumdf !cur);
          Buffer.add_string buf (Printf.sprintf "L%d " k);
          Buffer.add_string buf (String.concat ";" (List.map (fun e ->
            String.concat "," [str_oq e.se_mean; str_oq e.se_var; str_oq e.se_min; str_oq e.se_max]) !cur))
        done;
        print_endline (Buffer.contents buf)
      | ["R"; d; sumdf; top; l0; start; incr; count] :: rest ->
        let vs = List.map sample (match rest with v :: _ -> v | [] -> []) in
        let i s = int_of_string s in
        (match sq_rd_statistics (nat_of_int (i d)) (nat_of_int (i sumdf)) vs (nat_of_int (i top)) (l0 = "1")
                 (zi_s (i start)) (zi_s (i incr)) (zi_s (i count)) with
         | SqOk outs -> print_endline ("OK " ^ String.concat ";" (List.map (fun o ->
             String.concat "," [str_q o.so_mean; str_q o.so_var; str_q o.so_min; str_q o.so_max]) outs))
         | SqErr -> print_endline "ERR"
         | SqNaN -> print_endline "NAN"
         | SqFault SF_DivZero -> print_endline "FAULT_DIVZERO"
         | SqFault SF_Nonterm -> print_endline "FAULT_NONTERM")
      | _ -> print_endline "BAD"
    with Failure _ | Invalid_argument _ -> print_endline "BAD"))
