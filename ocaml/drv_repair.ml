(* kind "repair": the model of repair-on-open (coq/RepairModel.v rp_open, extracted) on a file image.
   Input line  = <path of the image file> [<n>]     n = number of consecutive opens (default 2)
   Output line = one group per open, groups separated by " || ":
       rc:<rc>|fault:<code>|did:<bit 0: repair branch entered, bit 1: rp_uninit_ppl, bit 2: the END chunk was written at rp_end_off <> end of file>|len:<bytes>|hash:<fnv64 of the file afterwards>|<entry>|<entry>|...
     entries   = the model's backend events in the `logdump` text format: `t <len>`, `w <offset> <hex>`, `s`
   Each further open runs on the file the previous one left.
   The float oracles summ1/summN are the ones of drv_wmodel.ml (same trusted glue). *)
open Jlsmodel_ext
open Util
open Drv_wmodel

let rp_read_file (path : string) : n list =
  let ic = open_in_bin path in
  let len = in_channel_length ic in
  let s = really_input_string ic len in
  close_in ic;
  let r = ref [] in
  for i = len - 1 downto 0 do r := wm_byte_tab.(Char.code s.[i]) :: !r done;
  !r

let rp_hash (l : n list) : int * int64 =
  let h = ref wm_fnv64_init and k = ref 0 in
  List.iter (fun b -> h := wm_fnv64_step !h (wm_int_of_n b); incr k) l;
  (!k, !h)

let () = register "repair" (fun ic ->
  iter_lines ic (fun line ->
    match split_ws line with
    | [] -> print_endline ""
    | path :: rest ->
      let n = (match rest with x :: _ -> int_of_string x | [] -> 2) in
      let buf = Buffer.create 65536 in
      (try
        let f = ref (rp_read_file path) in
        for i = 1 to n do
          if i > 1 then Buffer.add_string buf " || ";
          let r = rp_open wm_summ1 wm_summN !f in
          let (len, h) = rp_hash r.rp_after in
          Buffer.add_string buf (Printf.sprintf "rc:%d|fault:%d|did:%d|len:%d|hash:%016Lx"
            (wm_int_of_n r.rp_rc) (wm_int_of_n r.rp_fault) ((if r.rp_did then 1 else 0) + (if r.rp_uninit_ppl then 2 else 0)
             + (let eo = wm_int_of_n r.rp_end_off in if eo <> 0 && eo + 32 <> len then 4 else 0)) len h);
          List.iter (fun e -> Buffer.add_char buf '|'; wm_print_entry buf false e) r.rp_events;
          f := r.rp_after
        done
      with e -> Buffer.add_string buf ("MODELFAIL " ^ Printexc.to_string e));
      print_endline (Buffer.contents buf)))
