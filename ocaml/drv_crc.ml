(* kind "crc": same script as harness/jlsrun_k_crc.h.
     b <align> <hex> | g <pattern> <seed> <len> <align> | h <hex32>
   argv[2] selects the model function: spec (bit-serial reference), table, slice8, hw *)
open Jlsmodel_ext
open Util
let xs32 s = let x = !s in
  let x = x lxor ((x lsl 13) land 0xffffffff) in
  let x = x lxor (x lsr 17) in
  let x = x lxor ((x lsl 5) land 0xffffffff) in s := x; x
let gen_pattern n pattern seed =
  let s = ref (if seed = 0 then 1 else seed) in
  List.init n (fun i -> byte_tab.(match pattern with
    | 0 -> 0 | 1 -> 0xff | 2 -> (i + seed) land 0xff | _ -> ((xs32 s) lsr 11) land 0xff))
let () = register "crc" (fun ic ->
  let variant = if Array.length Sys.argv > 2 then Sys.argv.(2) else "table" in
  let f a bytes = match variant with
    | "spec" -> crc_spec bytes | "table" -> crc32c bytes
    | "slice8" -> crc_slice8 a bytes | "hw" -> crc_hw a bytes | _ -> failwith "variant" in
  let fh bytes = match variant with
    | "spec" -> crc_spec (List.filteri (fun i _ -> i < 28) bytes)
    | "table" -> crc32c (List.filteri (fun i _ -> i < 28) bytes)
    | "slice8" -> crc_hdr_slice8 N0 bytes | "hw" -> crc_hdr_hw bytes | _ -> failwith "variant" in
  iter_lines ic (fun line ->
    match split_ws line with
    | "b" :: a :: rest ->
      let bytes = bytes_of_hexstr (match rest with [] -> "" | h :: _ -> h) in
      print_endline (hex_of_n (f (n_of_int (int_of_string a)) bytes))
    | ["g"; p; s; l; a] ->
      let bytes = gen_pattern (int_of_string l) (int_of_string p) (int_of_string s) in
      print_endline (hex_of_n (f (n_of_int (int_of_string a)) bytes))
    | ["h"; h] -> print_endline (hex_of_n (fh (bytes_of_hexstr h)))
    | _ -> print_endline "?"))
