(* kind "twr": replays the event trace of harness/twr_sched.c (twrrun) on the extracted
   interleaving model TwrModel.tw_step: same scheduler decisions, and the model must predict
   every wrapped call and its result.
     jlsmodel twr [fx1]                 (fx1: repaired close protocol)  stdin lines: <queue size> TAB <script line> TAB <twrrun result line>
                                        -> "OK steps=<n> ..." | "MISMATCH ..." | "SKIP <why>"
     jlsmodel twr enum <size> <bound> <max>
                                        stdin: script lines; prints every schedule of the program with at most
                                        <bound> preemptions (a forced time jump to the next wake-up while something
                                        is runnable counts as a preemption), one per line, then "#done <n>"
   Script grammar: see harness/twr_sched.c. *)
open Jlsmodel_ext
open Util

let rec n_of_int_fast (i : int) : n =
  if i = 0 then N0 else
    let rec pos i = if i = 1 then XH else if i land 1 = 1 then XI (pos (i lsr 1)) else XO (pos (i lsr 1)) in
    Npos (pos i)
let int_of_n_fast (x : n) : int = match x with
  | N0 -> 0
  | Npos p -> let rec go p = match p with XH -> 1 | XO q -> 2 * go q | XI q -> 2 * go q + 1 in go p

(* protocol variant of the model: "fx1" on the command line = repaired close (TwrModel fx = true) *)
let fx = Array.exists (fun a -> a = "fx1") Sys.argv

let dt_bits = function
  | "f32" | "u32" | "i32" -> 32 | "f64" | "u64" | "i64" -> 64 | "u1" -> 1 | "u4" | "i4" -> 4
  | "u8" | "i8" -> 8 | "u16" | "i16" -> 16 | "u24" -> 24 | _ -> 32

exception Skip of string

let zeros k = List.init k (fun _ -> N0)
let hdr = 40

(* programs of the script -> model calls; the table of entry sizes is the script-level one
   (every id defined once, before use, by the producer that uses it) *)
let parse_progs (f2 : string) (f3 : string) : tw_call list list =
  let bits : (int, int) Hashtbl.t = Hashtbl.create 8 in
  let prog pi (s : string) : tw_call list =
    let ops = List.filter (fun x -> String.trim x <> "") (String.split_on_char ';' s) in
    let idx = ref (-1) in
    let calls = List.filter_map (fun op ->
      match split_ws op with
      | "close" :: _ -> None
      | toks ->
        incr idx;
        let a k = int_of_string (List.nth toks k) in
        Some (match toks with
        | "src" :: _ -> TwCDef (n_of_int_fast !idx)
        | "sig" :: _ ->
          let id = a 1 in
          if id >= 256 || Hashtbl.mem bits id then raise (Skip "signal id out of range or defined twice");
          Hashtbl.replace bits id (dt_bits (List.nth toks 3));
          TwCDef (n_of_int_fast !idx)
        | "fsr" :: _ ->
          let id = a 1 in
          (match Hashtbl.find_opt bits id with
           | None -> raise (Skip "fsr on an undefined signal: entry size is uninitialised memory")
           | Some b -> TwCSend (TwMkFsr, zeros (hdr - 1 + (a 2 * b + 7) / 8)))
        | "ann" :: _ -> TwCSend (TwMkAnn, zeros (hdr - 1 + a 3 + 1))
        | "utc" :: _ -> TwCSend (TwMkUtc, zeros (hdr - 1))
        | "ud" :: _ -> TwCSend (TwMkUser, zeros (hdr - 1 + a 2))
        | "omit" :: _ -> TwCSend (TwMkOmit, zeros (hdr - 1))
        | "flush" :: _ -> TwCFlush
        | "flags" :: _ -> TwCFlags (a 1 land 1 = 1)
        | _ -> raise (Skip ("unknown op " ^ op)))) ops in
    if pi = 0 then calls @ [TwCClose] else calls in
  let p0 = prog 0 f2 in
  if String.trim f3 = "-" || String.trim f3 = "" then [p0] else [p0; prog 1 f3]

let tid_of_int = function 2 -> TwTCons | i -> TwTProd (nat_of_int i)
let int_of_tid = function TwTCons -> 2 | TwTProd i -> int_of_nat i

let ev_string (e : tw_ev) : string option =
  let t x = string_of_int (int_of_tid x) in
  let ni = int_of_n_fast in
  match e with
  | TwEvB x -> Some (t x ^ "B") | TwEvL (x, m) -> Some (Printf.sprintf "%sL%d" (t x) (ni m))
  | TwEvU (x, m) -> Some (Printf.sprintf "%sU%d" (t x) (ni m)) | TwEvW x -> Some (t x ^ "W") | TwEvR x -> Some (t x ^ "R")
  | TwEvS x -> Some (t x ^ "S") | TwEvN (x, ms) -> Some (Printf.sprintf "%sN%d" (t x) (ni ms)) | TwEvZ x -> Some (t x ^ "Z")
  | TwEvJ x -> Some (t x ^ "J") | TwEvH x -> Some (t x ^ "H") | TwEvX x -> Some (t x ^ "X")
  | TwEvNow (x, now) -> Some (Printf.sprintf "%sg%d" (t x) (ni now))
  | TwEvAlloc (x, sz, None) -> Some (Printf.sprintf "%sa%d:-" (t x) (ni sz))
  | TwEvAlloc (x, sz, Some p) -> Some (Printf.sprintf "%sa%d:%d" (t x) (ni sz) (ni p))
  | TwEvPeek (x, None) -> Some (t x ^ "p-") | TwEvPeek (x, Some (p, sz)) -> Some (Printf.sprintf "%sp%d:%d" (t x) (ni p) (ni sz))
  | TwEvPop (x, None) -> Some (t x ^ "q-") | TwEvPop (x, Some (p, sz)) -> Some (Printf.sprintf "%sq%d:%d" (t x) (ni p) (ni sz))
  | TwEvCall (x, i) -> Some (Printf.sprintf "%sc%d" (t x) (int_of_nat i))
  | TwEvRet (x, i, _, None) -> Some (Printf.sprintf "%sr%d=*" (t x) (int_of_nat i))
  | TwEvRet (x, i, _, Some rc) -> Some (Printf.sprintf "%sr%d=%d" (t x) (int_of_nat i) (ni rc))
  | TwEvFlushed _ | TwEvTicket _ | TwEvTick _ -> None

(* events added by a step: the new trace shares its tail with the old one *)
let new_events (old_tr : tw_ev list) (new_tr : tw_ev list) : tw_ev list =
  let rec go l acc = if l == old_tr then acc else match l with [] -> acc | e :: r -> go r (e :: acc) in
  go new_tr []

let is_sched_tok (s : string) = String.length s >= 2 && (match s.[1] with 'B' | 'L' | 'U' | 'W' | 'R' | 'S' | 'N' | 'Z' | 'J' | 'H' -> true | _ -> false)
let ignored_tok (s : string) =
  String.length s < 2 || (match s.[1] with 'o' | 'w' | 'f' | 't' | 'h' | 'k' | 'C' | '!' -> true | _ -> false)
  || (String.length s >= 4 && String.sub s 1 3 = "r-1")

let tok_match (model : string) (c : string) =
  let lm = String.length model in
  if lm > 0 && model.[lm - 1] = '*' then
    String.length c >= lm - 1 && String.sub c 0 (lm - 1) = String.sub model 0 (lm - 1)
  else model = c

let find_sub (s : string) (sub : string) : int =
  let n = String.length s and m = String.length sub in
  let rec go i = if i + m > n then -1 else if String.sub s i m = sub then i else go (i + 1) in
  go 0

let field (toks : string list) (key : string) : string =
  let k = key ^ "=" in
  let lk = String.length k in
  match List.find_opt (fun t -> String.length t >= lk && String.sub t 0 lk = k) toks with
  | Some t -> String.sub t lk (String.length t - lk) | None -> ""

let replay (size : int) (script : string) (result : string) : string =
  match String.split_on_char '|' script with
  | [_; _; f2; f3; _] ->
    (try
      let progs = parse_progs f2 f3 in
      let tr_pos = find_sub result " tr=" in
      if tr_pos < 0 then "SKIP no trace" else
      let head = String.sub result 0 tr_pos in
      let trace = String.sub result (tr_pos + 4) (String.length result - tr_pos - 4) in
      let htoks = split_ws head in
      let st = field htoks "st" in
      if int_of_string (field htoks "q") <> size then "MISMATCH queue size of the binary" else
      let ec = String.split_on_char ',' (field htoks "ec") in
      if st <> "OK" && st <> "DEADLOCK" && st <> "LIVELOCK" then "SKIP status " ^ st else
      if (match ec with b :: t :: _ -> int_of_string b <> int_of_n_fast tw_EBUSY || int_of_string t <> int_of_n_fast tw_ETIMEDOUT | _ -> true)
      then "MISMATCH error code constants" else
      let toks = Array.of_list (List.filter (fun x -> x <> "END") (split_ws trace)) in
      let n = Array.length toks in
      let s = ref (tw_init (n_of_int_fast size) progs) in
      let steps = ref 0 in
      let i = ref 0 in
      let err = ref None in
      while !err = None && !i < n do
        let tk = toks.(!i) in
        if tk.[0] = 'T' then begin
          s := tw_tick !s (n_of_int_fast (int_of_string (String.sub tk 1 (String.length tk - 1))));
          incr i
        end else if ignored_tok tk then incr i
        else if not (is_sched_tok tk) then begin
          err := Some (Printf.sprintf "event %d (%s): local event outside a step" !i tk)
        end else begin
          let tid = Char.code tk.[0] - 48 in
          (* harness events of this step: up to the next scheduling token or tick *)
          let j = ref (!i + 1) in
          let grp = ref [tk] in
          while !j < n && not (toks.(!j).[0] = 'T') && not (is_sched_tok toks.(!j)) do
            if not (ignored_tok toks.(!j)) then grp := toks.(!j) :: !grp;
            incr j
          done;
          let grp = List.rev !grp in
          (match tw_step fx !s (tid_of_int tid) with
           | None -> err := Some (Printf.sprintf "step %d (%s): the model says thread %d is blocked" !steps tk tid)
           | Some s' ->
             let evs = List.filter_map ev_string (new_events (!s).tw_trace s'.tw_trace) in
             let rec cmp a b = match a, b with
               | [], [] -> true
               | x :: a', y :: b' -> tok_match x y && cmp a' b'
               | _ -> false in
             if Sys.getenv_opt "TWR_DEBUG" <> None then prerr_endline (Printf.sprintf "step %d: harness [%s] model [%s]" !steps (String.concat " " grp) (String.concat " " evs));
             if not (cmp evs grp) then
               err := Some (Printf.sprintf "step %d: harness [%s] model [%s]" !steps (String.concat " " grp) (String.concat " " evs))
             else begin s := s'; incr steps end);
          i := !j
        end
      done;
      (match !err with
       | Some e -> "MISMATCH " ^ e
       | None ->
         let s = !s in
         (* final status, accepted order, applied order *)
         let acc = String.concat "," (List.map (fun ((i, c), _) -> Printf.sprintf "%d.%d" (int_of_nat i) (int_of_nat c)) s.tw_accepted) in
         let acc = if acc = "" then "-" else acc in
         let k = ref (-1) in
         let app = String.concat "," (List.filter_map (fun a -> match a with
           | TwADef (i, d) -> Some (Printf.sprintf "d%d.%d" (int_of_nat i) (int_of_n_fast d))
           | TwAMsg _ -> incr k; Some (Printf.sprintf "m%d" !k)
           | TwAEnd -> None) s.tw_applied) in
         let app = if app = "" then "-" else app in
         if s.tw_fault <> None then "MISMATCH model fault (out-of-bounds queue access)"
         else if st = "OK" && not (tw_final s) then "MISMATCH harness finished, model state not final"
         else if st = "DEADLOCK" && not (tw_deadlocked fx s) then "MISMATCH harness DEADLOCK, model not deadlocked"
         else if acc <> field htoks "acc" then Printf.sprintf "MISMATCH accepted: harness %s model %s" (field htoks "acc") acc
         else if app <> field htoks "app" then Printf.sprintf "MISMATCH applied: harness %s model %s" (field htoks "app") app
         else if st = "OK" && List.length (tw_processed s) <> List.length (tw_acc_msgs s) then "MISMATCH model: processed <> accepted at the end"
         else Printf.sprintf "OK steps=%d st=%s" !steps st)
    with Skip why -> "SKIP " ^ why
       | Failure why -> "SKIP unparsable: " ^ why)
  | _ -> "SKIP bad script line"

(* ---- enumeration of schedules with a preemption bound ---- *)
let earliest_wake (s : tw_state) : int option =
  let now = int_of_n_fast s.tw_now in
  List.fold_left (fun acc p -> match p.tw_pt_pc with
    | TwPSendWake (_, w) | TwPFlushWake (_, _, _, w) ->
      let w = int_of_n_fast w in
      if w > now then (match acc with None -> Some w | Some a -> Some (min a w)) else acc
    | _ -> acc) None s.tw_prods

let enum (size : int) (bound : int) (maxn : int) (script : string) : unit =
  match String.split_on_char '|' script with
  | [_; _; f2; f3; _] ->
    let progs = (try parse_progs f2 f3 with _ -> []) in
    if progs = [] then print_endline "#skip" else begin
    let nthreads = List.length progs in
    let tids = List.init nthreads (fun i -> i) @ [2] in
    let count = ref 0 in
    let emit (rev_sched : string list) =
      (* run-length compress *)
      let l = List.rev rev_sched in
      let buf = Buffer.create 256 in
      let rec go l = match l with
        | [] -> ()
        | x :: r when x.[0] <> 'T' ->
          let rec cnt k r = match r with y :: r' when y = x -> cnt (k + 1) r' | _ -> (k, r) in
          let (k, r') = cnt 1 r in
          if Buffer.length buf > 0 then Buffer.add_char buf ',';
          Buffer.add_string buf (if k > 1 then Printf.sprintf "%s*%d" x k else x); go r'
        | x :: r -> if Buffer.length buf > 0 then Buffer.add_char buf ','; Buffer.add_string buf x; go r in
      go l; print_endline (Buffer.contents buf); incr count in
    let rec dfs (s : tw_state) (last : int) (used : int) (sched : string list) (depth : int) : unit =
      if !count >= maxn then () else
      if depth > 40000 then emit sched else
      let en = List.filter (fun t -> tw_enabled fx s (tid_of_int t)) tids in
      match en with
      | [] ->
        (match earliest_wake s with
         | Some w ->
           let d = w - int_of_n_fast s.tw_now in
           dfs (tw_tick s (n_of_int_fast d)) last used (("T" ^ string_of_int d) :: sched) (depth + 1)
         | None -> emit sched)
      | _ ->
        let last_en = List.mem last en in
        let order = if last_en then last :: List.filter (fun t -> t <> last) en else en in
        List.iter (fun t ->
          let cost = if last_en && t <> last then 1 else 0 in
          if used + cost <= bound then
            match tw_step fx s (tid_of_int t) with
            | Some s' -> dfs s' t (used + cost) (string_of_int t :: sched) (depth + 1)
            | None -> ()) order;
        (* starving the runnable threads while somebody sleeps: jump to its wake-up *)
        (match earliest_wake s with
         | Some w when used + 1 <= bound ->
           let d = w - int_of_n_fast s.tw_now in
           dfs (tw_tick s (n_of_int_fast d)) last (used + 1) (("T" ^ string_of_int d) :: sched) (depth + 1)
         | _ -> ()) in
    dfs (tw_init (n_of_int_fast size) progs) (-1) 0 [] 0;
    Printf.printf "#done %d\n" !count end
  | _ -> print_endline "#skip"

let () = register "twr" (fun ic ->
  let argv = Array.of_list (List.filter (fun a -> a <> "fx1") (Array.to_list Sys.argv)) in
  if Array.length argv > 2 && argv.(2) = "enum" then begin
    let size = int_of_string argv.(3) and bound = int_of_string argv.(4) and maxn = int_of_string argv.(5) in
    iter_lines ic (fun line -> enum size bound maxn line)
  end else
    iter_lines ic (fun line ->
      match String.split_on_char '\t' line with
      | [sz; script; result] -> print_endline (try replay (int_of_string sz) script result with e -> "SKIP exception " ^ Printexc.to_string e)
      | _ -> print_endline "SKIP bad input"))
