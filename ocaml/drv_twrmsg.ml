(* kind "twrmsg": the message format of the threaded writer (coq/TwrMsg.v), same script as the C probe that
   tools/props/TWM.py generates.  All numbers in hex (signed: -ff).  One call per line:
     fsr <bits> <sig> <sid> <count> <data>      table entry of <sig> = <bits>
     ud <meta> <stype> <data_size> <data>
     ann <sig> <ts> <ybits> <atype> <group> <stype> <data_size> <data>
     utc <sig> <sid> <utc> | omit <sig> <en> | flush | close
   <data>: - NULL pointer, . empty buffer, else hex bytes.
   Result: rc <code> | FAULT | ok <message bytes hex> <the call jls_twr_run makes> *)
open Jlsmodel_ext
open Util
let buf_of s = if s = "-" then TmNull else if s = "." then TmBuf [] else TmBuf (bytes_of_hexstr s)
let show_call = function
  | TmWUser (meta, st, d, sz) -> Printf.sprintf "user %s %s %s %s" (hex_of_n meta) (hex_of_n st) (hex_of_n sz) (hexstr_of_bytes d)
  | TmWFsr (sg, sid, d, cnt) -> Printf.sprintf "fsr %s %s %s %s" (hex_of_n sg) (hex_of_z sid) (hex_of_n cnt) (hexstr_of_bytes d)
  | TmWOmit (sg, en) -> Printf.sprintf "omit %s %s" (hex_of_n sg) (hex_of_n en)
  | TmWAnn (sg, ts, y, at, gr, st, d, sz) ->
    Printf.sprintf "ann %s %s %s %s %s %s %s %s" (hex_of_n sg) (hex_of_z ts) (hex_of_n y) (hex_of_n at) (hex_of_n gr) (hex_of_n st)
      (hex_of_n sz) (hexstr_of_bytes d)
  | TmWUtc (sg, sid, utc) -> Printf.sprintf "utc %s %s %s" (hex_of_n sg) (hex_of_z sid) (hex_of_z utc)
  | TmWFlush id -> Printf.sprintf "flush %s" (hex_of_n id)
  | TmWQuit -> "quit"
  | TmWNone ty -> Printf.sprintf "none %s" (hex_of_n ty)
let () = register "twrmsg" (fun ic ->
  let flush_id = ref 0 in
  let zero_tbl = fun _ -> N0 in
  let out ?(nfcheck = true) tbl c =
    match tm_encode tbl c with
    | TmRej rc -> print_endline ("rc " ^ hex_of_n rc)
    | TwmFault -> print_endline "FAULT"
    | TmMsg m ->
      (match tm_decode m with
       | None -> print_endline ("ok " ^ hexstr_of_bytes m ^ " SHORT")
       | Some w ->
         (* the theorem C06_msg_roundtrip, re-checked on the run: the decoded call is the normal form *)
         (* not for huge sample counts: tm_norm would build a unary number of that size *)
         let nf = if not nfcheck || w = tm_norm tbl c then "" else " NOT-NORMAL-FORM" in
         print_endline ("ok " ^ hexstr_of_bytes m ^ " " ^ show_call w ^ nf)) in
  iter_lines ic (fun line ->
    match split_ws line with
    | ["fsr"; bits; sg; sid; cnt; d] ->
      let s = n_of_hex sg and b = n_of_hex bits in
      out ~nfcheck:(String.length cnt <= 5) (fun x -> if x = s then b else N0) (TmFsr (s, z_of_hex sid, buf_of d, n_of_hex cnt))
    | ["ud"; meta; st; dsz; d] -> out zero_tbl (TmUser (n_of_hex meta, n_of_hex st, buf_of d, n_of_hex dsz))
    | ["ann"; sg; ts; y; at; gr; st; dsz; d] ->
      out zero_tbl (TmAnn (n_of_hex sg, z_of_hex ts, n_of_hex y, n_of_hex at, n_of_hex gr, n_of_hex st, buf_of d, n_of_hex dsz))
    | ["utc"; sg; sid; utc] -> out zero_tbl (TmUtc (n_of_hex sg, z_of_hex sid, z_of_hex utc))
    | ["omit"; sg; en] -> out zero_tbl (TmOmit (n_of_hex sg, n_of_hex en))
    | ["flush"] -> incr flush_id; out zero_tbl (TmFlush (n_of_int !flush_id))
    | ["close"] -> out zero_tbl TmClose
    | _ -> print_endline "?"))
