(* kinds "walk" and "checklog": the verified format walker (coq/Decode.v) and the verified
   write-once checker (coq/WriteOnce.v) applied to real files / real backend write logs.
   walk [strict|report|dump]: each input line = a file path.
     OK chunks=<n> tags=<tag:count,..> ppl=[<off>:<tag>:<stored>:<expected>:<prev-empty> ..] slack=<n> content=<fnv64>[ | <dump>]
     ERR <check> <offset>
   checklog: each input line = path of a `logdump` file (lines: w <offset> <hex> | t <length> | s).
     OK <n> writes: <a> appends, <h> header links, <t> head tables, <f> file headers
     FAIL <index> <reason>[ (ignoring payload_prev_length: <verdict>)]
   Glue only (file reading, printing, hashing); the verdicts are computed by the extracted Coq functions. *)
open Jlsmodel_ext
open Util

(* The extracted list functions (firstn, app, map, ...) are not tail recursive: payloads or strings of several MB need
   more than the default 8 MB stack.  Re-execute once under a shell with a raised stack limit. *)
let ensure_stack () =
  if (try Sys.getenv "JLS_WALK_STACK" with Not_found -> "") <> "1" then begin
    Unix.putenv "JLS_WALK_STACK" "1";
    let cmd = "ulimit -s unlimited 2>/dev/null || ulimit -s 4000000 2>/dev/null; exec \"$0\" \"$@\"" in
    let args = Array.append [| "sh"; "-c"; cmd; Sys.executable_name |] (Array.sub Sys.argv 1 (Array.length Sys.argv - 1)) in
    (try Unix.execv "/bin/sh" args with _ -> ())
  end

let read_file_bytes (path : string) : n list =
  let ic = open_in_bin path in
  let len = in_channel_length ic in
  let s = really_input_string ic len in
  close_in ic;
  let r = ref [] in
  for i = len - 1 downto 0 do r := byte_tab.(Char.code s.[i]) :: !r done;
  !r

(* small N -> int without going through strings *)
let rec int_of_pos = function XH -> 1 | XO p -> 2 * int_of_pos p | XI p -> 2 * int_of_pos p + 1
let int_of_n_fast = function N0 -> 0 | Npos p -> int_of_pos p
let i64_of_pos p = let rec go = function XH -> 1L | XO p -> Int64.mul 2L (go p) | XI p -> Int64.add (Int64.mul 2L (go p)) 1L in go p
let i64_of_z = function Z0 -> 0L | Zpos p -> i64_of_pos p | Zneg p -> Int64.neg (i64_of_pos p)
let dec_of_n x = Printf.sprintf "%Lu" (match x with N0 -> 0L | Npos p -> i64_of_pos p)
let dec_of_z x = Int64.to_string (i64_of_z x)

let fnv64_step h b = Int64.mul (Int64.logxor h (Int64.of_int b)) 0x100000001b3L
let fnv64_init = 0xcbf29ce484222325L
let fnv64_bytes (l : n list) : int64 = List.fold_left (fun h b -> fnv64_step h (int_of_n_fast b)) fnv64_init l
let fnv64_string (s : string) : int64 =
  let h = ref fnv64_init in String.iter (fun c -> h := fnv64_step !h (Char.code c)) s; !h

let str_out (l : n list) : string =
  let il = List.map int_of_n_fast l in
  let n = List.length il in
  if n <= 24 then "s" ^ String.concat "" (List.map (Printf.sprintf "%02x") il)
  else Printf.sprintf "h%d.%016Lx" n (List.fold_left fnv64_step fnv64_init il)

let check_name (c : dw_check) : string = match c with
  | DwE_file_too_short -> "file-too-short" | DwE_identification -> "identification" | DwE_file_header_crc -> "file-header-crc"
  | DwE_version -> "version" | DwE_file_length -> "file-length" | DwE_fuel -> "fuel"
  | DwE_no_end_chunk -> "no-end-chunk" | DwE_truncated_header -> "truncated-header" | DwE_header_crc -> "header-crc"
  | DwE_alignment -> "alignment" | DwE_rsv0 -> "rsv0" | DwE_truncated_payload -> "truncated-payload"
  | DwE_pad_not_zero -> "pad-not-zero" | DwE_payload_crc -> "payload-crc" | DwE_data_after_end -> "data-after-end"
  | DwE_payload_prev_length -> "payload-prev-length"
  | DwE_unknown_tag -> "unknown-tag" | DwE_meta_reserved -> "meta-reserved" | DwE_meta_level -> "meta-level" | DwE_end_links -> "end-links"
  | DwE_item_next_not_chunk -> "item-next-not-chunk" | DwE_item_next_order -> "item-next-order" | DwE_item_next_kind -> "item-next-kind"
  | DwE_item_next_back -> "item-next-target-prev-mismatch"
  | DwE_item_prev_not_chunk -> "item-prev-not-chunk" | DwE_item_prev_order -> "item-prev-order" | DwE_item_prev_kind -> "item-prev-kind"
  | DwE_item_prev_forward -> "item-prev-target-next-mismatch"
  | DwE_second_list_head -> "second-list-head"
  | DwE_source_payload -> "source-payload" | DwE_source_id -> "source-id"
  | DwE_signal_payload -> "signal-payload" | DwE_signal_id -> "signal-id" | DwE_signal_duplicate -> "signal-duplicate"
  | DwE_signal_undefined -> "signal-undefined"
  | DwE_track_def_payload -> "track-def-payload" | DwE_track_head_length -> "track-head-length"
  | DwE_track_head_entry l -> "track-head-entry-" ^ dec_of_n l
  | DwE_payload_header -> "payload-header" | DwE_payload_length_formula -> "payload-length-formula" | DwE_entry_size -> "entry-size"
  | DwE_annotation -> "annotation" | DwE_utc_data -> "utc-data"
  | DwE_index_not_followed_by_summary -> "index-not-followed-by-summary" | DwE_summary_not_after_index -> "summary-not-after-index"
  | DwE_fsr_index_params -> "fsr-index-params" | DwE_fsr_index_entry_zero -> "fsr-index-entry-zero"
  | DwE_index_entry_not_chunk -> "index-entry-not-chunk" | DwE_index_entry_kind -> "index-entry-kind"
  | DwE_index_entry_timestamp -> "index-entry-timestamp" | DwE_index_first_timestamp -> "index-first-timestamp"

(* the rebuilt content in the text format of the prog kind's reader ops (see harness/jlsrun_k_prog.h) *)
let dump_content (c : dw_content) : string =
  let b = Buffer.create 1024 in
  let by_id f l = List.sort (fun x y -> compare (int_of_n_fast (f x)) (int_of_n_fast (f y))) l in
  let srcs = by_id (fun s -> s.so_id) c.dw_c_sources in
  Buffer.add_string b (Printf.sprintf "srcs 0 %d%s" (List.length srcs)
    (String.concat "" (List.map (fun s -> Printf.sprintf " %s,%s,%s,%s,%s,%s" (dec_of_n s.so_id)
       (str_out (str_read s.so_name)) (str_out (str_read s.so_vendor)) (str_out (str_read s.so_model))
       (str_out (str_read s.so_version)) (str_out (str_read s.so_serial))) srcs)));
  let sigs = by_id (fun s -> s.dw_s_def.sg_id) c.dw_c_signals in
  let first s = match s.dw_s_blocks with b :: _ -> b.dw_b_ts | [] -> Z0 in
  Buffer.add_string b (Printf.sprintf ";sigs 0 %d%s" (List.length sigs)
    (String.concat "" (List.map (fun s -> let d = s.dw_s_def in
       Printf.sprintf " %s,%s,%s,%s,%s,%s,%s,%s,%s,%s,%s,%s,%s,%s" (dec_of_n d.sg_id) (dec_of_n d.sg_src)
         (dec_of_n d.sg_type) (dec_of_n d.sg_dtype) (dec_of_n d.sg_rate) (dec_of_n d.sg_spd) (dec_of_n d.sg_sdf)
         (dec_of_n d.sg_eps) (dec_of_n d.sg_sumdf) (dec_of_n d.sg_adf) (dec_of_n d.sg_udf)
         (dec_of_z (first s)) (str_out (str_read d.sg_name)) (str_out (str_read d.sg_units))) sigs)));
  List.iter (fun s ->
    let d = s.dw_s_def in
    let id = dec_of_n d.sg_id in
    let off = i64_of_z (first s) in
    let spd = Int64.of_string (dec_of_n d.sg_spd) in
    (* length: end of the last block (data or omitted) relative to the first sample *)
    let e1 = List.fold_left (fun m bl -> max m (Int64.add (i64_of_z bl.dw_b_ts) (Int64.of_string (dec_of_n bl.dw_b_count)))) off s.dw_s_blocks in
    let e2 = List.fold_left (fun m t -> max m (Int64.add (i64_of_z t) spd)) e1 s.dw_s_omitted in
    let h = List.fold_left (fun h bl -> List.fold_left (fun h x -> fnv64_step h (int_of_n_fast x)) h bl.dw_b_bytes) fnv64_init s.dw_s_blocks in
    Buffer.add_string b (Printf.sprintf ";data %s blocks=%d omitted=%d end=%Ld end_with_omitted=%Ld %016Lx" id (List.length s.dw_s_blocks)
                           (List.length s.dw_s_omitted) (Int64.sub e1 off) (Int64.sub e2 off) h);
    let fmt a = Printf.sprintf " %Ld,%s,%s,%s,%s,%d,%016Lx" (Int64.sub (i64_of_z a.an_ts) off)
        (dec_of_n a.an_type) (dec_of_n a.an_stype) (dec_of_n a.an_group) (hex_of_n a.an_y)
        (List.length a.an_data) (fnv64_bytes a.an_data) in
    Buffer.add_string b (Printf.sprintf ";an %s [%s ] 0 %d" id (String.concat "" (List.map fmt s.dw_s_annos)) (List.length s.dw_s_annos));
    Buffer.add_string b (Printf.sprintf ";ut %s [%s ] 0 %d" id
      (String.concat "" (List.map (fun (i, u) -> Printf.sprintf " %Ld,%s" (Int64.sub (i64_of_z i) off) (dec_of_z u)) s.dw_s_utcs))
      (List.length s.dw_s_utcs))) sigs;
  Buffer.add_string b (Printf.sprintf ";udr [%s ] 0 %d"
    (String.concat "" (List.map (fun u -> Printf.sprintf " %s,%s,%d,%016Lx" (dec_of_n u.ud_meta) (dec_of_n u.ud_stype)
                                   (List.length u.ud_data) (fnv64_bytes u.ud_data)) c.dw_c_udata))
    (List.length c.dw_c_udata));
  Buffer.contents b

let () = register "walk" (fun ic ->
  ensure_stack ();
  let mode = if Array.length Sys.argv > 2 then Sys.argv.(2) else "strict" in
  iter_lines ic (fun line ->
    let path = String.trim line in
    match (try Some (read_file_bytes path) with _ -> None) with
    | None -> print_endline "ERR cannot-read-file 0"
    | Some bytes ->
      let r = (try Some (if mode = "strict" then dw_walk bytes else dw_walk_report bytes) with Stack_overflow -> None) in
      (match r with
       | None -> print_endline "ERR walker-stack-overflow 0"
       | Some (DwErr (c, off)) ->
         (* report / dump mode: a structural error must not hide payload_prev_length mismatches (both are reported) *)
         let ppl = if mode = "strict" then "" else
           (try (match dw_scan (dw_len bytes) sIZEOF_file_header (skipn (N.to_nat sIZEOF_file_header) bytes) with
                 | DwOk chunks ->
                   " ppl=[" ^ String.concat " " (List.map (fun ((((o, t), s), e), pe) ->
                     Printf.sprintf "%s:%s:%s:%s:%d" (dec_of_n o) (dec_of_n t) (dec_of_n s) (dec_of_n e) (if pe then 1 else 0))
                     (dw_ppl_mismatches N0 true chunks)) ^ "]"
                 | DwErr _ -> "")
            with _ -> "") in
         print_endline (Printf.sprintf "ERR %s %s%s" (check_name c) (dec_of_n off) ppl)
       | Some (DwOk w) ->
         let tags = Hashtbl.create 32 in
         List.iter (fun c -> let t = int_of_n_fast c.dw_hdr.fm_tag in
                     Hashtbl.replace tags t (1 + (try Hashtbl.find tags t with Not_found -> 0))) w.dw_w_chunks;
         let tl = List.sort compare (Hashtbl.fold (fun k v a -> (k, v) :: a) tags []) in
         let ppl = String.concat " " (List.map (fun ((((o, t), s), e), pe) ->
             Printf.sprintf "%s:%s:%s:%s:%d" (dec_of_n o) (dec_of_n t) (dec_of_n s) (dec_of_n e) (if pe then 1 else 0)) w.dw_w_ppl) in
         let dump = dump_content w.dw_w_content in
         let slack = List.fold_left (fun a s -> a + int_of_n_fast s.dw_s_anno_slack) 0 w.dw_w_content.dw_c_signals in
         print_endline (Printf.sprintf "OK chunks=%d tags=%s ppl=[%s] slack=%d content=%016Lx%s" (List.length w.dw_w_chunks)
                          (String.concat "," (List.map (fun (k, v) -> Printf.sprintf "%d:%d" k v) tl)) ppl slack (fnv64_string dump)
                          (if mode = "dump" then " | " ^ dump else "")))))

(* ---------------------------------------------------------------- checklog *)
let hexval c = if c >= '0' && c <= '9' then Char.code c - 48 else if c >= 'a' && c <= 'f' then Char.code c - 87 else Char.code c - 55
let bytes_of_hex_fast (s : string) : n list =
  let r = ref [] in
  let len = String.length s / 2 in
  for i = len - 1 downto 0 do r := byte_tab.(hexval s.[2 * i] * 16 + hexval s.[2 * i + 1]) :: !r done;
  !r

let read_log (path : string) : wo_ev list =
  let ic = open_in path in
  let evs = ref [] in
  (try while true do
      let line = input_line ic in
      match split_ws line with
      | "w" :: off :: rest -> evs := WoWrite (n_of_int (int_of_string off), bytes_of_hex_fast (match rest with h :: _ -> h | [] -> "")) :: !evs
      | ["t"; len] -> evs := WoTrunc (n_of_int (int_of_string len)) :: !evs
      | ["s"] -> evs := WoSync :: !evs
      | [] -> ()
      | _ -> failwith "bad log line"
    done with End_of_file -> ());
  close_in ic;
  List.rev !evs

let reason_name (r : wo_reason) : string = match r with
  | WoR_truncate -> "truncate" | WoR_before_file_header -> "write-before-file-header" | WoR_file_header_bad -> "file-header-bad"
  | WoR_file_header_length -> "file-header-length" | WoR_file_header_pending -> "file-header-inside-chunk"
  | WoR_append_header_bad -> "append-not-a-chunk-header" | WoR_append_payload_length -> "append-payload-length"
  | WoR_append_footer_bad -> "append-pad-crc-bad" | WoR_hole -> "write-beyond-end"
  | WoR_rewrite_elsewhere -> "rewrite-of-stored-content" | WoR_rewrite_while_appending -> "rewrite-while-appending"
  | WoR_hdr_rewrite_bad -> "header-rewrite-not-a-valid-header"
  | WoR_hdr_rewrite_changes (f, t) ->
    Printf.sprintf "header-rewrite-changes-%s tag=%s" (match int_of_n_fast f with 1 -> "item_prev" | 2 -> "tag" | 3 -> "rsv0" | 4 -> "chunk_meta" | _ -> "payload_length") (dec_of_n t)
  | WoR_hdr_rewrite_ppl t -> Printf.sprintf "header-rewrite-changes-payload_prev_length tag=%s" (dec_of_n t)
  | WoR_tbl_not_head -> "payload-rewrite-of-non-head-chunk" | WoR_tbl_length -> "head-table-length"
  | WoR_tbl_entry k -> "head-table-entry-" ^ dec_of_n k | WoR_tbl_footer -> "head-table-pad-crc"

let verdict_of lenient evs =
  match wo_run lenient wo_st0 N0 evs with
  | Inl s -> Printf.sprintf "OK %d writes: %s appends, %s header links, %s head tables, %s file headers"
               (List.length (List.filter (function WoWrite _ -> true | _ -> false) evs))
               (dec_of_n s.wo_n_app) (dec_of_n s.wo_n_link) (dec_of_n s.wo_n_tbl) (dec_of_n s.wo_n_fh)
  | Inr (idx, why) -> Printf.sprintf "FAIL %s %s" (dec_of_n idx) (reason_name why)

let () = register "checklog" (fun ic ->
  ensure_stack ();
  iter_lines ic (fun line ->
    let path = String.trim line in
    match (try Some (read_log path) with _ -> None) with
    | None -> print_endline "FAIL 0 cannot-read-log"
    | Some evs ->
      let verdict_of l e = (try verdict_of l e with Stack_overflow -> "FAIL 0 checker-stack-overflow") in
      let v = verdict_of false evs in
      let contains s sub = let n = String.length s and m = String.length sub in
        let rec go i = i + m <= n && (String.sub s i m = sub || go (i + 1)) in go 0 in
      let is_ppl = contains v "payload_prev_length" in
      if is_ppl then print_endline (v ^ " (ignoring payload_prev_length: " ^ verdict_of true evs ^ ")")
      else print_endline v))
