(* kind "stats" (C20): same script as harness/jlsrun_k_stats.h, run on the extracted
   rational model StatsQ.  Result line: the P outputs joined by " | ", each
     k=<hex> mean=<num>/<den> s=<num>/<den> min=<num>/<den> max=<num>/<den> var=<num>/<den>
   (signed hex numerator, hex denominator, exact), or NONFINITE for a register that holds
   the result of a double division by zero (stats_add returned None). *)
open Jlsmodel_ext
open Util

let rec shl_pos (p : positive) (e : int) : positive = if e <= 0 then p else shl_pos (XO p) (e - 1)

(* <signed hex m>p<decimal e>  ->  m * 2^e as a reduced rational *)
let q_of_token (tok : string) : q =
  match String.index_opt tok 'p' with
  | None -> failwith "value"
  | Some i ->
    let m = z_of_hex (String.sub tok 0 i) in
    let e = int_of_string (String.sub tok (i + 1) (String.length tok - i - 1)) in
    let num = if e <= 0 then m else (match m with
        | Z0 -> Z0 | Zpos p -> Zpos (shl_pos p e) | Zneg p -> Zneg (shl_pos p e)) in
    let den = if e >= 0 then XH else shl_pos XH (- e) in
    qred { qnum = num; qden = den }

let str_of_q (x : q) : string = hex_of_z x.qnum ^ "/" ^ hex_of_n (Npos x.qden)

let str_of_reg (r : stats option) : string =
  match r with
  | None -> "NONFINITE"
  | Some s ->
    Printf.sprintf "k=%s mean=%s s=%s min=%s max=%s var=%s" (hex_of_n s.st_k)
      (str_of_q s.st_mean) (str_of_q s.st_s) (str_of_q s.st_min) (str_of_q s.st_max)
      (str_of_q (stats_var s))

exception Bad

let run_line (line : string) : string =
  let toks = Array.of_list (split_ws line) in
  let pos = ref 0 in
  let next () = if !pos >= Array.length toks then raise Bad else (let t = toks.(!pos) in incr pos; t) in
  let next_int () = match int_of_string_opt (next ()) with Some i -> i | None -> raise Bad in
  try
    let nreg = next_int () in
    let n = next_int () in
    if nreg < 1 || n < 0 then raise Bad;
    let x = Array.init n (fun _ -> try q_of_token (next ()) with Failure _ -> raise Bad) in
    let r : stats option array = Array.make nreg (Some stats_reset) in
    let reg i = if i < 0 || i >= nreg then raise Bad else i in
    let slice lo hi = if lo < 0 || hi < lo || hi > n then raise Bad else Array.to_list (Array.sub x lo (hi - lo)) in
    let out = ref [] in
    while !pos < Array.length toks do
      let op = next () in
      (match op with
       | "R" -> let i = reg (next_int ()) in r.(i) <- Some stats_reset
       | "C" -> let i = reg (next_int ()) in let lo = next_int () in let hi = next_int () in
         r.(i) <- Some (stats_compute_f64 (slice lo hi))
       | "F" -> let i = reg (next_int ()) in let lo = next_int () in let hi = next_int () in
         r.(i) <- Some (stats_compute_f32 (slice lo hi))
       | "A" -> let i = reg (next_int ()) in let lo = next_int () in let hi = next_int () in
         let xs = slice lo hi in
         r.(i) <- (match r.(i) with None -> None | Some s -> stats_add_list s xs)
       | "M" -> let t = reg (next_int ()) in let a = reg (next_int ()) in let b = reg (next_int ()) in
         (match r.(a), r.(b) with
          | Some _, Some _ ->
            (* the registers as a store of structs addressed by their index; a target that
               holds a non-finite value is fully overwritten, any placeholder will do *)
            let st : sstore = fun p -> (match r.(int_of_n p) with Some s -> s | None -> stats_reset) in
            let st' = stats_combine_store st (n_of_int t) (n_of_int a) (n_of_int b) in
            r.(t) <- Some (st' (n_of_int t))
          | _ -> r.(t) <- None)
       | "Y" -> let t = reg (next_int ()) in let s = reg (next_int ()) in
         (match r.(s) with
          | Some _ ->
            let st : sstore = fun p -> (match r.(int_of_n p) with Some s -> s | None -> stats_reset) in
            r.(t) <- Some (stats_copy_store st (n_of_int t) (n_of_int s) (n_of_int t))
          | None -> r.(t) <- None)
       | "K" -> let i = reg (next_int ()) in let k = n_of_hex (next ()) in
         r.(i) <- (match r.(i) with None -> None | Some s -> Some { s with st_k = k })
       | "P" -> let i = reg (next_int ()) in out := str_of_reg r.(i) :: !out
       | _ -> raise Bad)
    done;
    String.concat " | " (List.rev !out)
  with Bad -> "?"

let () = register "stats" (fun ic -> iter_lines ic (fun line -> print_endline (run_line line)))
