(* kind "tmap": same script as harness/jlsrun_k_tmap.h (see there for the grammar).
   argv[2]: absent / "cur" = the model of the current code (TmapModel.tmap_sample_id_to_timestamp,
   tmap_timestamp_to_sample_id).  "old-asan" / "old-plain" = the model of the code before the two
   repairs (TmapModel.*_old): with the physical array size checked (a read of x[length] with
   length = allocated cells is FAULT:ASAN), resp. unchecked with junk in the cell after the last
   entry; argv[3] = junk value (signed hex, default 0). *)
open Jlsmodel_ext
open Util
let txs32 s = let x = !s in
  let x = x lxor ((x lsl 13) land 0xffffffff) in
  let x = x lxor (x lsr 17) in
  let x = x lxor ((x lsl 5) land 0xffffffff) in s := x; x
let int_of_shex (s : string) : int =
  if String.length s > 0 && s.[0] = '-' then - (int_of_string ("0x" ^ String.sub s 1 (String.length s - 1)))
  else int_of_string ("0x" ^ s)
let z_of_int (i : int) : z =
  if i < 0 then z_of_hex (Printf.sprintf "-%x" (-i)) else z_of_hex (Printf.sprintf "%x" i)
let int_of_z (v : z) : int = int_of_shex (hex_of_z v)
let fault_str = function
  | Tm_OOB_read -> "ASAN" | Tm_FP_invalid -> "FPINV" | Tm_Int_overflow -> "OVF" | Tm_Nonterm -> "TIMEOUT"
let () = register "tmap" (fun ic ->
  let mode = if Array.length Sys.argv > 2 then Sys.argv.(2) else "cur" in
  let old = (mode = "old-asan" || mode = "old-plain") in
  let checked = (mode = "old-asan") in
  let junk = if Array.length Sys.argv > 3 then z_of_hex Sys.argv.(3) else Z0 in
  iter_lines ic (fun line ->
    match split_ws line with
    | ["consts"] ->
      Printf.printf "unavailable=%d param_invalid=%d second=%s entry=%d cell=%d\n"
        (int_of_z tMAP_ERROR_UNAVAILABLE) (int_of_n Jlsmodel_ext.jLS_ERROR_PARAMETER_INVALID)
        (hex_of_z tMAP_TIME_SECOND) (int_of_n sIZEOF_utc_summary_entry) (int_of_n tMAP_CELL_BYTES)
    | rnum :: rsh :: rest ->
      let r = tmap_rate (z_of_hex rnum) (n_of_int (int_of_string rsh)) in
      let t = ref (tmap_alloc r) in
      let buf = Buffer.create 256 in
      Buffer.add_string buf "a=";
      let add id u = let (t', rc) = tmap_add !t id u in t := t'; int_of_z rc in
      let rec sections = function
        | "G" :: n :: seed :: id0 :: t0 :: dmin :: dspan :: tnum :: tden :: jspan :: tadd :: tl ->
          let n = int_of_string n in
          let s = ref (let v = int_of_string seed in if v = 0 then 1 else v) in
          let id = ref (int_of_shex id0) and tt = ref (int_of_shex t0) in
          let dmin = int_of_shex dmin and dspan = int_of_shex dspan and tnum = int_of_shex tnum
          and tden = int_of_shex tden and jspan = int_of_shex jspan and tadd = int_of_shex tadd in
          let bad = ref 0 in
          for i = 0 to n - 1 do
            if i > 0 then begin
              let r1 = txs32 s in
              let r2 = txs32 s in
              let did = dmin + (r1 mod dspan) in
              let dtk = (did * tnum) / tden + (r2 mod jspan) + tadd in
              id := !id + did; tt := !tt + dtk
            end;
            if add (z_of_int !id) (z_of_int !tt) <> 0 then incr bad
          done;
          Buffer.add_string buf (Printf.sprintf "g%d" !bad);
          sections tl
        | "E" :: n :: tl ->
          let n = int_of_string n in
          let rec go k l = if k = 0 then l else match l with
            | id :: u :: l' -> Buffer.add_string buf (Printf.sprintf "e%d" (add (z_of_hex id) (z_of_hex u))); go (k - 1) l'
            | _ -> failwith "E: short" in
          sections (go n tl)
        | "Q" :: tl -> tl
        | [] -> []
        | _ -> Buffer.add_string buf "?"; [] in
      let queries = sections rest in
      let tm = if checked then !t else tmap_unchecked !t in
      let rec run = function
        | [] -> ()
        | q :: tl ->
          let v = z_of_hex (String.sub q 1 (String.length q - 1)) in
          let r = if old then (if q.[0] = 's' then tmap_sample_id_to_timestamp_old junk tm v
                               else tmap_timestamp_to_sample_id_old junk tm v)
                  else if q.[0] = 's' then tmap_sample_id_to_timestamp tm v
                  else tmap_timestamp_to_sample_id tm v in
          (match r with
           | QVal x -> Buffer.add_string buf (" 0:" ^ hex_of_z x); run tl
           | QErr rc -> Buffer.add_string buf (Printf.sprintf " %d:-" (int_of_z rc)); run tl
           | QFault f -> Buffer.add_string buf (" FAULT:" ^ fault_str f)) in
      run queries;
      print_endline (Buffer.contents buf)
    | _ -> print_endline "?"))
