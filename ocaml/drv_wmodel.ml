(* kind "wmodel": the byte-faithful writer model (coq/WriterModel.v, extracted) run on a `prog` script.
   Input line  = a prog script (grammar of harness/jlsrun_k_prog.h): wopen; writer ops...; wclose [; anything]
   Output line = rc:<c1>,<c2>,...|fault:<0|1>|<entry>|<entry>|...
     rc list   = the model's return code of every writer op between wopen and wclose, in order
     entries   = the model's backend log in the `logdump` text format: `t <len>`, `w <offset> <hex>`, `s`
   Argument "digest": instead of the hex bytes print `w <offset> <len> <fnv64>` (small output for big runs).

   Glue here (trusted for the correspondence only): script parsing and the sample/byte generators (copied from
   drv_prog.ml, which mirrors the C harness), the casts the C harness applies to script tokens, and the
   floating-point ORACLES summ1/summN: IEEE doubles, the loops of jls_core_fsr_summary1 and
   SUMMARYN_BODY_TEMPLATE (wr_fsr.c) in the same operation order, data conversion as jls_dt_buffer_to_f64
   (datatype.c).  24-bit types: the C never converts them (data_f64 is uninitialised memory); the oracle returns
   zeros and tools/props/WM.py excludes FSR SUMMARY payloads (and their CRC) of 24-bit signals. *)
open Jlsmodel_ext
open Util

(* ---------------- numbers ---------------- *)
let rec wm_pos_of_u64 (v : int64) : positive =
  if v = 1L then XH
  else let r = wm_pos_of_u64 (Int64.shift_right_logical v 1) in
    if Int64.logand v 1L = 1L then XI r else XO r
let wm_n_of_u64 (v : int64) : n = if v = 0L then N0 else Npos (wm_pos_of_u64 v)
let wm_u64_of_n (x : n) : int64 =
  let rec go p = match p with
    | XH -> 1L
    | XO q -> Int64.shift_left (go q) 1
    | XI q -> Int64.logor (Int64.shift_left (go q) 1) 1L in
  match x with N0 -> 0L | Npos p -> go p
let wm_int_of_n (x : n) : int = Int64.to_int (wm_u64_of_n x)
let wm_n_of_int (i : int) : n = wm_n_of_u64 (Int64.of_int i)
let wm_z_of_i64 (v : int64) : z =
  if v = 0L then Z0
  else if Int64.compare v 0L > 0 then Zpos (wm_pos_of_u64 v)
  else Zneg (wm_pos_of_u64 (Int64.neg v))       (* min_int: neg = itself = 2^63 as unsigned: correct *)
let wm_byte_tab : n array = Array.init 256 wm_n_of_int

(* ---------------- generators (copied from drv_prog.ml / jlsrun_k_prog.h) ---------------- *)
let wm_mix64 (x : int64) : int64 =
  let open Int64 in
  let x = add x 0x9E3779B97F4A7C15L in
  let x = mul (logxor x (shift_right_logical x 30)) 0xBF58476D1CE4E5B9L in
  let x = mul (logxor x (shift_right_logical x 27)) 0x94D049BB133111EBL in
  logxor x (shift_right_logical x 31)

let wm_fnv64_step h b = Int64.mul (Int64.logxor h (Int64.of_int b)) 0x100000001b3L
let wm_fnv64_init = 0xcbf29ce484222325L

let wm_dt_bits dt = (dt lsr 8) land 0xff
let wm_dt_is_float dt = dt land 0x0f = 4

let wm_gen_sample dt pat (seed : int64) (k : int64) : int64 =
  let w = wm_dt_bits dt in
  let h () = wm_mix64 (Int64.add (Int64.mul seed 1000003L) k) in
  let v = match pat with
    | 0 -> seed
    | 1 -> Int64.add seed k
    | 3 -> Int64.unsigned_rem (Int64.add (Int64.mul k 7L) seed) 17L
    | 4 -> Int64.sub (Int64.unsigned_rem (h ()) 2001L) 1000L
    | _ -> h () in
  if wm_dt_is_float dt then begin
    let iv = if pat = 2 then Int64.sub (Int64.unsigned_rem (h ()) 2000001L) 1000000L
      else if pat = 0 || pat = 1 then Int64.unsigned_rem v 100000L else v in
    if w = 32 then Int64.logand (Int64.of_int32 (Int32.bits_of_float (Int64.to_float iv))) 0xffffffffL
    else Int64.bits_of_float (Int64.to_float iv)
  end else if w = 64 then v
  else Int64.logand v (Int64.sub (Int64.shift_left 1L w) 1L)

let wm_gen_bytes (spec : string) (printable : bool) : int list option =
  if spec = "" || spec.[0] = '-' then None
  else if spec.[0] = 'e' then Some []
  else if spec.[0] = 'g' then begin
    let body = String.sub spec 1 (String.length spec - 1) in
    match String.split_on_char '.' body with
    | [n; seed] ->
      let n = int_of_string n and seed = Int64.of_string seed in
      Some (List.init n (fun i ->
          let r = wm_mix64 (Int64.add (Int64.mul seed 7919L) (Int64.of_int i)) in
          if printable then 33 + Int64.to_int (Int64.unsigned_rem r 94L)
          else Int64.to_int (Int64.logand (Int64.shift_right_logical r 13) 0xffL)))
    | _ -> None
  end else if spec.[0] = 'x' then begin
    let h = String.sub spec 1 (String.length spec - 1) in
    Some (List.init (String.length h / 2) (fun i -> int_of_string ("0x" ^ String.sub h (2 * i) 2)))
  end else None

let wm_nbytes (l : int list) : n list = List.map (fun b -> wm_byte_tab.(b land 255)) l
let wm_strv_of spec = match wm_gen_bytes spec true with None -> SNull | Some l -> SBytes (wm_nbytes l)

(* tokens: strtoll / strtoull with base 0 *)
let wm_parse_i64 (s : string) : int64 =
  try Int64.of_string s with _ -> (try Int64.of_string ("0u" ^ s) with _ -> 0L)
let wm_parse_hex (s : string) : int64 =
  let s = if String.length s > 2 && (String.sub s 0 2 = "0x" || String.sub s 0 2 = "0X") then String.sub s 2 (String.length s - 2) else s in
  try Int64.of_string ("0x" ^ s) with _ -> 0L
let wm_tok l i = if i < List.length l then List.nth l i else "0"
let wm_toki l i = wm_parse_i64 (wm_tok l i)
let wm_mask bits (v : int64) : int64 =
  if bits >= 64 then v else Int64.logand v (Int64.sub (Int64.shift_left 1L bits) 1L)
let wm_toku bits l i = wm_n_of_u64 (wm_mask bits (wm_toki l i))      (* (uintN_t) TOKU(i) *)
let wm_tokz l i = wm_z_of_i64 (wm_toki l i)
(* a C `int` argument that the library range-checks: negative or huge values become 256 (rejected the same way) *)
let wm_tok_enum l i : n =
  let v = Int64.to_int32 (wm_toki l i) in       (* (int) TOKI *)
  if Int32.compare v 0l < 0 || Int32.compare v 255l > 0 then wm_n_of_int 256 else wm_n_of_int (Int32.to_int v)

(* ---------------- floating-point oracles ---------------- *)
let wm_qnan = Int64.float_of_bits 0x7ff8000000000000L       (* C's NAN converted to double *)
let wm_dbl_max = max_float

let wm_f64_of_u64 (v : int64) : float =              (* (double) (uint64_t) v, correctly rounded *)
  if Int64.compare v 0L >= 0 then Int64.to_float v
  else
    let h = Int64.logor (Int64.shift_right_logical v 1) (Int64.logand v 1L) in
    2.0 *. Int64.to_float h

let wm_sext w (v : int64) : int64 =
  if w >= 64 then v
  else if Int64.logand v (Int64.shift_left 1L (w - 1)) <> 0L then Int64.sub v (Int64.shift_left 1L w) else v

(* jls_dt_buffer_to_f64 for one sample; None = not converted (24-bit) *)
let wm_sample_to_f64 (dt : int) (raw : int64) : float option =
  match dt land 0xffff with
  | 0x0401 -> Some (Int64.to_float (wm_sext 4 (Int64.logand raw 15L)))
  | 0x0801 -> Some (Int64.to_float (wm_sext 8 raw))
  | 0x1001 -> Some (Int64.to_float (wm_sext 16 raw))
  | 0x2001 -> Some (Int64.to_float (wm_sext 32 raw))
  | 0x4001 -> Some (Int64.to_float raw)
  | 0x0103 | 0x0403 | 0x0803 | 0x1003 | 0x2003 -> Some (Int64.to_float raw)
  | 0x4003 -> Some (wm_f64_of_u64 raw)
  | 0x2004 -> Some (Int32.float_of_bits (Int64.to_int32 raw))
  | 0x4004 -> Some (Int64.float_of_bits raw)
  | _ -> None

let wm_is64 (dt : int) : bool =
  match dt land 0xffff with 0x2001 | 0x4001 | 0x2003 | 0x4003 | 0x4004 -> true | _ -> false

let wm_f32_bits (x : float) : int64 = Int64.logand (Int64.of_int32 (Int32.bits_of_float x)) 0xffffffffL
(* summary_entry_add: file order mean, std, min, max *)
let wm_entry_add (is64 : bool) v_mean v_min v_max v_var =
  let sd = sqrt v_var in
  let enc x = wm_n_of_u64 (if is64 then Int64.bits_of_float x else wm_f32_bits x) in
  (((enc v_mean, enc sd), enc v_min), enc v_max)

let wm_zero_entry = (((N0, N0), N0), N0)

(* jls_core_fsr_summary1, one entry *)
let wm_summ1 (dtn : n) (samples : n list) =
  let dt = wm_int_of_n dtn in
  let data = Array.of_list (List.map (fun s -> wm_sample_to_f64 dt (wm_u64_of_n s)) samples) in
  if Array.length data = 0 || data.(0) = None then wm_zero_entry
  else begin
    let data = Array.map (function Some x -> x | None -> 0.0) data in
    let n = Array.length data in
    let count = ref 0 and v_mean = ref 0.0 and v_min = ref wm_dbl_max and v_max = ref (-. wm_dbl_max) and v_var = ref 0.0 in
    for i = 0 to n - 1 do
      let v = data.(i) in
      if Float.is_finite v then begin
        incr count;
        v_mean := !v_mean +. v;
        if v < !v_min then v_min := v;
        if v > !v_max then v_max := v
      end
    done;
    if !count = 0 then begin
      v_mean := wm_qnan; v_min := wm_qnan; v_max := wm_qnan; v_var := wm_qnan
    end else begin
      v_mean := !v_mean /. float_of_int !count;
      for i = 0 to n - 1 do
        let v = data.(i) in
        if Float.is_finite v then begin
          let v = v -. !v_mean in
          v_var := !v_var +. v *. v
        end
      done;
      if !count = 1 then v_var := 0.0 else v_var := !v_var /. float_of_int !count
    end;
    wm_entry_add (wm_is64 dt) !v_mean !v_min !v_max !v_var
  end

(* SUMMARYN_BODY_TEMPLATE, one entry; src entries are stored bit patterns (f32 or f64) *)
let wm_summN (is64 : bool) (entries : (((n * n) * n) * n) list) =
  let dec x = let b = wm_u64_of_n x in
    if is64 then Int64.float_of_bits b else Int32.float_of_bits (Int64.to_int32 b) in
  let src = Array.of_list (List.map (fun (((m, s), mn), mx) -> (dec m, dec s, dec mn, dec mx)) entries) in
  let n = Array.length src in
  let count = ref 0 and v_mean = ref 0.0 and v_min = ref wm_dbl_max and v_max = ref (-. wm_dbl_max) and v_var = ref 0.0 in
  for i = 0 to n - 1 do
    let (m, _, mn, mx) = src.(i) in
    if Float.is_finite m then begin
      incr count;
      v_mean := !v_mean +. m;
      if mn < !v_min then v_min := mn;
      if mx > !v_max then v_max := mx
    end
  done;
  if !count = 0 then begin
    v_mean := wm_qnan; v_var := wm_qnan; v_min := wm_qnan; v_max := wm_qnan
  end else begin
    v_mean := !v_mean /. float_of_int !count;
    for i = 0 to n - 1 do
      let (m, s, _, _) = src.(i) in
      if Float.is_finite m then begin          (* second loop of SUMMARYN_BODY_TEMPLATE: non-finite children are skipped (since /repo 358343b) *)
        let v = m -. !v_mean in
        v_var := !v_var +. ((s *. s) +. (v *. v))
      end
    done;
    v_var := !v_var /. float_of_int !count
  end;
  wm_entry_add is64 !v_mean !v_min !v_max !v_var

(* ---------------- output ---------------- *)
let wm_hexd = "0123456789abcdef"
let wm_print_entry (buf : Buffer.t) (digest : bool) (e : wm_entry) : unit =
  match e with
  | WmTrunc len -> Buffer.add_string buf (Printf.sprintf "t %Lu" (wm_u64_of_n len))
  | WmSync -> Buffer.add_string buf "s"
  | WmWrite (off, bytes) ->
    Buffer.add_string buf (Printf.sprintf "w %Lu " (wm_u64_of_n off));
    if digest then begin
      let h = ref wm_fnv64_init and k = ref 0 in
      List.iter (fun b -> h := wm_fnv64_step !h (wm_int_of_n b); incr k) bytes;
      Buffer.add_string buf (Printf.sprintf "%d %016Lx" !k !h)
    end else
      List.iter (fun b -> let v = wm_int_of_n b in
                  Buffer.add_char buf wm_hexd.[(v lsr 4) land 15]; Buffer.add_char buf wm_hexd.[v land 15]) bytes

let () = register "wmodel" (fun ic ->
  let digest = Array.length Sys.argv > 2 && Sys.argv.(2) = "digest" in
  iter_lines ic (fun line ->
    let ops = String.split_on_char ';' line in
    let st = ref wm_api_open in
    let opened = ref false and closed = ref false in
    let dtype = Hashtbl.create 8 in     (* as the harness: data type of ACCEPTED definitions only *)
    let rcs = ref [] in
    let step op =
      if !opened && not !closed then begin
        let (st', rc) = wm_step_rc wm_summ1 wm_summN !st op in
        st := st'; rcs := wm_int_of_n rc :: !rcs; wm_int_of_n rc
      end else (-1) in
    List.iter (fun opline ->
      let t = split_ws opline in
      match t with
      | [] -> ()
      | name :: _ ->
        (match name with
         | "wopen" -> st := wm_api_open; opened := true; closed := false; rcs := []; Hashtbl.reset dtype
         | "wclose" -> if !opened && not !closed then (st := wm_api_close wm_summ1 wm_summN !st; closed := true)
         | "src" ->
           ignore (step (WSrc { so_id = wm_toku 16 t 1; so_name = wm_strv_of (wm_tok t 2); so_vendor = wm_strv_of (wm_tok t 3);
                                so_model = wm_strv_of (wm_tok t 4); so_version = wm_strv_of (wm_tok t 5);
                                so_serial = wm_strv_of (wm_tok t 6) }))
         | "sig" ->
           let rc = step (WSig { sg_id = wm_toku 16 t 1; sg_src = wm_toku 16 t 2; sg_type = wm_toku 8 t 3; sg_dtype = wm_toku 32 t 4;
                                 sg_rate = wm_toku 32 t 5; sg_spd = wm_toku 32 t 6; sg_sdf = wm_toku 32 t 7; sg_eps = wm_toku 32 t 8;
                                 sg_sumdf = wm_toku 32 t 9; sg_adf = wm_toku 32 t 10; sg_udf = wm_toku 32 t 11;
                                 sg_name = wm_strv_of (wm_tok t 12); sg_units = wm_strv_of (wm_tok t 13) }) in
           let id = Int64.to_int (wm_mask 16 (wm_toki t 1)) in
           if rc = 0 && id < 256 then Hashtbl.replace dtype id (Int64.to_int (wm_mask 32 (wm_toki t 4)))
         | "fsr" ->
           let sig_ = Int64.to_int (wm_mask 16 (wm_toki t 1)) in
           let dt = (match Hashtbl.find_opt dtype (sig_ land 0xff) with Some d when d <> 0 -> d | _ -> 0x2004) in
           let count = Int64.to_int (wm_mask 32 (wm_toki t 3)) and pat = Int64.to_int (wm_toki t 4) and seed = wm_toki t 5 in
           let samples = List.init count (fun k -> wm_n_of_u64 (wm_gen_sample dt pat seed (Int64.of_int k))) in
           ignore (step (WFsr (wm_toku 16 t 1, wm_tokz t 2, samples)))
         | "omit" -> ignore (step (WOmit (wm_toku 16 t 1, wm_toku 32 t 2)))
         | "anno" ->
           let st_i = Int64.to_int32 (wm_toki t 6) in
           let is_str = (st_i = 2l || st_i = 3l) in
           let spec = wm_gen_bytes (wm_tok t 7) is_str in
           let null_sized = (let sp = wm_tok t 7 in String.length sp > 1 && sp.[0] = 'n' && int_of_string (String.sub sp 1 (String.length sp - 1)) > 0) in
           let stype = (match spec with None when is_str || null_sized -> N0 | _ -> wm_tok_enum t 6) in   (* NULL string / NULL with a size: rejected *)
           let data = (match spec with None -> [] | Some l -> if is_str then l @ [0] else l) in
           ignore (step (WAnno (wm_toku 16 t 1, { an_ts = wm_tokz t 2; an_y = wm_n_of_u64 (wm_mask 32 (wm_parse_hex (wm_tok t 3)));
                                                  an_type = wm_tok_enum t 4; an_group = wm_toku 8 t 5; an_stype = stype;
                                                  an_data = wm_nbytes data })))
         | "utc" -> ignore (step (WUtc (wm_toku 16 t 1, wm_tokz t 2, wm_tokz t 3)))
         | "ud" ->
           let st_i = Int64.to_int32 (wm_toki t 2) in
           let is_str = (st_i = 2l || st_i = 3l) in
           let spec = wm_gen_bytes (wm_tok t 3) is_str in
           let null_sized = (let sp = wm_tok t 3 in String.length sp > 1 && sp.[0] = 'n' && int_of_string (String.sub sp 1 (String.length sp - 1)) > 0) in
           let stype = (match spec with None when is_str || null_sized -> wm_n_of_int 256 | _ -> wm_tok_enum t 2) in   (* NULL string / NULL with a size: rejected *)
           let data = (match spec with None -> [] | Some l -> if is_str then l @ [0] else l) in
           ignore (step (WUd { ud_meta = wm_toku 16 t 1; ud_stype = stype; ud_data = wm_nbytes data }))
         | "wflush" -> ignore (step WFlush)
         | _ -> ())) ops;
    let buf = Buffer.create 65536 in
    Buffer.add_string buf "rc:";
    Buffer.add_string buf (String.concat "," (List.rev_map string_of_int !rcs));
    Buffer.add_string buf (if wm_st_fault !st then "|fault:1" else "|fault:0");
    List.iter (fun e -> Buffer.add_char buf '|'; wm_print_entry buf digest e) (List.rev (wm_st_log !st));
    print_endline (Buffer.contents buf)))
