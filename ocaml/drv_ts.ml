(* kind "ts": the timestamp-indexed track model (coq/TsModel.v) on (key, value) records.
   One case per line:
     <d> <fixed 0|1> W <key>* R (a <t> <stop_after> | u <s> <stop_after>)*
   keys are signed decimals; record k (0-based) has value k.  Output (one line):
     st=<ok|err|fault>/<ok|err|fault> disk=<chunks> head=<h0,..,h15> r=<results>
   st: status after the writes / after close.  chunks separated by ' ':
     D:<key>,<val>   I<L>:<key>@<off>,...   S<L>:<key>,<val>|...
   results, one per query, separated by ' ': a:<rc>:<key>,<val>|...   u:<rc>:<batch>/<batch> (batch = key,val|...) *)
open Jlsmodel_ext
open Util
let rec nat_of_int (i : int) : nat = if i <= 0 then O else S (nat_of_int (i - 1))
let int_of_nat (n : nat) : int = let rec go a = function O -> a | S k -> go (a + 1) k in go 0 n
let ts_z_of_int (i : int) : z =
  if i < 0 then z_of_hex (Printf.sprintf "-%x" (-i)) else z_of_hex (Printf.sprintf "%x" i)
let ts_int_of_z (v : z) : int =
  let s = hex_of_z v in
  if String.length s > 0 && s.[0] = '-' then - (int_of_string ("0x" ^ String.sub s 1 (String.length s - 1)))
  else int_of_string ("0x" ^ s)
let st_str = function TsOk -> "ok" | TsErr -> "err" | TsFault -> "fault"
let kv_str (k, v) = Printf.sprintf "%d,%d" (ts_int_of_z k) (ts_int_of_z v)
let chunk_str = function
  | TsData r -> "D:" ^ kv_str r
  | TsIndex (l, es) -> Printf.sprintf "I%d:%s" (int_of_nat l)
      (String.concat "," (List.map (fun (k, o) -> Printf.sprintf "%d@%d" (ts_int_of_z k) (int_of_nat o)) es))
  | TsSummary (l, ss) -> Printf.sprintf "S%d:%s" (int_of_nat l) (String.concat "|" (List.map kv_str ss))
let () = register "ts" (fun ic ->
  iter_lines ic (fun line ->
    match split_ws line with
    | d :: fixed :: "W" :: rest ->
      let d = nat_of_int (int_of_string d) in
      let fixed = (fixed = "1") in
      let rec keys acc k = function
        | "R" :: tl -> (List.rev acc, tl)
        | x :: tl -> keys ((ts_z_of_int (int_of_string x), ts_z_of_int k) :: acc) (k + 1) tl
        | [] -> (List.rev acc, []) in
      let (recs, qs) = keys [] 0 rest in
      let w0 = ts_kv_writes d recs in
      let w = ts_kv_close d w0 in
      let buf = Buffer.create 4096 in
      Buffer.add_string buf (Printf.sprintf "st=%s/%s disk=" (st_str w0.tw_st) (st_str w.tw_st));
      Buffer.add_string buf (String.concat " " (List.map chunk_str w.tw_disk));
      Buffer.add_string buf " head=";
      Buffer.add_string buf (String.concat "," (List.init 16 (fun i -> string_of_int (int_of_nat (w.tw_head (nat_of_int i))))));
      Buffer.add_string buf " r=";
      let rec go first = function
        | "a" :: t :: stop :: tl ->
          let (l, ok) = ts_kv_annotations fixed w (ts_z_of_int (int_of_string t)) (nat_of_int (int_of_string stop)) in
          if not first then Buffer.add_char buf ' ';
          Buffer.add_string buf (Printf.sprintf "a:%d:%s" (if ok then 0 else 1) (String.concat "|" (List.map kv_str l)));
          go false tl
        | "u" :: s :: stop :: tl ->
          let (bl, ok) = ts_kv_utc w (ts_z_of_int (int_of_string s)) (nat_of_int (int_of_string stop)) in
          if not first then Buffer.add_char buf ' ';
          Buffer.add_string buf (Printf.sprintf "u:%d:%s" (if ok then 0 else 1)
            (String.concat "/" (List.map (fun b -> String.concat "|" (List.map kv_str b)) bl)));
          go false tl
        | [] -> ()
        | _ -> failwith "ts: bad query" in
      go true qs;
      print_endline (Buffer.contents buf)
    | _ -> print_endline "?"))
