let () =
  if Array.length Sys.argv < 2 then (prerr_endline "usage: jlsmodel <kind>"; exit 2);
  match Hashtbl.find_opt Util.handlers Sys.argv.(1) with
  | Some f -> f stdin; flush stdout
  | None -> prerr_endline ("unknown kind " ^ Sys.argv.(1)); exit 2
