(* kind "defs" (property C13): the model side of harness/jlsrun_k_defs.h; same script, same
   output text.  Everything that decides a result is extracted (df_enc_str, df_rd_x, df_run,
   df_scan, the df_rd functions); this file parses, generates the test bytes and prints. *)
open Jlsmodel_ext
open Util

let df_mix64 (x : int64) : int64 =
  let open Int64 in
  let x = add x 0x9E3779B97F4A7C15L in
  let x = mul (logxor x (shift_right_logical x 30)) 0xBF58476D1CE4E5B9L in
  let x = mul (logxor x (shift_right_logical x 27)) 0x94D049BB133111EBL in
  logxor x (shift_right_logical x 31)

let rec df_int_of_pos = function XH -> 1 | XO p -> 2 * df_int_of_pos p | XI p -> 2 * df_int_of_pos p + 1
let df_int (x : n) : int = match x with N0 -> 0 | Npos p -> df_int_of_pos p
let df_dec (x : n) : string = Printf.sprintf "%u" (df_int x)

let df_fnv64 (l : n list) : int64 =
  List.fold_left (fun h b -> Int64.mul (Int64.logxor h (Int64.of_int (df_int b))) 0x100000001b3L) 0xcbf29ce484222325L l

(* '-' -> None *)
let df_gen (spec : string) : n list option =
  if spec = "" || spec.[0] = '-' then None
  else if spec.[0] = 'e' then Some []
  else if spec.[0] = 'g' || spec.[0] = 'p' then begin
    let body = String.sub spec 1 (String.length spec - 1) in
    match String.split_on_char '.' body with
    | [nn; seed] ->
      let nn = int_of_string nn and seed = Int64.of_string seed in
      let pr = spec.[0] = 'p' in
      (* tail-recursive construction: lengths go beyond 1 MiB *)
      let rec go i acc = if i < 0 then acc else
          let r = Int64.shift_right_logical (df_mix64 (Int64.add (Int64.mul seed 7919L) (Int64.of_int i))) 13 in
          let b = if pr then 33 + Int64.to_int (Int64.unsigned_rem r 94L) else 1 + Int64.to_int (Int64.unsigned_rem r 255L) in
          go (i - 1) (byte_tab.(b) :: acc) in
      Some (go (nn - 1) [])
    | _ -> None
  end else if spec.[0] = 'x' then Some (bytes_of_hexstr (String.sub spec 1 (String.length spec - 1)))
  else None

let df_strv spec = match df_gen spec with None -> SNull | Some l -> SBytes l
let df_pbytes (l : n list) : string = Printf.sprintf "%d.%Lx" (List.length l) (df_fnv64 l)
let df_pstrv = function SNull -> "~" | SBytes l -> df_pbytes l
let df_rem (r : n list) = string_of_int (List.length r)

let df_line_S toks =
  match toks with
  | [sa; sb] ->
    let s = df_strv sa in
    let rest = (match df_gen sb with None -> [] | Some l -> l) in
    let bytes = List.rev_append (List.rev (df_enc_str s)) rest in
    let w = "W " ^ df_pbytes bytes in
    (match df_rd_str bytes with
     | DfOk (v, c) -> Printf.sprintf "%s R 0 %s %s" w (df_pbytes v) (df_rem c)
     | DfErr rc -> Printf.sprintf "%s R %s ~ -" w (df_dec rc))
  | _ -> "?"

let df_line_D toks =
  let j, hex, ops = (match toks with
      | [j; h; o] -> j, (if h = "-" then "" else h), o
      | [j; o] -> j, "", o
      | _ -> "0", "", "") in
  ignore j;    (* the byte stored after the payload: the model has no use for it (the C must not either) *)
  let cur = ref (bytes_of_hexstr hex) in
  let out = ref [] in
  let stop = ref false in
  List.iter (fun op ->
      if not !stop && op <> "" then begin
        let fin v c = out := (Printf.sprintf "0:%s:%s" v (df_rem c)) :: !out; cur := c in
        let err rc = out := df_dec rc :: !out; stop := true in
        match op.[0] with
        | 's' -> (match df_rd_str !cur with DfOk (v, c) -> fin (df_pbytes v) c | DfErr rc -> err rc)
        | '1' -> (match df_rd_u8 !cur with DfOk (v, c) -> fin (df_dec v) c | DfErr rc -> err rc)
        | '2' -> (match df_rd_u16 !cur with DfOk (v, c) -> fin (df_dec v) c | DfErr rc -> err rc)
        | '4' -> (match df_rd_u32 !cur with DfOk (v, c) -> fin (df_dec v) c | DfErr rc -> err rc)
        | 'k' ->
          let k = int_of_string (String.sub op 1 (String.length op - 1)) in
          (match df_rd_skip (nat_of_int k) !cur with DfOk c -> fin (string_of_int k) c | DfErr rc -> err rc)
        | _ -> out := "?" :: !out
      end) (String.split_on_char ',' ops);
  String.concat " " (List.rev !out)

let df_num s = n_of_hex (Printf.sprintf "%x" (int_of_string s))   (* int_of_string takes 0x.. too *)

let df_line_P (body : string) : string =
  let ops = List.filter (fun s -> String.trim s <> "") (String.split_on_char ';' body) in
  let qs = ref [] in
  let parsed = List.map (fun op ->
      let t = Array.of_list (split_ws op) in
      let tok i = if i < Array.length t then t.(i) else "-" in
      let num i = if i < Array.length t then df_num t.(i) else N0 in
      match t.(0) with
      | "src" -> `Op (DfSrc { so_id = num 1; so_name = df_strv (tok 2); so_vendor = df_strv (tok 3); so_model = df_strv (tok 4);
                              so_version = df_strv (tok 5); so_serial = df_strv (tok 6) })
      | "sig" -> `Op (DfSig { sg_id = num 1; sg_src = num 2; sg_type = num 3; sg_dtype = num 4; sg_rate = num 5; sg_spd = num 6;
                              sg_sdf = num 7; sg_eps = num 8; sg_sumdf = num 9; sg_adf = num 10; sg_udf = num 11;
                              sg_name = df_strv (tok 12); sg_units = df_strv (tok 13) })
      | "ud" -> `Op (DfUd (num 1, num 2, df_strv (tok 3)))
      | "fsr" -> `Op (DfFsr (num 1))
      | "omit" -> `Op (DfOmit (num 1))
      | "anno" -> `Op (DfAnno (num 1, num 2, num 3))
      | "utc" -> `Op (DfUtc (num 1))
      | "q" -> qs := num 1 :: !qs; `Q
      | _ -> `Bad) ops in
  let b = Buffer.create 1024 in
  let w = ref df_open in
  let fault = ref false in
  Buffer.add_string b "rcs";
  List.iter (fun p ->
      if not !fault then
        match p with
        | `Q -> Buffer.add_string b " q"
        | `Bad -> Buffer.add_string b " ?"
        | `Op o ->
          let (w1, out) = df_step !w o in
          w := w1;
          (match out with
           | DfRc rc -> Buffer.add_string b (" " ^ df_dec rc)
           | DfFault -> fault := true)) parsed;
  if !fault then "FAULT" else begin
    Buffer.add_string b " | log";
    List.iter (fun e -> Buffer.add_string b (match e with
        | DfLSrc (m, pl) -> Printf.sprintf " 1:%s:%s" (df_dec m) (df_pbytes pl)
        | DfLSig (m, pl) -> Printf.sprintf " 2:%s:%s" (df_dec m) (df_pbytes pl)
        | DfLUd (m, pl) -> Printf.sprintf " 64:%s:%s" (df_dec m) (df_pbytes pl)
        | DfLTrk (tag, m) -> Printf.sprintf " %s:%s" (df_dec tag) (df_dec m))) !w.dfw_log;
    (match df_scan !w.dfw_log with
     | DfErr rc -> Buffer.add_string b (" | open " ^ df_dec rc)
     | DfOk r ->
       Buffer.add_string b " | open 0 | src";
       List.iter (fun s -> Buffer.add_string b (Printf.sprintf " %s,%s,%s,%s,%s,%s" (df_dec s.so_id) (df_pstrv s.so_name)
                                                  (df_pstrv s.so_vendor) (df_pstrv s.so_model) (df_pstrv s.so_version) (df_pstrv s.so_serial)))
         (df_rd_sources r);
       Buffer.add_string b " | sig";
       List.iter (fun d -> Buffer.add_string b (Printf.sprintf " %s,%s,%s,%s,%s,%s,%s,%s,%s,%s,%s,%s,%s" (df_dec d.sg_id) (df_dec d.sg_src)
                                                  (df_dec d.sg_type) (df_dec d.sg_dtype) (df_dec d.sg_rate) (df_dec d.sg_spd) (df_dec d.sg_sdf)
                                                  (df_dec d.sg_eps) (df_dec d.sg_sumdf) (df_dec d.sg_adf) (df_dec d.sg_udf)
                                                  (df_pstrv d.sg_name) (df_pstrv d.sg_units)))
         (df_rd_signals r);
       Buffer.add_string b " | q";
       List.iter (fun id -> Buffer.add_string b (match df_rd_signal r id with
           | DfOk d -> Printf.sprintf " %s:0:%s,%s,%s" (df_dec id) (df_dec d.sg_dtype) (df_dec d.sg_spd) (df_pstrv d.sg_name)
           | DfErr rc -> Printf.sprintf " %s:%s" (df_dec id) (df_dec rc))) (List.rev !qs);
       Buffer.add_string b " | ud";
       let (items, rc) = df_rd_user_data r in
       List.iter (fun u -> Buffer.add_string b (Printf.sprintf " %s,%s,%s" (df_dec u.ud_meta) (df_dec u.ud_stype) (df_pbytes u.ud_data))) items;
       Buffer.add_string b (" " ^ df_dec rc));
    Buffer.contents b
  end

let () = register "defs" (fun ic ->
  iter_lines ic (fun line ->
    let line = String.trim line in
    if line = "" then print_endline "?"
    else match line.[0] with
      | 'S' -> print_endline (df_line_S (split_ws (String.sub line 1 (String.length line - 1))))
      | 'D' -> print_endline (df_line_D (split_ws (String.sub line 1 (String.length line - 1))))
      | 'P' -> print_endline (df_line_P (String.sub line 1 (String.length line - 1)))
      | _ -> print_endline "?"))
