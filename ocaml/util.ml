(* glue between text and the extracted inductive numbers; trusted for the
   correspondence only *)
open Jlsmodel_ext

let handlers : (string, (in_channel -> unit)) Hashtbl.t = Hashtbl.create 16
let register name f = Hashtbl.replace handlers name f

(* positive/N <-> OCaml: via bit lists, so full 64-bit and beyond are exact *)
let rec pos_of_bits = function      (* LSB first, last bit must be true *)
  | [] -> failwith "pos_of_bits"
  | [true] -> XH
  | b :: r -> if b then XI (pos_of_bits r) else XO (pos_of_bits r)

let n_of_hex (s : string) : n =
  let bits = ref [] in
  let len = String.length s in
  for i = len - 1 downto 0 do
    let c = s.[i] in
    let d = if c >= '0' && c <= '9' then Char.code c - 48
            else if c >= 'a' && c <= 'f' then Char.code c - 87
            else if c >= 'A' && c <= 'F' then Char.code c - 55
            else failwith ("bad hex: " ^ s) in
    for k = 0 to 3 do bits := ((d lsr k) land 1 = 1) :: !bits done
  done;
  (* !bits is MSB..LSB reversed: we pushed LSB digit first, so list is MSB-last? rebuild *)
  let l = List.rev !bits in            (* LSB first *)
  let rec strip = function [] -> [] | l -> (match List.rev l with
      | false :: r -> strip (List.rev r) | _ -> l) in
  match strip l with [] -> N0 | l -> Npos (pos_of_bits l)

let rec bits_of_pos = function XH -> [true] | XO p -> false :: bits_of_pos p | XI p -> true :: bits_of_pos p

let hex_of_n (x : n) : string =
  match x with N0 -> "0" | Npos p ->
    let bits = Array.of_list (bits_of_pos p) in
    let nb = Array.length bits in
    let nd = (nb + 3) / 4 in
    let b = Bytes.create nd in
    for d = 0 to nd - 1 do
      let v = ref 0 in
      for k = 0 to 3 do
        let i = d * 4 + k in
        if i < nb && bits.(i) then v := !v lor (1 lsl k)
      done;
      Bytes.set b (nd - 1 - d) "0123456789abcdef".[!v]
    done; Bytes.to_string b

let n_of_int (i : int) : n =
  if i < 0 then failwith "n_of_int" else n_of_hex (Printf.sprintf "%x" i)
let int_of_n (x : n) : int = int_of_string ("0x" ^ hex_of_n x)

(* Z as signed decimal/hex: "-ff" *)
let z_of_hex (s : string) : z =
  if String.length s > 0 && s.[0] = '-' then
    (match n_of_hex (String.sub s 1 (String.length s - 1)) with N0 -> Z0 | Npos p -> Zneg p)
  else (match n_of_hex s with N0 -> Z0 | Npos p -> Zpos p)
let hex_of_z (x : z) : string = match x with
  | Z0 -> "0" | Zpos p -> hex_of_n (Npos p) | Zneg p -> "-" ^ hex_of_n (Npos p)

let byte_tab : n array = Array.init 256 n_of_int
let bytes_of_hexstr (s : string) : n list =
  let len = String.length s / 2 in
  List.init len (fun i -> byte_tab.(int_of_string ("0x" ^ String.sub s (2 * i) 2)))
let hexstr_of_bytes (l : n list) : string =
  String.concat "" (List.map (fun b -> Printf.sprintf "%02x" (int_of_n b)) l)

let rec nat_of_int i = if i <= 0 then O else S (nat_of_int (i - 1))
let rec int_of_nat = function O -> 0 | S n -> 1 + int_of_nat n

let split_ws (s : string) : string list =
  List.filter (fun x -> x <> "") (String.split_on_char ' ' (String.trim s))

let iter_lines (ic : in_channel) (f : string -> unit) : unit =
  (try while true do f (input_line ic) done with End_of_file -> ())
