# /verif top-level: setup = generate constants, build Coq, extract, build OCaml driver and C harness
SHELL := /bin/bash
COQFILES := $(shell grep '\.v$$' coq/_CoqProject)
.PHONY: setup gen coq extract harness clean
setup: gen coq extract harness
gen:
	python3 tools/gen_constants.py
	python3 tools/c2gallina.py
coq/Makefile.coq: coq/_CoqProject
	cd coq && coq_makefile -f _CoqProject -o Makefile.coq
coq: gen coq/Makefile.coq
	cd coq && (timeout 3000 $(MAKE) -k -f Makefile.coq -j16 || echo "WARNING: some Coq files did not compile; the checks report which")
extract: coq
	$(MAKE) -C ocaml
harness:
	$(MAKE) -C harness -j16
clean:
	rm -rf build; cd coq && rm -f *.vo *.vok *.vos *.glob .*.aux Makefile.coq Makefile.coq.conf .Makefile.coq.d
