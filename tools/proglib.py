"""Script grammar helpers, generators and comparison for the `prog` correspondence kind.

A case is ONE line: ops separated by ';'.  Writer ops (sync writer `wopen`, threaded `topen`):
  src id name vendor model version serial | sig id src type dtype rate spd sdf eps sumdf adf udf name units
  fsr sig sample_id count pat seed | omit sig en | anno sig ts ybits atype group stype payload
  utc sig sample_id utc | ud meta stype payload | wflush | wclose
reader ops: ropen | srcs | sigs | sigq id | len sig | rd sig start count | st sig start incr count
  an sig ts [stop] | ut sig id [stop] | udr [stop] | s2t sig id | t2s sig ts | rclose
file ops: copy | dup | image k j | flip bit.. | zero off len val | trunc len | hash | loglens | logdump path | save path
strings/payloads: '-' NULL, 'e' empty, g<len>.<seed> generated, x<hex> literal.
"""
import os, re
import vlib

DT = {"i4": 1025, "i8": 2049, "i16": 4097, "i24": 6145, "i32": 8193, "i64": 16385,
      "u1": 259, "u4": 1027, "u8": 2051, "u16": 4099, "u24": 6147, "u32": 8195, "u64": 16387,
      "f32": 8196, "f64": 16388}
DT_BITS = {k: (v >> 8) & 0xff for k, v in DT.items()}

OP_CLASS = {"src": "defs", "sig": "defs", "srcs": "defs", "sigs": "defs", "sigq": "defs", "ud": "udata", "udr": "udata",
            "fsr": "fsr", "len": "fsr", "rd": "fsr", "rdn": "fsr", "omit": "fsr", "anno": "anno", "an": "anno", "utc": "utc", "ut": "utc",
            "st": "stats", "wopen": "io", "wclose": "io", "ropen": "io", "wflush": "io", "topen": "io"}


def min_def(dt):
    """smallest definition parameters the writer accepts for this type: (spd, sdf, eps, sumdf)"""
    w = DT_BITS[dt]
    mult = 32 if w == 24 else 256 // w
    sdf = ((10 + mult - 1) // mult) * mult
    return (sdf, sdf, 10, 10)


def parse_items(s):
    """'[ a b c ] rc n ...' -> (items, rest tokens)"""
    m = re.match(r"\s*\[(.*?)\]\s*(.*)$", s)
    if not m:
        return None, s.split()
    return m.group(1).split(), m.group(2).split()


def compare_case(script, impl, model):
    """Returns list of mismatches: dict(op_index, op, cls, impl, model, why)."""
    mism = []
    ops = script.split(";")
    io = impl.split(";")
    mo = model.split(";")
    if model.startswith("PROCFAIL") or (model and len(mo) < len(ops) and not model.startswith("PROCFAIL") and "?" not in model and False):
        return [dict(op_index=0, op=ops[0], cls="fault", impl=impl[:100], model=model[:200], why="the MODEL process failed on this script (harness problem, not an implementation result): " + model[:120])]
    fault = None
    if io and io[-1].startswith("FAULT"):
        fault = io[-1]
        io = io[:-1]
    for i, op in enumerate(ops):
        name = op.split()[0] if op.split() else ""
        cls = OP_CLASS.get(name, "other")
        m = mo[i] if i < len(mo) else name + " ?"
        if i >= len(io):
            mism.append(dict(op_index=i, op=op, cls="fault", impl=fault or "(missing)", model=m, why="implementation stopped: %s" % (fault or "no output")))
            break
        a = io[i]
        mt = m.split()
        at = a.split()
        if len(mt) >= 2 and mt[1] == "?":
            continue
        if len(mt) >= 2 and mt[1] == "E":
            if len(at) < 2 or at[1] == "0" or (name in ("an", "ut", "udr")):
                # list ops print '[ ... ] rc n'
                if name in ("an", "ut", "udr"):
                    items, rest = parse_items(a[len(name):])
                    if rest and rest[0] != "0":
                        continue
                mism.append(dict(op_index=i, op=op, cls=cls, impl=a, model=m, why="must be rejected with an error code"))
            continue
        if name in ("an", "ut", "udr"):
            mi, mr = parse_items(m[len(name):])
            ai, ar = parse_items(a[len(name):])
            if ai is None or not ar or ar[0] != "0":
                mism.append(dict(op_index=i, op=op, cls=cls, impl=a, model=m, why="iteration failed"))
                continue
            opt = 0
            stop = 0
            for t in mr:
                if t.startswith("@"):
                    opt = int(t[1:])
                if t.startswith("stop="):
                    stop = int(t[5:])
            ok = False
            for j in range(0, opt + 1):
                exp = mi[j:]
                if stop > 0 and name == "ut":
                    # UTC entries are delivered in batches: the iteration ends after the batch that reaches `stop`
                    if ai == exp[:len(ai)] and len(ai) >= min(stop, len(exp)):
                        ok = True
                        break
                    continue
                if stop > 0:
                    exp = exp[:stop]
                if exp == ai:
                    ok = True
                    break
            if not ok:
                mism.append(dict(op_index=i, op=op, cls=cls, impl=a[:400], model=m[:400],
                                 why="delivered %d items; expected tail of %d (first %d optional)%s" % (len(ai), len(mi), opt, " stop=%d" % stop if stop else "")))
            continue
        if a != m:
            mism.append(dict(op_index=i, op=op, cls=cls, impl=a[:300], model=m[:300], why="differs from specification"))
    if fault and not any(x["cls"] == "fault" for x in mism):
        mism.append(dict(op_index=len(io), op="(end)", cls="fault", impl=fault, model="", why="implementation fault: " + fault))
    return mism


def run_pair(ctx, scripts, variant="plain", exact=False, timeout=40, model=True, model_scripts=None):
    """model_scripts: what the model is asked instead (same length): scripts whose specification cannot be evaluated (a gap of 2^62
    samples) are replaced by every op answered `?` = not compared"""
    scratch = os.path.join(ctx.tmp, "scratch_" + variant)
    os.makedirs(scratch, exist_ok=True)
    args = [scratch] + (["exact"] if exact else []) + ["timeout=%d" % timeout]
    impl = vlib.run_c(variant, "prog", scripts, args=args, timeout=3000)
    mod = vlib.run_model("prog", model_scripts or scripts, timeout=3000) if model else [""] * len(scripts)
    return impl, mod


def replay_text(script, variant, mism, exact=False):
    t = "script (one line, ops separated by ';'):\n%s\n\n" % script
    t += "replay: echo '<script>' | /verif/build/%s/jlsrun prog /tmp%s   (model: | /verif/build/jlsmodel prog)\n\n" % (variant, " exact" if exact else "")
    for m in mism[:8]:
        t += "op #%d  %s\n  class: %s\n  why:   %s\n  impl:  %s\n  spec:  %s\n" % (m["op_index"], m["op"], m["cls"], m["why"], m["impl"], m["model"])
    return t


# ---------------------------------------------------------------- generators
def sigdef_op(sid, src, dt, rate=1000, spd=0, sdf=0, eps=0, sumdf=0, adf=0, udf=0, name="g4.1", units="e", stype=0):
    return "sig %d %d %d %d %d %d %d %d %d %d %d %s %s" % (sid, src, stype, DT[dt], rate, spd, sdf, eps, sumdf, adf, udf, name, units)


def small_def(rng, dt, levels=2):
    """definition parameters giving small files with several summary levels"""
    spd0, sdf0, eps0, sumdf0 = min_def(dt)
    sdf = sdf0 * rng.choice([1, 1, 2])
    epd = rng.choice([1, 2, 3, 5])
    spd = sdf * epd
    sumdf = rng.choice([10, 10, 11, 12])
    eps = sumdf * rng.choice([1, 2, 3])
    return spd, sdf, eps, sumdf


def shrink(script, still_fails, max_steps=200):
    """delta-debugging over ops (keeps wopen/wclose/ropen): returns a smaller failing script"""
    ops = script.split(";")
    steps = 0
    changed = True
    while changed and steps < max_steps:
        changed = False
        i = 0
        while i < len(ops) and steps < max_steps:
            name = ops[i].split()[0]
            if name in ("wopen", "topen", "wclose", "ropen"):
                i += 1
                continue
            cand = ops[:i] + ops[i + 1:]
            steps += 1
            if still_fails(";".join(cand)):
                ops = cand
                changed = True
            else:
                i += 1
    return ";".join(ops)


def run_prog_property(ctx, prop_files, gen_case, classes, n_quick, n_thorough, rule, classify=None, variant="plain",
                      exact=False, key_of=None, checker=None, note="", level="proof", extra_check=None, timeout=40, pre_run=None, variants=None):
    """Generic driver: build, generate cases, run implementation + model, compare the ops of `classes`.
    gen_case(rng, tier) -> (script, meta dict).  classify(script, meta, mism) -> signature or None."""
    import os
    prop_files = vlib.listed_props(prop_files)
    vlib.build(ctx, prop_files, variants=tuple(variants) if variants else (variant,))
    if pre_run:
        pre_run(ctx)
    n = n_quick if ctx.tier == "quick" else n_thorough
    corpus = load_corpus(ctx.prop)
    # recorded known findings of this property whose replay is a prog script are replayed first: still failing -> KNOWN-FINDING
    known_cases = [(k["replay"], {"known": k["signature"], "dist": ["known_finding_replay"], "no_model": bool(k.get("no_model"))}) for k in ctx.known
                   if str(k.get("replay", "")).startswith(("wopen", "topen")) and "image" not in k["replay"]]
    cases = known_cases + [(s, {"corpus": True}) for s in corpus] + [gen_case(ctx.rng, ctx.tier) for _ in range(n)]
    scripts = [c[0] for c in cases]
    no_model = [bool(c[1].get("no_model")) for c in cases]
    impl, mod = run_pair(ctx, scripts, variant, exact=exact, timeout=timeout, model_scripts=[("wopen" if nm else s) for s, nm in zip(scripts, no_model)])
    mod = [(";".join(o.split()[0] + " ?" for o in s.split(";") if o.split()) if nm else m) for s, m, nm in zip(scripts, mod, no_model)]
    # a watchdog time-out under full parallel load is not yet a verdict: such cases are run again, one at a time, with three times the
    # budget (a genuine hang still times out; a slow but terminating call - huge lazily mapped allocations under ASan - does not)
    slow = [i for i, a in enumerate(impl) if a.rstrip().endswith("FAULT TIMEOUT") and not cases[i][1].get("known") and not cases[i][1].get("huge_gap")]
    for i in slow[:8]:
        r1, _ = run_pair(ctx, [scripts[i]], variant, exact=exact, timeout=3 * timeout, model=False)
        ctx.extra.setdefault("timeouts_rerun_alone", []).append({"script": scripts[i][:200], "second_run": r1[0][-60:]})
        impl[i] = r1[0]
    # a sanitizer / signal fault must reproduce when the script is run alone (a violation needs a replay): faults seen only once under full
    # parallel load (threaded-writer scripts without close read the file while the writer thread still runs) are counted, not reported
    flt = [i for i, a in enumerate(impl) if "FAULT" in a.rsplit(";", 1)[-1] and "TIMEOUT" not in a.rsplit(";", 1)[-1]
           and not cases[i][1].get("known")]
    for i in flt[:12]:
        again = [run_pair(ctx, [scripts[i]], variant, exact=exact, timeout=timeout, model=False)[0][0] for _ in range(2)]
        if not any("FAULT" in a.rsplit(";", 1)[-1] for a in again):
            ctx.extra.setdefault("faults_not_reproduced_alone", []).append({"script": scripts[i][:300], "first_run": impl[i][-80:]})
            impl[i] = again[0]
    nviol = 0
    dist = {}
    for (script, meta), a, m in zip(cases, impl, mod):
        mism = [x for x in compare_case(script, a, m) if x["cls"] in classes or x["cls"] == "fault"]
        is_corpus = bool(meta.get("corpus"))
        if extra_check and not is_corpus and not meta.get("known"):
            mism += extra_check(script, meta, a, m)
        k = key_of(meta) if (key_of and not is_corpus and not meta.get("known")) else script
        for dk in (meta.get("dist") or []):
            dist[dk] = dist.get(dk, 0) + 1
        ctx.count(k, nontrivial=not meta.get("trivial", False), sample={"script": script[:300], "impl": a[:200]})
        if mism:
            sig = meta["known"] if meta.get("known") else (classify(script, meta, mism) if (classify and not is_corpus) else None)
            nviol += 1
            if nviol <= 40:
                ctx.violation("%s_case_%d.txt" % (ctx.prop.lower(), nviol), replay_text(script, variant, mism, exact),
                              "%s (%s)" % (mism[0]["why"], mism[0]["op"][:80]), sig=sig)
    ctx.extra["distribution"] = dist
    ctx.extra["corpus_cases"] = len(corpus)
    pre = ctx.cov.pop("rule_summ", None)
    ctx.cov["rule"] = rule + ((" || also (model tie): " + pre) if pre else "")
    checker = checker or ("make -C /verif/coq -f Makefile.coq %s; coqc -Q . JLS <each> (Print Assumptions)" % " ".join(f.replace(".v", ".vo") for f in prop_files))
    return vlib.finish(ctx, level, checker, note=note or "correspondence: implementation answers vs extracted spec_of on generated programs")


def load_corpus(prop):
    import os
    p = os.path.join(vlib.VERIF, "corpus", prop + ".txt")
    if not os.path.exists(p):
        return []
    return [l.strip() for l in open(p) if l.strip() and not l.startswith("#")]
