#!/usr/bin/env python3
"""Regenerates /verif/MANIFEST.json from the table below (keeps it valid)."""
import json, os
V = os.path.dirname(os.path.dirname(os.path.abspath(__file__)))
props = [json.loads(l)["id"] for l in open(os.path.join(V, "properties.jsonl"))]

import glob
def has_proofs(pid):
    return bool(glob.glob(os.path.join(V, "coq", "Properties_%s*.v" % pid)))

COMMON_NOTE = ("Trusted: Coq 8.16.1 kernel + vm_compute, tools/gen_constants.py, extraction (ExtrOcamlBasic only) + OCaml glue, C harness + gcc + sanitizers. "
               "The model is hand-written; it is tied to /repo only by the correspondence runs counted in the evidence file. ")

CHECKS = {
 "C01": dict(tech="Coq model of sample packing/index pyramid (when Properties_C01*.v present) + differential run of writer+reader against the extracted Spec.spec_of",
   text="Generated writer programs (all 15 types, minimal/small/default definitions, any first id, any partition into calls, 1-3 interleaved signals) are written with the library, closed, and length + windows at byte/block/summary-chunk boundaries are compared bit-for-bit with the extracted abstract specification (coq/Spec.v). Theorems about jls_bit_copy / block packing / the index pyramid are in coq/Properties_C01_*.v when present (see evidence: obligations).",
   note=COMMON_NOTE, ref="5/C01"),
 "C02": dict(tech="exact-arithmetic oracle extracted from Coq (Spec.stats_windows) applied to jls_rd_fsr_statistics under the property's own tolerances",
   text="Statistics requests (single- and multi-window, increments selecting every summary level, starts at entry/block/chunk boundaries) on generated signals are checked against exact integer sums computed by the extracted Coq specification: min/max exact, mean within stored-summary precision, sqrt((d-1)/d) S <= std <= S, multi-window entries within the widened extremes, mean of means exact.",
   note=COMMON_NOTE + "Floating-point rounding is measured, not proved. 64-bit sample types are answered with UNSUPPORTED at level 0 by the library (counted, not a violation).", ref="5/C02"),
 "C03": dict(tech="crash-point enumeration over the interposed backend write log + prefix oracle from the extracted Spec",
   text="Every crash point class (k complete backend writes; byte prefixes of in-place writes; selected prefixes of appends) of generated writer programs is materialised from the interposed write log and opened with the library: must terminate without fault; if opened, lengths <= submitted, samples = submitted prefix (hash against the extracted Spec), annotations/UTC/user data are subsequences of the written ones; at clean points the open succeeds with bounded loss. Known findings (known_findings.json) are reported as KNOWN-FINDING.",
   note=COMMON_NOTE + "Crash model: one fd, writes reach the file in program order, a stop leaves a byte prefix of one write.", ref="5/C03"),
 "C04": dict(tech="Coq proof of the CRC-32C detection algebra (weight<=3 or burst<=32 in any region < 2^31-1 bits) + corruption of real closed files",
   text="coq/Properties_C04_alg.v proves on the LFSR operator of CrcDefs.v that every error pattern of odd weight, of weight two (order 2^31-1 by GF(2) matrix powers + primality), or confined to 32 consecutive bits, anywhere in message+stored CRC, changes the check, for every region length < 2^31-1 bits. The structural half (every returned byte comes from a CRC-checked chunk) is exercised by corrupting closed files (single-bit flips, 2/3-bit and burst errors per protected region, overwrites, multi-chunk, truncation) and requiring every reader call to return an error, the original answer or a correct prefix.",
   note=COMMON_NOTE + "The structural half is tested, not proved.", ref="5/C04"),
 "C05": dict(tech="verified checker: Coq decoder written from format.h with proved soundness/totality, extracted and run on every produced file; content compared with the library reader",
   text="coq/Decode.v is an independent decoder written only from include/jls/format.h; coq/Properties_C05.v proves, for all byte strings, that dw_walk terminates and that dw_walk f = Ok w implies the conformance record (file header CRC/id/version/length; chunks tile the file, 8-aligned, header and payload CRCs valid w.r.t. crc_spec, zero padding, END last; payload_prev_length chain; doubly linked lists per list identity; track head tables; INDEX followed by SUMMARY; FSR/annotation/UTC index entries point to chunks of the expected kind, signal, level and timestamp), plus encode/decode round trips of every header. The extracted decoder walks (strict mode) every file produced here by the sync writer, by jls_copy and by repair-on-open, and its rebuilt definitions/annotations/UTC/user data are compared with the library reader.",
   note=COMMON_NOTE + "Verified checker on sampled outputs: that the writer ALWAYS produces conformant files is not proved (no byte-level writer theorem yet). Non-conformant repaired files are recorded known findings.", ref="5/C05"),
 "C06": dict(tech="Coq proof over all schedules of a step model of threaded_writer.c (any number of producers, any capacity) + deterministic schedule exploration of the real threads (wrapped pthread/clock/IO) with the extracted model predicting every call",
   text="coq/TwrModel.v models jls_twr_* and the writer thread at the granularity of its synchronisation points over the concrete ring buffer of coq/MrbModel.v; coq/Properties_C06.v proves for every schedule: mutual exclusion of the two locks, processed ++ unprocessed = accepted (FIFO, exact bytes, C08 ring invariant kept), after close the writer's call sequence is exactly the accepted sequence with close last, and a send that returned an error leaves no trace while a send that returned 0 is queued exactly once. harness/twr_sched.c runs the real code under a baton scheduler with virtual time (seeded random, starvation and model-enumerated preemption-bounded schedules, queues of 4096 and 512 bytes, plain and ASan+UBSan builds); oracles: file equals the synchronous reference, queue order and message hashes, return codes consistent with the queue, lockset discipline; the extracted model must predict every wrapped call.",
   note=COMMON_NOTE + "Unlocked reads of flush_processed_id / quit are atomic in the model; hardware memory ordering and data races below the granularity of the wrapped calls are not modelled (the TSan target exists but is not part of the verdict).", ref="5/C06"),
 "C07": dict(tech="Coq proof (all schedules) of the flush/close post-conditions and deadlock freedom of the threaded-writer protocol model + schedule exploration of the real threads under virtual time",
   text="coq/Properties_C07.v proves on coq/TwrModel.v for every schedule: when close returns every accepted message has been applied, the queue is empty and jls_wr_close ran last; when flush returns 0 every message accepted before it has been applied and flushed (ticket argument, < 2^64 tickets); no reachable state of the repaired protocol is deadlocked (final, or a sleeper, or an enabled thread); the pre-fix protocol's close hang is kept as a refutation witness (vm_compute) together with the proof that the repaired protocol has none. harness/twr_sched.c explores schedules of the real code incl. starvation, queue-full and time-out paths with virtual time; oracles: flush=0 implies applied+fsync'ed and (one producer) file snapshot equals the reference; close implies everything applied, END chunk, header length; DEADLOCK/LIVELOCK detection; the model predicts every wrapped call.",
   note=COMMON_NOTE + "Progress under fairness (every call eventually returns) is not proved, only deadlock freedom; OS scheduling, real time and memory ordering are replaced by the harness's scheduler and virtual clock.", ref="5/C07"),
 "C08": dict(tech="Coq refinement proof of the ring buffer to a FIFO (all capacities <= 2^31, all sizes, all op sequences) + complete small-capacity state space replayed on the C",
   text="coq/Properties_C08.v: invariant + abstraction function; alloc/peek/pop refine list append/head/tail; allocated regions lie inside the buffer and are disjoint from un-popped messages; alloc fails only when no free run can hold the message with its framing; after emptying, any message up to capacity-8 is accepted; every reachable state satisfies the invariant and no operation faults. Refutation witnesses document the repaired near-capacity defect. The C is tied by replaying the complete reachable state space for capacities 16..28 (thorough 16..34) and long random walks on both ASan and guard-byte builds.",
   note=COMMON_NOTE + "Buffers above 2^31 bytes are outside the theorems (uint32 index arithmetic).", ref="5/C08"),
 "C09": dict(tech="differential run of gap/overlap writer programs against the extracted Spec.fsr_write",
   text="Writer programs with gaps (1 .. several blocks, around the internal fill-buffer size) and overlaps (partial/total/odd/even/sub-byte) for all 15 types are compared with the extracted specification (fill = NaN/0, first-written samples kept, length = last id + 1 - first id).",
   note=COMMON_NOTE, ref="5/C09"),
 "C10": dict(tech="API call-sequence fuzzing on the ASan+UBSan+LSan build with exactly sized caller buffers, forked child + watchdog",
   text="Call sequences over the public sync/threaded writer, reader and copy API with ids/parameters/windows from boundary sets; oracle: no sanitizer report, signal, leak or time-out.",
   note=COMMON_NOTE + "Memory safety is established only for the sequences run.", ref="5/C10"),
 "C11": dict(tech="differential run against the extracted Spec.anno_seek_range (tail containing every annotation >= t, at most one earlier)",
   text="0..decimation^2+ annotations with runs of equal timestamps aligned across index-chunk boundaries; iteration from every seek class and with stopping callbacks compared with the extracted specification.",
   note=COMMON_NOTE, ref="5/C11"),
 "C12": dict(tech="Coq proof of the id/time conversion (tmap.c model over Z/Q: anchored, monotone, linear, within one tick, inverse within one sample, total) + differential runs of jls_tmap_* and of UTC file round trips",
   text="coq/Properties_C12_tmap.v: for every map with >= 1 entries (strictly increasing ids, non-decreasing times) and every query: stored pairs map exactly in both directions, the conversion is non-decreasing, equals the rounded linear interpolation between neighbours (within 1/2 tick), extrapolates from the nearest segment or the sample rate, is within one tick of exact, and converting back returns the id within one sample; the search never reads outside the map (total). Documentation theorems on the pre-repair code (*_old) record the two repaired defects. jls_tmap_* binaries are compared with the extracted model on generated maps (0..2500 entries incl. exactly the initial capacity) and queries; the UTC round trip through files is compared with the extracted Spec.utc_from.",
   note=COMMON_NOTE + "binary64 evaluation of dk*(dt/ds) is modelled exactly over Q; the rounding gap is measured (within 1), with one partial theorem under an explicit rounding hypothesis.", ref="5/C12"),
 "C13": dict(tech="differential run of definition/user-data programs against the extracted Spec.wstep acceptance rules and read-back",
   text="Sources/signals with valid and invalid ids, duplicates, undefined sources, invalid types, NULL/empty/UTF-8/long strings (around the 1 MiB string block), user data 0..3 MiB, data calls on undefined signals, all shuffled; acceptance of every call and the definitions/user data read back are compared with the extracted specification.",
   note=COMMON_NOTE, ref="5/C13"),
 "C14": dict(tech="verified checker: Coq write-once classifier with proved soundness for all logs, extracted and run on the interposed backend write log of every program",
   text="coq/WriteOnce.v replays a backend write log, tracks chunk extents and accepts a write only if it is an append, a 32-byte header rewrite changing nothing but item_next and crc32 (valid CRC), a head-table entry going from 0 to an existing chunk offset (with its footer), or the file header; coq/Properties_C14.v proves for ALL logs that acceptance implies the semantic statement over file bytes: the file never shrinks, completed chunks keep tag/meta/lengths/item_prev, and no payload byte of a non-HEAD chunk ever changes. Every write(2)/ftruncate of every generated program is interposed (--wrap) and fed to the extracted checker.",
   note=COMMON_NOTE + "Verified checker on observed logs (sync writer programs, and threaded-writer runs under the C06 scheduling harness with every backend write a scheduling point); that every log the writer can produce passes is proved for the byte-exact writer model when coq/Properties_C14_writer.v is present (see evidence: obligations).", ref="5/C14"),
 "C15": dict(tech="relational differential run: same stream with and without omission + extracted Spec",
   text="Two signals with identical definition and data, one with omission toggles / constant blocks: lengths equal the specification, stored blocks bit-exact, automatically omitted <=8-bit constant blocks bit-exact through unaligned windows, requested omissions return the right size, summary-level statistics bit-identical.",
   note=COMMON_NOTE, ref="5/C15"),
 "C16": dict(tech="Coq proof over all 2^128 parameter combinations x 7 widths (uint32 arithmetic explicit) + exhaustive boundary grid on jls_core_signal_def_align",
   text="coq/Properties_C16.v on the faithful model of jls_core_signal_def_validate/_align (64-bit rounding with rejection, per-width defaults incl. 24-bit, minimums, size limits): for every width and all 32-bit field values the definition is either rejected with PARAMETER_INVALID or stored with parameters satisfying every relation the format relies on (entry = multiple of 256 bits, sdf | spd, (spd/sdf) | eps, sumdf | eps, minimums, annotation/UTC factors >= 10, buffer sizes within 32-bit limits); normalising a stored definition changes nothing (unguarded idempotence); zero fields take the per-width defaults; the fitting loop terminates. coq/SigDefSpec.v ties Spec.sp_align to it. jls_core_signal_def_align is run on ~180k cases (complete small grid x 15 types, boundary sweeps, guard boundaries) on plain and ASan builds: equal to the model, consistent, idempotent, plus file round trips.",
   note=COMMON_NOTE + "Documentation theorems (*_old) record the five repaired defect classes.", ref="5/C16"),
 "C17": dict(tech="Coq proof on the abstract specification (any program, any re-issue satisfying the relation that describes jls_copy: observations and every reader answer preserved, no call rejected) + byte-identity of the jls_copy output with the writer run on the re-issued calls + reader dump of the copy against the extracted Spec",
   text="coq/CopyModel.v states what jls_copy does relative to the accepted calls of the original program (cp_reissue: stored aligned definitions, per-signal streams re-chunked contiguously, annotations/UTC/user data in order, no omit/flush, definitions before use); coq/Properties_C17.v proves for ALL programs p and re-issues q: every call of q is accepted and the observation (definitions as read, offset, length, samples, annotations, UTC, user data) of q equals that of p, that every reader answer of Spec (windows, statistics, annotation seek, UTC iteration) is a function of the observation, and that the relation is satisfiable for every p (executable instance cp_prog); refutation witnesses show that a dropped block changes the observation (the recorded omitted-blocks finding). Tie to copy.c: for generated closed originals the chunk walk of the file is turned into the script of calls copy.c must make; the jls_copy output must be byte-identical to the writer run on that script, and the extracted model must accept the script and read it back like the original; the reader dump of every copy is compared with the extracted specification of the original.",
   note=COMMON_NOTE + "The theorems are about Spec (what the reader can see), not about copy.c; copy.c is tied by the differential runs. Unclosed originals: covered by the differential run only. Omitted blocks are not re-emitted by jls_copy (known finding).", ref="5/C17"),
 "C18": dict(tech="Coq proof (all lengths/alignments/code paths) + differential run of jls_crc32c on SSE4.2, table and ASan builds",
   text="Theorems in coq/Properties_C18.v: the byte-wise table form, crc32cSlicingBy8 (every alignment), the SSE4.2/ARM instruction loops and the three header variants equal the bit-serial CRC-32C reference for every byte list; the 8x256 tables parsed from crc32c_sw.c equal the generator polynomial's. The binaries are tied to the model by running jls_crc32c/jls_crc32c_hdr (both CRC builds + ASan) against the extracted reference on every length 0..320 (thorough 0..4096) x 8 alignments x 4 patterns and more.",
   note=COMMON_NOTE + "Instruction semantics of crc32 (Intel SDM) as modelled; crc32c_arm_neon.c modelled but not executed.", ref="5/C18"),
 "C19": dict(tech="byte-hash comparison around reader calls on closed files and around second opens of repaired crash images",
   text="(a) closed files hashed before/after a shuffled mix of every reader call and a second open: unchanged; (b) crash images that open: the file after the repairing open is hashed and reopened: unchanged, and every answer identical.",
   note=COMMON_NOTE, ref="5/C19"),
 "C20": dict(tech="Coq proof over Q of the accumulator algebra (any sequence, any split/grouping, aliasing) + differential run of jls_statistics_* with rounding tolerance",
   text="Theorems in coq/Properties_C20.v over exact rationals with the C's control flow (k=0 branches, statement order on a store for aliasing): add one-at-a-time, compute, and combine of any grouping all equal the exact (count, mean, sum of squared deviations, min, max); variance >= 0; min <= mean <= max; combine with an empty accumulator is the identity; the result may overwrite either operand. The binaries are tied to the model by running jls_statistics_* on generated programs (9 sequence families, every split point, random grouping trees, all aliasings) on the plain and ASan builds.",
   note=COMMON_NOTE + "Binary64 rounding is measured against the exact model, not proved.", ref="5/C20"),
}
for _p, _c in CHECKS.items():
    _c["cat"] = "proof" if has_proofs(_p) else "exploration"
    if not has_proofs(_p):
        _c["text"] = "[no theorem file for this property yet: this check is differential/oracle testing against the Coq-extracted specification] " + _c["text"]

def main():
    m = {"version": 1, "setup_cmd": "make -C /verif setup",
         "hooks": {"guard": "JLS_VERIF", "enable": "harness/Makefile compiles /repo/src/*.c into /verif/build/<variant> with -DJLS_VERIF (and -DJLS_VERIF_MRB_BUFFER_SIZE=<n> for the threaded-writer variant)",
                   "baseline_off_cmd": "cmake --build /repo/_build && ctest --test-dir /repo/_build --timeout 900",
                   "source_commits": ["7323e46"], "add_only": True},
         "engines": [{"name": "coq-model+correspondence", "path": "/verif/tools/check.py", "serves_properties": sorted(CHECKS.keys()),
                      "kind_free_text": "Coq 8.16.1 theorems over a hand-written Gallina model (coq/), constants regenerated from /repo on every run (tools/gen_constants.py), extracted OCaml model vs the C built from /repo's working tree (harness/jlsrun, tools/props/*.py)"}],
         "checks": [], "notes": "see DESIGN.md; known_findings.json lists genuine defects (fixed / known)", "not_applicable": []}
    for p in props:
        if p in CHECKS:
            c = CHECKS[p]
            m["checks"].append({"property_id": p, "quick_cmd": "python3 tools/check.py %s --tier quick" % p,
                                "thorough_cmd": "python3 tools/check.py %s --tier thorough" % p,
                                "evidence_file": "/verif/evidence/%s.json" % p,
                                "replay_cmd_template": "python3 tools/check.py %s --replay {path}" % p,
                                "engine": "coq-model+correspondence",
                                "level_claimed": {"category": c["cat"], "text": c["text"], "design_ref": c["ref"]},
                                "level_note": c["note"], "technique": c["tech"]})
        else:
            m["not_applicable"].append({"property_id": p, "reason": "check not built yet (work in progress; DESIGN.md section 5 has the plan)"})
    json.dump(m, open(os.path.join(V, "MANIFEST.json"), "w"), indent=1)
    print("MANIFEST: %d checks, %d not claimed" % (len(m["checks"]), len(m["not_applicable"])))

if __name__ == "__main__":
    main()
