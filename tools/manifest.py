#!/usr/bin/env python3
"""Regenerates /verif/MANIFEST.json from the table below (keeps it valid)."""
import json, os
V = os.path.dirname(os.path.dirname(os.path.abspath(__file__)))
props = [json.loads(l)["id"] for l in open(os.path.join(V, "properties.jsonl"))]

CHECKS = {
 "C18": dict(cat="proof", tech="Coq proof (all lengths/alignments/code paths) + differential run of jls_crc32c on SSE4.2, table and ASan builds",
   text="Theorems in coq/Properties_C18.v: the byte-wise table form, crc32cSlicingBy8 (every alignment), the SSE4.2/ARM instruction loops and the three header variants equal the bit-serial CRC-32C reference for every byte list; the 8x256 tables parsed from crc32c_sw.c equal the generator polynomial's. The binaries are tied to the model by running jls_crc32c/jls_crc32c_hdr (both CRC builds + ASan) against the extracted reference on every length 0..320 (thorough 0..4096) x 8 alignments x 4 patterns and more.",
   note="Trusted: Coq kernel + vm_compute, gen_constants.py (table probe), instruction semantics of crc32 (Intel SDM) as modelled, extraction + OCaml glue, C harness; crc32c_arm_neon.c modelled but not executed.", ref="5/C18"),
 "C20": dict(cat="proof", tech="Coq proof over Q of the accumulator algebra (any sequence, any split/grouping, aliasing) + differential run of jls_statistics_* with rounding tolerance",
   text="Theorems in coq/Properties_C20.v over exact rationals with the C's control flow (k=0 branches, statement order on a store for aliasing): add one-at-a-time, compute, and combine of any grouping all equal the exact (count, mean, sum of squared deviations, min, max); variance >= 0; min <= mean <= max; combine with an empty accumulator is the identity; the result may overwrite either operand. The binaries are tied to the model by running jls_statistics_reset/add/compute_f32/f64/combine/var on generated programs (9 sequence families, every split point, random grouping trees, all aliasings) on the plain and ASan builds: count/min/max exact, mean/variance within the stated rounding tolerance, aliasing and identity bit-exact.",
   note="Partial by nature: binary64 rounding is measured against the exact model, not proved (largest observed error/tolerance ratio is recorded in the evidence). Trusted: Coq kernel, extraction, OCaml glue (double -> exact rational conversion), C harness.", ref="5/C20"),
}

def main():
    m = {"version": 1, "setup_cmd": "make -C /verif setup",
         "hooks": {"guard": "JLS_VERIF", "enable": "harness/Makefile compiles /repo/src/*.c into /verif/build/<variant> with -DJLS_VERIF (and -DJLS_VERIF_MRB_BUFFER_SIZE=<n> for the threaded-writer variant)",
                   "baseline_off_cmd": "cmake --build /repo/_build && ctest --test-dir /repo/_build --timeout 900",
                   "source_commits": ["7323e46"], "add_only": True},
         "engines": [{"name": "coq-model+correspondence", "path": "/verif/tools/check.py", "serves_properties": sorted(CHECKS.keys()),
                      "kind_free_text": "Coq 8.16.1 theorems over a hand-written Gallina model (coq/), constants regenerated from /repo on every run (tools/gen_constants.py), extracted OCaml model vs the C built from /repo's working tree (harness/jlsrun, tools/props/*.py)"}],
         "checks": [], "notes": "see DESIGN.md; known_findings.json lists genuine defects (fixed / known)", "not_applicable": []}
    for p in props:
        if p in CHECKS:
            c = CHECKS[p]
            m["checks"].append({"property_id": p, "quick_cmd": "python3 tools/check.py %s --tier quick" % p,
                                "thorough_cmd": "python3 tools/check.py %s --tier thorough" % p,
                                "evidence_file": "/verif/evidence/%s.json" % p,
                                "replay_cmd_template": "python3 tools/check.py %s --replay {path}" % p,
                                "engine": "coq-model+correspondence",
                                "level_claimed": {"category": c["cat"], "text": c["text"], "design_ref": c["ref"]},
                                "level_note": c["note"], "technique": c["tech"]})
        else:
            m["not_applicable"].append({"property_id": p, "reason": "check not built yet (work in progress; DESIGN.md section 5 has the plan)"})
    json.dump(m, open(os.path.join(V, "MANIFEST.json"), "w"), indent=1)
    print("MANIFEST: %d checks, %d not claimed" % (len(m["checks"]), len(m["not_applicable"])))

if __name__ == "__main__":
    main()
