#!/bin/bash
# usage: tools/seed_confirm.sh <dir with patch.diff demo.c>  -> confirms: applies to HEAD, builds with repo flags, pinned suite passes,
# demo exits non-zero with the change and 0 without it.  Uses a scratch worktree, removed afterwards.
D=$(realpath $1)
WT=/tmp/seed_confirm_$$
git -C /repo worktree add --detach $WT >/dev/null 2>&1 || exit 2
trap 'git -C /repo worktree remove --force $WT >/dev/null 2>&1' EXIT
cd $WT
cmake -G Ninja -B _build -S . >/dev/null 2>&1 && cmake --build _build >/dev/null 2>&1 || { echo "baseline build fails"; exit 3; }
gcc -I include -I include_prv $D/demo.c _build/src/libjls.a -lm -lpthread -o demo_orig 2>/dev/null || { echo "demo does not compile"; exit 4; }
( cd $WT && timeout 300 ./demo_orig >/dev/null 2>&1 ); R0=$?
git apply $D/patch.diff || { echo "patch does not apply to HEAD"; exit 5; }
cmake --build _build >/dev/null 2>&1 || { echo "BUILD FAILS with patch"; exit 6; }
T=$(ctest --test-dir _build --timeout 900 2>&1 | grep -E "tests passed")
gcc -I include -I include_prv $D/demo.c _build/src/libjls.a -lm -lpthread -o demo_mut 2>/dev/null
( cd $WT && timeout 300 ./demo_mut >/dev/null 2>&1 ); R1=$?
echo "tests: $T | demo without change: exit $R0 | demo with change: exit $R1"
