#!/bin/bash
# build /repo/_build with the repository's own flags (-Werror) and run the pinned suite serially
set -o pipefail
cd /repo || exit 2
out=$(cmake --build _build 2>&1) || { echo "$out" | tail -30; echo "BUILD FAILED"; exit 1; }
ctest --test-dir _build --timeout 900 2>&1 | tail -4
rm -f /repo/jls_test_fsr_omit_tmp.jls /repo/jls_test_tmp.jls
