#!/bin/bash
# usage: tools/seed_intake.sh <tag> <check> [<check> ...]   takes /tmp/seedout_<tag> into seeded/<tag>, confirms it, removes the
# blind agent's worktree and output, then evaluates the named checks against the change (scratch worktree; /repo untouched)
T=$1; shift
mkdir -p /verif/seeded/$T
cp /tmp/seedout_$T/patch.diff /tmp/seedout_$T/demo.c /tmp/seedout_$T/notes.txt /verif/seeded/$T/ || exit 1
git -C /repo worktree remove --force /tmp/seedwt_$T 2>/dev/null
rm -rf /tmp/seedout_$T /tmp/prompt_$T.txt
echo "== confirm"; /verif/tools/seed_confirm.sh /verif/seeded/$T
echo "== eval"; /verif/tools/seed_eval.sh /verif/seeded/$T/patch.diff "$@" 2>&1 | cut -c1-260
