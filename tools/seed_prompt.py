#!/usr/bin/env python3
"""usage: seed_prompt.py <prop id> <tag> [extra hint]  -> creates scratch worktree /tmp/seedwt_<tag> of /repo HEAD and prints the prompt for a blind sub-agent
(the prompt contains only the property text and the worktree path; nothing from /verif)."""
import json, subprocess, sys
pid, tag = sys.argv[1], sys.argv[2]
extra = sys.argv[3] if len(sys.argv) > 3 else ""
p = [json.loads(l) for l in open('/verif/properties.jsonl') if json.loads(l)['id'] == pid][0]
wt = "/tmp/seedwt_%s" % tag
subprocess.run(["git", "-C", "/repo", "worktree", "add", "--detach", wt], check=True, stdout=subprocess.DEVNULL, stderr=subprocess.DEVNULL)
print(f"""You are helping test a verification effort for the C library jetperch/jls (JLS file format: chunked binary files of multi-level summarized time-series signals, CRC32C, threaded writer, repair of unclosed files).

Your own scratch git worktree of the library is at {wt} (a detached worktree of the repository at its current HEAD). Work ONLY inside {wt} and /tmp/seedout_{tag} (create it). Do NOT read or write anything under /verif or /repo (they are off limits; do not look there even to read).

Here is one semantic property the library is supposed to satisfy:

{json.dumps(p, indent=1)}

TASK: produce ONE realistic change (a bug a maintainer could plausibly introduce: a refactoring slip, an off-by-one, a wrong condition, a reordered pair of statements, a missed case, an optimisation that is wrong in a corner) to the library sources under {wt}/src or {wt}/include* that BREAKS this property, while
  (a) the library still compiles with the repository's own build (cmake -G Ninja -B _build -S . && cmake --build _build), and
  (b) the repository's existing test suite still passes completely, unedited (run serially:  ctest --test-dir _build --timeout 900   -- do not use -j, two tests share a temp file name), and
  (c) the breakage needs something SPECIFIC to manifest: a particular interleaving, a crash or fault at a particular point, a multi-step sequence of operations, an unusual input or parameter combination, or two cooperating sites that each look fine alone. NOT something ordinary use would expose at once (a change that makes every file unreadable is useless).
{extra}
Also write a demonstration: a single C file demo.c (compiled as: gcc -I include -I include_prv demo.c _build/src/libjls.a -lm -lpthread -o demo ; run from the worktree root) that exits 0 on the unchanged library and exits non-zero (assert/explicit check; a crash or time-out also counts but an explicit check is preferred) on the changed library, by exhibiting the violation of the property through the public API (or by observing the file bytes / write calls where the property is about those). Keep temp files under /tmp and delete them.

Procedure: read the relevant sources in the worktree to find a good spot; make the change; build; run the full test suite serially and confirm 100% pass; build and run demo against the changed library (must fail) and against the unchanged library (must pass). For the unchanged library use a SECOND BUILD DIRECTORY built from `git archive HEAD | tar -x -C <scratch dir>` (or `git diff > x.diff; git apply -R x.diff; build; git apply x.diff`); do NOT use `git stash`: the stash is shared by all worktrees of the repository and other people work in sibling worktrees. Iterate until all of that holds - verify it yourself, do not assume.

Deliverables, in /tmp/seedout_{tag}/ :
  patch.diff   (git diff of the worktree against HEAD, library sources only - not the demo, not build output)
  demo.c
  notes.txt    (what the change is, why it breaks the property, exactly what it needs in order to manifest, the commands you ran and their results)
Leave the worktree with the change applied is fine; do not commit. Your final message: a 5-10 line summary (the change, what it needs to manifest, test suite result, demo results with/without).""")
