"""Crash-image machinery shared by C03 (stop at any point -> correct prefix) and C19 (repair converges,
good files are never modified).  A crash point is (k, j): the first k backend writes of the writer's
log are complete and j bytes of write k+1 reached the file (j = 0: between two writes)."""
import re
import vlib, proglib
import importlib


def writer_program(rng, tier, no_fsr=None):
    C17 = importlib.import_module("C17")
    if no_fsr or (no_fsr is None and rng.random() < 0.15):
        return no_fsr_program(rng, tier)
    ops, sigs, has_omit = C17.gen_writer(rng, tier, deep=True)
    return ops, sigs, has_omit


def no_fsr_program(rng, tier):
    """a file WITHOUT any FSR signal: sources, annotations on the built-in signal 0 (enough to fill index levels of its
    annotation track), user data of several sizes, possibly a VSR signal with annotations - the repair paths that do not go
    through an FSR track"""
    ops = ["wopen"]
    for s in range(rng.randrange(0, 3)):
        ops.append("src %d g%d.%d e - g3.2 e" % (s + 1, rng.choice([1, 8, 300]), rng.randrange(1, 999)))
    if rng.random() < 0.5:
        # redefinition attempt of signal 0 (rejected) / a VSR signal: neither has an FSR track
        ops.append("sig 0 0 0 8196 1000 0 0 0 0 0 0 g4.1 e")
    na = rng.choice([3, 12, 40, 120])
    ts = 0
    body = []
    for a in range(na):
        ts += rng.choice([0, 1, 7])
        body.append("anno 0 %d 3f800000 %d 0 %d g%d.%d" % (ts, rng.choice([0, 1, 2]), rng.choice([1, 2, 3]), rng.choice([0, 5, 13, 200]), rng.randrange(1, 10**6)))
    for u in range(rng.choice([0, 2, 9])):
        body.insert(rng.randrange(0, len(body) + 1), "ud %d %d g%d.%d" % (rng.randrange(0, 4096), rng.choice([1, 2, 3]), rng.choice([1, 3, 100, 1000]), rng.randrange(1, 10**6)))
    return ops + body, {}, False


def with_marks(ops):
    out = []
    for o in ops:
        out.append(o)
        out.append("logmark")
    return out


TAGN = {0x40: "UD", 1: "SRC", 2: "SIG", 0xff: "END"}


def tagname(t):
    if t in TAGN:
        return TAGN[t]
    if t & 0x20:
        return ["FSR", "VSR", "ANN", "UTC"][(t >> 3) & 3] + "_" + ["DEF", "HEAD", "DATA", "INDEX", "SUMM", "?5", "?6", "?7"][t & 7]
    return hex(t)


def tails(entries_with_data):
    """for every k: (tag of the last complete chunk, tag of a trailing partial chunk or None) of the image after k writes"""
    import struct
    img = bytearray()
    out = []

    def describe():
        off = 32
        last = None
        partial = None
        n = len(img)
        while off + 32 <= n:
            tag = img[off + 16]
            plen = struct.unpack_from("<I", img, off + 20)[0]
            pad = (8 - ((plen + 4) % 8)) % 8 if plen else 0
            tot = 32 + (plen + pad + 4 if plen else 0)
            if off + tot > n:
                partial = tagname(tag)
                break
            last = tagname(tag)
            off += tot
        if partial is None and off < n:
            partial = "hdr?"
        return (last, partial)
    out.append(describe())
    for kind, off, data in entries_with_data:
        if kind == "t":
            del img[off:]
        elif kind == "w":
            if len(img) < off + len(data):
                img.extend(b"\0" * (off + len(data) - len(img)))
            img[off:off + len(data)] = data
        out.append(describe())
    return out


def probe(ctx, programs, variant="plain"):
    """run each program once to learn its write log: returns list of dict(entries=[(kind, off, len)], marks=[log index after op i])"""
    import os
    paths = [os.path.join(ctx.tmp, "probe_%d.log" % i) for i in range(len(programs))]
    scripts = [";".join(with_marks(p) + ["wclose", "logmark", "loglens", "logdump " + paths[i]]) for i, p in enumerate(programs)]
    impl, _ = proglib.run_pair(ctx, scripts, variant, model=False)
    res = []
    for (p, line), path in zip(zip(programs, impl), paths):
        toks = line.split(";")
        marks = [int(t.split()[1]) for t in toks if t.startswith("logmark")]
        ll = [t for t in toks if t.startswith("loglens")]
        entries = []
        if ll:
            for e in ll[0].split()[2:]:
                k, off, ln = e.split(":")
                entries.append((int(k), int(off), int(ln)))
        tl = []
        if os.path.exists(path):
            ed = []
            for l in open(path):
                t = l.split()
                if t[0] == "w":
                    ed.append(("w", int(t[1]), bytes.fromhex(t[2]) if len(t) > 2 else b""))
                elif t[0] == "t":
                    ed.append(("t", int(t[1]), b""))
                else:
                    ed.append(("s", 0, b""))
            tl = tails(ed)
            os.remove(path)
            # first chunk of each (tag, chunk_meta) on a track (DATA / INDEX / SUMMARY): the write that also triggers a head-table update
            seen, end, firsts = set(), 0, []
            for i, (kd, off, data) in enumerate(ed):
                if kd == "t":
                    end = min(end, off)
                elif kd == "w":
                    if off >= end and len(data) == 32 and off >= 32 and (data[16] & 0x20) and (data[16] & 7) >= 2:
                        key = (data[16], data[18], data[19])
                        if key not in seen:
                            seen.add(key)
                            firsts.append(i)
                    end = max(end, off + len(data))
        else:
            firsts = []
        res.append(dict(entries=entries, marks=marks, ok=bool(ll) and "FAULT" not in line, raw=line[-200:], tails=tl, firsts=firsts))
    return res


def crash_points(rng, entries, tier, per_program, tails=None, firsts=None):
    """all k; for in-place writes every j, for appends a few j"""
    pts = []
    end = 0
    for k, (kind, off, ln) in enumerate(entries):
        if kind != 0:
            pts.append((k, 0, "ctl"))
            if kind == 1:
                end = min(end, off)
            continue
        inplace = off < end
        pts.append((k, 0, "between"))
        if inplace:
            js = range(1, ln) if tier != "quick" else sorted(set([1, 7, 8, 9, 28, 31, ln // 2, ln - 1]))
            for j in js:
                if 0 < j < ln:
                    pts.append((k, j, "inplace"))
        else:
            for j in sorted(set([1, 8, 28, 31, ln // 2, ln - 1])):
                if 0 < j < ln:
                    pts.append((k, j, "append"))
        end = max(end, off + ln)
    pts.append((len(entries), 0, "complete"))
    if len(pts) > per_program:
        # structural points first: every clean stop (j = 0) while an INDEX/SUMMARY pair or a HEAD table is being written,
        # i.e. the file ends with (or inside) an INDEX or SUMMARY chunk, or the next write is in place
        def structural(p):
            k, j, kind = p
            if j != 0:
                return False
            if kind == "complete":
                return True
            t = (tails[k] if tails and k < len(tails) else (None, None)) or (None, None)
            names = [x for x in t if x]
            if any(x.endswith(("_INDEX", "_SUMM")) for x in names):
                return True
            nxt = entries[k] if k < len(entries) else None
            ends = [e[1] + e[2] for e in entries[:k] if e[0] == 0]
            return bool(nxt) and nxt[0] == 0 and bool(ends) and nxt[1] < max(ends)
        # ... and every clean stop around the FIRST chunk of each kind on a track (the append whose offset goes into the head table):
        # from two writes before its header to the write after its footer
        near_first = set()
        for e in (firsts or []):
            near_first.update(range(e - 2, e + 5))
        first_pts = [p for p in pts if p[1] == 0 and p[0] in near_first]
        if len(first_pts) > per_program // 2:
            rng.shuffle(first_pts)
            first_pts = first_pts[:per_program // 2]
        # ... and torn in-place writes (a header link / head-table rewrite cut in the middle) that follow an INDEX/SUMMARY pair closely:
        # the chunk whose header is torn is then already referenced by an index on disk
        def after_pair(k):
            for m in range(max(0, k - 7), k + 1):
                t = (tails[m] if tails and m < len(tails) else (None, None)) or (None, None)
                if t[0] and t[0].endswith(("_INDEX", "_SUMM")):
                    return True
            return False
        torn_pts = [p for p in pts if p[2] == "inplace" and p[1] in (1, 8, 9, 28, 31) and after_pair(p[0])]
        if len(torn_pts) > per_program // 5:
            rng.shuffle(torn_pts)
            torn_pts = torn_pts[:per_program // 5]
        first_pts = first_pts + [p for p in torn_pts if p not in set(first_pts)]
        # ... and clean stops right AFTER an in-place write when the next write is an append: a writer that links before it writes the
        # chunk leaves a dangling link exactly there
        end2, prev_inplace, after_ip = 0, False, []
        for k2, (kind2, off2, ln2) in enumerate(entries):
            if kind2 == 0:
                if prev_inplace and off2 >= end2:
                    after_ip.append((k2, 0, "between"))
                prev_inplace = off2 < end2
                end2 = max(end2, off2 + ln2)
            elif kind2 == 1:
                end2 = min(end2, off2)
        if len(after_ip) > per_program // 6:
            rng.shuffle(after_ip)
            after_ip = after_ip[:per_program // 6]
        first_pts = first_pts + [p for p in after_ip if p not in set(first_pts)]
        fs = set(first_pts)
        keep = [p for p in pts if structural(p) and p not in fs]
        if len(keep) > (2 * per_program) // 3 - len(first_pts):
            rng.shuffle(keep)
            keep = keep[:max(0, (2 * per_program) // 3 - len(first_pts))]
        keep = first_pts + keep
        ks = set(keep)
        rest = [p for p in pts if p not in ks]
        rng.shuffle(rest)
        pts = keep + rest[:max(0, per_program - len(keep))]
    return pts


def image_script(prog_ops, sigs, k, j, stats=False):
    rd = []
    for sid in sigs:
        rd.append("rdall %d" % sid)
        rd.append("rdall %d" % sid)       # again: a first call that fails with an error code must not make a later one return wrong data
        if sigs[sid].get("sdf"):
            rd.append("stall %d %d" % (sid, sigs[sid]["sdf"]))
            rd.append("stall %d %d" % (sid, sigs[sid]["sdf"] * sigs[sid]["sumdf"]))
        rd.append("an %d -1000000000000" % sid)
        rd.append("ut %d -1000000000000" % sid)
    rd.append("an 0 -1000000000000")
    ops = list(prog_ops) + ["wclose", "image %d %d" % (k, j), "hash", "ropen", "srcs", "sigs"] + rd + ["udr", "rclose", "hash",
                                                                                                     "ropen", "srcs", "sigs"] + rd + ["udr", "rclose", "hash"]
    return ";".join(ops)


def parse_image_result(script, line):
    """split the implementation's answer into: hash0, open1 rc, dump1 (list of op results), hash1, open2 rc, dump2, hash2, fault"""
    ops = script.split(";")
    out = line.split(";")
    fault = None
    if out and out[-1].startswith("FAULT"):
        fault = out[-1]
        out = out[:-1]
    i_img = max(i for i, o in enumerate(ops) if o.startswith("image "))
    tail_ops = ops[i_img + 1:]
    tail_out = out[i_img + 1:]
    r = dict(fault=fault, ops=tail_ops, out=tail_out, pre_out=out[:i_img + 1])
    # positions
    idx = [i for i, o in enumerate(tail_ops) if o == "hash"]
    opens = [i for i, o in enumerate(tail_ops) if o == "ropen"]

    def get(i):
        return tail_out[i] if i < len(tail_out) else None
    r["hash0"], r["hash1"], r["hash2"] = get(idx[0]), get(idx[1]), get(idx[2])
    r["open1"], r["open2"] = get(opens[0]), get(opens[1])
    r["dump1"] = list(zip(tail_ops[opens[0] + 1:idx[1] - 1], tail_out[opens[0] + 1:idx[1] - 1]))
    r["dump2"] = list(zip(tail_ops[opens[1] + 1:idx[2] - 1], tail_out[opens[1] + 1:idx[2] - 1]))
    return r


def spec_dump(ctx, prog_ops, sigs, lens, stalls=None):
    """ask the model for the prefix content: rd sig 0 len for the lengths the implementation reported, plus full lists"""
    ops = list(prog_ops) + ["wclose", "ropen", "srcs", "sigs"]
    for sid in sigs:
        ops.append("len %d" % sid)
        ln = lens.get(sid, 0)
        ops.append("rd %d 0 %d" % (sid, ln) if ln > 0 else "len %d" % sid)
        for (incr, count) in (stalls or {}).get(sid, []):
            ops.append("st %d 0 %d %d" % (sid, incr, count))
        ops.append("an %d -1000000000000" % sid)
        ops.append("ut %d -1000000000000" % sid)
    ops.append("an 0 -1000000000000")
    ops.append("udr")
    return ";".join(ops)


def is_subsequence(a, b):
    it = iter(b)
    return all(any(x == y for y in it) for x in a)
