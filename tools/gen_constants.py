#!/usr/bin/env python3
"""T1: regenerate coq/Generated.v from /repo's current sources.

Values are not parsed with regexes: for each source file whose statics/macros we
need, a tiny C "probe" is generated that #includes that .c file textually (so its
static tables and #defines are in scope), prints NAME=VALUE lines, and is compiled
against the current headers.  The output file is only rewritten when its content
changes (so make does not rebuild the Coq development needlessly).
"""
import os, subprocess, sys, tempfile, hashlib

REPO = os.environ.get("JLS_REPO", "/repo")
VERIF = os.path.dirname(os.path.dirname(os.path.abspath(__file__)))
BUILD = os.environ.get("JLS_BUILD", os.path.join(VERIF, "build"))
OUT = os.path.join(VERIF, "coq", "Generated.v")

CFLAGS = ["-std=gnu11", "-O0", "-w", "-DJLS_VERIF", "-D__FILENAME__=\"x\"",
          "-I%s/include" % REPO, "-I%s/include_prv" % REPO, "-I%s/src" % REPO]

# probe name -> (extra cflags, include file, list of (coq_name, C expression) all printed as unsigned long long)
PROBES = {
 "fmt": ([], None, [
    ("JLS_FORMAT_VERSION_U32", "JLS_FORMAT_VERSION_U32"),
    ("JLS_SOURCE_COUNT", "JLS_SOURCE_COUNT"), ("JLS_SIGNAL_COUNT", "JLS_SIGNAL_COUNT"),
    ("JLS_SUMMARY_LEVEL_COUNT", "JLS_SUMMARY_LEVEL_COUNT"),
    ("JLS_SIGNAL_TYPE_FSR", "JLS_SIGNAL_TYPE_FSR"), ("JLS_SIGNAL_TYPE_VSR", "JLS_SIGNAL_TYPE_VSR"),
    ("JLS_TRACK_TYPE_FSR", "JLS_TRACK_TYPE_FSR"), ("JLS_TRACK_TYPE_VSR", "JLS_TRACK_TYPE_VSR"),
    ("JLS_TRACK_TYPE_ANNOTATION", "JLS_TRACK_TYPE_ANNOTATION"), ("JLS_TRACK_TYPE_UTC", "JLS_TRACK_TYPE_UTC"),
    ("JLS_TRACK_TYPE_COUNT", "JLS_TRACK_TYPE_COUNT"),
    ("JLS_STORAGE_TYPE_INVALID", "JLS_STORAGE_TYPE_INVALID"), ("JLS_STORAGE_TYPE_BINARY", "JLS_STORAGE_TYPE_BINARY"),
    ("JLS_STORAGE_TYPE_STRING", "JLS_STORAGE_TYPE_STRING"), ("JLS_STORAGE_TYPE_JSON", "JLS_STORAGE_TYPE_JSON"),
    ("JLS_TRACK_CHUNK_DEF", "JLS_TRACK_CHUNK_DEF"), ("JLS_TRACK_CHUNK_HEAD", "JLS_TRACK_CHUNK_HEAD"),
    ("JLS_TRACK_CHUNK_DATA", "JLS_TRACK_CHUNK_DATA"), ("JLS_TRACK_CHUNK_INDEX", "JLS_TRACK_CHUNK_INDEX"),
    ("JLS_TRACK_CHUNK_SUMMARY", "JLS_TRACK_CHUNK_SUMMARY"),
    ("JLS_TRACK_TAG_FLAG", "JLS_TRACK_TAG_FLAG"),
    ("JLS_TAG_INVALID", "JLS_TAG_INVALID"), ("JLS_TAG_SOURCE_DEF", "JLS_TAG_SOURCE_DEF"),
    ("JLS_TAG_SIGNAL_DEF", "JLS_TAG_SIGNAL_DEF"),
    ("JLS_TAG_TRACK_FSR_DEF", "JLS_TAG_TRACK_FSR_DEF"), ("JLS_TAG_TRACK_FSR_HEAD", "JLS_TAG_TRACK_FSR_HEAD"),
    ("JLS_TAG_TRACK_FSR_DATA", "JLS_TAG_TRACK_FSR_DATA"), ("JLS_TAG_TRACK_FSR_INDEX", "JLS_TAG_TRACK_FSR_INDEX"),
    ("JLS_TAG_TRACK_FSR_SUMMARY", "JLS_TAG_TRACK_FSR_SUMMARY"),
    ("JLS_TAG_TRACK_VSR_DEF", "JLS_TAG_TRACK_VSR_DEF"), ("JLS_TAG_TRACK_VSR_HEAD", "JLS_TAG_TRACK_VSR_HEAD"),
    ("JLS_TAG_TRACK_VSR_DATA", "JLS_TAG_TRACK_VSR_DATA"), ("JLS_TAG_TRACK_VSR_INDEX", "JLS_TAG_TRACK_VSR_INDEX"),
    ("JLS_TAG_TRACK_VSR_SUMMARY", "JLS_TAG_TRACK_VSR_SUMMARY"),
    ("JLS_TAG_TRACK_ANNOTATION_DEF", "JLS_TAG_TRACK_ANNOTATION_DEF"), ("JLS_TAG_TRACK_ANNOTATION_HEAD", "JLS_TAG_TRACK_ANNOTATION_HEAD"),
    ("JLS_TAG_TRACK_ANNOTATION_DATA", "JLS_TAG_TRACK_ANNOTATION_DATA"), ("JLS_TAG_TRACK_ANNOTATION_INDEX", "JLS_TAG_TRACK_ANNOTATION_INDEX"),
    ("JLS_TAG_TRACK_ANNOTATION_SUMMARY", "JLS_TAG_TRACK_ANNOTATION_SUMMARY"),
    ("JLS_TAG_TRACK_UTC_DEF", "JLS_TAG_TRACK_UTC_DEF"), ("JLS_TAG_TRACK_UTC_HEAD", "JLS_TAG_TRACK_UTC_HEAD"),
    ("JLS_TAG_TRACK_UTC_DATA", "JLS_TAG_TRACK_UTC_DATA"), ("JLS_TAG_TRACK_UTC_INDEX", "JLS_TAG_TRACK_UTC_INDEX"),
    ("JLS_TAG_TRACK_UTC_SUMMARY", "JLS_TAG_TRACK_UTC_SUMMARY"),
    ("JLS_TAG_USER_DATA", "JLS_TAG_USER_DATA"), ("JLS_TAG_END", "JLS_TAG_END"),
    ("JLS_DATATYPE_I4", "JLS_DATATYPE_I4"), ("JLS_DATATYPE_I8", "JLS_DATATYPE_I8"), ("JLS_DATATYPE_I16", "JLS_DATATYPE_I16"),
    ("JLS_DATATYPE_I24", "JLS_DATATYPE_I24"), ("JLS_DATATYPE_I32", "JLS_DATATYPE_I32"), ("JLS_DATATYPE_I64", "JLS_DATATYPE_I64"),
    ("JLS_DATATYPE_U1", "JLS_DATATYPE_U1"), ("JLS_DATATYPE_U4", "JLS_DATATYPE_U4"), ("JLS_DATATYPE_U8", "JLS_DATATYPE_U8"),
    ("JLS_DATATYPE_U16", "JLS_DATATYPE_U16"), ("JLS_DATATYPE_U24", "JLS_DATATYPE_U24"), ("JLS_DATATYPE_U32", "JLS_DATATYPE_U32"),
    ("JLS_DATATYPE_U64", "JLS_DATATYPE_U64"), ("JLS_DATATYPE_F32", "JLS_DATATYPE_F32"), ("JLS_DATATYPE_F64", "JLS_DATATYPE_F64"),
    ("JLS_SUMMARY_FSR_COUNT", "JLS_SUMMARY_FSR_COUNT"),
    ("SIZEOF_file_header", "sizeof(struct jls_file_header_s)"),
    ("OFFSETOF_file_header_length", "offsetof(struct jls_file_header_s, length)"),
    ("OFFSETOF_file_header_version", "offsetof(struct jls_file_header_s, version)"),
    ("OFFSETOF_file_header_crc32", "offsetof(struct jls_file_header_s, crc32)"),
    ("SIZEOF_chunk_header", "sizeof(struct jls_chunk_header_s)"),
    ("OFFSETOF_chunk_item_next", "offsetof(struct jls_chunk_header_s, item_next)"),
    ("OFFSETOF_chunk_item_prev", "offsetof(struct jls_chunk_header_s, item_prev)"),
    ("OFFSETOF_chunk_tag", "offsetof(struct jls_chunk_header_s, tag)"),
    ("OFFSETOF_chunk_rsv0", "offsetof(struct jls_chunk_header_s, rsv0_u8)"),
    ("OFFSETOF_chunk_meta", "offsetof(struct jls_chunk_header_s, chunk_meta)"),
    ("OFFSETOF_chunk_payload_length", "offsetof(struct jls_chunk_header_s, payload_length)"),
    ("OFFSETOF_chunk_payload_prev_length", "offsetof(struct jls_chunk_header_s, payload_prev_length)"),
    ("OFFSETOF_chunk_crc32", "offsetof(struct jls_chunk_header_s, crc32)"),
    ("SIZEOF_payload_header", "sizeof(struct jls_payload_header_s)"),
    ("OFFSETOF_payload_entry_count", "offsetof(struct jls_payload_header_s, entry_count)"),
    ("OFFSETOF_payload_entry_size_bits", "offsetof(struct jls_payload_header_s, entry_size_bits)"),
    ("SIZEOF_track_head", "sizeof(struct jls_track_head_s)"),
    ("SIZEOF_index_entry", "sizeof(struct jls_index_entry_s)"),
    ("SIZEOF_annotation", "sizeof(struct jls_annotation_s)"),
    ("OFFSETOF_annotation_type", "offsetof(struct jls_annotation_s, annotation_type)"),
    ("OFFSETOF_annotation_y", "offsetof(struct jls_annotation_s, y)"),
    ("OFFSETOF_annotation_data_size", "offsetof(struct jls_annotation_s, data_size)"),
    ("SIZEOF_annotation_summary_entry", "sizeof(struct jls_annotation_summary_entry_s)"),
    ("SIZEOF_utc_data", "sizeof(struct jls_utc_data_s)"),
    ("SIZEOF_utc_summary_entry", "sizeof(struct jls_utc_summary_entry_s)"),
    ("JLS_BUF_DEFAULT_SIZE", "JLS_BUF_DEFAULT_SIZE"), ("JLS_BUF_STRING_SIZE", "JLS_BUF_STRING_SIZE"),
    ("JLS_BK_MSG_WRITE_TIMEOUT_MS", "JLS_BK_MSG_WRITE_TIMEOUT_MS"), ("JLS_BK_MSG_LOCK_TIMEOUT_MS", "JLS_BK_MSG_LOCK_TIMEOUT_MS"),
    ("JLS_BK_PROCESS_LOCK_TIMEOUT_MS", "JLS_BK_PROCESS_LOCK_TIMEOUT_MS"), ("JLS_BK_FLUSH_TIMEOUT_MS", "JLS_BK_FLUSH_TIMEOUT_MS"),
    ("JLS_BK_CLOSE_TIMEOUT_MS", "JLS_BK_CLOSE_TIMEOUT_MS"),
    ("JLS_ERROR_SUCCESS", "JLS_ERROR_SUCCESS"), ("JLS_ERROR_UNSPECIFIED", "JLS_ERROR_UNSPECIFIED"),
    ("JLS_ERROR_NOT_ENOUGH_MEMORY", "JLS_ERROR_NOT_ENOUGH_MEMORY"), ("JLS_ERROR_NOT_SUPPORTED", "JLS_ERROR_NOT_SUPPORTED"),
    ("JLS_ERROR_IO", "JLS_ERROR_IO"), ("JLS_ERROR_PARAMETER_INVALID", "JLS_ERROR_PARAMETER_INVALID"),
    ("JLS_ERROR_MESSAGE_INTEGRITY", "JLS_ERROR_MESSAGE_INTEGRITY"), ("JLS_ERROR_TIMED_OUT", "JLS_ERROR_TIMED_OUT"),
    ("JLS_ERROR_FULL", "JLS_ERROR_FULL"), ("JLS_ERROR_EMPTY", "JLS_ERROR_EMPTY"), ("JLS_ERROR_TOO_SMALL", "JLS_ERROR_TOO_SMALL"),
    ("JLS_ERROR_TOO_BIG", "JLS_ERROR_TOO_BIG"), ("JLS_ERROR_NOT_FOUND", "JLS_ERROR_NOT_FOUND"),
    ("JLS_ERROR_ALREADY_EXISTS", "JLS_ERROR_ALREADY_EXISTS"), ("JLS_ERROR_BUSY", "JLS_ERROR_BUSY"),
    ("JLS_ERROR_UNSUPPORTED_FILE", "JLS_ERROR_UNSUPPORTED_FILE"), ("JLS_ERROR_UNAVAILABLE", "JLS_ERROR_UNAVAILABLE"),
    ("JLS_ERROR_INVALID_RETURN_CONDITION", "JLS_ERROR_INVALID_RETURN_CONDITION"), ("JLS_ERROR_TRUNCATED", "JLS_ERROR_TRUNCATED"),
    ("JLS_ERROR_CODE_COUNT", "JLS_ERROR_CODE_COUNT"),
    ("JLS_TIME_Q", "JLS_TIME_Q"), ("JLS_TIME_SECOND", "JLS_TIME_SECOND"),
 ]),
 "core": ([], "core.c", [
    ("SAMPLE_SIZE_BYTES_MAX", "SAMPLE_SIZE_BYTES_MAX"),
    ("SAMPLE_DECIMATE_FACTOR_MIN", "SAMPLE_DECIMATE_FACTOR_MIN"), ("SAMPLES_PER_DATA_MIN", "SAMPLES_PER_DATA_MIN"),
    ("ENTRIES_PER_SUMMARY_MIN", "ENTRIES_PER_SUMMARY_MIN"), ("SUMMARY_DECIMATE_FACTOR_MIN", "SUMMARY_DECIMATE_FACTOR_MIN"),
    ("F64_BUF_LENGTH_MIN", "F64_BUF_LENGTH_MIN"), ("CORE_SIGNAL_MASK", "SIGNAL_MASK"),
 ] + [("DEF%s_%s" % (w, f), "SIGNAL_%s_DEFAULTS.%s" % (w, f))
      for w in ("1", "4", "8", "16", "32", "64")
      for f in ("samples_per_data", "sample_decimate_factor", "entries_per_summary",
                "summary_decimate_factor", "annotation_decimate_factor", "utc_decimate_factor")]),
 "raw": ([], "raw.c", [
    ("RAW_CRC_SIZE", "CRC_SIZE"), ("RAW_HEADER_ALIGN", "HEADER_ALIGN"), ("RAW_SCAN_SIZE", "SCAN_SIZE"),
 ]),
 "tmap": ([], "tmap.c", [("TMAP_ENTRIES_ALLOC_INIT", "ENTRIES_ALLOC_INIT")]),
 "twr": ([], "threaded_writer.c", [
    ("MRB_BUFFER_SIZE_DEFAULT", "MRB_BUFFER_SIZE"),
    ("SIZEOF_msg_header", "sizeof(struct msg_header_s)"),
 ]),
 "reader": ([], "reader.c", [("DECIMATE_PER_DURATION", "DECIMATE_PER_DURATION"), ("READER_SIGNAL_MASK", "SIGNAL_MASK")]),
}

CRC_TABLES = ["o32", "o40", "o48", "o56", "o64", "o72", "o80", "o88"]


def run_probe(name, cflags, inc, items, tmp, tables=False):
    src = os.path.join(tmp, "probe_%s.c" % name)
    exe = os.path.join(tmp, "probe_%s" % name)
    with open(src, "w") as f:
        f.write("#include <stdio.h>\n#include <stddef.h>\n#include <stdint.h>\n")
        f.write('#include "jls/format.h"\n#include "jls/backend.h"\n#include "jls/buffer.h"\n#include "jls/ec.h"\n#include "jls/time.h"\n')
        if inc:
            f.write('#include "%s"\n' % inc)
        f.write("int main(void) {\n")
        for n, e in items:
            f.write('  printf("%s=%%llu\\n", (unsigned long long)(%s));\n' % (n, e))
        if tables:
            for t in CRC_TABLES:
                f.write('  printf("TABLE_%s="); for (int i = 0; i < 256; ++i) printf("%%lu ", (unsigned long) crc_tableil8_%s[i]); printf("\\n");\n' % (t, t))
        f.write("  return 0;\n}\n")
    lib = os.path.join(BUILD, "plain", "libjls.a")
    cmd = ["gcc"] + CFLAGS + cflags + [src, lib, "-lm", "-lpthread", "-o", exe]
    r = subprocess.run(cmd, capture_output=True, text=True)
    if r.returncode != 0:
        sys.stderr.write("gen_constants: probe %s failed to compile:\n%s\n" % (name, r.stderr[-3000:]))
        raise SystemExit(3)          # the library builds but the translator no longer fits the source: the tie T1 is broken
    out = subprocess.run([exe], capture_output=True, text=True, check=True).stdout
    vals = {}
    for line in out.splitlines():
        k, v = line.split("=", 1)
        vals[k] = v.strip()
    return vals


def main():
    # the library archive is needed to link probes that include a .c file
    r = subprocess.run(["make", "-s", "-C", os.path.join(VERIF, "harness"), os.path.join(BUILD, "plain", "libjls.a"),
                        "-j16", "REPO=" + REPO, "B=" + BUILD], capture_output=True, text=True)
    if r.returncode != 0:
        sys.stderr.write("gen_constants: library build failed:\n" + r.stdout[-3000:] + r.stderr[-3000:])
        raise SystemExit(2)
    vals = {}
    with tempfile.TemporaryDirectory(prefix="jlsverif.gen.") as tmp:
        for name, (cf, inc, items) in PROBES.items():
            vals.update(run_probe(name, cf, inc, items, tmp))
        vals.update(run_probe("crc", ["-DJLS_OPTIMIZE_CRC_DISABLE=1"], "crc32c_sw.c", [], tmp, tables=True))
    lines = []
    lines.append("(* GENERATED by tools/gen_constants.py from the repository sources -- do not edit. *)")
    lines.append("From Coq Require Import NArith List.")
    lines.append("Import ListNotations.")
    lines.append("Local Open Scope N_scope.")
    lines.append("")
    for name, (cf, inc, items) in PROBES.items():
        lines.append("(* from %s *)" % (inc or "headers"))
        for n, e in items:
            lines.append("Definition %s : N := %s." % (n, vals[n]))
        lines.append("")
    # header identification: printed by fmt probe? -- parse from macro through a probe below
    for t in CRC_TABLES:
        ws = vals["TABLE_" + t].split()
        assert len(ws) == 256
        lines.append("Definition crc_table_%s : list N := [" % t)
        for i in range(0, 256, 8):
            lines.append("  " + "; ".join(ws[i:i + 8]) + (";" if i + 8 < 256 else ""))
        lines.append("].")
        lines.append("")
    lines.append("Definition crc_tables : list (list N) := [%s]." % "; ".join("crc_table_" + t for t in CRC_TABLES))
    lines.append("")
    # file identification bytes
    with tempfile.TemporaryDirectory(prefix="jlsverif.gen.") as tmp:
        src = os.path.join(tmp, "id.c")
        open(src, "w").write('#include <stdio.h>\n#include "jls/format.h"\nint main(void){unsigned char id[]=JLS_HEADER_IDENTIFICATION;'
                             'for(unsigned i=0;i<sizeof(id);++i)printf("%u ",id[i]);return 0;}\n')
        exe = os.path.join(tmp, "id")
        subprocess.run(["gcc"] + CFLAGS + [src, "-o", exe], check=True)
        ids = subprocess.run([exe], capture_output=True, text=True, check=True).stdout.split()
    lines.append("Definition JLS_HEADER_IDENTIFICATION : list N := [%s]." % "; ".join(ids))
    text = "\n".join(lines) + "\n"
    old = open(OUT).read() if os.path.exists(OUT) else None
    if old != text:
        with open(OUT, "w") as f:
            f.write(text)
        print("gen_constants: wrote %s (%d constants, sha %s)" % (OUT, len(vals), hashlib.sha1(text.encode()).hexdigest()[:12]))
    else:
        print("gen_constants: %s unchanged" % OUT)


if __name__ == "__main__":
    main()
