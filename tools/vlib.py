"""Shared machinery for the per-property checks (see DESIGN.md sections 3 and 7)."""
import fcntl, glob, hashlib, json, os, random, re, shutil, subprocess, sys, tempfile, time

VERIF = os.path.dirname(os.path.dirname(os.path.abspath(__file__)))
REPO = os.environ.get("JLS_REPO", "/repo")
BUILD = os.environ.get("JLS_BUILD", os.path.join(VERIF, "build"))
COQ = os.path.join(VERIF, "coq")
NPROC = min(16, os.cpu_count() or 4)

FORBIDDEN = re.compile(r"\b(Admitted|admit|Axiom|Axioms|Parameter|Parameters|Conjecture|Abort All|bypass_check|native_compute)\b|Unset\s+Guard|Unset\s+Positivity|Unset\s+Universe|Admit\s+Obligations|type-in-type|impredicative-set")

TRUSTED_BASE_COMMON = [
    "Coq 8.16.1 kernel incl. vm_compute (no native_compute); coqchk re-check in the thorough tier",
    "tools/gen_constants.py (compiled sizeof/offsetof/constant probes -> coq/Generated.v)",
    "extraction with ExtrOcamlBasic only (no Extract Constant/Inductive of our own), OCaml 4.13 compiler, ocaml/util.ml + drv_*.ml glue",
    "C harness harness/jlsrun*.{c,h}, gcc, sanitizer runtimes",
    "the hand-written model is tied to the C only by the correspondence runs counted in this file",
]


def sh(cmd, timeout=3600, cwd=None, inp=None, env=None):
    try:
        r = subprocess.run(cmd, shell=isinstance(cmd, str), cwd=cwd, input=inp, capture_output=True,
                           text=True, timeout=timeout, env=env, errors="replace")
        return r.returncode, r.stdout + r.stderr
    except subprocess.TimeoutExpired as e:
        out = (e.stdout or b"")
        if isinstance(out, bytes):
            out = out.decode(errors="replace")
        return 124, out + "\nTIMEOUT after %ss" % timeout


class Ctx:
    def __init__(self, prop, tier, seed):
        self.prop, self.tier, self.seed = prop, tier, seed
        self.t0 = time.time()
        self.rng = random.Random(seed * 1000003 + int(prop[1:]))
        self.violations = []        # (replay_path, text)
        self.known_hits = []
        self.obligations = []       # dicts: theorem, file, ok, axioms
        self.proof_build_ok = True
        self.proof_build_log = ""
        self.cov = {"evaluations": 0, "distinct_nontrivial": 0, "samples": [], "rule": ""}
        self.distinct = set()
        self.assumptions = []
        self.extra = {}
        os.makedirs(os.path.join(VERIF, "replays", prop), exist_ok=True)
        os.makedirs(os.path.join(VERIF, "evidence"), exist_ok=True)
        self.tmp = tempfile.mkdtemp(prefix="jlsverif.%s." % prop)
        kf = os.path.join(VERIF, "known_findings.json")
        self.known = [k for k in (json.load(open(kf)).get("findings", []) if os.path.exists(kf) else [])
                      if k.get("property") == prop and k.get("status") == "known"]

    # ---- counting ----
    def count(self, key, nontrivial=True, sample=None):
        self.cov["evaluations"] += 1
        if nontrivial:
            self.distinct.add(hashlib.sha1(repr(key).encode()).digest()[:8])
        if sample is not None and len(self.cov["samples"]) < 6:
            self.cov["samples"].append(sample)

    # ---- violations ----
    def replay_path(self, name):
        return os.path.join(VERIF, "replays", self.prop, name)

    def violation(self, name, content, what, no_input=False, sig=None):
        """Record a violation unless it matches a listed known finding (by signature)."""
        for k in self.known:
            if sig is not None and sig == k.get("signature"):
                if k["id"] not in [h["id"] for h in self.known_hits]:
                    self.known_hits.append(k)
                return False
        p = self.replay_path(name)
        with open(p, "w") as f:
            f.write(content if isinstance(content, str) else json.dumps(content, indent=1))
        self.violations.append((p, what, no_input))
        return True

    def cleanup(self):
        shutil.rmtree(self.tmp, ignore_errors=True)


class BuildLock:
    def __enter__(self):
        os.makedirs(BUILD, exist_ok=True)
        self.f = open(os.path.join(BUILD, ".lock"), "w")
        fcntl.flock(self.f, fcntl.LOCK_EX)
        return self

    def __exit__(self, *a):
        fcntl.flock(self.f, fcntl.LOCK_UN)
        self.f.close()


def model_targets():
    """the .vo files coq/Extract.v imports (From JLS Require Import ...)"""
    txt = open(os.path.join(COQ, "Extract.v")).read()
    m = re.search(r"From JLS Require Import ([^.]*)\.", txt)
    return [n + ".vo" for n in (m.group(1).split() if m else [])]


def listed_props(files):
    """the Properties files of a check that are part of the development (listed in _CoqProject and present)"""
    listed = set(open(os.path.join(COQ, "_CoqProject")).read().split())
    return [f for f in files if f in listed and os.path.exists(os.path.join(COQ, f))]


def forbidden_scan():
    """every .v file of the development (= listed in _CoqProject, plus the extraction files) is scanned; a file that is not
    listed is not part of the development: nothing listed can depend on it, because only listed files are ever compiled by make"""
    bad = []
    listed = set(open(os.path.join(COQ, "_CoqProject")).read().split())
    for p in sorted(glob.glob(os.path.join(COQ, "*.v"))):
        b = os.path.basename(p)
        if b not in listed and not b.startswith("Extract"):
            continue
        txt = open(p, errors="replace").read()
        txt_nc = re.sub(r"\(\*.*?\*\)", "", txt, flags=re.S)
        for m in FORBIDDEN.finditer(txt_nc):
            bad.append("%s: %s" % (os.path.basename(p), m.group(0)))
    return bad


def build(ctx, prop_files, variants=("plain",), need_model=True):
    """Regenerate constants from /repo, (re)build the Coq targets, the extracted model and
    the harness variants.  Proof failures are recorded, not fatal: the model files are
    separate from proofs so extraction still works."""
    with BuildLock():
        rc, out = sh([sys.executable, os.path.join(VERIF, "tools", "gen_constants.py")], timeout=600)
        if rc == 3 and os.path.exists(os.path.join(COQ, "Generated.v")):
            # the library compiles but the constants translator no longer fits the source (a table / macro it reads was renamed or
            # removed): the tie T1 is broken.  The check goes on with the constants of the last successful generation (so that the
            # correspondence can still search for a failing input) and reports the broken tie as a violation in any case.
            ctx.proof_build_ok = False
            ctx.proof_build_log += "\nTIE T1 BROKEN: tools/gen_constants.py could not regenerate coq/Generated.v from the current source:\n" + out[-2500:]
            ctx.tie_broken = True
        elif rc != 0:
            # the library does not even compile: nothing can be checked
            print(out[-4000:])
            raise SystemExit("build of /repo failed (gen_constants): cannot check")
        # T1b: the Gallina models of the pure integer cores (ring buffer, signal-definition normalisation, on-disk size, tmap search,
        # omit register, seek step) are regenerated from the current C source; their equivalence with the hand models is re-proved by make
        rc2, out2 = sh([sys.executable, os.path.join(VERIF, "tools", "c2gallina.py")], timeout=600)
        tie_msg = ""
        if rc2 != 0:
            # the translator refuses a construct outside its subset (exit 3) - per generated module.  Only the properties whose theorems are
            # stated on that module lose their tie; the others note it in the evidence and go on
            failed = set(re.findall(r"c2gallina: (Gen\w+) \(", out2)) or {"?"}
            ctx.extra["c2gallina_refused"] = sorted(failed)
            if GEN_OF.get(ctx.prop) in failed or "?" in failed:
                ctx.proof_build_ok = False
                ctx.tie_broken = True
                tie_msg = "\nTIE T1b BROKEN: tools/c2gallina.py could not translate the current source (exit %d):\n%s" % (rc2, out2[-2500:])
        if not os.path.exists(os.path.join(COQ, "Makefile.coq")) or \
                os.path.getmtime(os.path.join(COQ, "Makefile.coq")) < os.path.getmtime(os.path.join(COQ, "_CoqProject")):
            sh("coq_makefile -f _CoqProject -o Makefile.coq", cwd=COQ)
        targets = [f.replace(".v", ".vo") for f in prop_files]
        # model files needed by the extraction are always (re)built; proofs only for the property's own targets
        targets = targets + model_targets()
        rc, out = sh(["timeout", "3000", "make", "-f", "Makefile.coq", "-k", "-j%d" % NPROC] + targets, cwd=COQ, timeout=3100)
        ctx.proof_build_log = (ctx.proof_build_log or "") + tie_msg + "\n" + out[-6000:]
        if rc != 0:
            ctx.proof_build_ok = False
        bad = forbidden_scan()
        if bad:
            ctx.proof_build_ok = False
            ctx.proof_build_log += "\nFORBIDDEN tokens: " + "; ".join(bad)
        if need_model:
            mk = ["make", "-C", os.path.join(VERIF, "ocaml"), "B=" + BUILD]
            for var, envn in (("EXTRACT", "JLS_EXTRACT"), ("DRV", "JLS_DRV")):
                if os.environ.get(envn):
                    mk.append("%s=%s" % (var, os.environ[envn]))
            rc, out = sh(mk, timeout=3100)
            if rc != 0:
                print(out[-4000:])
                raise SystemExit("model extraction/driver build failed")
        tg = []
        for v in variants:
            tg.append(os.path.join(BUILD, v, "jlsrun"))
        if tg:
            mk = ["make", "-C", os.path.join(VERIF, "harness"), "-j%d" % NPROC, "REPO=" + REPO, "B=" + BUILD]
            if os.environ.get("JLS_KINDS"):
                mk.append("KINDS=" + os.environ["JLS_KINDS"])
            rc, out = sh(mk + tg, timeout=1200)
            if rc != 0:
                print(out[-4000:])
                raise SystemExit("harness build failed (does /repo compile?)")
        # property theorems: compile each Properties file afresh to capture Print Assumptions
        for f in prop_files:
            collect_obligations(ctx, f)


THM_RE = re.compile(r"^\s*(Theorem|Lemma|Corollary|Example)\s+([A-Za-z0-9_']+)", re.M)


REFINE_OF = {
    "C01": r"refine_(vocabulary_(log|inv|fsr|prog|fp)|fsr_pyramid|api_fsr|pack|blocks|prog_fsr)",
    "C11": r"refine_(vocabulary_ts|ts_|api_annotation)",
    "C12": r"refine_(ts_track$|ts_codecs|api_utc)",
    "C13": r"refine_(source|signal|cstr|user_data|sig_align|valid_has|step_rc|run_)",
}


GEN_OF = {"C08": "GenMrb", "C16": "GenCore", "C01": "GenCore", "C05": "GenRaw", "C12": "GenTmap", "C15": "GenFsr"}
COMPOSE_OF = {
    "C01": r"compose_(C01_|guards_|align_|vocabulary)",
    "C03": r"compose_C05_",
    "C05": r"compose_C05_",
    "C11": r"compose_C11_",
    "C12": r"compose_C11_",
    "C14": r"compose_C14_",
}
READER_OF = {
    "C04": r"Reader_(open$|.*provenance|example)",
    "C19": r"Reader_(frame|open_is_rp_open)",
    "C01": r"Reader_(fsr_loop_window|fsr_provenance)",
    "C10": r"Reader_(.*out_of_fuel|termination_refuted)",
}


def collect_obligations(ctx, vfile):
    path = os.path.join(COQ, vfile)
    names = [m.group(2) for m in THM_RE.finditer(open(path).read())]
    # the Print Assumptions output of a Properties file is a function of the file and of the compiled development: it is re-used as long
    # as no .vo of the development has been rebuilt since (make has just brought them up to date) and the file itself is unchanged
    import hashlib
    vos = glob.glob(os.path.join(COQ, "*.vo"))
    key = "%s|%.3f|%d" % (hashlib.sha1(open(path, "rb").read()).hexdigest(), max([os.path.getmtime(v) for v in vos] or [0]), len(vos))
    cdir = os.path.join(BUILD, "pa_cache")
    os.makedirs(cdir, exist_ok=True)
    cfile = os.path.join(cdir, vfile + ".json")
    cached = None
    if os.path.exists(cfile):
        try:
            cached = json.load(open(cfile))
        except Exception:
            cached = None
    if cached and cached.get("key") == key and cached.get("rc") == 0:
        rc, out = cached["rc"], cached["out"]
    else:
        # (-o: the compiled file goes to the cache directory, the .vo files of the development are not touched)
        rc, out = sh(["timeout", "900", "coqc", "-Q", ".", "JLS", "-o", os.path.join(cdir, vfile[:-2] + ".vo"), vfile], cwd=COQ, timeout=1000)
        json.dump({"key": key, "rc": rc, "out": out}, open(cfile, "w"))
    ok = rc == 0
    # Print Assumptions output blocks appear in order
    blocks = re.split(r"(?m)^(?=Closed under the global context|Axioms:)", out)
    blocks = [b for b in blocks if b.startswith("Closed under") or b.startswith("Axioms:")]
    for i, n in enumerate(names):
        if vfile in ("Properties_gen.v", "Properties_float.v") and not n.startswith(ctx.prop + "_"):
            continue      # the file holds the generated-model theorems of several properties; each check lists its own
        if vfile == "Properties_links.v" and not re.match({"C01": r"links_", "C05": r"links_(K1|vocabulary)"}.get(ctx.prop, "^$"), n):
            continue      # item_next link invariant of the writer model's definition lists; jls_rd_open's scans on the writer model's file
        if vfile == "Properties_e2e.v" and not re.match({"C01": r"e2e_", "C05": r"e2e_(L1_|L3_codec)"}.get(ctx.prop, "^$"), n):
            continue      # byte-level end-to-end chain writer model -> file bytes -> reader model -> Spec
        if vfile == "Properties_compose.v" and not re.match(COMPOSE_OF.get(ctx.prop, "^$"), n):
            continue      # cross-layer corollaries: each check lists those about its property
        if vfile == "Properties_reader.v" and not re.match(READER_OF.get(ctx.prop, "^$"), n):
            continue      # byte-level reader model: provenance (C04), no write path (C19), FSR window (C01), termination (C10)
        if vfile == "Properties_refine.v" and not re.match(REFINE_OF.get(ctx.prop, "^$"), n):
            continue      # refinement glue (byte-exact writer model -> component models): each check lists the part about its component
        ax = None
        if i < len(blocks):
            b = blocks[i]
            ax = [] if b.startswith("Closed") else [l.strip() for l in b.splitlines()[1:] if l.strip() and not l.startswith(" " * 4)]
        ctx.obligations.append({"theorem": n, "file": vfile, "ok": ok, "axioms": ax})
    if not ok:
        ctx.proof_build_ok = False
        ctx.proof_build_log += "\n" + out[-3000:]


def _run_sharded(cmd, lines, shards, timeout, env=None):
    if not lines:
        return []
    shards = max(1, min(shards, len(lines)))
    size = (len(lines) + shards - 1) // shards
    procs = []
    for i in range(0, len(lines), size):
        chunk = lines[i:i + size]
        p = subprocess.Popen(cmd, stdin=subprocess.PIPE, stdout=subprocess.PIPE, stderr=subprocess.PIPE, text=True, env=env, errors="replace")
        procs.append((p, chunk))
    # feed + collect (communicate sequentially is fine: the kernel buffers run in parallel)
    import threading
    results = [None] * len(procs)

    def work(k):
        p, chunk = procs[k]
        try:
            o, e = p.communicate("\n".join(chunk) + "\n", timeout=timeout)
            results[k] = (p.returncode, o, e)
        except subprocess.TimeoutExpired:
            p.kill()
            o, e = p.communicate()
            results[k] = (124, o or "", (e or "") + "\nTIMEOUT")
    th = [threading.Thread(target=work, args=(k,)) for k in range(len(procs))]
    [t.start() for t in th]
    [t.join() for t in th]
    out = []
    for k, (p, chunk) in enumerate(procs):
        rc, o, e = results[k]
        ol = o.splitlines()
        if rc != 0 or len(ol) != len(chunk):
            # pad: mark the first missing line with the failure
            tag = "PROCFAIL rc=%s %s" % (rc, (e or "").strip().splitlines()[-1][:200] if (e or "").strip() else "")
            ol = ol[:len(chunk)] + [tag] * (len(chunk) - len(ol))
        out.extend(ol)
    return out


def run_c(variant, kind, lines, args=(), shards=NPROC, timeout=1800):
    env = dict(os.environ)
    env["ASAN_OPTIONS"] = "detect_leaks=1:abort_on_error=0:exitcode=99:allocator_may_return_null=1"
    env["UBSAN_OPTIONS"] = "print_stacktrace=1:halt_on_error=1"
    return _run_sharded([os.path.join(BUILD, variant, "jlsrun"), kind] + list(args), lines, shards, timeout, env)


def run_model(kind, lines, args=(), shards=NPROC, timeout=1800):
    # the extracted list functions are not tail recursive: run with an unlimited stack
    cmd = ["bash", "-c", 'ulimit -s unlimited 2>/dev/null; exec "$0" "$@"', os.path.join(BUILD, "jlsmodel"), kind] + list(args)
    return _run_sharded(cmd, lines, shards, timeout)


def proof_violation_if_broken(ctx):
    """Brief: a broken proof obligation is reported as a violation; with the failing input if the
    search found one (then other violations already exist), else no-failing-input-found."""
    if ctx.proof_build_ok:
        return
    if any(not ni for (_, _, ni) in ctx.violations):
        return   # a concrete failing input is already reported
    bad = [o["theorem"] for o in ctx.obligations if not o["ok"]] or \
          (["(tie T1: the constants translator tools/gen_constants.py no longer fits the source; theorems were checked against the constants of the last successful generation)"]
           if getattr(ctx, "tie_broken", False) else ["(build of proof dependencies failed)"])
    ctx.violation("proof_broken.txt",
                  "Proof obligation(s) no longer check for %s: %s\n\nbuild log tail:\n%s\n" % (ctx.prop, ", ".join(bad), ctx.proof_build_log),
                  "proof obligation no longer checks: " + ", ".join(bad), no_input=True)


def finish(ctx, level, checker_cmd, trusted_extra=(), note=""):
    proof_violation_if_broken(ctx)
    ctx.cov["distinct_nontrivial"] = len(ctx.distinct)
    nob = len(ctx.obligations)
    ndis = len([o for o in ctx.obligations if o["ok"]])
    # one rule, shared with tools/manifest.py: a check is at proof level iff it has property theorems
    level = "proof" if nob > 0 else "exploration"
    cov = dict(ctx.cov)
    cov.update({
        "obligations": nob, "discharged": ndis, "checker_cmd": checker_cmd,
        "trusted_base": TRUSTED_BASE_COMMON + list(trusted_extra),
        "theorems": ctx.obligations,
        "proof_build_ok": ctx.proof_build_ok,
        "known_findings_reproduced": [k["id"] for k in ctx.known_hits],
    })
    cov.update(ctx.extra)
    if not cov["samples"]:
        cov["samples"] = ["(no correspondence cases in this run)"]
    axs = sorted({a for o in ctx.obligations for a in (o["axioms"] or [])})
    ev = {
        "property_id": ctx.prop, "tier": ctx.tier, "seed": ctx.seed, "level": level,
        "coverage": cov,
        "assumptions": ctx.assumptions + (["axioms reported by Print Assumptions: " + ("; ".join(axs) if axs else "none (closed under the global context)")]) + ([note] if note else []),
        "wall_s": round(time.time() - ctx.t0, 2),
        "violations": len(ctx.violations),
    }
    evdir = os.path.join(VERIF, "evidence")
    if os.environ.get("JLS_REPO") and os.environ.get("JLS_REPO") != "/repo":
        evdir = os.path.join(BUILD, "evidence")        # runs against a scratch copy never touch the committed evidence
        os.makedirs(evdir, exist_ok=True)
    with open(os.path.join(evdir, ctx.prop + ".json"), "w") as f:
        json.dump(ev, f, indent=1, default=str)
    for k in ctx.known_hits:
        print("KNOWN-FINDING: property=%s %s" % (ctx.prop, k["what"]))
    for (p, what, no_input) in ctx.violations:
        print("# " + what)
        print("VIOLATION property=%s replay=%s%s" % (ctx.prop, p, " no-failing-input-found" if no_input else ""))
    ctx.cleanup()
    print("%s %s: %d obligations (%d discharged), %d evaluations, %d distinct, %d violation(s), %.1fs" % (
        ctx.prop, ctx.tier, nob, ndis, cov["evaluations"], cov["distinct_nontrivial"], len(ctx.violations), time.time() - ctx.t0))
    return 1 if ctx.violations else 0


def coqchk(ctx, modules):
    rc, out = sh(["timeout", "1800", "coqchk", "-o", "-silent", "-Q", ".", "JLS"] + ["JLS." + m for m in modules], cwd=COQ, timeout=1900)
    ctx.extra["coqchk"] = {"rc": rc, "tail": out[-1500:]}
    if rc != 0:
        ctx.proof_build_ok = False
        ctx.proof_build_log += "\ncoqchk failed:\n" + out[-2000:]
