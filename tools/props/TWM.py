#!/usr/bin/env python3
"""TWM: tie of the threaded-writer MESSAGE FORMAT model (coq/TwrMsg.v, Properties_C06_msg.v) to the C.

For generated API calls (fsr / user_data / annotation / utc / omit / flush with random arguments, string and binary
storage, all data_size modes, NULL pointers, rejected calls, enum arguments and FSR payload lengths out of range) the extracted tm_encode /
tm_decode (ocaml/drv_twrmsg.ml) and the real /repo/src/threaded_writer.c are run on the same script and compared:
  * the return code of a rejected call,
  * the BYTES the producer put into the ring-buffer slot (taken from the slot after the call returned),
  * the synchronous-writer call the real writer thread (jls_twr_run on the backend thread) made for that message:
    every argument and the data bytes it was given.
The C side is a probe generated here (no file outside JLS_BUILD is written): it includes threaded_writer.c textually
with jls_wr_* renamed to recording stubs and jls_mrb_alloc wrapped to remember the slot; everything else (ring
buffer, posix backend, threads) is the real code.  No other harness includes threaded_writer.c textually in this
binary (it is a separate executable).

Padding: gcc leaves the padding bytes of the fsr / utc / annotation headers uninitialised (stale stack).  The byte
comparison therefore masks the padding positions of these three kinds (the model says zero); the number of messages
whose real padding was not zero is reported.  Every other byte of every message must agree exactly.

Stand-alone:  JLS_BUILD=/verif/build_twm python3 tools/props/TWM.py [quick|thorough] [seed]
As a property module: run(ctx) (needs JLS_EXTRACT=/verif/coq/Extract_twrmsg.v JLS_DRV=drv_twrmsg.ml).
"""
import os, random, struct, subprocess, sys

# TWM_VERIF_ROOT: a scratch copy of the tree (coq/ ocaml/ tools/check_extract_names.py) to build the model from
VERIF = os.environ.get("TWM_VERIF_ROOT") or os.path.dirname(os.path.dirname(os.path.dirname(os.path.abspath(__file__))))
REPO = os.environ.get("JLS_REPO", "/repo")
BUILD = os.environ.get("JLS_BUILD", os.path.join(VERIF, "build_twm"))
PROP_FILES = ["Properties_C06_msg.v"]

PROBE_C = r'''
#include <stdio.h>
#include <stddef.h>
#include <stdlib.h>
#include <string.h>
#include <stdint.h>
#include <inttypes.h>
#include <unistd.h>
#include "jls/threaded_writer.h"
#include "jls/msg_ring_buffer.h"
#include "jls/wr_prv.h"
#include "jls/writer.h"
#include "jls/backend.h"

/* ---- the slot of the last accepted message ---- */
static uint8_t * volatile last_ptr_ = NULL; static volatile uint32_t last_sz_ = 0;
static uint8_t * probe_alloc(struct jls_mrb_s * s, uint32_t sz) {
    uint8_t * p = jls_mrb_alloc(s, sz);
    if (p) { last_ptr_ = p; last_sz_ = sz; }
    return p;
}
/* ---- copy of the last message the writer thread peeked (complete by then): used for CLOSE, whose slot is freed by jls_twr_close ---- */
static uint8_t peek_copy_[1 << 16]; static volatile uint32_t peek_sz_ = 0;
static uint8_t * probe_peek(struct jls_mrb_s * s, uint32_t * sz) {
    uint8_t * p = jls_mrb_peek(s, sz);
    if (p && *sz <= sizeof(peek_copy_)) { memcpy(peek_copy_, p, *sz); peek_sz_ = *sz; }
    return p;
}
/* ---- recording stubs for the synchronous writer ---- */
static char cap_[1 << 21]; static volatile int cap_ready_ = 0;
static uint8_t tbl_bits_[65536];
static void hexs(char * o, const uint8_t * b, size_t n) { for (size_t i = 0; i < n; ++i) sprintf(o + 2 * i, "%02x", b[i]); o[2 * n] = 0; }
static void shex(char * o, int64_t v) { if (v < 0) sprintf(o, "-%" PRIx64, (uint64_t) 0 - (uint64_t) v); else sprintf(o, "%" PRIx64, (uint64_t) v); }
static void done(void) { __sync_synchronize(); cap_ready_ = 1; }
static int32_t probe_wr_open(struct jls_wr_s ** wr, const char * path) { (void) path; *wr = (struct jls_wr_s *) (uintptr_t) 16; return 0; }
static int32_t probe_wr_close(struct jls_wr_s * wr) { (void) wr; return 0; }
static int32_t probe_wr_flush(struct jls_wr_s * wr) { (void) wr; strcpy(cap_, "flush"); done(); return 0; }
static int32_t probe_wr_source_def(struct jls_wr_s * wr, const struct jls_source_def_s * s) { (void) wr; (void) s; return 0; }
static int32_t probe_wr_signal_def(struct jls_wr_s * wr, const struct jls_signal_def_s * s) { (void) wr; (void) s; return 0; }
static int32_t probe_wr_user_data(struct jls_wr_s * wr, uint16_t chunk_meta, enum jls_storage_type_e st, const uint8_t * data, uint32_t sz) {
    (void) wr; int n = sprintf(cap_, "user %x %x %x ", (unsigned) chunk_meta, (unsigned) st, (unsigned) sz);
    uint32_t avail = last_sz_ - 40; hexs(cap_ + n, data, sz < avail ? sz : avail); done(); return 0;
}
static int32_t probe_wr_fsr(struct jls_wr_s * wr, uint16_t sig, int64_t sid, const void * data, uint32_t count) {
    (void) wr; char s[32]; shex(s, sid);
    int n = sprintf(cap_, "fsr %x %s %x ", (unsigned) sig, s, (unsigned) count);
    uint64_t need = ((uint64_t) count * tbl_bits_[sig] + 7) / 8; uint32_t avail = last_sz_ - 40;
    hexs(cap_ + n, (const uint8_t *) data, need < avail ? (size_t) need : avail); done(); return 0;
}
static int32_t probe_wr_fsr_omit_data(struct jls_wr_s * wr, uint16_t sig, uint32_t en) {
    (void) wr; sprintf(cap_, "omit %x %x", (unsigned) sig, (unsigned) en); done(); return 0;
}
static int32_t probe_wr_annotation(struct jls_wr_s * wr, uint16_t sig, int64_t ts, float y, enum jls_annotation_type_e at,
                                   uint8_t group, enum jls_storage_type_e st, const uint8_t * data, uint32_t sz) {
    (void) wr; char s[32]; shex(s, ts); uint32_t yb; memcpy(&yb, &y, 4);
    int n = sprintf(cap_, "ann %x %s %x %x %x %x %x ", (unsigned) sig, s, (unsigned) yb, (unsigned) at, (unsigned) group, (unsigned) st, (unsigned) sz);
    uint32_t avail = last_sz_ - 40; hexs(cap_ + n, data, sz < avail ? sz : avail); done(); return 0;
}
static int32_t probe_wr_utc(struct jls_wr_s * wr, uint16_t sig, int64_t sid, int64_t utc) {
    (void) wr; char a[32], b[32]; shex(a, sid); shex(b, utc); sprintf(cap_, "utc %x %s %s", (unsigned) sig, a, b); done(); return 0;
}
#define jls_mrb_alloc probe_alloc
#define jls_mrb_peek probe_peek
#define jls_wr_open probe_wr_open
#define jls_wr_close probe_wr_close
#define jls_wr_flush probe_wr_flush
#define jls_wr_source_def probe_wr_source_def
#define jls_wr_signal_def probe_wr_signal_def
#define jls_wr_user_data probe_wr_user_data
#define jls_wr_fsr probe_wr_fsr
#define jls_wr_fsr_omit_data probe_wr_fsr_omit_data
#define jls_wr_annotation probe_wr_annotation
#define jls_wr_utc probe_wr_utc
#include "THREADED_WRITER_C"

static int64_t sparse(const char * s) { if (s[0] == '-') return (int64_t) ((uint64_t) 0 - strtoull(s + 1, NULL, 16)); return (int64_t) strtoull(s, NULL, 16); }
static uint8_t * buf_of(const char * s) {      /* - NULL, . empty, else hex; exactly sized so that ASan sees over-reads */
    if (s[0] == '-') return NULL;
    size_t n = (s[0] == '.') ? 0 : strlen(s) / 2;
    uint8_t * b = malloc(n ? n : 1);
    for (size_t i = 0; i < n; ++i) { unsigned v; sscanf(s + 2 * i, "%2x", &v); b[i] = (uint8_t) v; }
    return b;
}
static char line_[1 << 21]; static char out_[1 << 21];
int main(void) {
    struct jls_twr_s * w = NULL;
    setvbuf(stdout, NULL, _IOLBF, 0);       /* every answered line reaches the pipe: a crash is attributed to the right script line */
    if (jls_twr_open(&w, "/dev/null")) { printf("OPENFAIL\n"); return 1; }
    printf("LAYOUT %zu %zu %zu %zu %zu %zu %zu %zu %zu %zu %zu %zu %zu %zu %zu %zu %zu\n", sizeof(struct msg_header_s),
        offsetof(struct msg_header_s, h.user_data.chunk_meta), offsetof(struct msg_header_s, h.user_data.storage_type),
        offsetof(struct msg_header_s, h.fsr.signal_id), offsetof(struct msg_header_s, h.fsr.sample_id), offsetof(struct msg_header_s, h.fsr.sample_count),
        offsetof(struct msg_header_s, h.fsr_omit.signal_id), offsetof(struct msg_header_s, h.fsr_omit.enable),
        offsetof(struct msg_header_s, h.annotation.signal_id), offsetof(struct msg_header_s, h.annotation.timestamp),
        offsetof(struct msg_header_s, h.annotation.annotation_type), offsetof(struct msg_header_s, h.annotation.storage_type),
        offsetof(struct msg_header_s, h.annotation.group_id), offsetof(struct msg_header_s, h.annotation.y),
        offsetof(struct msg_header_s, h.utc.signal_id), offsetof(struct msg_header_s, h.utc.sample_id), offsetof(struct msg_header_s, h.utc.utc));
    printf("LAYOUT2 %zu\n", offsetof(struct msg_header_s, d));
    while (fgets(line_, sizeof(line_), stdin)) {
        char * tok[12]; int nt = 0; char * save = NULL;
        for (char * t = strtok_r(line_, " \t\r\n", &save); t && nt < 12; t = strtok_r(NULL, " \t\r\n", &save)) tok[nt++] = t;
        if (!nt) { printf("?\n"); continue; }
        int32_t rc = -1; uint8_t * b = NULL; int is_flush = 0;
        cap_ready_ = 0; last_ptr_ = NULL;
        if (0 == strcmp(tok[0], "fsr") && nt == 6) {
            uint16_t sig = (uint16_t) strtoull(tok[2], NULL, 16);
            memset(w->fsr_entry_size_bits, 0, sizeof(w->fsr_entry_size_bits));
            if (strtoull(tok[2], NULL, 16) < JLS_SIGNAL_COUNT) w->fsr_entry_size_bits[sig] = (uint8_t) strtoull(tok[1], NULL, 16);
            tbl_bits_[sig] = (uint8_t) strtoull(tok[1], NULL, 16);
            b = buf_of(tok[5]);
            rc = jls_twr_fsr(w, sig, sparse(tok[3]), b, (uint32_t) strtoull(tok[4], NULL, 16));
        } else if (0 == strcmp(tok[0], "ud") && nt == 5) {
            b = buf_of(tok[4]);
            rc = jls_twr_user_data(w, (uint16_t) strtoull(tok[1], NULL, 16), (enum jls_storage_type_e) strtoull(tok[2], NULL, 16), b, (uint32_t) strtoull(tok[3], NULL, 16));
        } else if (0 == strcmp(tok[0], "ann") && nt == 9) {
            b = buf_of(tok[8]); uint32_t yb = (uint32_t) strtoull(tok[3], NULL, 16); float y; memcpy(&y, &yb, 4);
            rc = jls_twr_annotation(w, (uint16_t) strtoull(tok[1], NULL, 16), sparse(tok[2]), y, (enum jls_annotation_type_e) strtoull(tok[4], NULL, 16),
                                    (uint8_t) strtoull(tok[5], NULL, 16), (enum jls_storage_type_e) strtoull(tok[6], NULL, 16), b, (uint32_t) strtoull(tok[7], NULL, 16));
        } else if (0 == strcmp(tok[0], "utc") && nt == 4) {
            rc = jls_twr_utc(w, (uint16_t) strtoull(tok[1], NULL, 16), sparse(tok[2]), sparse(tok[3]));
        } else if (0 == strcmp(tok[0], "omit") && nt == 3) {
            rc = jls_twr_fsr_omit_data(w, (uint16_t) strtoull(tok[1], NULL, 16), (uint32_t) strtoull(tok[2], NULL, 16));
        } else if (0 == strcmp(tok[0], "flush") && nt == 1) {
            rc = jls_twr_flush(w); is_flush = 1;
        } else { printf("?\n"); continue; }
        if (rc) { printf("rc %x\n", (unsigned) rc); free(b); continue; }
        for (int spin = 0; !cap_ready_ && spin < 2000000; ++spin) usleep(50);     /* the writer thread dispatches the message */
        __sync_synchronize();
        if (!cap_ready_ || !last_ptr_) { printf("ok LOST\n"); free(b); continue; }
        hexs(out_, last_ptr_, last_sz_);
        if (is_flush) printf("ok %s flush %" PRIx64 "\n", out_, (uint64_t) w->flush_processed_id);
        else printf("ok %s %s\n", out_, cap_);
        free(b);
    }
    jls_twr_close(w);      /* joins the writer thread: the last message it peeked is CLOSE */
    hexs(out_, peek_copy_, peek_sz_);
    printf("ok %s quit\n", out_);
    return 0;
}
'''

EXPECTED_LAYOUT = "LAYOUT 40 8 10 8 16 24 8 12 8 16 24 25 26 28 8 16 24"
# padding positions (model: zero; gcc: indeterminate) by msg_type: fsr 3, annotation 5, utc 6
PAD = {3: list(range(1, 8)) + list(range(10, 16)) + list(range(28, 32)),
       5: list(range(1, 8)) + list(range(10, 16)) + [27],
       6: list(range(1, 8)) + list(range(10, 16))}


def sh(cmd, inp=None, timeout=900, env=None):
    p = subprocess.run(cmd, input=inp, capture_output=True, text=True, timeout=timeout, env=env)
    return p.returncode, p.stdout, p.stderr


def build_probe(variant):
    d = os.path.join(BUILD, "twm_" + variant)
    os.makedirs(d, exist_ok=True)
    src = os.path.join(d, "twm_probe.c")
    open(src, "w").write(PROBE_C.replace("THREADED_WRITER_C", os.path.join(REPO, "src", "threaded_writer.c")))
    exe = os.path.join(d, "twm_probe")
    cf = ["-std=gnu11", "-g", "-w", "-DJLS_VERIF", "-DJLS_VERIF_MRB_BUFFER_SIZE=4194304", '-D__FILENAME__="x"',
          "-I" + os.path.join(REPO, "include"), "-I" + os.path.join(REPO, "include_prv")]
    cf += ["-O1", "-fsanitize=address,undefined", "-fno-omit-frame-pointer"] if variant == "asan" else ["-O2"]
    srcs = [os.path.join(REPO, "src", f) for f in ("msg_ring_buffer.c", "backend_posix.c", "log.c", "ec.c")]
    rc, out, err = sh(["gcc"] + cf + [src] + srcs + ["-lm", "-lpthread", "-o", exe])
    if rc != 0:
        print(err[-3000:])
        raise SystemExit("TWM: probe build failed (does %s compile?)" % REPO)
    return exe


def build_model():
    exe = os.path.join(BUILD, "jlsmodel")
    if os.environ.get("TWM_USE_MAIN_MODEL") and os.path.exists(exe):
        return exe          # integrated: kind `twrmsg` is part of the main model binary (coq/Extract.v, ocaml/DRIVERS)
    rc, out, err = sh(["make", "-C", os.path.join(VERIF, "ocaml"), "B=" + BUILD, "V=" + VERIF,
                       "EXTRACT=" + os.path.join(VERIF, "coq", "Extract_twrmsg.v"), "DRV=drv_twrmsg.ml"])
    if rc != 0:
        print((out + err)[-3000:])
        raise SystemExit("TWM: model build failed")
    return exe


def hx(v):
    return ("-%x" % -v) if v < 0 else ("%x" % v)


def rnd_i64(rng):
    k = rng.random()
    if k < 0.15:
        return rng.choice([0, -1, 1, 2**63 - 1, -2**63, 2**32, -2**32, 255, 256])
    if k < 0.6:
        return rng.randrange(-10**6, 10**6)
    return rng.randrange(-2**63, 2**63)


def rnd_bytes(rng, n, nonzero=False):
    return bytes(rng.randrange(1 if nonzero else 0, 256) for _ in range(n))


def data_arg(rng, stype):
    """(data token, data_size, label) for user_data / annotation"""
    is_str = stype in (2, 3)
    k = rng.random()
    if k < 0.07:
        return "-", rng.choice([0, 0, 5]), "null"
    if is_str:
        n = rng.choice([0, 1, 2, 7, 31, 200, rng.randrange(0, 600)])
        s = rnd_bytes(rng, n, nonzero=True) + b"\0"
        tail = rnd_bytes(rng, rng.choice([0, 0, 3, 17]))          # bytes after the NUL: must not be sent
        mode = rng.randrange(5)
        dsz = [n + 1, 0, n, n // 2, rng.randrange(0, 2**32)][mode]
        return (s + tail).hex(), dsz, "str_mode%d" % mode
    n = rng.choice([0, 1, 2, 8, 33, 256, rng.randrange(0, 700)])
    b = rnd_bytes(rng, n)
    dsz = rng.choice([n, n, n, n // 2, 0])
    return (b.hex() if n else "."), dsz, "bin"


def gen_case(rng):
    k = rng.random()
    if k < 0.30:
        bits = rng.choice([1, 4, 8, 16, 24, 32, 64])
        sig = rng.choice([0, 1, 2, 255, rng.randrange(256)])
        count = rng.choice([0, 1, 2, 3, 7, 8, 9, 63, 64, 65, rng.randrange(0, 3000)])
        need = (count * bits + 7) // 8
        lab = "fsr_w%d" % bits
        r = rng.random()
        if r < 0.06:
            sig, lab = rng.choice([256, 257, 65535, 4096]), "fsr_sig_range"
        elif r < 0.12:
            bits, lab = 0, "fsr_undefined"
        extra = rng.choice([0, 0, 1, 5])                             # caller's buffer may be longer than needed
        data = rnd_bytes(rng, need + extra)
        tok = data.hex() if data else rng.choice([".", "-"])
        return "fsr %x %x %s %x %s" % (bits, sig, hx(rnd_i64(rng)), count, tok), lab
    if k < 0.50:
        stype = rng.choice([0, 1, 1, 2, 3, 4, 255])
        if rng.random() < 0.06:
            stype = rng.choice([256, 257, 258, 259, 0x102 + 256, 0x7fffffff, 0x80000000, 0xffffffff, 0xfffffffe, rng.randrange(256, 2**32)])
        tok, dsz, lab = data_arg(rng, stype if stype < 256 else 1)  # out of range: data_size <= buffer, safe on a producer that does not reject
        if stype > 255:
            return "ud %x %x %x %s" % (rng.randrange(65536), stype, dsz, tok), "range_enum_ud"
        return "ud %x %x %x %s" % (rng.randrange(65536), stype, dsz, tok), "ud_st%d_%s" % (stype, lab)
    if k < 0.75:
        stype = rng.choice([1, 2, 2, 3, 0, 7])
        atype = rng.randrange(0, 5)
        r = rng.random()
        if r < 0.04:
            stype = rng.choice([256, 257, 258, 259, 0x80000001, 0xffffffff, rng.randrange(256, 2**32)])
        elif r < 0.08:
            atype = rng.choice([255, 256, 257, 0x100 + rng.randrange(5), 0xffffffff, rng.randrange(256, 2**32)])
        tok, dsz, lab = data_arg(rng, stype if stype < 256 else 1)
        if stype > 255 or atype > 255:
            lab = "range_enum_ann"
        y = rng.choice([0, 0x3f800000, 0xbf800000, 0x7fc00000, 0x7f800000, rng.randrange(2**32)])
        if (y & 0x7f800000) == 0x7f800000 and (y & 0x7fffff) and not (y & 0x400000):
            y |= 0x400000                                            # no signalling NaNs through a float argument
        return "ann %x %s %x %x %x %x %x %s" % (rng.randrange(65536), hx(rnd_i64(rng)), y, atype, rng.randrange(256),
                                                stype, dsz, tok), (lab if lab == "range_enum_ann" else "ann_st%d_%s" % (stype, lab))
    if k < 0.85:
        return "utc %x %s %s" % (rng.randrange(65536), hx(rnd_i64(rng)), hx(rnd_i64(rng))), "utc"
    if k < 0.93:
        return "omit %x %x" % (rng.randrange(65536), rng.choice([0, 1, 2, 2**31, 2**32 - 1, rng.randrange(2**32)])), "omit"
    return "flush", "flush"


# out-of-range arguments: the repaired producers reject them with JLS_ERROR_PARAMETER_INVALID before queueing
# (C06_msg_out_of_range_rejected); a producer that still truncates queues a message and the comparison reports
# "result_*: C 'ok ...' model 'rc 5'" with the line as failing input.  Buffers are sized so that a truncating
# producer does not crash (except the last line: message size exactly 2^32, the first size over the limit).
FIXED = [
    ("fsr 40 1 0 20000000 .", "range_fsr_len"),            # 2^29 samples of 64 bits = 2^32 bytes (uint32: 0): C06_msg_fsr_length_overflow_rejected
    ("fsr 40 1 0 20000001 0102030405060708", "range_fsr_len"),   # 2^32 + 8 bytes (uint32: 8)
    ("fsr 20 1 -5 40000002 0102030405060708", "range_fsr_len"),  # 2^32 + 8 bytes with 32-bit samples
    ("ann 1 0 0 1 0 102 2 6162", "range_enum_stype"),       # storage_type 258 (uint8: 2 = STRING): C06_msg_enum_out_of_range_rejected
    ("ann 1 0 0 1 0 100 2 6162", "range_enum_stype"),       # 256
    ("ann 1 0 0 1 0 ffffffff 2 6162", "range_enum_stype"),  # a negative enum value
    ("ann 1 0 0 101 0 1 2 6162", "range_enum_atype"),       # annotation_type 257 (uint8: 1)
    ("ann 1 0 0 100 0 1 2 6162", "range_enum_atype"),
    ("ann 1 0 0 ff 0 1 2 6162", "ann_atype_255"),           # 255: the largest value that fits, accepted
    ("ud 7 102 2 6162", "range_enum_ud"),
    ("ud 7 100 2 6162", "range_enum_ud"),
    ("ud 7 ff 2 6162", "ud_st255_bin"),                     # accepted
]
LAST = [("fsr 8 1 0 ffffffd8 .", "range_fsr_len")]          # 2^32 - 40 bytes: header + payload = 2^32, one over the limit


def mask(msghex):
    b = bytearray.fromhex(msghex)
    dirty = False
    if len(b) >= 40 and b[0] in PAD:
        for i in PAD[b[0]]:
            if b[i]:
                dirty = True
            b[i] = 0
    return b.hex(), dirty


def check(tier, seed, report):
    rng = random.Random(seed)
    n = 300 if tier == "quick" else 6000
    cases = list(FIXED) + [gen_case(rng) for _ in range(n)] + list(LAST)
    cases.append(("close", "close"))                        # last line: jls_twr_close
    lines = [c for c, _ in cases]
    model = build_model()
    rc, mout, merr = sh(["bash", "-c", 'ulimit -s unlimited 2>/dev/null; exec "$0" "$@"', model, "twrmsg"], inp="\n".join(lines) + "\n")
    mres = [l.strip() for l in mout.splitlines()]
    if rc != 0 or len(mres) != len(lines):
        report("model", "", "model run failed rc=%d lines=%d/%d %s" % (rc, len(mres), len(lines), merr[-300:]))
        return {}
    stats = {"cases": len(lines), "labels": {}, "accepted": 0, "rejected": 0, "dirty_padding": 0, "variants": []}
    for variant in (("plain", "asan") if tier != "quick" else ("plain", "asan")):
        exe = build_probe(variant)
        env = dict(os.environ)
        env["ASAN_OPTIONS"] = "detect_leaks=0:abort_on_error=0:exitcode=99"
        env["UBSAN_OPTIONS"] = "print_stacktrace=1:halt_on_error=1"
        rc, cout, cerr = sh([exe], inp="\n".join(lines[:-1]) + "\n", env=env)     # close = end of input
        cl = [l.strip() for l in cout.splitlines()]
        if not cl or cl[0] != EXPECTED_LAYOUT or (len(cl) > 1 and cl[1] != "LAYOUT2 32"):
            report("layout_" + variant, "", "struct msg_header_s layout differs from the model: %r" % cl[:2])
            continue
        cres = cl[2:]
        if rc != 0 or len(cres) != len(lines):
            k = min(len(cres), len(lines) - 1)
            report("crash_" + variant, lines[k], "probe rc=%d after %d/%d lines: %s" % (rc, len(cres), len(lines), cerr[-600:]))
            # the lines answered before the crash are still compared
            if cout and not cout.endswith("\n"):
                cres = cres[:-1]                                   # the line being printed when the probe died
        else:
            stats["variants"].append(variant)
        for (line, lab), m, c in zip(cases, mres, cres):
            if variant == "plain":
                stats["labels"][lab] = stats["labels"].get(lab, 0) + 1
            if "NOT-NORMAL-FORM" in m:
                report("normal_form", line, "decode(encode c) is not tm_norm c (contradicts C06_msg_roundtrip): " + m)
            if lab.startswith("range_") and m != "rc 5":
                report("range_model", line, "the model does not reject an out-of-range call with PARAMETER_INVALID: " + m[:200])
            m = m.replace(" NOT-NORMAL-FORM", "")
            if m.startswith("ok ") and c.startswith("ok ") and " " in c[3:]:
                mm, mcall = (m[3:].split(" ", 1) + [""])[:2]
                cm, ccall = (c[3:].split(" ", 1) + [""])[:2]
                cmask, dirty = mask(cm)
                if variant == "plain":
                    stats["accepted"] += 1
                    stats["dirty_padding"] += 1 if dirty else 0
                if cmask != mm:
                    report("bytes_" + variant, line, "message bytes differ (padding masked): C %s model %s" % (cm, mm))
                elif mcall.strip() != ccall.strip():
                    report("call_" + variant, line, "writer-thread call differs: C %r model %r" % (ccall, mcall))
            else:
                if variant == "plain" and m.startswith("rc "):
                    stats["rejected"] += 1
                if m != c:
                    report("result_" + variant, line, "C %r model %r" % (c[:200], m[:200]))
    return stats


def run(ctx):
    import vlib
    vlib.build(ctx, PROP_FILES, variants=(), need_model=False)

    def report(what, line, msg):
        ctx.violation("twm_%s.txt" % what, "%s\n# echo '%s' | %s/jlsmodel twrmsg ; same line to %s/twm_asan/twm_probe\n" % (line, line, BUILD, BUILD),
                      msg, sig=None)
    st = check(ctx.tier, int(os.environ.get("VERIF_SEED", "1")), report)
    for lab, k in st.get("labels", {}).items():
        for j in range(k):
            ctx.count((lab, j), nontrivial=True, sample=lab if j == 0 else None)
    ctx.extra["distribution"] = st
    ctx.cov["rule"] = "random API calls (all kinds, storage types, data_size modes, NULL, rejected, widths 1..64, enum arguments / FSR lengths out of range) + fixed range-boundary cases"
    return vlib.finish(ctx, "proof", "python3 tools/props/TWM.py", trusted_extra=["the probe generated by tools/props/TWM.py (recording stubs for jls_wr_*)"],
                       note="message bytes compared with padding positions of fsr/utc/annotation masked (gcc leaves them uninitialised)")


if __name__ == "__main__":
    tier = sys.argv[1] if len(sys.argv) > 1 else "quick"
    seed = int(sys.argv[2]) if len(sys.argv) > 2 else 1
    bad = []

    def report(what, line, msg):
        bad.append((what, line, msg))
        print("VIOLATION %s: %s\n   script line: %s" % (what, msg[:600], line[:300]))
    st = check(tier, seed, report)
    print("TWM %s seed %d: %s" % (tier, seed, {k: v for k, v in st.items() if k != "labels"}))
    print("labels:", dict(sorted(st.get("labels", {}).items())))
    sys.exit(1 if bad else 0)
