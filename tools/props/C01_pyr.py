"""C01, index/summary pyramid and seek arithmetic (slice `pyr`): wr_data / summary1 / summaryN / wr_summary / close of
/repo/src/wr_fsr.c and jls_core_fsr_seek / jls_core_fsr_length / rd_fsr_level1 / rd_fsr_data0 of /repo/src/core.c.

Proof: coq/Properties_C01_pyr.v (pyramid_inv, seek_correct, length_correct, cache_transparent for every consistent
definition, every number of blocks, every tail, every omission pattern, every first sample id).
Correspondence (ties PyramidModel.py_run to the C): the `prog` harness writes real files (1-2 signals, all sample
widths, requested omission for > 8-bit types, constant blocks for <= 8-bit types); this module parses the chunk
structure of the file (32-byte file header, chunk headers, payload headers, FSR index entries) and compares the
sequence (kind, level, timestamp, entry_count, index entries as ordinal of the target chunk) and the head offsets
with the disk of the extracted model; the length reported by jls_rd_fsr_length and the success of 1-sample reads
with the model's reader run on the model's disk; and evaluates the executable statement of pyramid_inv /
seek_correct / length_correct directly on the parsed file (python integers, independent of the model).

run_pyr(ctx) is called by tools/props/C01.py.  Standalone (development):
    JLS_BUILD=/verif/build_pyr JLS_DRV=drv_pyr.ml JLS_EXTRACT=/verif/coq/Extract_pyr.v \
    JLS_KINDS="/verif/harness/jlsrun_k_crc.h /verif/harness/jlsrun_k_prog.h" python3 tools/props/C01_pyr.py [--tier quick|thorough]"""
import json, os, struct, sys
if __name__ == "__main__":
    sys.path.insert(0, os.path.dirname(os.path.dirname(os.path.abspath(__file__))))
import vlib

PROP_FILES = ["Properties_C01_pyr.v"]
TAG_HEAD, TAG_DATA, TAG_INDEX, TAG_SUMMARY = 33, 34, 35, 36      # cross-checked against coq/Generated.v in run_pyr
DT = {"i4": 1025, "i8": 2049, "i16": 4097, "i24": 6145, "i32": 8193, "i64": 16385,
      "u1": 259, "u4": 1027, "u8": 2051, "u16": 4099, "u24": 6147, "u32": 8195, "u64": 16387, "f32": 8196, "f64": 16388}
SIG_KNOWN_OMIT_PARTIAL = "omit-request-partial-last-block-length"
FIRST_IDS = [0, 0, 0, 1, 7, -5, 1000, 2 ** 40 + 1]


def dt_bits(dt):
    return (DT[dt] >> 8) & 0xff


# ---------------------------------------------------------------- file parser
def parse_file(path):
    """all chunks of a JLS file in file order: dict(off, tag, meta, payload)"""
    b = open(path, "rb").read()
    pos, out = 32, []
    while pos + 32 <= len(b):
        nxt, prv, tag, rsv, meta, plen, pprev, crc = struct.unpack_from("<QQBBHIII", b, pos)
        out.append(dict(off=pos, tag=tag, meta=meta, pay=b[pos + 32:pos + 32 + plen]))
        pos += 32 if plen == 0 else 32 + (plen + 4 + 7) // 8 * 8
    return out


def fsr_chunks(chunks, sig):
    """the FSR data/index/summary chunks of one signal: list of dict(kind, level, ts, n, entries(offsets), off, pos(file ordinal))
    and the 16 head offsets"""
    own, heads = [], [0] * 16
    for pos, c in enumerate(chunks):
        if (c["meta"] & 0x0fff) != sig:
            continue
        if c["tag"] == TAG_HEAD:
            heads = list(struct.unpack_from("<16Q", c["pay"], 0))
        if c["tag"] not in (TAG_DATA, TAG_INDEX, TAG_SUMMARY):
            continue
        ts, n, esb, rsv = struct.unpack_from("<qIHH", c["pay"], 0)
        ent = list(struct.unpack_from("<%dQ" % n, c["pay"], 16)) if c["tag"] == TAG_INDEX else []
        own.append(dict(kind="DIS"[c["tag"] - TAG_DATA], level=c["meta"] >> 12, ts=ts, n=n, entries=ent, off=c["off"], pos=pos))
    return own, heads


def render(own, heads):
    """same text as ocaml/drv_pyr.ml"""
    ordn = {c["off"]: i + 1 for i, c in enumerate(own)}
    o = lambda x: 0 if x == 0 else ordn.get(x, -1)
    t = []
    for c in own:
        if c["kind"] == "D":
            t.append("D:%d:%d" % (c["ts"], c["n"]))
        elif c["kind"] == "I":
            t.append("I%d:%d:%d:%s" % (c["level"], c["ts"], c["n"], ",".join(str(o(e)) for e in c["entries"])))
        else:
            t.append("S%d:%d:%d" % (c["level"], c["ts"], c["n"]))
    t.append("H:" + ",".join(str(o(h)) for h in heads))
    return " ".join(t)


# ---------------------------------------------------------------- the executable statement, on the parsed file
def step_of(d, L):
    spd, sdf, eps, sumdf = d
    s = spd
    if L > 1:
        s *= eps // (spd // sdf)
    for _ in range(3, L + 1):
        s *= sumdf
    return s


def cap_of(d, L):
    spd, sdf, eps, sumdf = d
    return eps // (spd // sdf) if L == 1 else sumdf


def check_statement(case, chunks, own, heads, c_len):
    """pyramid_inv (a)(b)(c), seek_correct, length_correct evaluated on the file the implementation wrote.
    returns list of (kind, text)"""
    d, t0, blocks = case["d"], case["t0"], case["blocks"]
    spd, sdf, eps, sumdf = d
    bad = []
    by_off = {c["off"]: c for c in own}
    lv = {}
    for c in own:
        if c["kind"] == "I":
            lv.setdefault(c["level"], []).append(c)
    datas = [c for c in own if c["kind"] == "D"]
    # (a) timestamps and entries
    for L, cs in lv.items():
        st, cp = step_of(d, L), cap_of(d, L)
        for j, c in enumerate(cs):
            if c["ts"] != t0 + j * cp * st:
                bad.append(("inv_a_ts", "level %d index #%d: timestamp %d, expected %d" % (L, j, c["ts"], t0 + j * cp * st)))
            if c["n"] > cp or c["n"] == 0 or (j < len(cs) - 1 and c["n"] != cp):
                bad.append(("inv_a_count", "level %d index #%d: %d entries, capacity %d" % (L, j, c["n"], cp)))
            for k, e in enumerate(c["entries"]):
                if e == 0:
                    b = j * cp + k
                    if L != 1 or b >= len(blocks) or not blocks[b][1]:
                        bad.append(("inv_a_zero", "level %d index #%d entry %d is 0 but the block was not to be omitted" % (L, j, k)))
                    continue
                tgt = by_off.get(e)
                want_kind = "D" if L == 1 else "I"
                if tgt is None or tgt["kind"] != want_kind or (L > 1 and tgt["level"] != L - 1) or tgt["ts"] != c["ts"] + k * st:
                    bad.append(("inv_a_entry", "level %d index #%d entry %d -> %s, expected a level-%d chunk with timestamp %d"
                                % (L, j, k, tgt and (tgt["kind"], tgt["level"], tgt["ts"]), L - 1, c["ts"] + k * st)))
    # (b) INDEX immediately followed by its SUMMARY in the file (all chunks, not only this signal's)
    for c in own:
        if c["kind"] == "I":
            nx = chunks[c["pos"] + 1] if c["pos"] + 1 < len(chunks) else None
            if nx is None or nx["tag"] != TAG_SUMMARY or nx["meta"] != (c["level"] << 12 | case["sig"]):
                bad.append(("inv_b", "level %d index at %d is not followed by its summary" % (c["level"], c["off"])))
            else:
                ts, n, _, _ = struct.unpack_from("<qIHH", nx["pay"], 0)
                if ts != c["ts"]:
                    bad.append(("inv_b_ts", "summary after level %d index at %d has timestamp %d != %d" % (c["level"], c["off"], ts, c["ts"])))
    # (c) top level: one chunk, head offsets, reachability
    if blocks:
        top = max(lv) if lv else 0
        if not lv or sorted(lv) != list(range(1, top + 1)):
            bad.append(("inv_c_levels", "levels present: %s" % sorted(lv)))
        else:
            if len(lv[top]) != 1:
                bad.append(("inv_c_top", "top level %d has %d index chunks" % (top, len(lv[top]))))
            for L in range(1, 16):
                want = lv[L][0]["off"] if L in lv else 0
                if heads[L] != want:
                    bad.append(("inv_c_head", "head_offsets[%d] = %d, expected %d" % (L, heads[L], want)))
            if heads[0] != (datas[0]["off"] if datas else 0):
                bad.append(("inv_c_head0", "head_offsets[0] = %d" % heads[0]))
            reach = set()
            todo = [lv[top][0]["off"]]
            while todo:
                o = todo.pop()
                if o == 0 or o in reach or o not in by_off:
                    continue
                reach.add(o)
                todo.extend(by_off[o]["entries"])
            miss = [c["off"] for c in own if c["kind"] in "DI" and c["off"] not in reach]
            if miss:
                bad.append(("inv_c_reach", "%d data/index chunks not reachable from the top index" % len(miss)))
            # data chunks = the non-omitted blocks, in order
            want = [(t0 + i * spd, n) for i, (n, om) in enumerate(blocks) if not om]
            if [(c["ts"], c["n"]) for c in datas] != want:
                bad.append(("inv_data", "data chunks (ts, count) differ from the blocks written"))
            # seek_correct: descend for the first sample of every block with the reader's arithmetic
            for i, (n, om) in enumerate(blocks):
                sid = t0 + i * spd + (n - 1 if i % 3 == 0 else 0)
                off = lv[top][0]["off"]
                ok = True
                for L in range(top, 0, -1):
                    c = by_off.get(off)
                    if c is None or c["kind"] != "I" or c["level"] != L:
                        ok = False
                        break
                    idx = (sid - c["ts"]) // step_of(d, L)
                    if sid < c["ts"] or idx >= c["n"]:
                        ok = False
                        break
                    off = c["entries"][idx]
                if not ok or (off == 0) != om or (off and (by_off[off]["ts"] != t0 + i * spd or by_off[off]["n"] != n)):
                    bad.append(("seek", "sample id %d (block %d) does not resolve to its block" % (sid, i)))
                    break
    # length_correct
    total = sum(n for n, om in blocks)
    if c_len is not None and c_len != total:
        n_last, om_last = blocks[-1] if blocks else (0, False)
        if om_last and not case["small"] and n_last % sdf and c_len == total - n_last % sdf:
            bad.append(("KNOWN_omit_partial", "requested omission of a last block of %d samples (sample_decimate_factor %d): length %d, written %d"
                        % (n_last, sdf, c_len, total)))
        else:
            bad.append(("length", "jls_rd_fsr_length = %d, samples written = %d" % (c_len, total)))
    return bad


# ---------------------------------------------------------------- generator
def gen_def(rng, dt):
    w = dt_bits(dt)
    mult = 32 if w == 24 else 256 // w      # samples_per_data_multiple of jls_core_signal_def_align
    sdf = ((10 + mult - 1) // mult) * mult * rng.choice([1, 1, 1, 2])
    epd = rng.choice([1, 1, 2, 2, 3, 5])
    sumdf = rng.choice([10, 10, 10, 11, 12, 15])
    m = 1
    while (sumdf * m) % epd:
        m += 1
    eps = sumdf * m * rng.choice([1, 1, 1, 2])
    if rng.random() < 0.15:                      # entries_per_summary >= summary_decimate_factor^2: single-entry upper levels at close
        eps = sumdf * sumdf * (epd if (sumdf * sumdf) % epd else 1)
    return (sdf * epd, sdf, eps, sumdf)


def gen_case(rng, tier, idx):
    small = rng.random() < 0.45
    dt = rng.choice(["u8", "u8", "i8", "u4", "i4", "u1"]) if small else rng.choice(["f32", "f32", "i16", "u16", "f64", "i32", "u64", "u24"])
    d = gen_def(rng, dt)
    spd, sdf, eps, sumdf = d
    cap1 = eps // (spd // sdf)
    limit = (60000 if tier == "quick" else 400000) // spd
    c2, c3 = cap1 * sumdf, cap1 * sumdf * sumdf
    cands = [0, 1, 2, cap1 - 1, cap1, cap1 + 1, 2 * cap1, c2 - 1, c2, c2 + 1, c2 + cap1, 2 * c2 + 3, c3 - 1, c3, c3 + 1, c3 + c2 + cap1 + 1,
             rng.randrange(0, limit + 1), rng.randrange(0, limit + 1)]
    cands = [c for c in cands if 0 <= c <= limit]
    nfull = rng.choice(cands)
    tail = rng.choice([0, 0, 1, sdf - 1, sdf, sdf + 1, spd - 1, sdf * rng.randrange(1, spd // sdf + 1) % spd, rng.randrange(1, spd)])
    tail = tail % spd
    if nfull == 0 and tail == 0:
        tail = rng.choice([1, sdf, spd - 1])
    t0 = rng.choice(FIRST_IDS)
    sizes = [spd] * nfull + ([tail] if tail else [])
    sops, cops = [], []           # model script ops, C script ops
    blocks = []                   # (n, effectively omitted)
    reg = 0
    mode = rng.choice(["none", "none", "rand", "runs", "all", "last"])
    const_run = False
    pos = t0
    other = rng.random() < 0.3
    opos = 0
    for i, n in enumerate(sizes):
        if other and rng.random() < 0.3:
            k = rng.choice([1, 3, spd, 2 * spd + 1])
            cops.append("fsr 2 %d %d 1 %d" % (opos, k, i))
            opos += k
            sops.append("k%d" % rng.randrange(0, 5))
        if small:
            if mode == "none":
                c = False
            elif mode == "all":
                c = True
            elif mode == "last":
                c = i >= len(sizes) - 2
            elif mode == "rand":
                c = rng.random() < 0.5
            else:
                if rng.random() < 0.2:
                    const_run = not const_run
                c = const_run
            req = c and n % sdf == 0
            sops.append("b%d,%d" % (n, 1 if c else 0))
            cops.append("fsr 1 %d %d %d %d" % (pos, n, 0 if c else 1, 5 if c else i))
        else:
            flip = {"none": 0.0, "rand": 0.3, "runs": 0.08, "all": 1.0 if i == 0 else 0.0, "last": 1.0 if i == len(sizes) - 2 else 0.0}[mode]
            if rng.random() < flip or (mode == "last" and len(sizes) == 1 and i == 0):
                en = 1 if reg == 0 else rng.choice([0, 0, 1])
                sops.append("o%d" % en)
                cops.append("omit 1 %d" % en)
                reg = (reg | 1) if en else 0
            req = reg > 1
            reg = ((reg << 1) | (reg & 1)) & 0xff
            sops.append("b%d,0" % n)
            cops.append("fsr 1 %d %d %d %d" % (pos, n, rng.choice([1, 2, 4]), i + 1))
        blocks.append((n, req and i > 0))
        pos += n
    total = pos - t0
    # reads: (relative) sample positions near block / level-1 chunk boundaries, repeated and shuffled
    marks = set()
    for x in (0, 1, spd - 1, spd, spd + 1, cap1 * spd - 1, cap1 * spd, cap1 * spd + 1, c2 * spd - 1, c2 * spd, total - 1, total - 2, total - spd, total // 2):
        if 0 <= x < total:
            marks.add(x)
    for _ in range(6):
        if total:
            marks.add(rng.randrange(total))
    reads = list(marks) * 2
    rng.shuffle(reads)
    reads = reads[:40]
    return dict(idx=idx, dt=dt, small=small, d=d, t0=t0, blocks=blocks, sops=sops, cops=cops, reads=reads, total=total, sig=1, mode=mode,
                other=other, nfull=nfull, tail=tail)


def model_line(case):
    spd, sdf, eps, sumdf = case["d"]
    return "%d %d %d %d %d %d 1 | %s | %s" % (spd, sdf, eps, sumdf, 1 if case["small"] else 0, case["t0"], " ".join(case["sops"]),
                                             " ".join(str(case["t0"] + r) for r in case["reads"]))


def c_script(case, path):
    spd, sdf, eps, sumdf = case["d"]
    ops = ["wopen", "src 1 e e e e e", "sig 1 1 0 %d 1000 %d %d %d %d 10 10 e e" % (DT[case["dt"]], spd, sdf, eps, sumdf)]
    if case["other"]:
        ops.append("sig 2 1 0 %d 1000 16 16 10 10 10 10 e e" % DT["u16"])
    ops += case["cops"]
    ops += ["wclose", "save %s" % path, "ropen", "sigq 1", "len 1"]
    ops += ["rdn 1 %d 1" % r for r in case["reads"]]
    ops.append("rclose")
    return ";".join(ops)


def replay_text(case, path, script, mline, detail):
    B = vlib.BUILD
    return ("%s\n\ncase: dtype=%s definition (spd, sdf, eps, sumdf)=%s first sample id=%d full blocks=%d tail=%d omission mode=%s\n\n"
            "implementation script:\n%s\nreplay: echo '<script>' | %s/plain/jlsrun prog /tmp   (writes %s; chunk listing: python3 %s --dump %s)\n\n"
            "model line:\n%s\nreplay: echo '<line>' | %s/jlsmodel pyr\n"
            % (detail, case["dt"], case["d"], case["t0"], case["nfull"], case["tail"], case["mode"], script, B, path,
               os.path.abspath(__file__), path, mline, B))


def known_sig_listed(sig):
    kf = os.path.join(vlib.VERIF, "known_findings.json")
    if not os.path.exists(kf):
        return None
    for k in json.load(open(kf)).get("findings", []):
        if k.get("signature") == sig and k.get("status") == "known":
            return k
    return None


def run_pyr(ctx, build=True):
    if build:
        vlib.build(ctx, [f for f in PROP_FILES if os.path.exists(os.path.join(vlib.COQ, f))], variants=("plain",))
    gen = open(os.path.join(vlib.COQ, "Generated.v")).read()
    for name, val in (("JLS_TAG_TRACK_FSR_HEAD", TAG_HEAD), ("JLS_TAG_TRACK_FSR_DATA", TAG_DATA), ("JLS_TAG_TRACK_FSR_INDEX", TAG_INDEX),
                      ("JLS_TAG_TRACK_FSR_SUMMARY", TAG_SUMMARY)):
        if ("Definition %s : N := %d." % (name, val)) not in gen:
            ctx.violation("pyr_tags.txt", "tag %s is not %d in coq/Generated.v\n" % (name, val), "chunk tag constants of the parser differ from the implementation's")
    n = 260 if ctx.tier == "quick" else 2500
    cases = [gen_case(ctx.rng, ctx.tier, i) for i in range(n)]
    outdir = os.path.join(ctx.tmp, "pyr_files")
    os.makedirs(outdir, exist_ok=True)
    scratch = os.path.join(ctx.tmp, "pyr_scratch")
    os.makedirs(scratch, exist_ok=True)
    paths = [os.path.join(outdir, "c%d.jls" % c["idx"]) for c in cases]
    scripts = [c_script(c, p) for c, p in zip(cases, paths)]
    mlines = [model_line(c) for c in cases]
    impl = vlib.run_c("plain", "prog", scripts, args=[scratch, "timeout=60"], timeout=3000)
    model = vlib.run_model("pyr", mlines, timeout=3000)
    redo = [i for i, m in enumerate(model) if m.startswith("PROCFAIL")]
    if redo:        # a shard died: rerun its lines one process each
        for i, m in zip(redo, vlib.run_model("pyr", [mlines[i] for i in redo], shards=len(redo), timeout=3000)):
            model[i] = m
    stats = {"by_dtype": {}, "by_mode": {}, "levels": {}, "viol": {}, "with_other_signal": 0, "omitted_blocks": 0, "blocks": 0,
             "tail_classes": {}, "known_omit_partial": 0, "reads": 0, "def_adjusted": 0}
    nviol = 0

    def viol(kind, case, path, script, mline, detail, sig=None):
        nonlocal nviol
        stats["viol"][kind] = stats["viol"].get(kind, 0) + 1
        if sig is not None:
            k = known_sig_listed(sig)
            if k is not None:
                if k["id"] not in [h["id"] for h in ctx.known_hits]:
                    ctx.known_hits.append(k)
                return
        nviol += 1
        if stats["viol"][kind] <= 3:
            keep = os.path.join(vlib.VERIF, "replays", ctx.prop, "pyr_%s_%d.jls" % (kind, stats["viol"][kind]))
            try:
                import shutil
                shutil.copy(path, keep)
            except OSError:
                keep = path
            ctx.violation("pyr_%s_%d.txt" % (kind, stats["viol"][kind]), replay_text(case, keep, script, mline, detail),
                          "FSR pyramid %s: %s %s blocks=%d tail=%d: %s" % (kind, case["dt"], case["d"], case["nfull"], case["tail"], detail[:160]), sig=sig)

    for case, path, script, mline, a, m in zip(cases, paths, scripts, mlines, impl, model):
        spd, sdf, eps, sumdf = case["d"]
        tail = case["tail"]
        tcls = "none" if tail == 0 else ("<sdf" if tail < sdf else ("k*sdf" if tail % sdf == 0 else "other"))
        stats["by_dtype"][case["dt"]] = stats["by_dtype"].get(case["dt"], 0) + 1
        stats["by_mode"][case["mode"]] = stats["by_mode"].get(case["mode"], 0) + 1
        stats["tail_classes"][tcls] = stats["tail_classes"].get(tcls, 0) + 1
        stats["with_other_signal"] += case["other"]
        stats["blocks"] += len(case["blocks"])
        stats["omitted_blocks"] += sum(1 for b in case["blocks"] if b[1])
        stats["reads"] += len(case["reads"])
        if a.startswith("PROCFAIL") or "FAULT" in a or not os.path.exists(path):
            viol("impl_fault", case, path, script, mline, "implementation run failed: %s" % a[-300:])
            continue
        ao = a.split(";")
        # the definition as stored must be the one generated (jls_core_signal_def_align leaves it unchanged);
        # if the normalisation rules of the implementation change, the case is skipped and counted
        stored = None
        for o in ao:
            t = o.split()
            if t and t[0] == "sigq" and len(t) >= 4 and t[1] == "0":
                f = t[3].split(",")
                stored = tuple(int(v) for v in f[5:9])
        if stored != tuple(case["d"]):
            stats["def_adjusted"] += 1
            continue
        chunks = parse_file(path)
        own, heads = fsr_chunks(chunks, 1)
        got = render(own, heads)
        top = max([c["level"] for c in own] or [0])
        stats["levels"][top] = stats["levels"].get(top, 0) + 1
        ctx.count((case["dt"], case["d"], case["t0"], case["nfull"], case["tail"], case["mode"], case["other"], tuple(b[1] for b in case["blocks"][-3:])),
                  nontrivial=len(case["blocks"]) > 1,
                  sample={"dtype": case["dt"], "def": case["d"], "t0": case["t0"], "blocks": case["nfull"], "tail": case["tail"], "top_level": top,
                          "chunks": len(own)} if case["idx"] % 50 == 7 else None)
        mt = m.split(" len=")
        mdisk = mt[0]
        mrest = mt[1].split() if len(mt) > 1 else []
        # results of the implementation's reader
        c_len = None
        c_rds = []
        for o in ao:
            t = o.split()
            if t and t[0] == "len" and len(t) >= 3:
                c_len = int(t[2]) if t[1] == "0" else ("E" + t[1])
            if t and t[0] == "rdn":
                c_rds.append(t[1] if len(t) > 1 else "?")
        if got != mdisk:
            gl, ml = got.split(), mdisk.split()
            k = next((i for i in range(min(len(gl), len(ml))) if gl[i] != ml[i]), min(len(gl), len(ml)))
            viol("model_vs_impl", case, path, script, mline,
                 "chunk structure differs at chunk #%d: implementation %s, model %s (implementation %d chunks, model %d)"
                 % (k + 1, gl[k] if k < len(gl) else "(end)", ml[k] if k < len(ml) else "(end)", len(gl) - 1, len(ml) - 1))
        else:
            m_len = mrest[0] if mrest else "?"
            if str(c_len) != m_len:
                viol("length_model_vs_impl", case, path, script, mline, "jls_rd_fsr_length = %s, model py_fsr_length = %s" % (c_len, m_len))
            m_rds = [x[2:] for x in mrest[1:]]
            for r, cr, mr in zip(case["reads"], c_rds, m_rds):
                # model result must be the block containing the sample; the implementation must read it without error
                i = r // spd
                nb, om = case["blocks"][i]
                if om and not case["small"] and nb % sdf:
                    want = "O:%d:%d" % (case["t0"] + i * spd, nb - nb % sdf)
                else:
                    want = "%s:%d:%d" % ("O" if om else "D", case["t0"] + i * spd, nb)
                if mr != want:
                    viol("model_read", case, path, script, mline, "model rd_fsr_data0(%d) = %s, the block is %s" % (case["t0"] + r, mr, want))
                    break
                inside = isinstance(c_len, int) and r < c_len
                if inside and cr != "0":
                    viol("impl_read", case, path, script, mline, "jls_rd_fsr(start=%d, 1 sample) returned %s inside the reported length %s" % (r, cr, c_len))
                    break
        for kind, text in check_statement(case, chunks, own, heads, c_len if isinstance(c_len, int) else None):
            if kind == "KNOWN_omit_partial":
                stats["known_omit_partial"] += 1
                viol("known_omit_partial", case, path, script, mline, text, sig=SIG_KNOWN_OMIT_PARTIAL)
            else:
                viol(kind, case, path, script, mline, text)
        if not isinstance(c_len, int):
            viol("length_error", case, path, script, mline, "jls_rd_fsr_length failed: %s" % c_len)
        try:
            os.unlink(path)
        except OSError:
            pass
    if stats["def_adjusted"] * 10 > len(cases):
        ctx.violation("pyr_generator_stale.txt", "%d of %d generated definitions were adjusted by jls_core_signal_def_align: the generator of "
                      "tools/props/C01_pyr.py (gen_def) no longer produces normalised definitions\n" % (stats["def_adjusted"], len(cases)),
                      "pyr: generated definitions are no longer left unchanged by the writer")
        nviol += 1
    d = ctx.extra.setdefault("distribution", {})
    d["pyr"] = {"cases": len(cases), "by_dtype": stats["by_dtype"], "by_omission_mode": stats["by_mode"], "top_level_reached": stats["levels"],
                "tail_classes": stats["tail_classes"], "with_second_signal_interleaved": stats["with_other_signal"], "blocks": stats["blocks"],
                "omitted_blocks": stats["omitted_blocks"], "reads": stats["reads"],
                "known class (requested omission, last block not a whole number of entries)": stats["known_omit_partial"],
                "definitions adjusted by the writer (case skipped)": stats["def_adjusted"],
                "violations_by_kind": stats["viol"]}
    rule = ("pyr: case = (data type, consistent definition (spd, sdf, eps, sumdf) that jls_core_signal_def_align leaves unchanged, first sample id, number of full "
            "blocks chosen at / around 1, cap1, cap1*sumdf, cap1*sumdf^2 (index capacities) or random, tail in {none, 1, sdf-1, sdf, sdf+1, spd-1, k*sdf, random}, "
            "omission pattern (requested via jls_wr_fsr_omit_data for > 8-bit types, constant blocks for <= 8-bit types; none/random/runs/all/last), optional second "
            "signal interleaved); compared: chunk sequence (kind, level, timestamp, entry_count, entries as ordinals, 16 head offsets) of the file written by the "
            "implementation vs py_srun, jls_rd_fsr_length vs py_fsr_length, model rd_fsr_data0 (cache threaded through shuffled repeated reads) vs the block written, "
            "1-sample jls_rd_fsr reads succeed; the statement of pyramid_inv/seek_correct/length_correct is evaluated on the parsed file independently; "
            "distinct = (type, definition, first id, blocks, tail, mode, second signal, last omission flags); non-trivial = more than one block")
    ctx.cov["rule"] = (ctx.cov.get("rule", "") + " | " if ctx.cov.get("rule") else "") + rule
    return nviol


TRUSTED_EXTRA = ["the chunk parser of tools/props/C01_pyr.py (file header 32 bytes, chunk header 32 bytes, payload padded to 8 bytes of len+4, payload header 16 bytes)",
                 "sample values and summary statistics are not part of the pyr slice (see the bits slice and C02/C20)"]
NOTE = ("pyr slice: theorems quantify over all consistent definitions, block counts, tails, omission patterns, first sample ids and cache states; "
        "correspondence ties files written by the implementation to PyramidModel.py_run")


def run(ctx):
    run_pyr(ctx)
    if ctx.tier == "thorough":
        vlib.coqchk(ctx, [f[:-2] for f in PROP_FILES if os.path.exists(os.path.join(vlib.COQ, f))])
    return vlib.finish(ctx, "proof", "make -C /verif/coq -f Makefile.coq Properties_C01_pyr.vo && coqc -Q . JLS Properties_C01_pyr.v (Print Assumptions)",
                       trusted_extra=TRUSTED_EXTRA, note=NOTE)


def replay(ctx, path):
    print(open(path).read())
    return 0


if __name__ == "__main__":
    import argparse
    ap = argparse.ArgumentParser()
    ap.add_argument("--tier", default=os.environ.get("VERIF_TIER", "quick"), choices=["quick", "thorough"])
    ap.add_argument("--dump", default=None, help="print the FSR chunk structure of signal 1 of a JLS file")
    a = ap.parse_args()
    if a.dump:
        own, heads = fsr_chunks(parse_file(a.dump), 1)
        print(render(own, heads).replace(" ", "\n"))
        sys.exit(0)
    ctx = vlib.Ctx("C01", a.tier, int(os.environ.get("VERIF_SEED", "1")))
    ctx.prop = "C01_pyr"       # evidence/C01_pyr.json, replays/C01_pyr/
    ctx.known = []
    os.makedirs(os.path.join(vlib.VERIF, "replays", ctx.prop), exist_ok=True)
    try:
        rc = run(ctx)
    finally:
        ctx.cleanup()
    sys.exit(rc)
