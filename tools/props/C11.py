"""C11: annotations round-trip in order and seeking by timestamp omits nothing."""
import vlib, proglib
from proglib import DT

PROP_FILES = ["Properties_C11.v", "Properties_refine.v", "Properties_compose.v"]


def pre_run(ctx):
    import os
    if "drv_ts.ml" in open(os.path.join(vlib.VERIF, "ocaml", "DRIVERS")).read():
        import C11_ts
        C11_ts.run_ts(ctx)


def gen_case(rng, tier):
    adf = rng.choice([10, 10, 10, 11, 13, 100])
    use_sig0 = rng.random() < 0.25
    ops = ["wopen", "src 1 e e e e e"]
    offset = 0
    if use_sig0:
        sid = 0
    else:
        sid = rng.choice([1, 7, 255])
        dt = rng.choice(["f32", "u8", "i16", "u1"])
        ops.append(proglib.sigdef_op(sid, 1, dt, adf=adf, udf=10))
        if rng.random() < 0.6:
            offset = rng.choice([0, 5, -7, 1000, 2**40])
            ops.append("fsr %d %d %d 1 3" % (sid, offset, rng.choice([10, 300])))
    if use_sig0:
        adf = 100
    maxn = adf * adf * rng.choice([1, 1, 2]) + rng.randrange(0, 2 * adf + 5) if rng.random() < 0.35 else rng.choice(
        [0, 1, 2, adf - 1, adf, adf + 1, 2 * adf, 2 * adf + 1, 3 * adf + rng.randrange(0, adf), adf * adf - 1, adf * adf, adf * adf + 1])
    maxn = min(maxn, 1300 if tier == "quick" else 2600)      # (20000 annotations x 250 seeks per case made the thorough tier hold > 36 GB)
    n = maxn
    # timestamps: non-decreasing with runs of equal values, placed so that runs straddle index-chunk boundaries
    ts = []
    t = offset + rng.choice([0, 0, -50, 100])
    i = 0
    while i < n:
        r = rng.random()
        if r < 0.25:
            run = rng.choice([2, 3, adf - 1, adf, adf + 1, 2 * adf + 1])
        else:
            run = 1
        if rng.random() < 0.3 and i % adf < adf - 1 and run > 1:
            # align the run so that it crosses the next chunk boundary
            pad = (adf - 1 - (i % adf))
            for _ in range(min(pad, n - i)):
                ts.append(t)
                t += rng.choice([1, 1, 2, 10])
                i += 1
        for _ in range(min(run, n - i)):
            ts.append(t)
            i += 1
        t += rng.choice([1, 1, 2, 5, 100])
    ts = ts[:n]
    seed = rng.randrange(1, 10**6)
    for k, tk in enumerate(ts):
        st = rng.choice([1, 2, 3])
        size = rng.choice([0, 1, 2, 7, 8, 9, 100, 3000]) if st == 1 else rng.choice([0, 1, 5, 40])
        if n > 200:
            size = min(size, 9)
        pay = "g%d.%d" % (size, seed + k) if (size or st != 1) else rng.choice(["e", "g0.1"])
        y = rng.choice(["3f800000", "7fc00000", "00000000", "c2f70000", "42280000"])
        ops.append("anno %d %d %s %d %d %d %s" % (sid, tk, y, rng.choice([0, 1, 2, 3, 255]), rng.choice([0, 1, 7, 255]), st, pay))
    ops += ["wclose", "ropen"]
    rel = [x - offset for x in ts]
    seeks = [-10**9, 10**12]
    if rel:
        seeks += [rel[0] - 1, rel[0], rel[-1], rel[-1] + 1]
        for _ in range(12 if tier == "quick" else 40):
            j = rng.randrange(0, len(rel))
            seeks.append(rel[j] + rng.choice([0, 0, 0, -1, 1]))
        # every chunk boundary
        for b in range(adf, len(rel), adf):
            if rng.random() < 0.5 and len(seeks) < 90:
                seeks.append(rel[b])
                seeks.append(rel[b - 1])
    for sk in seeks:
        ops.append("an %d %d" % (sid, sk))
    ops.append("an %d %d 3" % (sid, seeks[-1] if seeks else 0))     # a callback that asks to stop
    ops.append("an %d -1000000000 1" % sid)
    ops.append("rclose")
    runs = sum(1 for a, b in zip(ts, ts[1:]) if a == b)
    straddle = sum(1 for b in range(adf, len(ts), adf) if ts[b] == ts[b - 1])
    return ";".join(ops), dict(n=n, adf=adf, offset=offset, sig=sid, dist=["n%s" % ("0" if n == 0 else "<adf" if n < adf else "<adf2" if n < adf * adf else ">=adf2"),
                                                                         "straddle" if straddle else "nostraddle"],
                               trivial=(n == 0), equal_pairs=runs, straddle=straddle)


def classify(script, meta, mism):
    return None


def run(ctx):
    return proglib.run_prog_property(
        ctx, PROP_FILES, gen_case, ("anno",), 150, 700,
        "case = 0..(decimation^2+) annotations on signal 0 or an FSR signal (annotation decimation 10/11/13/100 so that 1-3 index levels exist; first "
        "sample id 0/5/-7/1000/2^40), non-decreasing timestamps with runs of equal timestamps aligned to straddle index-chunk boundaries, all storage "
        "types, payload sizes 0..3000; then iteration from timestamps before the first / equal / between / after the last / at every chunk boundary, and "
        "with a callback that stops after 1 or 3; oracle (extracted Spec.anno_seek_range): delivered = written[j:] for some j between (first index with "
        "ts>=t)-1 and that index, every field equal; distinct = script; non-trivial = at least one annotation",
        classify=classify, timeout=60, pre_run=pre_run, variants=("plain", "asan"))


def replay(ctx, path):
    print(open(path).read())
    return 0
