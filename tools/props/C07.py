"""C07: threaded writer: flush/close semantics hold and nothing deadlocks.
Proof: coq/Properties_C07.v (close_post, flush_post, no_deadlock for the repaired protocol; the protocol
as it is in /repo is refuted by a concrete schedule: C07_close_hang_refuted).
Tie to the real code: the same engine as C06 (tools/props/C06.py, harness/twr_sched.c): programs with
flushes at every position and close with a full queue, one and two producers, virtual time so that the
5 s send retry and the 20 s flush wait are reached; oracles on the real code's outputs: flush returned 0
=> every message accepted before its ticket was applied and an fsync followed the last of them (and, one
producer, the file at that instant equals the synchronous writer's after the same calls + flush); close
returned => all accepted messages applied, queue empty, END chunk and header length; the watchdog of the
scheduler reports DEADLOCK / LIVELOCK."""
import vlib
from props import C06

PROP_FILES = ["Properties_C07.v", "Properties_C07_live.v"]


def run(ctx):
    vlib.build(ctx, PROP_FILES, variants=())
    C06.engine(ctx, "C07")
    if ctx.tier == "thorough":
        vlib.coqchk(ctx, ["Properties_C07"])
    return vlib.finish(ctx, "proof", "make -C /verif/coq -f Makefile.coq Properties_C07.vo && coqc -Q . JLS Properties_C07.v (Print Assumptions)",
                       trusted_extra=["harness/twr_sched.c: baton scheduler, emulated mutex/condition/virtual clock (pthread semantics assumed: mutual exclusion, "
                                      "cond_wait releases/re-acquires, signal wakes one waiter, no spurious wake-ups); deadlock = no thread enabled, nothing sleeps, threads unfinished",
                                      "C memory model: unlocked reads of flush_processed_id / quit are atomic in the model; not proved for the C",
                                      "progress under fairness (every call returns) is not proved; no_deadlock states that some thread can always run or sleeps"],
                       note="C07_close_hang_refuted is the schedule of the known defect twr-close-send-failure-hang; the repaired protocol of the model "
                            "(jls_twr_close repeats msg_send(CLOSE) until queued) is the intended fix")


def replay(ctx, path):
    print(open(path).read())
    return 0
