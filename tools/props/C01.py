"""C01: FSR samples round-trip bit-exactly for every type, chunking and read window."""
import vlib, proglib
from proglib import DT, DT_BITS

import glob, os as _os
PROP_FILES = sorted(_os.path.basename(f) for f in glob.glob(_os.path.join(vlib.COQ, "Properties_C01*.v"))) + ["Properties_gen.v", "Properties_refine.v", "Properties_reader.v", "Properties_compose.v", "Properties_e2e.v", "Properties_links.v"]
FIRST_IDS = [0, 0, 0, 1, 3, 7, 8, 16, -5, 2**40 + 1, 1000]


def gen_signal_stream(rng, sid, dt, tier):
    """returns (sig op, list of fsr ops, total samples, structure dict)"""
    kind = rng.choice(["min", "min", "small", "small", "default"])
    if kind == "default":
        spd = sdf = eps = sumdf = 0
        w = DT_BITS[dt]
        dflt = {1: (65536, 1024, 1280), 4: (65536, 1024, 1280), 8: (32768, 1024, 640), 16: (16384, 256, 1280),
                24: (0, 0, 0), 32: (8192, 128, 640), 64: (8192, 128, 640)}[w]
        if w == 24:
            kind = "small"
        else:
            a_spd, a_sdf, a_eps = dflt
    if kind == "min":
        spd, sdf, eps, sumdf = proglib.min_def(dt)
        a_spd, a_sdf, a_eps = spd, sdf, eps
    elif kind == "small":
        spd, sdf, eps, sumdf = proglib.small_def(rng, dt)
        a_spd, a_sdf, a_eps = spd, sdf, eps
        # eps must be a multiple of epd for the stored values to equal ours; the writer adjusts spd otherwise
        epd = a_spd // a_sdf
        while a_eps % epd:
            epd -= 1
        a_spd = a_sdf * epd
    l1 = a_sdf * a_eps          # samples covered by one level-1 summary chunk
    limit = 30000 if tier == "quick" else 120000
    if kind == "default":
        limit = max(limit, 3 * a_spd + 100) if DT_BITS[dt] <= 8 else 2 * a_spd + 100
    cands = [1, 2, a_sdf - 1, a_sdf, a_sdf + 1, a_spd - 1, a_spd, a_spd + 1, 2 * a_spd, 2 * a_spd + a_sdf + 3,
             l1 - 1, l1, l1 + 1, l1 + a_spd + 5, 2 * l1 + 7, 10 * l1 + a_spd + 1, 11 * l1 + 3, rng.randrange(1, limit)]
    cands = [c for c in cands if 1 <= c <= limit]
    total = rng.choice(cands)
    first = rng.choice(FIRST_IDS)
    ops = []
    pos = 0
    callseed = rng.randrange(1, 10**6)
    while pos < total:
        r = rng.random()
        if r < 0.25:
            n = rng.choice([1, 2, 3, 5, 7, 9, 13])
        elif r < 0.5:
            n = rng.choice([a_spd - 1, a_spd, a_spd + 1, a_sdf, a_sdf + 1])
        elif r < 0.8:
            n = rng.randrange(1, max(2, 2 * a_spd))
        else:
            n = rng.randrange(1, max(2, total))
        n = max(1, min(n, total - pos))
        pat = rng.choice([2, 2, 1, 4, 0]) if DT_BITS[dt] > 1 else rng.choice([2, 2, 2, 0])
        if DT_BITS[dt] <= 8 and rng.random() < 0.3:
            # a constant run covering whole blocks: these are omitted automatically and reconstructed on read
            n = max(1, min(total - pos, rng.choice([1, 2, 3]) * a_spd + rng.choice([0, 0, 1, a_sdf])))
            pat = 0
        ops.append("fsr %d %d %d %d %d" % (sid, first + pos, n, pat, callseed + len(ops)))
        pos += n
    sigop = proglib.sigdef_op(sid, 1, dt, spd=spd, sdf=sdf, eps=eps, sumdf=sumdf)
    return sigop, ops, total, dict(dt=dt, kind=kind, spd=a_spd, sdf=a_sdf, l1=l1, total=total, first=first, calls=len(ops))


def gen_reads(rng, sid, st, n):
    total, spd, sdf, l1 = st["total"], st["spd"], st["sdf"], st["l1"]
    w = DT_BITS[st["dt"]]
    out = ["len %d" % sid]
    marks = sorted(set([0, 1, 7, 8, 9, sdf, spd - 1, spd, spd + 1, 2 * spd, l1 - 1, l1, l1 + 1, total - 1, total - 9, total - spd, total // 2]))
    marks = [m for m in marks if 0 <= m < total]
    for _ in range(n):
        r = rng.random()
        start = rng.choice(marks) if r < 0.7 else rng.randrange(0, total)
        if rng.random() < 0.3:
            start = max(0, min(total - 1, start + rng.randrange(-9, 10)))
        r = rng.random()
        if r < 0.3:
            ln = rng.choice([1, 2, 3, 7, 8, 9, 15, 17])
        elif r < 0.6:
            ln = rng.choice([spd, spd + 1, spd - 1, 2 * spd + 3, sdf])
        elif r < 0.8:
            ln = total - start          # ends at the last sample
        else:
            ln = rng.randrange(1, total - start + 1)
        ln = max(1, min(ln, total - start))
        out.append("rd %d %d %d" % (sid, start, ln))
        if rng.random() < 0.25:
            # the same window again, then the block before it: results must not depend on earlier reads
            out.append("rd %d %d %d" % (sid, start, ln))
            b0 = (start // spd) * spd
            out.append("rd %d %d %d" % (sid, b0, min(spd, total - b0)))
    # out-of-range requests must be errors
    out.append("rd %d %d %d" % (sid, total, 1))
    out.append("rd %d %d %d" % (sid, max(0, total - 3), 5))
    out.append("rd %d 0 %d" % (sid, total))
    return out


def gen_case(rng, tier):
    nsig = rng.choice([1, 1, 2, 3])
    types = list(DT.keys())
    ops = ["wopen", "src 1 g6.1 g3.2 g4.3 g2.4 g5.5"]
    streams = []
    sts = {}
    for k in range(nsig):
        sid = rng.choice([1, 2, 3, 5, 17, 200, 255][k::3] or [k + 1])
        while sid in sts:
            sid += 1
        dt = rng.choice(types)
        sigop, fops, total, st = gen_signal_stream(rng, sid, dt, tier)
        ops.append(sigop)
        streams.append(fops)
        sts[sid] = st
    # interleave the signals' write calls
    idx = [0] * len(streams)
    while any(idx[k] < len(streams[k]) for k in range(len(streams))):
        k = rng.choice([k for k in range(len(streams)) if idx[k] < len(streams[k])])
        ops.append(streams[k][idx[k]])
        idx[k] += 1
    ops += ["wclose", "ropen"]
    reads = []
    per = 12 if tier == "quick" else 40
    lists = [gen_reads(rng, sid, st, per) for sid, st in sts.items()]
    idx = [0] * len(lists)
    while any(idx[k] < len(lists[k]) for k in range(len(lists))):
        k = rng.choice([k for k in range(len(lists)) if idx[k] < len(lists[k])])
        reads.append(lists[k][idx[k]])
        idx[k] += 1
    ops += reads + ["rclose"]
    return ";".join(ops), sts


def signature(script, mism):
    """stable signature of a failing shrunk case, for known_findings matching"""
    return None


def run(ctx):
    import os
    prop_files = [f for f in PROP_FILES if os.path.exists(os.path.join(vlib.COQ, f))]
    vlib.build(ctx, prop_files, variants=("plain", "asan"))
    if _os.path.exists(_os.path.join(vlib.VERIF, "tools", "props", "C01_bits.py")) and "drv_bits.ml" in open(_os.path.join(vlib.VERIF, "ocaml", "DRIVERS")).read():
        import C01_bits
        C01_bits.run_bits(ctx, build=False)
    if _os.path.exists(_os.path.join(vlib.VERIF, "tools", "props", "C01_pyr.py")) and "drv_pyr.ml" in open(_os.path.join(vlib.VERIF, "ocaml", "DRIVERS")).read():
        import C01_pyr
        C01_pyr.run_pyr(ctx)
    n = 160 if ctx.tier == "quick" else 1200
    cases = [gen_case(ctx.rng, ctx.tier) for _ in range(n)]
    scripts = [c[0] for c in cases]
    impl, mod = proglib.run_pair(ctx, scripts, "plain")
    dist = {}
    nviol = 0
    for (script, sts), a, m in zip(cases, impl, mod):
        mism = [x for x in proglib.compare_case(script, a, m) if x["cls"] in ("fsr", "fault")]
        for sid, st in sts.items():
            key = "%s/%s" % (st["dt"], st["kind"])
            dist[key] = dist.get(key, 0) + 1
            ctx.count((st["dt"], st["kind"], st["total"], st["first"], st["calls"]),
                      nontrivial=st["total"] > st["sdf"], sample={"signal": st, "script_head": script[:160]})
        if mism:
            nviol += 1
            if nviol <= 5:
                sig = classify(script, sts, mism)
                ctx.violation("c01_case_%d.txt" % nviol, proglib.replay_text(script, "plain", mism),
                              "FSR round trip: %s (%s)" % (mism[0]["why"], mism[0]["op"]), sig=sig)
    ctx.extra["distribution"] = dist
    ctx.cov["rule"] = ("case = writer program with 1-3 FSR signals (all 15 types; definitions minimal/small/default; first ids %s; stream lengths at "
                       "entry/block/level-1-chunk boundaries; calls of sizes 1..blocks, interleaved across signals) followed by length and window reads "
                       "(starts/lengths around byte, block, summary-chunk boundaries and the end; out-of-range windows); compared op by op with the "
                       "extracted Spec (spec_of); distinct = (type, definition kind, length, first id, #calls); non-trivial = longer than one summary entry" % FIRST_IDS)
    return vlib.finish(ctx, "proof", "make -C /verif/coq -f Makefile.coq Properties_C01.vo; coqc Properties_C01.v",
                       note="correspondence: implementation reads vs extracted spec_of on generated programs")


def classify(script, sts, mism):
    return None


def replay(ctx, path):
    print(open(path).read())
    return 0
