"""C14: write-once.  coq/WriteOnce.v classifies every backend write of a log (append / header link rewrite / head table
entry 0 -> chunk offset / file header); coq/Properties_C14.v proves the checker sound for ALL logs
(wo_check_log l = true -> no completed chunk's payload bytes ever change, headers keep tag/meta/lengths/item_prev,
the file never shrinks).  The extracted checker is run on the interposed backend write log of every generated program."""
import vlib, proglib
import C05_walk

PROP_FILES = ["Properties_C14.v"]


def run(ctx):
    vlib.build(ctx, PROP_FILES, variants=("plain",))
    C05_walk.run_walk(ctx, parts=("log",), with_reader=False)
    ctx.cov["rule"] = ("writer programs as C05; the complete interposed sequence of backend write(2)/ftruncate calls of each run is fed to the extracted verified "
                       "checker wo_check_log (strict, including payload_prev_length); distinct = script")
    if ctx.tier == "thorough":
        vlib.coqchk(ctx, ["Properties_C14"])
    return vlib.finish(ctx, "proof", "make -C /verif/coq -f Makefile.coq Properties_C14.vo; coqc -Q . JLS Properties_C14.v",
                       note="verified checker applied to every observed log; that every log the writer can produce passes is not proved (no byte-level writer theorem yet). "
                            "The threaded writer's logs are covered by C06.")


def replay(ctx, path):
    print(open(path).read())
    return 0
