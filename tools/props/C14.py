"""C14: write-once.  coq/WriteOnce.v classifies every backend write of a log (append / header link rewrite / head table
entry 0 -> chunk offset / file header); coq/Properties_C14.v proves the checker sound for ALL logs
(wo_check_log l = true -> no completed chunk's payload bytes ever change, headers keep tag/meta/lengths/item_prev,
the file never shrinks).  The extracted checker is run on the interposed backend write log of every generated program."""
import vlib, proglib
import C05_walk

PROP_FILES = ["Properties_C14.v"]


def run(ctx):
    vlib.build(ctx, PROP_FILES, variants=("plain",))
    C05_walk.run_walk(ctx, parts=("log",), with_reader=False)
    # tie of the byte-exact writer model (coq/WriterModel.v): its complete write log must equal the implementation's
    import WM
    WM.run_wm(ctx, n=60 if ctx.tier == "quick" else 800)
    ctx.cov["rule"] = ("(a) writer programs as C05; the complete interposed sequence of backend write(2)/ftruncate calls of each run is fed to the extracted verified "
                       "checker wo_check_log (strict, including payload_prev_length); "
                       "(b) WM.gen_case programs: the write log (every truncate/write/fsync with offset and bytes) and every return code produced by the extracted "
                       "byte-exact writer model coq/WriterModel.v are compared with the implementation's; distinct = script")
    if ctx.tier == "thorough":
        vlib.coqchk(ctx, ["Properties_C14"])
    return vlib.finish(ctx, "proof", "make -C /verif/coq -f Makefile.coq Properties_C14.vo; coqc -Q . JLS Properties_C14.v",
                       note="verified checker applied to every observed log; that every log the writer can produce passes is not proved (no byte-level writer theorem yet). "
                            "The threaded writer's logs are covered by C06.")


def replay(ctx, path):
    print(open(path).read())
    return 0
