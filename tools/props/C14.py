"""C14: write-once.  coq/WriteOnce.v classifies every backend write of a log (append / header link rewrite / head table
entry 0 -> chunk offset / file header); coq/Properties_C14.v proves the checker sound for ALL logs
(wo_check_log l = true -> no completed chunk's payload bytes ever change, headers keep tag/meta/lengths/item_prev,
the file never shrinks).  The extracted checker is run on the interposed backend write log of every generated program."""
import vlib, proglib
import C05_walk

PROP_FILES = ["Properties_C14.v", "Properties_C14_writer.v", "Properties_C14_reject.v", "Properties_compose.v"]


def run_twr_logs(ctx):
    """(c) threaded writer: programs x schedules of the C06 scheduling harness (real threads, one runnable at a time, the
    next one taken from the schedule); the complete backend write log of each run is fed to the same extracted checker."""
    import os
    import C06
    C06.twr_build(ctx)
    nprog, nsched = (24, 4) if ctx.tier == "quick" else (100, 12)
    cases, progs, labels = C06.gen_cases(ctx, nprog, nsched)
    cases = [c for c in cases if c["sig"] is None]          # scenarios of recorded C06/C07 findings are judged there
    # generated cases (PRNG schedules): every backend write is an additional scheduling point (option wy=1), so another thread can run
    # between the header, payload and footer writes of one chunk; corpus cases carry explicit schedules and are run as they are
    for c in cases:
        if not c.get("corpus"):
            f = c["line"].split("|")
            if len(f) >= 5 and not f[4].strip():
                f[1] = (f[1] + " wy=1").strip()
                c["line"] = "|".join(f)
    os.environ["TWR_WLOG"] = "1"
    n_ok = n_fail = n_nolog = 0
    try:
        for q in C06.SIZES:
            sub = [c for c in cases if c["size"] == q]
            if not sub:
                continue
            outs = C06.run_twr(ctx, "plain", q, [c["line"] for c in sub])
            shards = max(1, min(vlib.NPROC, len(sub)))
            per = (len(sub) + shards - 1) // shards
            paths = [os.path.join(ctx.tmp, "twr_plain_%d_%d" % (q, j // per), "wlog_%d.log" % (j % per + 1)) for j in range(len(sub))]
            have = [(c, o, pth) for c, (o, e), pth in zip(sub, outs, paths) if os.path.exists(pth)]
            n_nolog += len(sub) - len(have)
            verdicts = C05_walk.check_logs(ctx, [pth for (_, _, pth) in have])
            for (c, o, pth), v in zip(have, verdicts):
                ok = v.startswith("OK")
                ctx.count("twr:" + c["line"].split("|", 1)[1][:400], nontrivial=True, sample={"case": c["line"][:300], "checklog": v[:160]})
                if ok:
                    n_ok += 1
                    continue
                n_fail += 1
                if n_fail <= 4:
                    ctx.violation("c14_twr_%s.txt" % c["name"],
                                  "threaded writer, queue of %d bytes; case line (name|opts|producer 0|producer 1|schedule):\n%s\n\nreplay:\n  mkdir -p /tmp/x; echo '<line>' | TWR_WLOG=1 %s /tmp/x ; "
                                  "echo /tmp/x/wlog_1.log | %s/jlsmodel checklog\n\nchecker verdict: %s\nharness result: %s\n"
                                  % (q, c["line"], C06.twrrun("plain", q), vlib.BUILD, v, o[:600]),
                                  "threaded writer: backend write log rejected by the write-once checker: " + v[:200])
                try:
                    os.unlink(pth)
                except OSError:
                    pass
    finally:
        os.environ.pop("TWR_WLOG", None)
    ctx.extra["threaded_writer_logs"] = {"runs_checked": n_ok + n_fail, "accepted": n_ok, "rejected": n_fail, "runs_without_log": n_nolog,
                                         "programs": len(progs), "schedules_per_program": nsched}


def run(ctx):
    vlib.build(ctx, PROP_FILES, variants=("plain",))
    C05_walk.run_walk(ctx, parts=("log",), with_reader=False)
    run_twr_logs(ctx)
    # tie of the byte-exact writer model (coq/WriterModel.v): its complete write log must equal the implementation's
    import WM
    WM.run_wm(ctx, n=60 if ctx.tier == "quick" else 800)
    ctx.cov["rule"] = ("(a) writer programs as C05; the complete interposed sequence of backend write(2)/ftruncate calls of each run is fed to the extracted verified "
                       "checker wo_check_log (strict, including payload_prev_length); "
                       "(b) WM.gen_case programs: the write log (every truncate/write/fsync with offset and bytes) and every return code produced by the extracted "
                       "byte-exact writer model coq/WriterModel.v are compared with the implementation's; distinct = script; "
                       "(c) threaded writer: generated producer programs x schedules (C06's deterministic scheduling harness, queue of 512/4096 bytes): the complete "
                       "backend write log of every run is fed to the same checker")
    if ctx.tier == "thorough":
        vlib.coqchk(ctx, ["Properties_C14"])
    return vlib.finish(ctx, "proof", "make -C /verif/coq -f Makefile.coq Properties_C14.vo; coqc -Q . JLS Properties_C14.v",
                       note="verified checker applied to every observed log; that every log the writer can produce passes is not proved (no byte-level writer theorem yet). "
                            "Threaded-writer runs are sampled schedules (not all interleavings); C06 proves the protocol that serialises file access.")


def replay(ctx, path):
    print(open(path).read())
    return 0
