"""C19: repair converges and a good file is never modified by reading."""
import os, sys
import vlib, proglib, crashlib
import importlib

PROP_FILES = ["Properties_C19.v", "Properties_reader.v"]


def closed_case(rng, tier):
    C17 = importlib.import_module("C17")
    w, sigs, has_omit = C17.gen_writer(rng, tier)
    reads = C17.dump_ops(rng, sigs, tier)
    for sid, st in sigs.items():
        if st["total"] > 40 and proglib.DT_BITS[st["dt"]] != 24:
            reads.append("st %d 0 %d %d" % (sid, max(1, st["total"] // 7), 5))
            reads.append("st %d 1 1 %d" % (sid, min(30, st["total"] - 1)))
        reads.append("rd %d %d 5" % (sid, st["total"]))           # out of range
        reads.append("s2t %d 10" % sid)
    reads.append("rd 77 0 1")
    rng.shuffle(reads)
    ops = w + ["wclose", "hash", "ropen"] + reads + ["rclose", "hash", "ropen", "sigs", "rclose", "hash"]
    return ";".join(ops), dict(sigs=sigs)


def run(ctx):
    prop_files = vlib.listed_props(PROP_FILES)
    vlib.build(ctx, prop_files, variants=("plain",))
    nviol = 0
    # (a) closed files are never modified by reading
    n = 120 if ctx.tier == "quick" else 1200
    cases = [closed_case(ctx.rng, ctx.tier) for _ in range(n)]
    impl, _ = proglib.run_pair(ctx, [c[0] for c in cases], "plain", model=False)
    dist = {"closed": 0, "repaired": 0, "open_error": 0}
    for (script, meta), a in zip(cases, impl):
        hs = [t for t in a.split(";") if t.startswith("hash ")]
        dist["closed"] += 1
        ctx.count(("closed", script), nontrivial=True, sample={"kind": "closed file + reads", "hashes": hs})
        bad = None
        if "FAULT" in a:
            bad = "fault while reading a closed file: " + a.split(";")[-1]
        elif len(hs) != 3 or len(set(hs)) != 1:
            bad = "file bytes changed by opening/reading a properly closed file: %s" % hs
        if bad:
            nviol += 1
            if nviol <= 20:
                ctx.violation("c19_closed_%d.txt" % nviol, "%s\n\nscript:\n%s\n\nimplementation:\n%s\nreplay: echo '<script>' | /verif/build/plain/jlsrun prog /tmp\n" % (bad, script, a[:3000]), bad)
    # (b) repaired images: the second open modifies nothing and answers the same
    C03 = importlib.import_module("C03")
    nprog, per = (6, 200) if ctx.tier == "quick" else (12, 800)
    icases, parsed, spec_scripts, model = C03.run_images(ctx, nprog, per)
    for (script, meta), r in zip(icases, parsed):
        k, j, kind = meta["point"]
        if r["fault"] or not r["open1"] or r["open1"].split()[1:2] != ["0"]:
            dist["open_error"] += 1
            continue
        dist["repaired"] += 1
        ctx.count(("image", script.split(";image")[0][-150:], k, j), nontrivial=(0 < k < meta["nlog"]),
                  sample={"kind": "crash image reopened twice", "point": [k, j, kind], "hash_after_first_open": r["hash1"], "hash_after_second_open": r["hash2"]})
        bad = None
        sig = None
        if r["open2"] is None or r["open2"].split()[1:2] != ["0"]:
            bad = "second open of the repaired file failed: %s" % r["open2"]
        elif r["hash1"] != r["hash2"]:
            bad = "second open modified the repaired file again (%s -> %s)" % (r["hash1"], r["hash2"])
        elif [x[1] for x in r["dump1"]] != [x[1] for x in r["dump2"]]:
            diff = [(o, a1, a2) for (o, a1), (_, a2) in zip(r["dump1"], r["dump2"]) if a1 != a2][:3]
            bad = "the second open returns different content than the repairing open: %s" % (diff,)
        if bad:
            nviol += 1
            if nviol <= 40:
                ctx.violation("c19_image_%d.txt" % nviol,
                              "crash point: %d complete writes + %d bytes (%s)\n%s\n\nscript:\n%s\n\nimplementation (after image): %s\n" % (k, j, kind, bad, script, ";".join(r["out"])[:2500]),
                              "repaired image (k=%d, j=%d): %s" % (k, j, bad[:160]), sig=sig)
    # byte-exact repair-on-open model (coq/RepairModel.v, extracted) vs the implementation: return code, complete backend log and the
    # resulting file of two consecutive opens per image; defect classes carry signatures, everything else is a violation
    RP = importlib.import_module("RP")
    nviol += RP.run_rp(ctx, n=(4 if ctx.tier == "quick" else 30), per_program=(40 if ctx.tier == "quick" else 120), cycle=False)
    dist.update({"rp_" + k: v for k, v in ctx.extra.get("distribution", {}).items()})
    ctx.extra["distribution"] = dist
    ctx.cov["rule"] = ("(a) closed files of writer programs (as C17) hashed before opening, after a shuffled mix of every reader call (definitions, lengths, windows incl. "
                       "out-of-range, statistics, annotations, UTC, user data, time conversion, undefined signal) and after a second open: all three hashes equal; "
                       "(b) crash images (as C03) that open successfully: the file after the first (repairing) open is hashed, reopened: hash unchanged and every "
                       "answer (definitions, lengths, whole-signal hashes, annotations, UTC, user data) identical; distinct = script / (program, k, j)")
    return vlib.finish(ctx, "proof" if prop_files else "fault_enumeration", "coqc Properties_C19.v (when present); jlsrun prog with `hash` / `image` ops",
                       note="byte hash = FNV-1a 64 over the whole file; O_RDONLY for closed files is also enforced by the OS")


def replay(ctx, path):
    print(open(path).read())
    return 0
