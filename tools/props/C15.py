"""C15: omitting level-0 data never changes length or summaries."""
import vlib, proglib
from proglib import DT, DT_BITS

PROP_FILES = ["Properties_C15.v", "Properties_gen.v"]


def gen_case(rng, tier):
    """Two signals with the same definition and the same data: signal 1 with omission toggles (or, for
    <= 8-bit types, blocks chosen constant / non-constant), signal 2 never omitting (8-bit+: no toggles;
    <=8-bit: same data - automatic omission applies to both, so 2 is compared with the specification only)."""
    small = rng.random() < 0.5
    dt = rng.choice(["u1", "u4", "u8", "i4", "i8"]) if small else rng.choice(["i16", "u16", "i24", "u24", "i32", "u32", "i64", "u64", "f32", "f64"])
    w = DT_BITS[dt]
    spd, sdf, eps, sumdf = proglib.min_def(dt) if rng.random() < 0.7 else proglib.small_def(rng, dt)
    epd = spd // sdf
    while eps % epd:
        epd -= 1
    a_spd = sdf * epd
    first = rng.choice([0, 0, 3, 8, -5, 1000])
    ops = ["wopen", "src 1 e e e e e",
           proglib.sigdef_op(1, 1, dt, spd=spd, sdf=sdf, eps=eps, sumdf=sumdf),
           proglib.sigdef_op(2, 1, dt, spd=spd, sdf=sdf, eps=eps, sumdf=sumdf)]
    nblocks = rng.choice([1, 2, 3, 5, 8, 12, 30]) if rng.random() < 0.7 else rng.randrange(25 * sumdf // max(1, epd) + 1, 40 * sumdf // max(1, epd) + 3)
    if tier == "quick":
        nblocks = min(nblocks, 400)
    tail = rng.choice([0, 0, 1, sdf - 1, sdf, sdf + 1, a_spd - 1]) if not small else rng.choice([0, 0, 1, sdf, a_spd - 1, 7])
    tail = min(tail, a_spd - 1)
    r = 0
    k_flushed = 0
    omitted = []          # per flushed block of signal 1: True if the writer omits it on request (w > 8)
    patterns = []
    seed = rng.randrange(1, 10**6)
    pos = 0
    for b in range(nblocks):
        if not small and rng.random() < 0.35:
            en = rng.choice([1, 1, 0])
            ops.append("omit 1 %d" % en)
            r = (r | 1) if en else 0
        if small:
            kind = rng.choice(["c0", "c1", "cx", "nc", "nc", "near", "near", "near"])
            full = (1 << w) - 1
            if kind == "c0":
                pat, sd = 0, 0
            elif kind == "c1":
                pat, sd = 0, full
            elif kind == "cx":
                pat, sd = 0, rng.choice([1, 5, 0x4d, 0x80, 3]) & full
            elif kind == "near":
                # nearly constant: the deviation is confined to a few samples (first byte, last byte, or one place)
                pat, sd = 0, rng.choice([0, full, 3 & full, 0x4d & full])
            else:
                pat, sd = 2, seed + b
        else:
            kind = "nc"
            pat, sd = rng.choice([2, 4, 1]), seed + b
        patterns.append(kind)
        # one call per block, sometimes split in two calls
        if kind == "near":
            per_byte = 8 // w
            where = rng.choice(["first_byte", "first_byte", "last_byte", "one"])
            if where == "first_byte":
                lo, hi = 1, per_byte                   # samples 1 .. per_byte-1 (sample 0 keeps the constant)
            elif where == "last_byte":
                lo, hi = a_spd - per_byte, a_spd
            else:
                lo = rng.randrange(0, a_spd)
                hi = lo + 1
            hi = max(hi, lo + 1)
            for sg in (1, 2):
                if lo > 0:
                    ops.append("fsr %d %d %d 0 %d" % (sg, first + pos, lo, sd))
                # deviating samples: complement of the constant so that they always differ
                ops.append("fsr %d %d %d 0 %d" % (sg, first + pos + lo, hi - lo, (sd ^ full) if w < 8 else (sd ^ 0x55)))
                if hi < a_spd:
                    ops.append("fsr %d %d %d 0 %d" % (sg, first + pos + hi, a_spd - hi, sd))
        elif rng.random() < 0.3 and a_spd > 2:
            cut = rng.randrange(1, a_spd)
            if pat == 0:
                for sg in (1, 2):
                    ops.append("fsr %d %d %d 0 %d" % (sg, first + pos, cut, sd))
                    ops.append("fsr %d %d %d 0 %d" % (sg, first + pos + cut, a_spd - cut, sd))
            else:
                for sg in (1, 2):
                    ops.append("fsr %d %d %d %d %d" % (sg, first + pos, a_spd, pat, sd))
        else:
            for sg in (1, 2):
                ops.append("fsr %d %d %d %d %d" % (sg, first + pos, a_spd, pat, sd))
        omitted.append((r > 1) and k_flushed > 0 and w > 8)
        r = ((r << 1) | (r & 1)) & 0xff
        k_flushed += 1
        pos += a_spd
    if tail:
        if not small and rng.random() < 0.3:
            ops.append("omit 1 1")
            r |= 1
        for sg in (1, 2):
            ops.append("fsr %d %d %d 2 %d" % (sg, first + pos, tail, seed + 9999))
        omitted.append((r > 1) and k_flushed > 0 and w > 8)
        pos += tail
    total = pos
    tail_omitted = bool(tail) and omitted[-1] and (tail % sdf != 0)
    ops += ["wclose", "ropen", "len 1", "len 2"]
    # reads: stored blocks must equal the specification; omitted-on-request blocks only need the right size
    nreads = 14 if tier == "quick" else 40
    for _ in range(nreads):
        b = rng.randrange(0, len(omitted))
        bstart = b * a_spd
        blen = min(a_spd, total - bstart)
        if blen <= 0:
            continue
        off = rng.randrange(0, blen)
        ln = rng.randrange(1, blen - off + 1)
        if omitted[b]:
            ops.append("rdn 1 %d %d" % (bstart + off, ln))
        else:
            ops.append("rd 1 %d %d" % (bstart + off, ln))
        ops.append("rd 2 %d %d" % (bstart + off, ln))
    if small and len(patterns) >= 3:
        # read order matters for caches: stored block, then the omitted neighbour, then the stored block again,
        # and the same straddling window twice
        for _ in range(4):
            b = rng.randrange(0, len(patterns) - 1)
            w0 = b * a_spd + rng.randrange(a_spd // 2, a_spd)
            ln = min(total - w0, rng.randrange(2, a_spd))
            if ln > 0:
                ops += ["rd 1 %d %d" % (w0, ln), "rd 1 %d %d" % (w0, ln), "rd 1 %d %d" % (b * a_spd, min(a_spd, total - b * a_spd))]
    if small:
        # unaligned windows crossing omitted/stored boundaries: bit exact for every <= 8-bit type
        for _ in range(nreads):
            start = rng.randrange(0, total)
            ln = rng.choice([1, 7, 9, a_spd, a_spd + 3, 2 * a_spd + 1, total - start])
            ln = max(1, min(ln, total - start))
            ops.append("rd 1 %d %d" % (start, ln))
    elif not any(omitted):
        ops.append("rd 1 0 %d" % total)
    # statistics served purely from stored summaries: identical with and without omission
    for lvl in (1, 2):
        step = sdf * (sumdf ** (lvl - 1))
        count = 25
        if step * count <= total - (total % sdf if tail_omitted else 0) and w != 24:
            nwin = (total // step) - count + 1
            if tail_omitted:
                nwin -= 1
            for _ in range(3):
                if nwin > 0:
                    st0 = rng.randrange(0, nwin) * step
                    ops.append("st 1 %d %d %d" % (st0, step, count))
                    ops.append("st 2 %d %d %d" % (st0, step, count))
    ops.append("rclose")
    return ";".join(ops), dict(dt=dt, blocks=len(omitted), omitted=sum(omitted), tail=tail, tail_omitted=tail_omitted,
                               dist=["%s:%s" % (dt, "req" if any(omitted) else ("auto" if small and any(p != "nc" for p in patterns[1:]) else "none"))],
                               trivial=not (any(omitted) or (small and any(p != "nc" for p in patterns[1:]))))


def extra_check(script, meta, a, m):
    """summary-level statistics of signal 1 (with omission) and signal 2 (without) must be identical"""
    out = []
    ops = script.split(";")
    io = a.split(";")
    for i in range(len(ops) - 1):
        if ops[i].startswith("st 1 ") and ops[i + 1].startswith("st 2 ") and i + 1 < len(io):
            x, y = io[i].split()[1:], io[i + 1].split()[1:]
            # the last entry of a request is always recomputed from level-0 samples by the reader (synthetic for an
            # omitted block), so only the entries before it are "answered purely from stored summaries"
            if x[:-4] != y[:-4] or len(x) != len(y):
                out.append(dict(op_index=i, op=ops[i], cls="stats", impl=io[i][:200], model=io[i + 1][:200],
                                why="summary statistics differ between the signal written with omission and the same signal without"))
    return out


def classify(script, meta, mism):
    if meta.get("tail_omitted") and all(x["op"].startswith(("len 1", "rdn 1", "rd 1", "st 1")) for x in mism):
        return "omit-request-partial-last-block-length"
    return None


def pre_run(ctx):
    # tie of coq/SummQ.v (Properties_C15.v: summaries do not depend on omission; exact reconstruction): stored SUMMARY
    # entries incl. files with omitted blocks vs the extracted model
    import C02_summ
    C02_summ.run_summ(ctx, build=False, gap_clause=False)


def run(ctx):
    return proglib.run_prog_property(
        ctx, PROP_FILES, gen_case, ("fsr",), 200, 2000,
        "case = two FSR signals with identical definition and data; signal 1 gets omission enable/disable toggles at arbitrary block positions "
        "(types > 8 bit) or block patterns constant 0 / all-ones / other constant / non-constant (u1 u4 u8 i4 i8), with a final partial block of "
        "various sizes; checked: both lengths equal the specification; stored blocks read back bit-exactly; automatically omitted constant blocks "
        "of <= 8-bit types read back bit-exactly through unaligned windows crossing omitted/stored boundaries; blocks omitted on request return "
        "the right number of bytes; level-1 and level-2 statistics answered from stored summaries are bit-identical between the two signals; "
        "distinct = script; non-trivial = at least one block omitted",
        classify=classify, extra_check=extra_check, timeout=60, pre_run=pre_run)


def replay(ctx, path):
    print(open(path).read())
    return 0
