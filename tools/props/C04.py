"""C04: corrupted bytes are detected, never returned as valid content.
Proof: CRC-32C detection algebra (coq/Properties_C04_alg.v: every error of weight <= 3 or one burst <= 32 bits
inside a protected region of up to 2^31-1 bits changes the CRC check).  This module is the structural /
correspondence half: it corrupts real closed files and checks every reader call."""
import os, sys, importlib
import vlib, proglib, crashlib

PROP_FILES = ["Properties_C04_alg.v", "Properties_C04_struct.v", "Properties_reader.v"]


def small_program(rng, tier):
    """a closed file of a few KB with several signals, levels and tracks"""
    ops = ["wopen", "src 1 g5.1 e - g3.2 e"]
    sigs = {}
    for sid, dt in ((1, rng.choice(["f32", "u8", "i16"])), (5, rng.choice(["u1", "f64", "u32", "i4"]))):
        spd, sdf, eps, sumdf = proglib.min_def(dt)
        ops.append(proglib.sigdef_op(sid, 1, dt, spd=spd, sdf=sdf, eps=eps, sumdf=sumdf, adf=10, udf=10))
        total = sdf * eps + rng.choice([3, sdf + 1, 2 * spd + 5])       # two level-1 chunks, a level-2 chunk
        first = rng.choice([0, 7])
        sigs[sid] = dict(dt=dt, total=total, first=first, spd=spd)
        seed = rng.randrange(1, 10**6)
        pos = 0
        while pos < total:
            n = min(total - pos, rng.choice([spd, spd + 3, 2 * spd]))
            ops.append("fsr %d %d %d %d %d" % (sid, first + pos, n, 2 if proglib.DT_BITS[dt] == 1 else rng.choice([2, 4]), seed + pos))
            pos += n
        for a in range(rng.choice([2, 12])):
            ops.append("anno %d %d 3f800000 1 0 2 g%d.%d" % (sid, first + a * 3, rng.choice([0, 6]), seed + a))
        for u in range(rng.choice([1, 11])):
            ops.append("utc %d %d %d" % (sid, first + 10 * u, 10**12 + u * 2**25))
    ops.append("anno 0 5 3f800000 1 0 2 g4.9")
    ops.append("ud 17 1 g40.3")
    ops.append("ud 18 2 g9.4")
    return ops, sigs


def big_program(rng, tier):
    """a closed file with LARGE payloads (default f32 definition: 32784-byte DATA chunks; a 20000-byte user-data chunk; a big
    SUMMARY): CRC code paths that depend on the buffer length are exercised through the file reader"""
    ops = ["wopen", "src 1 g5.1 e - g3.2 e"]
    sigs = {}
    dt = "f32"
    ops.append(proglib.sigdef_op(1, 1, dt, spd=0, sdf=0, eps=0, sumdf=0, adf=10, udf=10))      # all defaults
    spd = 8192
    total = 3 * spd + rng.choice([0, 5, 1000])
    sigs[1] = dict(dt=dt, total=total, first=0, spd=spd)
    seed = rng.randrange(1, 10**6)
    pos = 0
    while pos < total:
        n = min(total - pos, spd)
        ops.append("fsr 1 %d %d 4 %d" % (pos, n, seed + pos))
        pos += n
    ops.append("ud 17 1 g20000.3")
    ops.append("ud 18 1 g13000.4")
    return ops, sigs


def dump_ops(sigs):
    d = ["srcs", "sigs"]
    for sid, st in sigs.items():
        d += ["rdall %d" % sid, "an %d -1000000000000" % sid, "ut %d -1000000000000" % sid]
        if proglib.DT_BITS[st["dt"]] != 24:
            d += ["st %d 0 %d 4" % (sid, st["total"] // 4), "st %d 3 1 20" % sid]
        d += ["rd %d %d 9" % (sid, st["total"] // 2)]
    d += ["an 0 -1000000000000", "udr"]
    # every call is issued twice in a row on the same reader: a call that failed with an error code must not leave state behind that makes
    # the retry return the corrupted content as valid (nothing else is read in between)
    return [x for op in d for x in (op, op)]


def corruptions(rng, size, regions, tier, big=False):
    """list of (label, [file ops])"""
    out = []
    nbits = size * 8
    if tier == "quick" or big:
        bits = sorted(rng.sample(range(nbits), min(nbits, (500 if tier == "quick" else 6000) if big else 1500)))
    else:
        bits = range(nbits)                     # exhaustive single-bit flips
    for b in bits:
        out.append(("flip1", ["flip %d" % b]))
    n2 = (400 if tier == "quick" else 6000) // (4 if big else 1)
    for _ in range(n2):
        # 2 and 3 flips inside one protected region (a header, a payload+CRC, the file header)
        (a, l) = rng.choice(regions)
        k = rng.choice([2, 3])
        bs = sorted(rng.sample(range(a * 8, (a + l) * 8), k)) if l * 8 >= k else [a * 8]
        out.append(("flip%d" % k, ["flip " + " ".join(map(str, bs))]))
    for _ in range(n2):
        # one burst of <= 32 bits
        (a, l) = rng.choice(regions)
        start = rng.randrange(a * 8, (a + l) * 8)
        blen = rng.randrange(2, 33)
        bs = [start] + [start + i for i in range(1, blen) if rng.random() < 0.5 and start + i < (a + l) * 8]
        bs.append(min(start + blen - 1, (a + l) * 8 - 1))
        out.append(("burst", ["flip " + " ".join(map(str, sorted(set(bs))))]))
    for _ in range(n2 // 2):
        off = rng.randrange(0, size)
        ln = rng.choice([1, 4, 8, 32, 100, 1000])
        out.append(("overwrite", ["zero %d %d %d" % (off, ln, rng.choice([0, 0, 255, 0x5a]))]))
    for _ in range(n2 // 2):
        # several chunks at once, incl. the END chunk / file header
        ops = []
        for _k in range(rng.choice([2, 3])):
            (a, l) = rng.choice(regions + [(size - 32, 32), (0, 32)])
            ops.append("flip %d" % rng.randrange(a * 8, (a + l) * 8))
        out.append(("multi", ops))
    out.append(("trunc", ["trunc %d" % (size - 32)]))
    out.append(("trunc", ["trunc %d" % (size - 1)]))
    return out


def parse_regions(path_bytes):
    """protected regions (offset, length) of a file: file header, each chunk header, each payload+pad+crc"""
    import struct
    b = path_bytes
    regs = [(0, 32)]
    off = 32
    while off + 32 <= len(b):
        plen = struct.unpack_from("<I", b, off + 20)[0]
        pad = (8 - ((plen + 4) % 8)) % 8 if plen else 0
        regs.append((off, 32))
        if plen:
            regs.append((off + 32, plen + pad + 4))
        off += 32 + (plen + pad + 4 if plen else 0)
    return regs


def acceptable(op, orig, got):
    """error, or equal to the original answer; prefix cases are handled by the caller"""
    if got == orig:
        return True
    t = got.split()
    name = op.split()[0]
    if name in ("an", "ut", "udr"):
        items, rest = proglib.parse_items(got[len(name):])
        oitems, orest = proglib.parse_items(orig[len(name):])
        if items is None:
            return len(t) > 1 and t[1] != "0"
        if not crashlib.is_subsequence(items, oitems or []):
            return False
        return True           # delivered entries are original ones, in order (possibly fewer, possibly an error at the end)
    if len(t) >= 2 and t[1] != "0":
        return True
    return False


def run(ctx):
    prop_files = vlib.listed_props(PROP_FILES)
    vlib.build(ctx, prop_files, variants=("plain",))
    rng = ctx.rng
    nprog = 2 if ctx.tier == "quick" else 4
    nviol = 0
    dist = {}
    for pi in range(nprog + 1):
        big = (pi == nprog)
        ops, sigs = big_program(rng, ctx.tier) if big else small_program(rng, ctx.tier)
        d = dump_ops(sigs)
        save = os.path.join(ctx.tmp, "c04_orig_%d.jls" % pi)
        base = ";".join(ops + ["wclose", "save " + save, "ropen"] + d + ["rclose"])
        (a0,), _ = proglib.run_pair(ctx, [base], "plain", model=False)
        outs0 = a0.split(";")
        nw = len(ops) + 3
        orig = dict(zip(d, outs0[nw:nw + len(d)]))
        data = open(save, "rb").read()
        os.remove(save)
        regions = parse_regions(data)
        cors = corruptions(rng, len(data), regions, ctx.tier, big=big)
        scripts = [";".join(ops + ["wclose", "dup"] + c + ["hash", "ropen"] + d + ["rclose", "hash"]) for (_, c) in cors]
        impl, _ = proglib.run_pair(ctx, scripts, "plain", model=False, timeout=30)
        prefix_checks = []
        for (label, c), script, a in zip(cors, scripts, impl):
            dist[label] = dist.get(label, 0) + 1
            toks = a.split(";")
            fault = toks[-1] if toks[-1].startswith("FAULT") else None
            base_i = len(ops) + 2 + len(c)
            res = toks[base_i + 2: base_i + 2 + len(d)]
            opened = toks[base_i + 1] if len(toks) > base_i + 1 else ""
            ctx.count((pi, label, tuple(c)), nontrivial=True,
                      sample={"corruption": c, "class": label, "open": opened, "file_bytes": len(data)})
            probs = []
            if fault:
                probs.append("fault: " + fault)
            elif opened.split()[1:2] == ["0"]:
                for op, got in zip(d, res):
                    if acceptable(op, orig[op], got):
                        continue
                    if op.startswith("rdall"):
                        t = got.split()
                        ot = orig[op].split()
                        if len(t) >= 4 and t[1] == "0" and int(t[2]) < int(ot[2]):
                            prefix_checks.append((script, op, int(t[2]), t[3], sigs, ops, c, label))
                            continue
                    probs.append("%s: altered content returned as valid: got '%s' original '%s'" % (op, got[:120], orig[op][:120]))
            if probs:
                nviol += 1
                if nviol <= 30:
                    ctx.violation("c04_corrupt_%d.txt" % nviol,
                                  "corruption (%s): %s on a %d-byte closed file\n%s\n\nscript:\n%s\n\nreplay: echo '<script>' | /verif/build/plain/jlsrun prog /tmp\n" % (label, c, len(data), "\n".join(probs), script),
                                  "corrupted file (%s %s): %s" % (label, c, probs[0][:150]))
        # prefixes returned after a repair triggered by the damage must be correct prefixes
        if prefix_checks:
            ms = [";".join(po + ["wclose", "ropen", "rd %d 0 %d" % (int(op.split()[1]), ln)]) for (_, op, ln, _, _, po, _, _) in prefix_checks]
            mo = vlib.run_model("prog", ms)
            for (script, op, ln, h, _, _, c, label), m in zip(prefix_checks, mo):
                exp = m.split(";")[-1].split()
                if ln > 0 and (len(exp) < 4 or exp[3] != h):
                    nviol += 1
                    ctx.violation("c04_prefix_%d.txt" % nviol, "corruption (%s): %s\n%s returned %d samples that are not the written prefix\n\nscript:\n%s\n" % (label, c, op, ln, script),
                                  "corrupted file (%s %s): %s returned a wrong prefix" % (label, c, op))
    # byte-level reader model (coq/ReaderModel.v, extracted) vs the implementation: the same reader calls on intact, corrupted, truncated and
    # CRC-valid crafted files; the model must predict every return code and every returned byte
    RDM = importlib.import_module("RDM")
    nviol += RDM.run_rdm(ctx) or 0
    dist.update({"rdm_" + k: v for k, v in (ctx.extra.get("rdm_distribution") or {}).items()})
    ctx.extra["distribution"] = dist
    ctx.cov["rule"] = ("closed files (two FSR signals of different types with 2 index levels, annotations, UTC, user data; plus one file with 32 KiB DATA chunks and 13/20 KB user data, sampled flips) corrupted by: single-bit flips (quick: 1500 random "
                       "positions per file; thorough: every bit), 2- and 3-bit flips and bursts <= 32 bits inside one protected region (file header, a chunk header, a "
                       "payload+pad+CRC), overwritten ranges, flips in several chunks incl. END and file header, truncation; after each, every reader call (definitions, "
                       "whole-signal read, windows, statistics, annotations, UTC, user data) must return an error, the original answer, or a correct prefix/subsequence; "
                       "distinct = (file, corruption)")
    return vlib.finish(ctx, "proof", "make -C /verif/coq -f Makefile.coq Properties_C04_alg.vo; coqc Properties_C04_alg.v",
                       note="algebra proved for all region lengths < 2^31-1 bits; that every byte returned by the reader comes from a CRC-checked chunk is checked by corruption, not proved")


def replay(ctx, path):
    print(open(path).read())
    return 0
