"""Byte-exact correspondence of the READER's data paths (jls_rd_fsr_length, jls_rd_fsr, jls_rd_annotations, jls_rd_utc,
jls_rd_user_data after jls_rd_open of a closed file) with the byte-level reader model (coq/ReaderModel.v on top of
coq/RepairRaw.v, extracted; ocaml/drv_reader.ml, kind "reader") - on intact files AND on corrupted copies.

    run_rdm(ctx, n=None)   assumes vlib.build was called with the kind prog in the harness and drv_reader.ml in the model
                           binary (integration: `reader` in ocaml/DRIVERS, the rdm_ names in coq/Extract.v); returns #violations
    stand-alone:  JLS_BUILD=/verif/build_rdm JLS_EXTRACT=/verif/coq/Extract_reader.v JLS_DRV=drv_reader.ml
                  JLS_KINDS=/verif/harness/jlsrun_k_prog.h python3 tools/props/RDM.py [seed] [tier] [build] [asan] [keep]

The C side is the existing `prog` kind: writer program; wclose; (dup; corruption ops;) save <file>; ropen; reader ops; rclose.
The model side reads the saved file's bytes and runs the SAME reader ops.  Compared op by op: return code, length,
sample bytes (size, FNV-1a 64, first 24 bytes), every annotation / UTC / user-data item.
For a corrupted file the model must predict exactly what the C returns (error code or data).
Not compared: files that make the C enter its repair branch (model prints `ropen REPAIR`: rp_open's subject, tools/props/RP.py);
sample bytes of windows that touch a reconstructed f32/f64 block (model prints APPROX: the C uses logf/cosf; return code and size are compared).
"""
import os, sys, struct, time

if __name__ == "__main__":
    sys.path.insert(0, os.path.dirname(os.path.dirname(os.path.abspath(__file__))))
    sys.path.insert(0, os.path.dirname(os.path.abspath(__file__)))
import vlib, proglib
import importlib

SHARDS = 4
RDMF = {1: "fuel (non-termination)", 2: "access outside a 1 MiB buffer", 4: "payload > 1 MiB (realloc path not modelled)",
        7: "entry size 0", 20: "integer division by zero (SIGFPE)", 21: "signed overflow (UB)", 22: "float->int8 conversion out of range (UB)",
        23: "caller buffer too small / written outside"}
# what the harness reports for a model fault (EXIT1 = UBSan's division-by-zero report in the asan build)
FAULT_EXPECT = {1: ("TIMEOUT",), 20: ("SIGFPE", "EXIT1"), 2: ("ASAN", "SIGSEGV", "SIGBUS", "SIGABRT")}
READER_OPS = ("ropen", "len", "rd", "rdall", "an", "ut", "udr", "rclose")


# ---------------------------------------------------------------- programs and reader ops
def reader_ops(rng, sigs, tier, nwin=4):
    """sigs: {sid: dict(dt=, total=, spd=)} -> reader ops (no statistics, no definitions: not modelled)"""
    d = ["udr", "udr 1"]
    for sid, st in sigs.items():
        total = st["total"]
        w = proglib.DT_BITS[st["dt"]]
        d.append("len %d" % sid)
        d.append("rdall %d" % sid)
        spd = max(1, st.get("spd", 16))
        maxw = 4000 if w < 8 else 20000
        for _ in range(nwin):
            if total <= 0:
                break
            a = rng.choice([0, 1, spd - 1, spd, total // 2, rng.randrange(0, total)])
            a = max(0, min(total - 1, a))
            n = rng.choice([1, 7, spd, spd + 1, 2 * spd + 3, total - a, rng.randrange(1, total - a + 1)])
            n = max(1, min(n, total - a, maxw))
            d.append("rd %d %d %d" % (sid, a, n))
        d.append("rd %d %d 5" % (sid, max(0, total - 3)))          # beyond the end: error
        d.append("an %d -1000000000000" % sid)
        d.append("an %d %d %d" % (sid, rng.choice([0, 3, 10, 100]), rng.choice([0, 1, 2])))
        d.append("ut %d -1000000000000" % sid)
        d.append("ut %d %d %d" % (sid, rng.choice([0, 5, 100, 1000]), rng.choice([0, 0, 1, 3])))
    d += ["an 0 -1000000000000", "an 0 %d" % rng.choice([0, 6, 500]), "len 0", "len 77", "rd 77 0 1", "an 77 0", "ut 300 0"]
    rng.shuffle(d)
    return d


def clip_reads(reads, sigs):
    """the extracted jls_bit_copy model is quadratic on its bit-by-bit path (sub-byte types, window not starting on a byte): such windows are
    shortened to 3000 bytes (the op stays, the C and the model get the same shortened request)"""
    out = []
    for o in reads:
        t = o.split()
        if t[0] == "rd" and int(t[1]) in sigs:
            w = proglib.DT_BITS[sigs[int(t[1])]["dt"]]
            if w < 8 and (int(t[2]) * w) % 8 != 0 and int(t[3]) * w > 24000:
                o = "rd %s %s %d" % (t[1], t[2], 24000 // w)
        out.append(o)
    return out


def parse_regions(b):
    regs = [(0, 32)]
    off = 32
    while off + 32 <= len(b):
        plen = struct.unpack_from("<I", b, off + 20)[0]
        pad = (8 - ((plen + 4) % 8)) % 8 if plen else 0
        regs.append((off, 32))
        if plen:
            regs.append((off + 32, plen + pad + 4))
        off += 32 + (plen + pad + 4 if plen else 0)
    return regs


def gen_programs(rng, tier):
    """-> list of dict(ops=[writer ops without wclose], sigs=, gen=, ncor=)"""
    C04 = importlib.import_module("C04")
    C17 = importlib.import_module("C17")
    C01 = importlib.import_module("C01")
    out = []
    q = tier == "quick"
    for _ in range(2 if q else 4):
        ops, sigs = C04.small_program(rng, tier)
        out.append(dict(ops=ops, sigs=sigs, gen="C04small", ncor=150 if q else 1200))
    ops, sigs = C04.big_program(rng, tier)
    out.append(dict(ops=ops, sigs=sigs, gen="C04big", ncor=30 if q else 150))
    for _ in range(9 if q else 40):
        ops, sigs, has_omit = C17.gen_writer(rng, tier, allow_omit=True, deep=rng.random() < 0.5)
        out.append(dict(ops=ops, sigs=sigs, gen="C17" + ("omit" if has_omit else ""), ncor=10 if q else 20))
    for _ in range(7 if q else 30):
        script, sts = C01.gen_case(rng, "quick")
        ops = script.split(";")
        i = ops.index("wclose")
        out.append(dict(ops=ops[:i], sigs={sid: dict(dt=st["dt"], total=st["total"], spd=st["spd"]) for sid, st in sts.items()},
                        gen="C01", ncor=3 if q else 6, reads=[o for o in ops[i + 2:] if o.split()[0] in ("len", "rd")]))
    return out


def corruptions(rng, data, n, tier):
    C04 = importlib.import_module("C04")
    size = len(data)
    regions = parse_regions(data)
    cors = C04.corruptions(rng, size, regions, "quick", big=(size > 60000))
    # C04.corruptions puts the single-bit flips first: keep a balanced sample of every class
    by = {}
    for lab, c in cors:
        by.setdefault(lab, []).append((lab, c))
    pick = []
    labs = sorted(by)
    while len(pick) < n and any(by[l] for l in labs):
        for l in labs:
            if by[l] and len(pick) < n:
                pick.append(by[l].pop(rng.randrange(len(by[l]))))
    # truncations at chunk boundaries / inside chunks (beyond C04's two)
    for _ in range(max(1, n // 12)):
        a, l = rng.choice(regions)
        pick.append(("trunc", ["trunc %d" % max(0, min(size, a + rng.choice([0, 1, 8, l - 1, l])))]))
    return pick


# ---------------------------------------------------------------- crafted files: every CRC valid, content malformed
_CRC_TAB = None


def crc32c(b):
    global _CRC_TAB
    if _CRC_TAB is None:
        _CRC_TAB = []
        for i in range(256):
            c = i
            for _ in range(8):
                c = (c >> 1) ^ 0x82F63B78 if c & 1 else c >> 1
            _CRC_TAB.append(c)
    c = 0xFFFFFFFF
    for x in b:
        c = _CRC_TAB[(c ^ x) & 0xff] ^ (c >> 8)
    return c ^ 0xFFFFFFFF


def chunks_of(b):
    """[(offset, tag, meta, payload_length)]"""
    out = []
    off = 32
    while off + 32 <= len(b):
        plen = struct.unpack_from("<I", b, off + 20)[0]
        pad = (8 - ((plen + 4) % 8)) % 8 if plen else 0
        tot = 32 + (plen + pad + 4 if plen else 0)
        if off + tot > len(b):
            break
        out.append((off, b[off + 16], struct.unpack_from("<H", b, off + 18)[0], plen))
        off += tot
    return out


def refix(img, off):
    """recompute the header CRC and the payload CRC of the chunk at off"""
    plen = struct.unpack_from("<I", img, off + 20)[0]
    struct.pack_into("<I", img, off + 28, crc32c(bytes(img[off:off + 28])))
    if plen:
        pad = (8 - ((plen + 4) % 8)) % 8
        end = off + 32 + plen + pad
        if end + 4 <= len(img):
            struct.pack_into("<I", img, end, crc32c(bytes(img[off + 32:off + 32 + plen])))


def patch_ops(orig, img):
    """file ops (`zero off 1 val`) that turn orig into img (same length)"""
    return ["zero %d 1 %d" % (i, img[i]) for i in range(len(orig)) if orig[i] != img[i]]


def crafted(rng, data, n, cycles=True):
    """-> [(label, file ops)]: n CRC-valid malformed variants of a closed file (cycles: include the chains that come back to
    themselves: the C hangs on them until the harness watchdog fires)"""
    cks = chunks_of(data)
    if not cks:
        return []
    offs = [c[0] for c in cks]
    out = []

    def interesting(own):
        # offsets in [2^44 - 4096, 2^63) are avoided: lseek fails there on ext4 (s_maxbytes) and succeeds on tmpfs; the model (RepairRaw.rp_bk_fseek) is tmpfs
        return rng.choice([0, 1, own, rng.choice(offs), rng.choice(offs), len(data), len(data) - 32, len(data) + 64, 2**63, 2**64 - 8, 2**31, 2**43, 24, rng.randrange(0, len(data))])

    def emit(label, img):
        ops = patch_ops(data, img)
        if ops and len(ops) < 200:
            out.append((label, ops))

    # targeted: chains that come back to themselves without delivering anything
    for (off, tag, meta, plen) in cks:
        if tag == 0x40 and (meta >> 12) == 0:                       # the USER_DATA placeholder written by jls_wr_open
            img = bytearray(data)
            struct.pack_into("<Q", img, off, off)                   # item_next = itself
            refix(img, off)
            emit("cycle_user_data", img)
            break
    for (off, tag, meta, plen) in cks:
        if tag == 0x3b and (meta >> 12) == 1:                       # UTC level-1 INDEX
            img = bytearray(data)
            struct.pack_into("<Q", img, off, off)
            refix(img, off)
            emit("cycle_utc_index", img)
            break
    for (off, tag, meta, plen) in cks:
        if tag == 0x32:                                             # ANNOTATION DATA
            img = bytearray(data)
            struct.pack_into("<Q", img, off, off)
            refix(img, off)
            emit("cycle_annotation", img)
            break
    for (off, tag, meta, plen) in cks:
        if tag == 0x02 and plen >= 36 and meta != 0:                # SIGNAL_DEF: samples_per_data / sample_decimate_factor := 0 / huge
            for fo, val in ((12, 0), (16, 0), (12, 0xFFFFFFFF), (24, 0), (20, 0), (16, 1), (12, 7)):
                img = bytearray(data)
                struct.pack_into("<I", img, off + 32 + fo, val)
                refix(img, off)
                emit("sigdef_field", img)
    for (off, tag, meta, plen) in cks:
        if tag in (0x22, 0x24, 0x23, 0x3c, 0x33, 0x3b) and plen >= 16:            # entry_count lies
            for val in (rng.choice([0, 1, 0x7fffffff, 0xffffffff, 70000]), struct.unpack_from("<I", data, off + 40)[0] + rng.choice([1, 8, 100, 5000])):
                img = bytearray(data)
                struct.pack_into("<I", img, off + 32 + 8, val)
                refix(img, off)
                emit("entry_count", img)
            if rng.random() < 0.5:
                img = bytearray(data)
                struct.pack_into("<H", img, off + 32 + 12, rng.choice([0, 8, 64, 128, 256, 7]))
                refix(img, off)
                emit("entry_size", img)
    cyc = [x for x in out if x[0].startswith("cycle")] if cycles else []
    oth = [x for x in out if not x[0].startswith("cycle")]
    rng.shuffle(oth)
    out = cyc + oth[:max(8, n // 2)]
    # random: one 8-byte word of a header or of a payload set to an interesting value
    while len(out) < n:
        (off, tag, meta, plen) = rng.choice(cks)
        img = bytearray(data)
        r = rng.random()
        if r < 0.3:
            struct.pack_into("<Q", img, off + rng.choice([0, 8]), interesting(off))        # item_next / item_prev
            lab = "hdr_link"
        elif r < 0.4:
            img[off + 16] = rng.choice([0, 1, 2, 0x22, 0x23, 0x24, 0x32, 0x33, 0x3a, 0x3b, 0x3c, 0x40, 0xff, tag ^ 1])
            lab = "hdr_tag"
        elif r < 0.5:
            struct.pack_into("<H", img, off + 18, rng.choice([0, 1, 5, meta ^ 0x1000, meta ^ 1, 0x1001, 0xffff]))
            lab = "hdr_meta"
        elif plen >= 8:
            po = off + 32 + 8 * rng.randrange(0, plen // 8)
            if rng.random() < 0.5:
                struct.pack_into("<Q", img, po, interesting(off))
            else:
                struct.pack_into("<q", img, po, rng.choice([-1, -2**63, 2**43 - 1, struct.unpack_from("<q", data, po)[0] + rng.choice([1, -1, 1000, -1000, 2**32])]))
            lab = "payload_word"
        else:
            continue
        refix(img, off)
        emit(lab, img)
    return out


# ---------------------------------------------------------------- running both sides
def _model(lines, timeout=3000):
    # RDM_SLOW=<seconds> RDM_SLOWLOG=<file>: the driver reports lines slower than that (diagnosis of generator sizes only)
    redir = " 2>>\"$RDM_SLOWLOG\"" if os.environ.get("RDM_SLOWLOG") else ""
    cmd = ["bash", "-c", "ulimit -s 4000000 2>/dev/null || ulimit -s unlimited 2>/dev/null; exec \"$0\" reader" + redir,
           os.path.join(vlib.BUILD, "jlsmodel")]
    return vlib._run_sharded(cmd, lines, SHARDS, timeout)


def scratch_dir(ctx):
    """the harness works on copies in its scratch directory.  lseek to offsets in [2^44 - 4096, 2^63) fails on ext4 (EINVAL: beyond
    s_maxbytes) and succeeds on tmpfs; the model's rp_bk_fseek (RepairRaw.v) is the tmpfs behaviour, so tmpfs is used when there is one
    (only CRC-valid files with absurd offsets can tell the difference: JLS_ERROR_IO instead of JLS_ERROR_EMPTY)."""
    d = getattr(ctx, "rdm_scratch", None)
    if d is None:
        import tempfile
        base = "/dev/shm" if os.path.isdir("/dev/shm") and os.access("/dev/shm", os.W_OK) else ctx.tmp
        d = tempfile.mkdtemp(prefix="rdm_scratch_", dir=base)
        ctx.rdm_scratch = d
    return d


def scratch_cleanup(ctx):
    import shutil
    if getattr(ctx, "rdm_scratch", None):
        shutil.rmtree(ctx.rdm_scratch, ignore_errors=True)
        ctx.rdm_scratch = None


def _impl(scripts, scratch, variant, timeout_s=3):
    env = dict(os.environ)
    env["ASAN_OPTIONS"] = "detect_leaks=0:abort_on_error=0:exitcode=99:allocator_may_return_null=1"
    env["UBSAN_OPTIONS"] = "print_stacktrace=1:halt_on_error=1"
    return vlib._run_sharded([os.path.join(vlib.BUILD, variant, "jlsrun"), "prog", scratch, "timeout=%d" % timeout_s], scripts, SHARDS, 3000, env)


def compare_ops(rops, impl_toks, fault, mline, variant="plain"):
    """rops: the reader ops; impl_toks: the C's result per op (may be shorter after a fault); mline: the model's line.
    -> (difference text or None, classes set)"""
    cls = set()
    if mline.startswith("PROCFAIL") or "MODELFAIL" in mline:
        return "model run failed: " + mline[:200], cls
    mt = mline.split(";")
    approx_seen = False
    for i, op in enumerate(rops):
        m = mt[i] if i < len(mt) else op.split()[0] + " ?"
        a = impl_toks[i] if i < len(impl_toks) else None
        if m == "ropen REPAIR":
            cls.add("repair")
            return None, cls                      # the repair branch: rp_open's subject
        mf = None
        if " FAULT" in m:
            m, f = m.rsplit(" FAULT", 1)
            mf = int(f)
        stale = m.endswith(" STALE") or " STALE " in m
        m = m.replace(" STALE", "")
        approx = m.endswith(" APPROX")
        m = m.replace(" APPROX", "")
        if stale:
            cls.add("stale")
        if mf is not None:
            cls.add("model_fault_%d" % mf)
            exp = FAULT_EXPECT.get(mf)
            if mf == 2 and variant != "asan":
                exp = None                        # out-of-bounds access: only the sanitizer build reports it reliably
            if exp is None:
                return None, cls                  # undefined behaviour without a crash in this build: nothing to compare after it
            if fault and any(e in fault for e in exp):
                return None, cls
            return "op #%d %s: the model predicts a fault (%s) but the implementation %s" % (
                i, op, RDMF.get(mf, mf), ("faults with " + fault) if fault else "returns '%s'" % (a or "")[:100]), cls
        if a is None:
            return "op #%d %s: the implementation stopped (%s); model: '%s'" % (i, op, fault or "no output", m[:120]), cls
        if stale and approx_seen:
            cls.add("stale_after_approx(skipped)")     # the buffer holds a block the oracle did not compute: what lies beyond the payload differs
            continue
        if approx:
            approx_seen = True
            cls.add("approx")
            n = 3 if op.startswith("rd") else len(m.split())
            if a.split()[:n] != m.split()[:n]:
                return "op #%d %s (reconstructed float block: only rc/size compared): implementation '%s' / model '%s'" % (i, op, a[:100], m[:100]), cls
            continue
        if a != m:
            return "op #%d %s: implementation '%s' / model '%s'" % (i, op, a[:160], m[:160]), cls
    if fault:
        return "implementation fault %s not predicted by the model" % fault, cls
    return None, cls


def run_cases(ctx, cases, variant="plain"):
    """cases: list of dict(ops=writer ops, cor=[file ops], rops=[reader ops]).  Adds diff / classes / impl / model to each."""
    d = os.path.join(ctx.tmp, "rdm")
    os.makedirs(d, exist_ok=True)
    scratch = scratch_dir(ctx)
    base = getattr(ctx, "rdm_seq", 0)
    scripts = []
    for i, c in enumerate(cases):
        c["file"] = os.path.join(d, "f%d.jls" % (base + i))
        pre = list(c["ops"]) + ["wclose"] + (["dup"] + list(c["cor"]) if c["cor"] else [])
        c["npre"] = len(pre) + 1
        c["script"] = ";".join(pre + ["save " + c["file"]] + c["rops"])
        scripts.append(c["script"])
    ctx.rdm_seq = base + len(cases)
    impl = _impl(scripts, scratch, variant)
    present = [c for c in cases if os.path.exists(c["file"])]
    mlines = _model([c["file"] + ";" + ";".join(c["rops"]) for c in present])
    for c, m in zip(present, mlines):
        c["model"] = m
    for c, a in zip(cases, impl):
        toks = a.split(";")
        fault = None
        if toks and toks[-1].startswith(("FAULT", "PROCFAIL")):
            fault = toks[-1]
            toks = toks[:-1]
        c["impl"] = ";".join(t[:400] for t in toks[c["npre"]:])      # a crafted entry count can make one call print megabytes
        c["fault"] = fault
        if "model" not in c:
            c["diff"], c["classes"] = "no file was saved (implementation: %s)" % (fault or a[-120:]), set()
        else:
            c["diff"], c["classes"] = compare_ops(c["rops"], toks[c["npre"]:], fault, c["model"], variant)
        if os.path.exists(c["file"]) and not getattr(ctx, "rdm_keep", False):
            os.remove(c["file"])
        if not c["diff"]:
            c.pop("model", None)
            c["script"] = None          # rebuilt on demand by script_of
    return cases


def script_of(c):
    pre = list(c["ops"]) + ["wclose"] + (["dup"] + list(c["cor"]) if c["cor"] else [])
    return ";".join(pre + ["save " + c["file"]] + c["rops"])


def replay_text(c, variant="plain"):
    return ("corruption class %s: %s\nscript (one line):\n%s\n\nreplay:\n  echo '<script>' | %s/%s/jlsrun prog /tmp      (implementation; the file is saved to the path after `save`)\n"
            "  echo '<saved file>;%s' | %s/jlsmodel reader      (model on the saved bytes)\n\ndifference:\n  %s\nimplementation: %s\nmodel:          %s\n" % (
                c.get("label"), c["cor"], c["script"], vlib.BUILD, variant, ";".join(c["rops"]), vlib.BUILD, c["diff"], c.get("impl", "")[:1500], c.get("model", "")[:1500]))


def probe_files(ctx, progs, variant="plain"):
    """run every writer program once, keep the bytes of its file (for the corruption generators)"""
    d = os.path.join(ctx.tmp, "rdm")
    os.makedirs(d, exist_ok=True)
    scratch = scratch_dir(ctx)
    paths = [os.path.join(d, "probe%d.jls" % i) for i in range(len(progs))]
    _impl([";".join(list(p["ops"]) + ["wclose", "save " + paths[i]]) for i, p in enumerate(progs)], scratch, variant)
    for p, path in zip(progs, paths):
        p["data"] = open(path, "rb").read() if os.path.exists(path) else None
        if os.path.exists(path):
            os.remove(path)


def run_rdm(ctx, variant="plain", max_file=400000):
    rng = ctx.rng
    progs = gen_programs(rng, ctx.tier)
    probe_files(ctx, progs, variant)
    cases = []
    skipped = 0
    for p in progs:
        if p["data"] is None or len(p["data"]) > max_file:
            skipped += 1
            continue
        rops = ["ropen"] + clip_reads(p.get("reads") or [], p["sigs"]) + reader_ops(rng, p["sigs"], ctx.tier, nwin=2 if p.get("reads") else 4) + ["rclose"]
        cases.append(dict(ops=p["ops"], cor=[], rops=rops, label="intact", gen=p["gen"], size=len(p["data"])))
        for lab, cor in corruptions(rng, p["data"], p["ncor"], ctx.tier):
            # a corrupted copy gets a shorter op list (every call once) unless it is a small file
            r2 = rops if len(p["data"]) < 30000 else ["ropen"] + reader_ops(rng, p["sigs"], ctx.tier, nwin=1) + ["rclose"]
            cases.append(dict(ops=p["ops"], cor=cor, rops=r2, label=lab, gen=p["gen"], size=len(p["data"])))
        if p["gen"].startswith(("C04small", "C17")) and len(p["data"]) < 20000:
            ncyc = getattr(ctx, "rdm_ncyc", 0)
            ctx.rdm_ncyc = ncyc + 1
            # CRC-valid malformed files: no rdall (the harness would allocate what a crafted length says), callbacks stop after 40 items
            r3 = ["ropen"] + [o + (" 40" if o.split()[0] in ("an", "ut") and len(o.split()) == 3 else "") for o in
                              reader_ops(rng, p["sigs"], ctx.tier, nwin=2) if not o.startswith("rdall") and o != "udr"] + ["udr 40", "rclose"]
            for lab, cor in crafted(rng, p["data"], p.get("ncraft", 24 if ctx.tier == "quick" else 60), cycles=ncyc < (3 if ctx.tier == "quick" else 12)):
                cases.append(dict(ops=p["ops"], cor=cor, rops=r3, label="crafted_" + lab, gen=p["gen"], size=len(p["data"])))
    try:
        run_cases(ctx, cases, variant)
    finally:
        scratch_cleanup(ctx)
    dist, outcome = {}, {}
    nv = 0
    nops = 0
    intact = {}
    for c in cases:
        if c["label"] == "intact":
            intact[id(c["ops"])] = dict(zip(c["rops"], c.get("impl", "").split(";")))
    for c in cases:
        dist[c["label"]] = dist.get(c["label"], 0) + 1
        toks = c.get("impl", "").split(";")
        o = "open_failed" if toks and toks[0].split()[1:2] not in (["0"],) else "opened"
        if "repair" in c["classes"]:
            o = "repair_branch(skipped)"
        elif o == "opened":
            ref = intact.get(id(c["ops"]), {})
            changed = sum(1 for op, t in zip(c["rops"], toks) if op in ref and ref[op] != t)
            o = "opened_all_calls_as_intact" if changed == 0 else "opened_some_calls_differ_from_intact"
            outcome["calls_differing_from_intact"] = outcome.get("calls_differing_from_intact", 0) + changed
            nops += len(toks) - 1
        for k in c["classes"]:
            outcome["flag_" + k] = outcome.get("flag_" + k, 0) + 1
        outcome[o] = outcome.get(o, 0) + 1
        outcome[c["label"] + "/" + o] = outcome.get(c["label"] + "/" + o, 0) + 1
        if hasattr(ctx, "count"):
            ctx.count(((c["script"] or script_of(c))[-300:],), nontrivial=(c["label"] != "intact"), sample={"class": c["label"], "gen": c["gen"], "cor": c["cor"], "diff": c["diff"]})
        if c["diff"]:
            nv += 1
            if nv <= 40:
                ctx.violation("rdm_case_%d.txt" % nv, replay_text(c, variant), "reader model and implementation differ (%s, %s): %s" % (c["gen"], c["label"], c["diff"][:200]))
    ctx.extra["rdm_distribution"] = dist
    ctx.extra["rdm_outcomes"] = outcome
    ctx.extra.setdefault("distribution", dist)
    ctx.extra["rdm_stats"] = dict(programs=len(progs), skipped_big=skipped, files=len(cases), reader_calls_compared=nops)
    ctx.cov["rule"] = (ctx.cov.get("rule") + "  ||  RDM: " if ctx.cov.get("rule") else "") + ("writer programs from C04.small_program / big_program, C17.gen_writer (all types, omitted blocks, 1-3 summary levels), C01.gen_case; per program the intact file and "
                       "corrupted copies (C04.corruptions: bit flips, 2-3 bits, bursts, overwrites, multi-chunk, truncation; + truncation at chunk boundaries); on each file the same reader "
                       "calls (len, rd windows, rdall, an, ut, udr with and without early stop, undefined signals) run on the C and on the extracted byte-level model reading the saved bytes; "
                       "compared: rc, length, sample bytes (hash + first 24), every item; distinct = (program, corruption)")
    return nv


def run(ctx):
    vlib.build(ctx, vlib.listed_props(["Properties_reader.v"]), variants=("plain",))
    run_rdm(ctx)
    return vlib.finish(ctx, "proof", "python3 tools/props/RDM.py", note="byte-exact correspondence of the reader's data paths: model vs implementation, intact and corrupted files")


def replay(ctx, path):
    print(open(path).read())
    return 0


class _Mini:
    def __init__(self, seed, tier):
        import random, tempfile
        self.rng = random.Random(seed)
        self.tier = tier
        self.tmp = tempfile.mkdtemp(prefix="rdm_")
        self.extra, self.cov, self.violations = {}, {}, []

    def violation(self, name, text, what, **k):
        self.violations.append((name, text, what))

    def cleanup(self):
        import shutil
        shutil.rmtree(self.tmp, ignore_errors=True)


if __name__ == "__main__":
    import json
    args = [a for a in sys.argv[1:] if a not in ("build", "asan", "keep")]
    ctx = _Mini(int(args[0]) if args else 1, args[1] if len(args) > 1 else "quick")
    ctx.rdm_keep = "keep" in sys.argv
    variant = "asan" if "asan" in sys.argv else "plain"
    try:
        if "build" in sys.argv:
            rc, out = vlib.sh(["make", "-C", os.path.join(vlib.VERIF, "ocaml"), "B=" + vlib.BUILD, "EXTRACT=" + os.environ.get("JLS_EXTRACT", "/verif/coq/Extract_reader.v"),
                               "DRV=" + os.environ.get("JLS_DRV", "drv_reader.ml")])
            print(out[-800:] if rc else "model built")
            rc, out = vlib.sh(["make", "-C", os.path.join(vlib.VERIF, "harness"), "-j4", "REPO=" + vlib.REPO, "B=" + vlib.BUILD,
                               "KINDS=" + os.environ.get("JLS_KINDS", "/verif/harness/jlsrun_k_prog.h"), os.path.join(vlib.BUILD, variant, "jlsrun")])
            print(out[-800:] if rc else "harness built")
        t0 = time.time()
        nv = run_rdm(ctx, variant=variant)
        for name, text, what in ctx.violations[:6]:
            print("DIFF " + what)
            print(text if len(text) < 2500 else text[:900] + " ... " + text[-1500:])
            print()
        print(json.dumps(ctx.extra["rdm_distribution"], sort_keys=True))
        print(json.dumps(ctx.extra["rdm_outcomes"], sort_keys=True))
        print(json.dumps(ctx.extra["rdm_stats"], sort_keys=True))
        print("%d files, %d mismatches, %.1fs" % (ctx.extra["rdm_stats"]["files"], nv, time.time() - t0))
    finally:
        if not ctx.rdm_keep:
            ctx.cleanup()
        else:
            print("kept", ctx.tmp)
