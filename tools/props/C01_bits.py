"""C01, sample packing core (slice `bits`): jls_bit_copy of /repo/src/bit_shift.c.

Proof: coq/Properties_C01_bits.v (bit_copy_spec for all buffers/offsets/counts, blocks_stream for all call
lists incl. gaps and overlaps, rd_blocks_spec for all windows, C01_pack_roundtrip).
Correspondence (ties BitCopyModel.bc_bit_copy to the C): jls_bit_copy called directly on exactly-sized
malloc'ed buffers (ASan+UBSan build, forked child per case; plain build for the in-bounds cases) vs the
extracted bc_bit_copy on the same script lines; the property's executable statement (bit splice computed
here with python integers) evaluated on the implementation's output; bc_bit_copy_slow (the loop without the
memcpy fast path) vs bc_bit_copy on the same lines; the constants the block model uses (sizeof buffer_u64,
NAN byte patterns) vs the implementation's.

run_bits(ctx) is called by tools/props/C01.py.  Standalone (development):
    JLS_BUILD=/verif/build_bits JLS_KINDS=/verif/harness/jlsrun_k_bits.h JLS_DRV=drv_bits.ml \
    JLS_EXTRACT=/verif/coq/Extract_bits.v python3 tools/props/C01_bits.py [--tier quick|thorough]"""
import os, sys
if __name__ == "__main__":
    sys.path.insert(0, os.path.dirname(os.path.dirname(os.path.abspath(__file__))))
import vlib

PROP_FILES = ["Properties_C01_bits.v"]


# ---------------------------------------------------------------- the executable statement
def bits_int(b):
    return int.from_bytes(b, "little")      # bit i of the integer = bit (i mod 8) of byte i // 8: LSB first


def splice(dst, dst_bit, src, src_bit, cnt):
    """the specification: bits [dst_bit, dst_bit+cnt) of dst replaced by bits [src_bit, src_bit+cnt) of src"""
    d, s = bits_int(dst), bits_int(src)
    m = (1 << cnt) - 1
    d = (d & ~(m << dst_bit)) | (((s >> src_bit) & m) << dst_bit)
    return d.to_bytes(len(dst), "little")


def hx(b):
    return b.hex() if len(b) else "-"


def unhx(s):
    return b"" if s == "-" else bytes.fromhex(s)


def count_class(c):
    if c <= 16:
        return str(c)
    for lim, name in ((40, "17-40"), (255, "41-255"), (4095, "256-4095")):
        if c <= lim:
            return name
    return ">=4096"


class Case:
    __slots__ = ("dst", "db", "src", "sb", "cnt", "tag", "inb")

    def __init__(self, dst, db, src, sb, cnt, tag):
        self.dst, self.db, self.src, self.sb, self.cnt, self.tag = dst, db, src, sb, cnt, tag
        # in bounds = every byte the copy touches exists (a zero-length copy touches nothing)
        self.inb = cnt == 0 or (db + cnt <= 8 * len(dst) and sb + cnt <= 8 * len(src))

    def line(self, fork=True):
        # c = forked child per case; n = in-process (fork under ASan costs ~50 ms)
        return "%s %s %d %s %d %d" % ("c" if fork else "n", hx(self.dst), self.db, hx(self.src), self.sb, self.cnt)

    def key(self):
        return (self.db % 8, self.sb % 8, count_class(self.cnt))


def content(rng, n, mode):
    if mode == 0:
        return bytes(rng.randrange(256) for _ in range(n))
    if mode == 1:
        return bytes(n)
    if mode == 2:
        return b"\xff" * n
    return bytes(rng.choice((0x00, 0xff, 0x55, 0xaa, 0x80, 0x01)) for _ in range(n))


def mk(rng, db, sb, cnt, tag, slack_d=0, slack_s=0, modes=None):
    """buffers exactly as long as the copy needs (+ optional slack bytes; negative = too short)"""
    dn = max(0, (db + cnt + 7) // 8 + slack_d)
    sn = max(0, (sb + cnt + 7) // 8 + slack_s)
    md, ms = modes if modes else (rng.choice((0, 0, 0, 1, 2, 3)), rng.choice((0, 0, 0, 1, 2, 3)))
    return Case(content(rng, dn, md), db, content(rng, sn, ms), sb, cnt, tag)


def gen_cases(ctx):
    rng = ctx.rng
    quick = ctx.tier == "quick"
    cases = []
    # 1. the full small grid: offsets 0..15 x 0..15, counts 0..40, exactly-sized buffers
    for db in range(16):
        for sb in range(16):
            for cnt in range(41):
                cases.append(mk(rng, db, sb, cnt, "grid"))
    # 2. the same boundaries with all-zero / all-one contents (a wrong mask shows at once) and with slack
    for db in range(8):
        for sb in range(8):
            for cnt in (1, 2, 7, 8, 9, 15, 16, 17, 24, 33):
                cases.append(mk(rng, db, sb, cnt, "mask01", modes=(1, 2)))
                cases.append(mk(rng, db, sb, cnt, "mask10", modes=(2, 1)))
                cases.append(mk(rng, db, sb, cnt, "slack", slack_d=rng.randrange(0, 3), slack_s=rng.randrange(0, 3)))
    # 3. sample-shaped copies: widths x counts at block-buffer style offsets (entry_count*w, ffwd*w)
    for w in (1, 4, 8, 16, 24, 32, 64):
        for _ in range(40 if quick else 400):
            e, f, n = rng.randrange(0, 70), rng.randrange(0, 70), rng.randrange(0, 90)
            cases.append(mk(rng, e * w, f * w, n * w, "samples", slack_d=rng.choice((0, 0, 1, 5)), slack_s=rng.choice((0, 0, 1))))
    # 4. long copies, random offsets
    for _ in range(250 if quick else 1500):
        hi = 6000 if quick else 30000
        cnt = rng.choice((rng.randrange(41, 600), rng.randrange(256, hi), 8 * rng.randrange(1, hi // 8)))
        db = rng.choice((rng.randrange(0, 16), rng.randrange(0, 200), 8 * rng.randrange(0, 64)))
        sb = rng.choice((rng.randrange(0, 16), rng.randrange(0, 200), 8 * rng.randrange(0, 64), db % 8 + 8 * rng.randrange(0, 9)))
        cases.append(mk(rng, db, sb, cnt, "long", slack_d=rng.choice((0, 0, 3)), slack_s=rng.choice((0, 0, 2))))
    # 5. a buffer too short by 1..2 bytes: the model says OOB, the ASan build must fault
    for _ in range(300 if quick else 2000):
        db, sb = rng.randrange(0, 24), rng.randrange(0, 24)
        cnt = rng.choice((rng.randrange(1, 41), rng.randrange(1, 41), rng.randrange(41, 900)))
        which = rng.randrange(3)
        c = mk(rng, db, sb, cnt, "short", slack_d=-rng.randrange(1, 3) if which in (0, 2) else 0,
               slack_s=-rng.randrange(1, 3) if which in (1, 2) else 0)
        cases.append(c)
    # 6. one bit past an exactly-sized source / destination ending on a byte boundary
    for db in range(8):
        for sb in range(8):
            k = rng.randrange(1, 6)
            cases.append(Case(content(rng, k + 1, 0), db, content(rng, k, 0), sb, 8 * k - sb + 1, "src+1bit"))
            cases.append(Case(content(rng, k, 0), db, content(rng, k + 1, 0), sb, 8 * k - db + 1, "dst+1bit"))
    rng.shuffle(cases)      # spread the long copies over the shards
    return cases


NOTRUN = "NOTRUN"


def c_env():
    env = dict(os.environ)
    # symbolize=0: the fault label is all we need, and symbolizing a report can take seconds under load
    env["ASAN_OPTIONS"] = "detect_leaks=1:abort_on_error=0:exitcode=99:allocator_may_return_null=1:symbolize=0"
    env["UBSAN_OPTIONS"] = "print_stacktrace=0:halt_on_error=1:symbolize=0"
    return env


def run_forked(variant, lines, shards=None):
    """`c` lines (forked child per case) sharded, with the environment above"""
    return vlib._run_sharded([os.path.join(vlib.BUILD, variant, "jlsrun"), "bits"], lines, shards or vlib.NPROC, 1800, c_env())


def run_inproc(variant, cases, shards=None, max_faults=6):
    """run `n` lines (no forked child) sharded; when a process dies or hangs on a line, that line alone is
    re-run as a forked `c` line to get its FAULT label and the shard continues after it; after max_faults
    faults in a shard its remaining lines are reported NOTRUN (an implementation that faults everywhere
    is already reported; this bounds the time)."""
    import subprocess, threading
    shards = shards or vlib.NPROC
    env = c_env()
    exe = [os.path.join(vlib.BUILD, variant, "jlsrun"), "bits"]
    out = [NOTRUN] * len(cases)
    size = max(1, (len(cases) + shards - 1) // shards)

    def work(lo, hi):
        pos, faults = lo, 0
        while pos < hi and faults < max_faults:
            try:
                r = subprocess.run(exe, input="\n".join(c.line(fork=False) for c in cases[pos:hi]) + "\n",
                                   capture_output=True, text=True, env=env, timeout=600, errors="replace")
                got = r.stdout.splitlines()
            except subprocess.TimeoutExpired as e:
                got = (e.stdout or b"").decode(errors="replace").splitlines() if isinstance(e.stdout, bytes) else (e.stdout or "").splitlines()
            got = got[:hi - pos]
            for k, g in enumerate(got):
                out[pos + k] = g
            pos += len(got)
            if pos < hi:            # the process ended on cases[pos]: get its label from a forked run
                faults += 1
                try:
                    r = subprocess.run(exe, input=cases[pos].line(fork=True) + "\n", capture_output=True, text=True, env=env, timeout=60, errors="replace")
                    lab = (r.stdout.splitlines() or ["PROCFAIL rc=%s" % r.returncode])[0]
                except subprocess.TimeoutExpired:
                    lab = "FAULT TIMEOUT"
                out[pos] = lab
                pos += 1

    th = [threading.Thread(target=work, args=(lo, min(lo + size, len(cases)))) for lo in range(0, len(cases), size)]
    [t.start() for t in th]
    [t.join() for t in th]
    return out


def run_bits(ctx, build=True):
    if build:
        vlib.build(ctx, PROP_FILES, variants=("plain", "asan"))
    B = vlib.BUILD
    # constants of the block model
    cm = vlib.run_model("bits", ["consts"], shards=1)
    cc = vlib.run_c("asan", "bits", ["consts"], shards=1)
    ctx.count(("bits", "consts"), nontrivial=True)
    if cm != cc or not cc or not cc[0].startswith("fill_bytes="):
        ctx.violation("bits_consts.txt", "model: %s\nimplementation: %s\nreplay: echo consts | %s/asan/jlsrun bits ; echo consts | %s/jlsmodel bits\n" % (cm, cc, B, B),
                      "constants of the block model (sizeof buffer_u64, NAN bytes) differ from the implementation's")
    cases = gen_cases(ctx)
    lines = [c.line() for c in cases]
    model = vlib.run_model("bits", lines)
    # the loop-only model is quadratic in the list model: long copies are compared on the fast model only
    slow_idx = [i for i, c in enumerate(cases) if c.cnt <= 8000]
    slow = [None] * len(cases)
    for i, r in zip(slow_idx, vlib.run_model("bits", [lines[i] for i in slow_idx], args=["slow"])):
        slow[i] = r
    # ASan build: fork under ASan costs ~50 ms, so cases predicted in bounds run in-process (run_inproc)
    inb_idx = [i for i, c in enumerate(cases) if c.inb]
    oob_idx = [i for i, c in enumerate(cases) if not c.inb]
    asan = [None] * len(cases)
    for i, r in zip(inb_idx, run_inproc("asan", [cases[i] for i in inb_idx])):
        asan[i] = r
    for i, r in zip(oob_idx, run_forked("asan", [lines[i] for i in oob_idx])):
        asan[i] = r
    plain_sub = run_inproc("plain", [cases[i] for i in inb_idx])
    plain = {i: r for i, r in zip(inb_idx, plain_sub)}
    stats = {"by_tag": {}, "in_bounds": 0, "oob": 0, "fast_path": 0, "viol": {}}
    keys = set()
    nviol = 0

    def viol(kind, c, line, detail):
        nonlocal nviol
        stats["viol"][kind] = stats["viol"].get(kind, 0) + 1
        nviol += 1
        if stats["viol"][kind] <= 3:
            ctx.violation("bits_%s_%d.txt" % (kind, stats["viol"][kind]),
                          "%s\ncase (%s): dst_bit=%d src_bit=%d bit_count=%d dst=%d bytes src=%d bytes\nline=%s\n%s\n"
                          "replay: echo '%s' | ASAN_OPTIONS=exitcode=99:symbolize=0 %s/asan/jlsrun bits ; echo '%s' | %s/jlsmodel bits\n"
                          % (kind, c.tag, c.db, c.sb, c.cnt, len(c.dst), len(c.src), line, detail, line, B, line, B),
                          "jls_bit_copy %s: dst_bit=%d src_bit=%d count=%d (%s)" % (kind, c.db, c.sb, c.cnt, c.tag))

    for i, (c, line, m, s, a) in enumerate(zip(cases, lines, model, slow, asan)):
        stats["by_tag"][c.tag] = stats["by_tag"].get(c.tag, 0) + 1
        k = c.key()
        keys.add(k)
        fast = (c.db % 8 == 0 and c.sb % 8 == 0 and c.cnt >= 8)
        stats["fast_path"] += fast
        ctx.count(("bits", "asan") + k + (fast, c.inb), nontrivial=c.cnt > 0,
                  sample={"line": line[:120], "implementation": a[:80], "model": m[:80]} if (i % 2500 == 17) else None)
        if a == NOTRUN:
            stats["notrun"] = stats.get("notrun", 0) + 1
            continue
        if c.inb:
            stats["in_bounds"] += 1
            want = hx(splice(c.dst, c.db, c.src, c.sb, c.cnt))
            # the property's statement on the implementation's output (both builds)
            if a != want:
                viol("spec_asan", c, line, "implementation(asan)=%s\nrequired (bits outside the range untouched, inside = source bits)=%s" % (a, want))
            p = plain.get(i)
            ctx.count(("bits", "plain") + k + (fast,), nontrivial=c.cnt > 0)
            if p != want and p != NOTRUN:
                viol("spec_plain", c, line, "implementation(plain)=%s\nrequired=%s" % (p, want))
            if m != want:
                viol("model_spec", c, line, "model=%s\nrequired=%s" % (m, want))
        else:
            stats["oob"] += 1
        if m != a:
            viol("model_vs_impl", c, line, "implementation(asan)=%s\nmodel=%s" % (a, m))
        if c.inb and s is not None and s != m:
            viol("slow_vs_fast", c, line, "bc_bit_copy_slow=%s\nbc_bit_copy=%s" % (s, m))
    d = ctx.extra.setdefault("distribution", {})
    d["bits"] = {"cases": len(cases), "by_generator": stats["by_tag"], "in_bounds": stats["in_bounds"], "out_of_bounds(model OOB, ASan must fault)": stats["oob"],
                 "memcpy_fast_path_taken": stats["fast_path"], "not_run_after_repeated_faults": stats.get("notrun", 0), "distinct (dst_bit mod 8, src_bit mod 8, count class)": len(keys),
                 "count_classes": sorted({k[2] for k in keys}), "violations_by_kind": stats["viol"]}
    rule = ("bits: case = (dst bytes, dst_bit, src bytes, src_bit, bit_count) for jls_bit_copy on exactly-sized malloc'ed buffers; full grid dst_bit 0..15 x "
            "src_bit 0..15 x count 0..40, all-0/all-1 contents, slack bytes, sample-shaped offsets (entry_count*w, ffwd*w for the 7 widths), long copies up to %d bits, "
            "buffers 1-2 bytes too short and copies one bit past the end (model OOB <-> ASan fault); distinct = (build, dst_bit mod 8, src_bit mod 8, count class, "
            "fast path taken, in bounds); non-trivial = count > 0; every in-bounds result is also compared with the bit-splice statement computed independently"
            % (6000 if ctx.tier == "quick" else 30000))
    ctx.cov["rule"] = (ctx.cov.get("rule", "") + " | " if ctx.cov.get("rule") else "") + rule
    return nviol


TRUSTED_EXTRA = ["memcpy on disjoint buffers = list splice (bc_memcpy); malloc'ed buffers in the harness are disjoint",
                 "the block-level model FsrPackModel (wr_data_inner / jls_wr_fsr_data / jls_core_fsr loop) is tied to the C by the file-level C01/C09 programs, not by this slice"]
NOTE = ("bits slice: theorems quantify over all buffers, offsets, counts, call lists (gaps, overlaps), block sizes and windows; "
        "correspondence ties the jls_bit_copy binary to BitCopyModel.bc_bit_copy")


def run(ctx):
    run_bits(ctx)
    if ctx.tier == "thorough":
        vlib.coqchk(ctx, [f[:-2] for f in PROP_FILES])
    return vlib.finish(ctx, "proof", "make -C /verif/coq -f Makefile.coq Properties_C01_bits.vo && coqc -Q . JLS Properties_C01_bits.v (Print Assumptions)",
                       trusted_extra=TRUSTED_EXTRA, note=NOTE)


def replay(ctx, path):
    print(open(path).read())
    return 0


if __name__ == "__main__":
    import argparse
    ap = argparse.ArgumentParser()
    ap.add_argument("--tier", default=os.environ.get("VERIF_TIER", "quick"), choices=["quick", "thorough"])
    a = ap.parse_args()
    ctx = vlib.Ctx("C01", a.tier, int(os.environ.get("VERIF_SEED", "1")))
    ctx.prop = "C01_bits"       # evidence/C01_bits.json, replays/C01_bits/
    ctx.known = []
    os.makedirs(os.path.join(vlib.VERIF, "replays", ctx.prop), exist_ok=True)
    try:
        rc = run(ctx)
    finally:
        ctx.cleanup()
    sys.exit(rc)
