"""C13, slice `defs`: byte codecs of the definition payloads and the definition tables.

Proof: coq/Properties_C13.v (string / source / signal payload round trips for all byte strings and field
values, refinement of Spec.wstep by the table model for all programs, identity rules, user data).
Correspondence (kind `defs`, harness/jlsrun_k_defs.h vs ocaml/drv_defs.ml):
  S  jls_buf_wr_str + jls_buf_rd_str          vs df_enc_str / df_rd_str
  D  jls_buf_rd_str/u8/u16/u32/skip on arbitrary bytes (with the byte stored after the payload)
                                               vs df_rd_*
  P  programs through the public writer into a file; the file's SOURCE_DEF / SIGNAL_DEF / USER_DATA /
     track DEF+HEAD chunks (parsed by the harness itself), then jls_rd_open, jls_rd_sources,
     jls_rd_signals, jls_rd_signal, jls_rd_user_data
                                               vs df_run / dfw_log / df_scan / df_rd_*
plus the property's own statement evaluated on the implementation's P output in python (no model involved).

run_defs(ctx) is meant to be called from tools/props/C13.py; stand-alone:
  JLS_BUILD=/verif/build_defs JLS_DRV=drv_defs.ml JLS_EXTRACT=/verif/coq/Extract_defs.v \\
  JLS_KINDS="/verif/harness/jlsrun_k_prog.h /verif/harness/jlsrun_k_defs.h" python3 tools/props/C13_defs.py --tier quick
(jlsrun_k_prog.h carries the --wrap shims every jlsrun binary is linked against.)"""
import os, sys
sys.path.insert(0, os.path.dirname(os.path.dirname(os.path.abspath(__file__))))
import vlib

PROP_FILES = ["Properties_C13.v"]
BIG = 1 << 20
M64 = (1 << 64) - 1
DT = {"i4": 1025, "i8": 2049, "i16": 4097, "i24": 6145, "i32": 8193, "i64": 16385,
      "u1": 259, "u4": 1027, "u8": 2051, "u16": 4099, "u24": 6147, "u32": 8195, "u64": 16387,
      "f32": 8196, "f64": 16388}
E_PARAM, E_NOT_FOUND, E_EXISTS, E_TOO_BIG, E_NOT_SUPPORTED = 5, 16, 17, 15, 3


# ---------------------------------------------------------------- mirrors of the harness helpers
def mix64(x):
    x = (x + 0x9E3779B97F4A7C15) & M64
    x = ((x ^ (x >> 30)) * 0xBF58476D1CE4E5B9) & M64
    x = ((x ^ (x >> 27)) * 0x94D049BB133111EB) & M64
    return x ^ (x >> 31)


def fnv64(b):
    h = 0xcbf29ce484222325
    for c in b:
        h = ((h ^ c) * 0x100000001b3) & M64
    return h


_gen_cache = {}


def gen(spec):
    """bytes of a string/payload spec, None for NULL"""
    if spec[0] == "-":
        return None
    if spec[0] == "e":
        return b""
    if spec[0] in "gp":
        if spec in _gen_cache:
            return _gen_cache[spec]
        n, seed = spec[1:].split(".")
        n, seed = int(n), int(seed)
        base = (seed * 7919) & M64
        if spec[0] == "p":
            b = bytes([33 + ((mix64((base + i) & M64) >> 13) % 94) for i in range(n)])
        else:
            b = bytes([1 + ((mix64((base + i) & M64) >> 13) % 255) for i in range(n)])
        if n > 1000:
            if len(_gen_cache) > 64:
                _gen_cache.clear()
            _gen_cache[spec] = b
        return b
    if spec[0] == "x":
        return bytes.fromhex(spec[1:])
    return None


def cstr(b):
    """what a C caller's string is: the bytes before the first NUL"""
    i = b.find(b"\0")
    return b if i < 0 else b[:i]


_pb_cache = {}


def pb(b):
    if b is None:
        return "~"
    if len(b) > 1000:
        k = (len(b), b[:64], b[-64:], hash(b))
        if k not in _pb_cache:
            if len(_pb_cache) > 256:
                _pb_cache.clear()
            _pb_cache[k] = "%d.%x" % (len(b), fnv64(b))
        return _pb_cache[k]
    return "%d.%x" % (len(b), fnv64(b))


# ---------------------------------------------------------------- generators
def rnd_str(rng, tier, big=False):
    r = rng.random()
    if r < 0.10:
        return "-"
    if r < 0.20:
        return "e"
    if r < 0.32:
        return "x" + rng.choice(["41", "1f", "411f", "1f1f", "411f1f", "1f41", "c2b5cea9c2b0e28692", "e282ac", "ff", "7f80", "411f42",
                                 "41001f42", "410042", "1f001f"])
    if r < 0.40:
        return "p%d.%d" % (rng.randrange(1, 40), rng.randrange(1, 10**6))
    if big:
        return "g%d.%d" % (rng.choice([BIG - 3, BIG - 2, BIG - 1, BIG, BIG + 1, 3 * BIG + 5] if tier != "quick" else [BIG - 2, BIG - 1]),
                           rng.randrange(1, 10**6))
    if r < 0.9:
        return "g%d.%d" % (rng.choice([1, 2, 3, 5, 24, 25, 63, 64, 65, 255, 256, 257, 1000, 4095, 4096]), rng.randrange(1, 10**6))
    return "g%d.%d" % (rng.randrange(1, 70001), rng.randrange(1, 10**6))


def gen_S(ctx):
    rng = ctx.rng
    lines = []
    rests = ["e", "x1f", "x001f", "x1f1f00", "x00", "g5.3", "x41"]
    fixed = ["-", "e", "x41", "x1f", "x411f", "x1f1f", "x411f1f", "x1f41", "xc2b5cea9c2b0", "xff", "x41001f42", "x410042", "x00", "x001f", "x1f00"]
    for s in fixed:
        for r in rests:
            lines.append("S %s %s" % (s, r))
    for n in range(1, 71):
        lines.append("S g%d.%d %s" % (n, rng.randrange(1, 10**6), rng.choice(rests)))
    for n in (255, 256, 257, 4095, 4096, 4097, 65535, 65536, 65537, 70000):
        lines.append("S g%d.%d %s" % (n, rng.randrange(1, 10**6), rng.choice(rests)))
    for _ in range(60 if ctx.tier == "quick" else 600):
        lines.append("S g%d.%d %s" % (rng.randrange(1, 70001), rng.randrange(1, 10**6), rng.choice(rests)))
    bigs = [BIG - 2, BIG - 1] if ctx.tier == "quick" else [BIG - 70, BIG - 3, BIG - 2, BIG - 1, BIG, BIG + 1, 2 * BIG, 3 * BIG + 5]
    for n in bigs:
        lines.append("S g%d.%d %s" % (n, rng.randrange(1, 10**6), rng.choice(["e", "x1f41"])))
    return lines


def gen_D(ctx):
    rng = ctx.rng
    lines = []
    alpha = ["00", "1f", "41", "ff"]
    maxlen = 5 if ctx.tier == "quick" else 6
    # every byte string over {00, 1f, 41, ff} up to maxlen, three values of the byte after the payload
    cur = [""]
    allb = [""]
    for _ in range(maxlen):
        cur = [c + a for c in cur for a in alpha]
        allb += cur
    for h in allb:
        for j in ("0", "1f", "41"):
            lines.append("D %s %s s,s,s" % (j, h or "-"))
    ops_pool = ["1", "2", "4", "k0", "k1", "k3", "k64", "s"]
    for _ in range(400 if ctx.tier == "quick" else 4000):
        n = rng.randrange(0, 14)
        h = "".join(rng.choice(["00", "1f", "41", "ff", "%02x" % rng.randrange(256)]) for _ in range(n))
        ops = ",".join(rng.choice(ops_pool) for _ in range(rng.randrange(1, 6)))
        lines.append("D %s %s %s" % (rng.choice(["0", "1f", "7"]), h or "-", ops))
    # shapes of the definition payloads, cut short at every length (EMPTY at every field)
    src = bytes(64) + b"ab\0\x1f" + b"\0\x1f" * 3 + b"z\0\x1f"
    sig = bytes([7, 0, 0, 0]) + (8196).to_bytes(4, "little") + b"".join(v.to_bytes(4, "little") for v in (1000, 8192, 128, 640, 20, 100, 100)) + bytes(92) + b"n\0\x1fV\0\x1f"
    for k in list(range(60, len(src) + 1)):
        lines.append("D %s %s k64,s,s,s,s,s" % (rng.choice(["0", "1f"]), src[:k].hex() or "-"))
    for k in list(range(0, 40)) + list(range(120, len(sig) + 1)):
        lines.append("D %s %s 2,1,k1,4,4,4,4,4,4,4,4,k92,s,s" % (rng.choice(["0", "1f"]), sig[:k].hex() or "-"))
    return lines


def gen_P(ctx):
    rng, tier = ctx.rng, ctx.tier
    ncase = 220 if tier == "quick" else 2200
    out = []
    for ci in range(ncase):
        pending, dist = [], set()
        big_budget = [1 if (tier != "quick" and rng.random() < 0.04) or (tier == "quick" and ci < 2) else 0]

        def s():
            b = big_budget[0] > 0 and rng.random() < 0.3
            if b:
                big_budget[0] -= 1
                dist.add("bigstr")
            return rnd_str(rng, tier, big=b)
        src_ids = []
        for _ in range(rng.randrange(0, 6)):
            sid = rng.choice([1, 2, 3, 7, 100, 254, 255, 255, 256, 300, 65535, 0])
            pending.append("src %d %s %s %s %s %s" % (sid, s(), s(), s(), s(), s()))
            if 0 < sid < 256:
                src_ids.append(sid)
            if rng.random() < 0.25:
                pending.append("src %d e p3.1 - e e" % sid)
                dist.add("dup_src")
        sig_ids = []
        for _ in range(rng.randrange(0, 6)):
            gid = rng.choice([1, 2, 3, 9, 254, 255, 255, 256, 1000, 0])
            src = rng.choice(src_ids + [0, 0]) if rng.random() < 0.75 else rng.choice([4, 99, 256, 300, 65535])
            dt = rng.choice(list(DT.keys()))
            stype = rng.choice([0, 0, 0, 1, 2, 255])
            rate = rng.choice([1000, 1, 2000000, 0]) if stype == 0 else rng.choice([0, 0, 50])
            if rng.random() < 0.5:
                spd, sdf, eps, sumdf = 0, 0, 0, 0
            else:
                spd, sdf, eps, sumdf = [rng.choice([0, 1, 9, 10, 11, 100, 1000, 1024, 4096]) for _ in range(4)]
                if rng.random() < 0.06:
                    eps = rng.choice([100000000, 67108880, 4000000000, 4294967295])     # summary buffer beyond 2^31 bytes / rounding beyond 2^32: refused
                    dist.add("oversize_sig")
            adf, udf = rng.choice([0, 10, 100, 7]), rng.choice([0, 10, 100, 7])
            dtv = DT[dt] if rng.random() < 0.9 else rng.choice([0, 5, 8197, 0x10000 | DT["f32"], 0x30000 | DT["i16"], 0x80000 | DT["u8"]])
            pending.append("sig %d %d %d %d %d %d %d %d %d %d %d %s %s" % (gid, src, stype, dtv, rate, spd, sdf, eps, sumdf, adf, udf, s(), s()))
            sig_ids.append(gid)
            if rng.random() < 0.2:
                pending.append("sig %d %d 0 %d 1000 0 0 0 0 0 0 e e" % (gid, src if src < 256 else 0, DT["f32"]))
                dist.add("dup_sig")
        for _ in range(rng.randrange(0, 7)):
            st = rng.choice([1, 1, 1, 2, 3, 0, 0, 4, 9])
            if st == 0:
                dist.add("ud_placeholder")
            meta = rng.choice([0, 1, 0x123, 0xfff, 0x1000, 0x1fff, 0xffff])
            r = rng.random()
            if st in (2, 3):
                pay = rng.choice(["e", "p7.7", "x41", "x1f", "x410042", "g300.%d" % rng.randrange(1, 999), "p4000.2"])
            elif r < 0.1:
                pay = "-"
            elif r < 0.2:
                pay = "e"
            elif r < 0.97 or tier == "quick":
                pay = "g%d.%d" % (rng.choice([1, 7, 8, 9, 100, 4000, 65536]), rng.randrange(1, 10**6))
            else:
                pay = "g%d.%d" % (rng.choice([BIG - 13, BIG - 12, BIG - 4, BIG - 3, BIG, BIG + 8]), rng.randrange(1, 10**6))
                dist.add("bigud")
            pending.append("ud %d %d %s" % (meta, st, pay))
        if rng.random() < 0.05:
            pending.append("ud %d %d -" % (rng.choice([1, 0xfff]), rng.choice([2, 3])))          # NULL string: refused
            dist.add("ud_null_string")
        for _ in range(rng.randrange(0, 6)):
            gid = rng.choice(sig_ids + [0, 4, 77, 255, 256, 40000])
            k = rng.random()
            if k < 0.35:
                pending.append("fsr %d" % gid)
            elif k < 0.6:
                pending.append("anno %d %d %d" % (gid, rng.choice([0, 1, 2, 255, 256]), rng.choice([1, 2, 3, 0, 4, 256])))
            elif k < 0.8:
                pending.append("utc %d" % gid)
            else:
                pending.append("omit %d" % gid)
            dist.add("data")
        rng.shuffle(pending)
        qs = ["q %d" % g for g in (sig_ids[:3] + [4, 300, 0])]
        out.append(("P " + ";".join(pending + qs), sorted(dist) or ["plain"]))
    fixed = []
    # fixed cases: the recorded defect classes and boundaries
    fixed.append(("P ud 1 1 x07;ud 1 0 e;ud 2 1 x05", ["ud_placeholder"]))
    fixed.append(("P ud 9 0 g100.3;ud 65535 0 -;ud 3 2 p5.1;ud 4 0 e;ud 5 0 e;ud 6 3 e", ["ud_placeholder"]))
    fixed.append(("P src 3 g%d.1 e e e e;src 4 g%d.1 e e e e;src 4 e e e e g%d.2" % (BIG - 2, BIG - 1, BIG - 2), ["bigstr"]))
    fixed.append(("P sig 1 0 0 8196 1000 0 0 0 0 0 0 g%d.1 -;sig 1 0 0 8196 1000 0 0 0 0 0 0 g%d.1 -;fsr 1;q 1" % (BIG - 1, BIG - 2), ["bigstr"]))
    fixed.append(("P ud 1 2 -;ud 2 3 -;ud 3 1 -;ud 4 0 -", ["ud_null_string"]))
    fixed.append(("P sig 1 0 0 8196 1000 0 0 100000000 0 0 0 e e;fsr 1;sig 1 0 0 8196 1000 0 0 0 0 0 0 p3.1 e;fsr 1;q 1", ["oversize_sig"]))
    fixed.append(("P sig 1 0 0 8196 1000 4294967295 1024 0 0 0 0 e e;sig 2 0 0 2051 1000 0 4294967295 0 0 0 0 e e;sig 3 0 0 6145 1000 0 0 0 0 3 3 e e;q 1;q 2;q 3", ["oversize_sig"]))
    return fixed + out


# ---------------------------------------------------------------- the property evaluated on the implementation's output
def oracle_P(script, impl):
    """returns list of (signature or None, text) of property violations visible in one P result line"""
    bad = []
    if impl.startswith("FAULT") or impl.startswith("PROCFAIL"):
        return bad            # judged by the comparison with the model (which predicts faults)
    parts = [p.strip() for p in impl.split("|")]
    sec = {}
    for p in parts:
        t = p.split()
        if t:
            sec[t[0]] = t[1:]
    ops = [o for o in script[2:].split(";") if o.strip()]
    rcs = sec.get("rcs", [])
    if len(rcs) != len(ops):
        return [(None, "result count %d for %d ops" % (len(rcs), len(ops)))]
    srcs = {0: ("global_annotation_source", "jls", "-", "1.0.0", "-")}
    srcs = {0: tuple(x.encode() for x in srcs[0])}
    sigs = {0: None}
    uds = []
    nud_chunks = 0
    for op, rc in zip(ops, rcs):
        t = op.split()
        if t[0] == "q":
            continue
        ok = rc == "0"
        if t[0] == "src":
            sid = int(t[1])
            strs = [gen(x) for x in t[2:7]]
            if ok:
                if sid >= 256 or sid in srcs:
                    bad.append((None, "source %d accepted although %s" % (sid, "id >= 256" if sid >= 256 else "already defined")))
                srcs[sid] = tuple(b"" if b is None else cstr(b) for b in strs)
            elif sid < 256 and sid not in srcs and all(b is None or len(cstr(b)) + 1 <= BIG - 1 for b in strs):
                bad.append((None, "valid source %d rejected rc=%s" % (sid, rc)))
        elif t[0] == "sig":
            gid, src, ty, dt, rate = [int(x) for x in t[1:6]]
            if ok:
                why = None
                if gid >= 256: why = "id >= 256"
                elif gid in sigs: why = "already defined"
                elif src not in srcs: why = "source %d undefined" % src
                if why:
                    bad.append((None, "signal %d accepted although %s" % (gid, why)))
                sigs[gid] = dict(src=src, ty=ty, dt=dt, rate=0 if ty == 1 else rate,
                                 name=b"" if gen(t[12]) is None else cstr(gen(t[12])), units=b"" if gen(t[13]) is None else cstr(gen(t[13])))
        elif t[0] == "ud":
            meta, st = int(t[1]), int(t[2])
            if ok:
                b = gen(t[3])
                nud_chunks += 1
                if st == 1:
                    uds.append((meta & 0xfff, st, b or b""))
                elif st in (2, 3):
                    uds.append((meta & 0xfff, st, cstr(b) + b"\0"))
                # st == 0: an accepted placeholder chunk, not an item
        elif t[0] in ("fsr", "utc", "omit", "anno"):
            gid = int(t[1])
            if ok and gid not in sigs:
                bad.append((None, "%s accepted for undefined signal %d" % (t[0], gid)))
    # the log: exactly one definition chunk per accepted definition, nothing for rejected ones
    log = sec.get("log", [])
    lsrc = [e for e in log if e.startswith("1:")]
    lsig = [e for e in log if e.startswith("2:")]
    lud = [e for e in log if e.startswith("64:")]
    if len(lsrc) != len(srcs) or len(lsig) != len(sigs) or len(lud) != nud_chunks + 1:
        bad.append((None, "definition log has %d/%d/%d source/signal/user-data chunks for %d/%d/%d accepted (+ reserved)" % (
            len(lsrc), len(lsig), len(lud), len(srcs), len(sigs), nud_chunks)))
    if sec.get("open") != ["0"]:
        bad.append((None, "jls_rd_open failed: %s" % sec.get("open")))
        return bad
    # sources in id order with their strings
    want = " ".join("%d,%s" % (i, ",".join(pb(x) for x in srcs[i])) for i in sorted(srcs))
    if " ".join(sec.get("src", [])) != want:
        bad.append((None, "sources read back differ: got [%s] want [%s]" % (" ".join(sec.get("src", []))[:300], want[:300])))
    got_sig = sec.get("sig", [])
    ids = [int(x.split(",")[0]) for x in got_sig]
    if ids != sorted(sigs):
        bad.append((None, "signal ids read back %s, accepted %s" % (ids, sorted(sigs))))
    else:
        for x in got_sig:
            f = x.split(",")
            gid = int(f[0])
            d = sigs[gid]
            if d is None:
                continue
            if [int(f[1]), int(f[2]), int(f[3]), int(f[4])] != [d["src"], d["ty"], d["dt"], d["rate"]] or f[11] != pb(d["name"]) or f[12] != pb(d["units"]):
                bad.append((None, "signal %d read back as %s" % (gid, x)))
    # user data: all accepted items, in order
    got = sec.get("ud", [])
    want_ud = ["%d,%d,%s" % (m, st, pb(data)) for (m, st, data) in uds] + ["0"]
    if got != want_ud:
        bad.append((None, "user data read back [%s], written [%s]" % (" ".join(got)[:300], " ".join(want_ud)[:300])))
    return bad


# ---------------------------------------------------------------- run
def model_cmd():
    exe = os.path.join(vlib.BUILD, "jlsmodel")
    # the extracted list functions are not tail recursive: 1 MiB strings need a deep stack
    return ["bash", "-c", "ulimit -s unlimited 2>/dev/null || ulimit -s 4000000 2>/dev/null; exec %s defs" % exe]


def norm(l):
    return "FAULT" if l.startswith("FAULT") else l


def run_defs(ctx, build=True, variants=("asan", "plain")):
    if build:
        vlib.build(ctx, PROP_FILES, variants=variants)
    S, D, P = gen_S(ctx), gen_D(ctx), gen_P(ctx)
    lines = S + D + [p for p, _ in P]
    dist = {"S_lines": len(S), "D_lines": len(D), "P_lines": len(P)}
    for _, tags in P:
        for t in tags:
            dist["P:" + t] = dist.get("P:" + t, 0) + 1
    model = vlib._run_sharded(model_cmd(), lines, vlib.NPROC, 3000)
    nbad = {"cmp": 0, "prop": 0}
    seen_sig = set()
    stats = {"agree": 0, "disagree": 0, "model_predicted_faults": 0, "oracle_checked": 0, "oracle_violations": 0}
    for variant in variants:
        impl = vlib.run_c(variant, "defs", lines, args=["30"], timeout=3000)
        for l, m, c in zip(lines, model, impl):
            key = (variant, l if len(l) < 200 else (l[:120], len(l), hash(l)))
            ctx.count(key, nontrivial=(l[0] != "S" or not l.startswith("S - ")),
                      sample={"build": variant, "case": l[:160], "implementation": c[:200]} if variant == "asan" and l[0] == "P" else None)
            if norm(c) == norm(m):
                stats["agree"] += 1
                if m == "FAULT":
                    stats["model_predicted_faults"] += 1
            else:
                stats["disagree"] += 1
                nbad["cmp"] += 1
                if nbad["cmp"] <= 4:
                    ctx.violation("defs_cmp_%s_%d.txt" % (variant, nbad["cmp"]),
                                  "build=%s\nline=%s\nimplementation=%s\nmodel=%s\nreplay: echo '%s' | %s/%s/jlsrun defs\n" % (
                                      variant, l, c, m, l if len(l) < 3000 else l[:3000] + "...", vlib.BUILD, variant),
                                  "model and implementation differ (%s build): %s" % (variant, l[:100]))
            if l[0] == "P":
                stats["oracle_checked"] += 1
                for sig, what in oracle_P(l, c):
                    stats["oracle_violations"] += 1
                    if sig is not None:
                        if sig in seen_sig:
                            continue              # one replay per recorded defect class
                        seen_sig.add(sig)
                    else:
                        nbad["prop"] += 1
                        if nbad["prop"] > 6:
                            continue
                    name = "defs_prop_%s.txt" % (sig or ("%s_%d" % (variant, nbad["prop"])))
                    ctx.violation(name, "property C13 violated by the implementation (%s build)\n%s\nline=%s\nimplementation=%s\n"
                                  "replay: echo '%s' | %s/%s/jlsrun defs\n" % (variant, what, l, c, l if len(l) < 3000 else l[:3000] + "...", vlib.BUILD, variant),
                                  "C13: " + what[:160], sig=sig)
    dist.update(stats)
    ctx.extra["distribution_defs"] = dist
    ctx.cov["rule"] = (ctx.cov.get("rule", "") + " | defs slice: S = string (NULL, empty, ASCII, UTF-8, 0x1f inside/at the end, NUL inside, every length 1..70, "
                       "block and 64 KiB boundaries, random 1..70000, 2^20-2 / 2^20-1 around the string block) x following bytes; D = every byte string over "
                       "{00,1f,41,ff} up to length 5 (6 thorough) x byte after the payload {00,1f,41} read as three strings, random op sequences over "
                       "rd_u8/u16/u32/skip/str, source/signal payload shapes truncated at every length; P = programs of 0..5 sources (ids 0,1..255,256,300,65535, duplicates), "
                       "0..5 signals (all 15 types + invalid codes, FSR/VSR/invalid, undefined sources, duplicates), user data (types 0..3 and invalid, tags beyond 12 bits, "
                       "placeholders of type 0 between items, NULL/empty/binary/string payloads), fsr/annotation/utc/omit calls on defined and undefined ids, all shuffled; compared: return codes, the "
                       "file's definition chunks (tag, meta, payload bytes), sources, signals, single-signal queries, user data; the property itself is "
                       "re-evaluated on the implementation's output in python; distinct = (build, line)").strip(" |")
    return stats


def run(ctx):
    run_defs(ctx)
    if ctx.tier == "thorough":
        vlib.coqchk(ctx, [f[:-2] for f in PROP_FILES])
    return vlib.finish(ctx, "proof", "make -C /verif/coq -f Makefile.coq Properties_C13.vo && coqc -Q . JLS Properties_C13.v (Print Assumptions)",
                       trusted_extra=["jls_core_signal_def_align is taken as Spec.sp_align (no uint32 wrap-around; C16 relates the two)",
                                      "the definition log abstracts chunk links/offsets/CRCs (C05/C14); the harness parses the file's chunks itself"],
                       note="defs slice of C13: codecs and tables; theorems quantify over all byte strings, ids, call orders and user data")


def replay(ctx, path):
    txt = open(path).read()
    print(txt)
    line = None
    for l in txt.splitlines():
        if l.startswith("line="):
            line = l[5:]
    if line is None:
        return 0
    vlib.build(ctx, PROP_FILES, variants=("asan", "plain"))
    for variant in ("asan", "plain"):
        print("implementation(%s):" % variant, vlib.run_c(variant, "defs", [line], args=["30"], shards=1))
    print("model:", vlib._run_sharded(model_cmd(), [line], 1, 600))
    return 1


if __name__ == "__main__":
    import argparse
    ap = argparse.ArgumentParser()
    ap.add_argument("--tier", default=os.environ.get("VERIF_TIER", "quick"), choices=["quick", "thorough"])
    ap.add_argument("--replay", default=None)
    a = ap.parse_args()
    ctx = vlib.Ctx("C13", a.tier, int(os.environ.get("VERIF_SEED", "1")))
    ctx.prop = "C13_defs"                      # separate evidence / replay directory for the stand-alone run
    os.makedirs(os.path.join(vlib.VERIF, "replays", ctx.prop), exist_ok=True)
    try:
        rc = replay(ctx, a.replay) if a.replay else run(ctx)
    finally:
        ctx.cleanup()
    sys.exit(rc)
