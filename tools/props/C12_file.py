"""C12 (file half): UTC entries round-trip; iteration from a sample id delivers exactly the pairs at or after it."""
import vlib, proglib


def gen_case(rng, tier):
    # (decimations above 2000 with more entries than that: one level-1 UTC summary chunk then carries more entries than the reader's
    #  time map holds initially, so the map has to grow more than once while ONE chunk is added)
    udf = rng.choice([10, 10, 11, 13, 100, 100, 2001, 2500, 4100])
    sid = rng.choice([1, 9, 255])
    dt = rng.choice(["f32", "f64", "u8", "i16", "u1", "u4"])
    rate = rng.choice([1, 1000, 48000, 2000000, 10**9])
    ops = ["wopen", "src 1 e e e e e", proglib.sigdef_op(sid, 1, dt, rate=rate, adf=10, udf=udf)]
    offset = 0
    if rng.random() < 0.7:
        offset = rng.choice([0, 5, -7, 1000000, 2**40])
        ops.append("fsr %d %d %d 1 3" % (sid, offset, rng.choice([10, 300])))
    n = rng.choice([0, 1, 2, 3, udf - 1, udf, udf + 1, 2 * udf + 1, udf * udf - 1, udf * udf, udf * udf + 1, udf * udf + udf + 3,
                    999, 1000, 1001, 2500])
    if tier == "quick":
        n = min(n, 1300)
    if udf > 2000:
        n = rng.choice([1999, 2001, 2600, 4097, udf - 1, udf, udf + 1, udf + 600])
    ids = []
    s = offset + rng.choice([0, 0, 17, -3])
    t = rng.choice([0, 2**30 * 1700000000, -2**30 * 5])
    for k in range(n):
        ids.append((s, t))
        step = rng.choice([1, 2, 10, rate, rate + 1, max(1, rate // 10), rng.randrange(1, 5000)])
        s += step
        t += rng.choice([0, 1, (2**30 * step) // rate, (2**30 * step) // rate + rng.randrange(-3, 4), 2**30])
        t = max(t, ids[-1][1])
    for (a, b) in ids:
        ops.append("utc %d %d %d" % (sid, a, b))
    ops += ["wclose", "ropen"]
    rel = [a - offset for a, _ in ids]
    seeks = [-10**12, 10**15, 0]
    if rel:
        seeks += [rel[0] - 1, rel[0], rel[0] + 1, rel[-1] - 1, rel[-1], rel[-1] + 1]
        for _ in range(10 if tier == "quick" else 40):
            j = rng.randrange(len(rel))
            seeks.append(rel[j] + rng.choice([0, 0, -1, 1]))
        for b in range(udf, len(rel), udf):
            if rng.random() < 0.4:
                seeks += [rel[b], rel[b] - 1, rel[b - 1]]
    for sk in seeks:
        ops.append("ut %d %d" % (sid, sk))
    # id -> time conversion through the READER's time map (built from the UTC summary chunks of the file): anchored at every stored
    # pair (exactly), and between two neighbouring anchors within their times (Properties_C12: tmap anchored / monotone).
    # Entries (op index, lo, hi): rc must be 0 and lo <= result <= hi.
    anchors = []
    if len(ids) >= 1:
        pick = set([0, len(ids) - 1] + [rng.randrange(len(ids)) for _ in range(12)])
        for b in (1024, 2000, 2048, 4096, udf):
            for d in (-1, 0, 1):
                if 0 <= b + d < len(ids):
                    pick.add(b + d)
        for j in sorted(pick):
            anchors.append((len(ops), ids[j][1], ids[j][1]))
            ops.append("s2t %d %d" % (sid, rel[j]))
            if j + 1 < len(ids) and rel[j + 1] - rel[j] >= 2 and rng.random() < 0.5:
                anchors.append((len(ops), ids[j][1], ids[j + 1][1]))
                ops.append("s2t %d %d" % (sid, (rel[j] + rel[j + 1]) // 2))
    ops.append("ut %d -1000000000000 %d" % (sid, rng.choice([1, 2, udf, udf + 1])))
    ops.append("rclose")
    return ";".join(ops), dict(n=n, udf=udf, offset=offset, anchors=anchors, dist=["n%d" % (0 if n == 0 else 1 if n < udf else 2 if n < udf * udf else 3)], trivial=(n == 0))
