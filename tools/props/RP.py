"""Byte-exact correspondence of REPAIR-ON-OPEN (jls_rd_open on files that were not closed properly) with its
executable model (coq/RepairRaw.v + coq/RepairModel.v `rp_open`, extracted; ocaml/drv_repair.ml, kind "repair").

    gen_programs(rng, tier, n)      -> writer programs (crashlib.writer_program and WM.gen_case)
    make_images(rng, tier, probe, per_program)  -> image recipes [(ops after `wclose` that build the image, class)]
    compare_images(ctx, cases)      -> per image: None or a text (first difference)
    run_rp(ctx, n=None)             -> assumes vlib.build was called with the kinds prog+repair in the harness and the
                                       drivers drv_wmodel.ml drv_repair.ml in the model binary; returns #violations
    stand-alone:  JLS_BUILD=/verif/build_rp JLS_EXTRACT=/verif/coq/Extract_repair.v JLS_DRV="drv_wmodel.ml drv_repair.ml"
                  JLS_KINDS="/verif/harness/jlsrun_k_prog.h /verif/harness/jlsrun_k_repair.h"
                  python3 tools/props/RP.py [nprograms] [seed] [tier] [images_per_program]      (add `build` to build first)

An image is built inside the harness from the writer's backend log (`image k j` = the first k writes complete + j
bytes of the next one) and then optionally damaged (`trunc`, `flip`, `zero`); it is saved (`save`) so that the model
reads the same bytes.  `ropenlog` (harness/jlsrun_k_repair.h) runs the real jls_rd_open with the backend log enabled.
Compared per image, for TWO consecutive opens: the return code of jls_rd_open, the complete backend log of the open
(every ftruncate, every write(2) with offset and bytes, every fsync) and the file afterwards (length + FNV-1a 64).

Genuine defect classes of the C are reported through ctx.violation(..., sig=<signature>) (see DEFECT_SIGS); a
difference between model and implementation is a violation without signature, and so are two classes that were defects of the C
until /repo 966bf8c / cf5fc54: a repair that truncates below the last complete chunk of a cut closed file, and a model fault 9
(a chunk of another kind loaded as SUMMARY/INDEX by jls_core_repair_fsr).

Model limit (reported by the reader slice): RepairRaw.rp_bk_fseek succeeds for every offset < 2^63, the real lseek fails with EINVAL
beyond the file system's s_maxbytes (ext4: offsets >= 2^44 - 4096; tmpfs accepts them).  Crash images never contain such offsets; if a
generator ever feeds CRC-valid chunks with absurd links / index entries, put the harness scratch directory on tmpfs (/dev/shm) as
tools/props/RDM.py does, or the C returns JLS_ERROR_IO where the model goes on to JLS_ERROR_EMPTY.

Exclusion (stated, as in WM.py): for 24-bit signals the payload and payload CRC of re-created FSR SUMMARY chunks are
not compared (the C summarises uninitialised memory) and the file hash is not compared for such images.
"""
import os, struct, sys

if __name__ == "__main__":
    sys.path.insert(0, os.path.dirname(os.path.dirname(os.path.abspath(__file__))))
    sys.path.insert(0, os.path.dirname(os.path.abspath(__file__)))
import vlib, proglib, crashlib
import importlib

WM = importlib.import_module("WM")

RPF = {0: "none", 1: "fuel (non-termination)", 2: "reads core->buf beyond what was initialised", 3: "SEGV in jls_core_rd_chunk_end",
       4: "payload > 1 MiB (realloc path)", 5: "writer-model fault", 6: "heap overflow of a level/sample buffer", 7: "division by zero parameters",
       8: "file shorter than 24 bytes", 9: "chunk content not representable"}
BATCH = 16
# genuine defect classes of the C (stable signatures for known_findings.json)
DEFECT_SIGS = {
    "end_inplace": "repair-end-chunk-not-at-end-of-file",           # END header written over a chunk in the middle of the file (fixed by /repo 6df24a0)
    "second_open": "repair-second-open-not-quiet",                  # the second open of a repaired file writes again / fails
    "uninit_ppl": "repair-uninitialised-payload-prev-length",       # a fresh chunk header written in place keeps stack garbage in payload_prev_length
    "cycle": "open-hangs-on-cyclic-item-next",                      # a CRC-valid chunk whose item_next points to itself / backwards: jls_rd_open never returns
    "segv": "rd-chunk-end-index-underflow",                         # jls_core_rd_chunk_end: (length - 32) / 8 underflows for a window shorter than a header
}


# ---------------------------------------------------------------- programs
def no_fsr_program(rng):
    """annotations on signal 0 (VSR) and user data only: no jls_core_repair_fsr runs, so nothing but jls_rd_open itself positions
    the raw before the END chunk is written"""
    ops = ["wopen"]
    ts = 0
    for _ in range(rng.randrange(4, 36)):
        r = rng.random()
        if r < 0.75:
            ops.append("anno 0 %d 0 1 0 2 %s" % (ts, rng.choice(["e", "g%d.%d" % (rng.randrange(1, 14), rng.randrange(1 << 20))])))
            ts += rng.choice([1, 7, 7, 50])
        else:
            ops.append("ud %d 1 g%d.%d" % (rng.randrange(1, 4000), rng.randrange(1, 9), rng.randrange(1000)))
    return ops


def gen_programs(rng, tier, n):
    """-> list of (ops list without wclose, meta); the first program has no FSR signal"""
    out = []
    for i in range(n):
        if i == 0:
            out.append((no_fsr_program(rng), dict(gen="nofsr")))
        elif rng.random() < 0.55:
            ops, sigs, has_omit = crashlib.writer_program(rng, tier)
            out.append((ops, dict(gen="C17deep", has_omit=has_omit)))
        else:
            script, meta = WM.gen_case(rng, "quick")
            ops = script.split(";")
            assert ops[-1] == "wclose"
            out.append((ops[:-1], dict(gen="WM", dist=meta.get("dist"))))
    return out


def sigs24_of(ops):
    out = set()
    for o in ops:
        t = o.split()
        if t and t[0] == "sig" and ((int(t[4], 0) >> 8) & 0xff) == 24:
            out.add(int(t[1], 0) & 0xff)
    return out


# ---------------------------------------------------------------- images
def chunk_map(entries_with_data):
    """file after the complete log + list of (offset, tag, total size) of its chunks"""
    img = bytearray()
    for kind, off, data in entries_with_data:
        if kind == "t":
            del img[off:]
        elif kind == "w":
            if len(img) < off + len(data):
                img.extend(b"\0" * (off + len(data) - len(img)))
            img[off:off + len(data)] = data
    chunks = []
    off = 32
    while off + 32 <= len(img):
        tag = img[off + 16]
        plen = struct.unpack_from("<I", img, off + 20)[0]
        pad = (8 - ((plen + 4) % 8)) % 8 if plen else 0
        tot = 32 + (plen + pad + 4 if plen else 0)
        if off + tot > len(img):
            break
        chunks.append((off, tag, tot))
        off += tot
    return bytes(img), chunks


def make_images(rng, tier, pr, per_program):
    """pr: crashlib.probe result with pr['log'] (entries with data).  -> [(recipe ops, class, (k, j))]"""
    entries = pr["entries"]
    nlog = len(entries)
    pts = crashlib.crash_points(rng, entries, tier, per_program, pr.get("tails"))
    out = []
    for (k, j, kind) in pts:
        cls = {"ctl": "clean_stop", "between": "clean_stop", "inplace": "torn_inplace", "append": "torn_append", "complete": "closed"}[kind]
        out.append((["image %d %d" % (k, j)], cls, (k, j)))
    final, chunks = pr["final"], pr["chunks"]
    flen = len(final)
    # the backward scan of jls_core_rd_chunk_end works in 1024-byte windows that overlap by 24 bytes: cut a closed file inside a long
    # chunk so that the header of the chunk before it lies at / just below the first window's lower edge
    big = [i for i in range(1, len(chunks)) if chunks[i][2] > 1100]
    if big:
        i = rng.choice(big)
        h = chunks[i - 1][0]
        for dd in (0, 8, 16, 24, -8):
            L = h + 1024 + dd
            if chunks[i][0] < L < chunks[i][0] + chunks[i][2]:
                out.append((["image %d 0" % nlog, "trunc %d" % L], "closed_truncated_window_edge", (nlog, 0)))
    extra = max(6, per_program // 4)
    for _ in range(extra):
        r = rng.random()
        if r < 0.35 and flen > 64:
            # truncated closed file: at a chunk boundary, inside a header, inside a payload, tiny
            c = rng.choice(chunks) if chunks else (32, 0, 32)
            L = rng.choice([c[0], c[0] + rng.choice([1, 8, 31]), c[0] + 32, c[0] + c[2] - rng.choice([1, 4, 5]), flen - rng.choice([1, 8, 31, 32, 33]),
                            rng.randrange(0, flen), rng.choice([0, 1, 23, 24, 31, 32, 33, 40, 63, 64])])
            L = max(0, min(flen, L))
            out.append((["image %d 0" % nlog, "trunc %d" % L], "closed_truncated", (nlog, 0)))
        elif r < 0.55:
            # corrupted tail of a closed file: a bit flip / zeroed range in one of the last chunks (or the END chunk)
            cs = chunks[-6:] if chunks else [(32, 0, 32)]
            c = rng.choice(cs)
            if rng.random() < 0.6:
                bit = (c[0] + rng.randrange(0, c[2])) * 8 + rng.randrange(8)
                out.append((["image %d 0" % nlog, "flip %d" % bit], "closed_corrupt_tail", (nlog, 0)))
            else:
                o = c[0] + rng.randrange(0, c[2])
                out.append((["image %d 0" % nlog, "zero %d %d %d" % (o, rng.choice([1, 4, 8, 32, 200]), rng.choice([0, 0, 255]))], "closed_corrupt_tail", (nlog, 0)))
        elif r < 0.85 and nlog > 8:
            # crash image with a corrupted tail chunk
            k = rng.randrange(max(1, nlog // 3), nlog)
            j = 0 if rng.random() < 0.7 else rng.choice([1, 8, 31])
            # size of the image is unknown here: damage relative to the write k-1
            e = entries[k - 1]
            base = e[1] if e[0] == 0 else 32
            ln = max(1, e[2]) if e[0] == 0 else 32
            if rng.random() < 0.6:
                bit = (base + rng.randrange(0, ln)) * 8 + rng.randrange(8)
                out.append((["image %d %d" % (k, j), "flip %d" % bit], "crash_corrupt_tail", (k, j)))
            else:
                out.append((["image %d %d" % (k, j), "zero %d %d 0" % (base + rng.randrange(0, ln), rng.choice([1, 8, 64]))], "crash_corrupt_tail", (k, j)))
        else:
            # damaged file header of a closed or crashed file
            k = nlog if rng.random() < 0.5 else rng.randrange(1, nlog + 1)
            what = rng.choice(["flip %d" % rng.randrange(0, 256), "zero 16 8 0", "zero 28 4 0", "flip %d" % (24 * 8 + rng.randrange(32))])
            out.append((["image %d 0" % k, what], "header_damaged", (k, 0)))
    return out


def probe_programs(ctx, programs):
    """crashlib.probe + the complete log with data (for chunk maps)"""
    paths = [os.path.join(ctx.tmp, "rp_probe_%d.log" % i) for i in range(len(programs))]
    scripts = [";".join(list(p) + ["wclose", "loglens", "logdump " + paths[i]]) for i, p in enumerate(programs)]
    scratch = os.path.join(ctx.tmp, "scratch_rp")
    os.makedirs(scratch, exist_ok=True)
    impl = vlib.run_c("plain", "repair", scripts, args=[scratch, "timeout=120"], timeout=3000)
    res = []
    for line, path in zip(impl, paths):
        toks = line.split(";")
        ll = [t for t in toks if t.startswith("loglens")]
        entries = []
        if ll:
            for e in ll[0].split()[2:]:
                k, off, ln = e.split(":")
                entries.append((int(k), int(off), int(ln)))
        ok = bool(ll) and "FAULT" not in line and os.path.exists(path)
        d = dict(entries=entries, ok=ok, raw=line[-200:])
        if ok:
            ed = []
            for l in open(path):
                t = l.split()
                if t[0] == "w":
                    ed.append(("w", int(t[1]), bytes.fromhex(t[2]) if len(t) > 2 else b""))
                elif t[0] == "t":
                    ed.append(("t", int(t[1]), b""))
                else:
                    ed.append(("s", 0, b""))
            d["tails"] = crashlib.tails(ed)
            d["final"], d["chunks"] = chunk_map(ed)
            os.remove(path)
        res.append(d)
    return res


# ---------------------------------------------------------------- running both sides
def _run_model(lines, timeout=6000):
    cmd = ["bash", "-c", "ulimit -s 4000000 2>/dev/null || ulimit -s unlimited 2>/dev/null; exec \"$0\" repair",
           os.path.join(vlib.BUILD, "jlsmodel")]
    return vlib._run_sharded(cmd, lines, vlib.NPROC, timeout)


def parse_model_line(m):
    """-> list of dict(rc, fault, did, len, hash, log) per open, or None"""
    if "MODELFAIL" in m or "PROCFAIL" in m or not m.startswith("rc:"):
        return None
    out = []
    for g in m.split(" || "):
        p = g.split("|")
        did = int(p[2][4:])
        d = dict(rc=int(p[0][3:]), fault=int(p[1][6:]), did=did & 1, uninit=bool(did & 2), end_inplace=bool(did & 4), len=int(p[3][4:]), hash=p[4][5:], log=WM.parse_log_lines(p[5:]))
        out.append(d)
    return out


def count_recreated(log):
    """(summary chunks, index chunks) appended by the open: 32-byte writes at the running end of file with tag FSR_SUMMARY / FSR_INDEX"""
    end = None
    ns = ni = 0
    for e in log:
        if e[0] == "t":
            end = e[1] if end is None else min(end, e[1])
        elif e[0] == "w" and end is not None:
            if e[1] == end and len(e[2]) == 32:
                if e[2][16] == 0x24:
                    ns += 1
                elif e[2][16] == 0x23:
                    ni += 1
            end = max(end, e[1] + len(e[2]))
    return ns, ni


def compare_images(ctx, cases, variant="plain"):
    """cases: list of dict(ops=<writer ops>, recipe=[ops], cls=..., point=...).  Adds to each case: diff (None or text),
    impl (list of (rc, log, len, hash) per open), model (parsed), and returns the list."""
    d = os.path.join(ctx.tmp, "rp")
    os.makedirs(d, exist_ok=True)
    scratch = os.path.join(ctx.tmp, "scratch_rp")
    os.makedirs(scratch, exist_ok=True)
    base = getattr(ctx, "rp_seq", 0)
    # group the images of one program into batches (one forked harness case each)
    batches = []
    cur = None
    for i, c in enumerate(cases):
        c["id"] = base + i
        c["img"] = os.path.join(d, "i%d.img" % c["id"])
        c["logs"] = [os.path.join(d, "i%d.l1" % c["id"]), os.path.join(d, "i%d.l2" % c["id"])]
        if cur is None or cur["ops"] is not c["ops"] or len(cur["cases"]) >= BATCH:
            cur = dict(ops=c["ops"], cases=[])
            batches.append(cur)
        cur["cases"].append(c)
    ctx.rp_seq = base + len(cases)

    def script_of(ops, cs):
        s = list(ops) + ["wclose"]
        for c in cs:
            s += c["recipe"] + ["save " + c["img"], "ropenlog " + c["logs"][0], "hash", "ropenlog " + c["logs"][1], "hash"]
        return ";".join(s)

    def run_batches(bs):
        lines = vlib.run_c(variant, "repair", [script_of(b["ops"], b["cases"]) for b in bs], args=[scratch, "timeout=300"], timeout=6000) \
            if variant != "asan" else _run_asan([script_of(b["ops"], b["cases"]) for b in bs], scratch)
        for b, line in zip(bs, lines):
            toks = line.split(";")
            fault = toks[-1] if toks and toks[-1].startswith(("FAULT", "PROCFAIL")) else None
            # walk the tokens after `wclose`
            try:
                i0 = max(i for i, t in enumerate(toks) if t.startswith("wclose"))
            except ValueError:
                i0 = -1
            pos = i0 + 1
            for c in b["cases"]:
                n = len(c["recipe"]) + 5
                seg = toks[pos:pos + n]
                pos += n
                c["impl_raw"] = ";".join(seg)
                c["impl_fault"] = None
                opens = [t.split() for t in seg if t.startswith("ropenlog")]
                hashes = [t.split() for t in seg if t.startswith("hash ")]
                if len(opens) == 2 and len(hashes) == 2 and all(len(o) == 3 for o in opens) and all(len(h) == 3 for h in hashes):
                    c["impl"] = [dict(rc=int(o[1]), nlog=int(o[2]), len=int(h[1]), hash=h[2]) for o, h in zip(opens, hashes)]
                else:
                    c["impl"] = None
                    c["impl_fault"] = fault or "incomplete result"
    run_batches(batches)
    # a fault loses the rest of its batch: re-run those images one by one
    lost = [c for b in batches for c in b["cases"] if c["impl"] is None]
    if lost:
        run_batches([dict(ops=c["ops"], cases=[c]) for c in lost])
    present = [c for c in cases if os.path.exists(c["img"])]
    mlines = _run_model([c["img"] + " 2" for c in present])
    for c, m in zip(present, mlines):
        c["model"] = parse_model_line(m)
        c["model_raw"] = m[:300]
    for c in cases:
        c["diff"] = diff_case(c)
        for p in [c["img"]] + c["logs"]:
            if os.path.exists(p) and not getattr(ctx, "rp_keep", False):
                os.remove(p)
    return cases


def _run_asan(scripts, scratch):
    env = dict(os.environ)
    env["ASAN_OPTIONS"] = "detect_leaks=0:abort_on_error=0:exitcode=99:allocator_may_return_null=1"
    env["UBSAN_OPTIONS"] = "print_stacktrace=1:halt_on_error=1"
    return vlib._run_sharded([os.path.join(vlib.BUILD, "asan", "jlsrun"), "repair", scratch, "timeout=600"], scripts, vlib.NPROC, 6000, env)


def diff_case(c):
    m = c.get("model")
    a = c.get("impl")
    if a is None:
        f = c.get("impl_fault") or "?"
        if m and m[0]["fault"] == 3 and "SIGSEGV" in f:
            c["impl_logs"] = []
            c["defect"] = ("segv", "jls_core_rd_chunk_end reads far outside data[] (model fault 3), implementation: " + f)
            return None
        if m and m[0]["fault"] == 1 and "TIMEOUT" in f:
            c["impl_logs"] = []
            c["defect"] = ("cycle", "jls_rd_open does not terminate (model: fuel exhausted = a cyclic item_next chain), implementation: " + f)
            return None
        return "implementation fault: %s (model: %s)" % (f, "rc %d fault %d" % (m[0]["rc"], m[0]["fault"]) if m else c.get("model_raw", "no image"))
    if m is None:
        return "model run failed: " + c.get("model_raw", "(no image file)")
    s24 = sigs24_of(c["ops"])
    c["impl_logs"] = []
    for k in (0, 1):
        ilog = WM.parse_log_lines(open(c["logs"][k]).read().splitlines()) if os.path.exists(c["logs"][k]) else []
        c["impl_logs"].append(ilog)
        t = "open #%d: " % (k + 1)
        if m[k]["fault"] == 8 and a[k]["rc"] != 0 and not ilog:
            c["short_uninit"] = True      # file shorter than 24 bytes: the C tests an uninitialised length; any error, no writes
            continue
        if m[k]["fault"]:
            return t + "the model left its domain: fault %d (%s); implementation rc %d, %d log entries" % (
                m[k]["fault"], RPF.get(m[k]["fault"], "?"), a[k]["rc"], a[k]["nlog"])
        if a[k]["rc"] != m[k]["rc"]:
            return t + "return code: implementation %d / model %d (log entries %d / %d)" % (a[k]["rc"], m[k]["rc"], len(ilog), len(m[k]["log"]))
        tol = {"uninit": m[k]["uninit"] or c.get("uninit_seen", False), "seen": False}
        dl = first_difference(ilog, m[k]["log"], s24, tol)
        if dl:
            return t + dl
        if tol["seen"]:
            c["uninit_seen"] = True
        if not s24 and not c.get("uninit_seen") and (a[k]["len"], a[k]["hash"]) != (m[k]["len"], m[k]["hash"]):
            return t + "file afterwards: implementation %d bytes %s / model %d bytes %s" % (a[k]["len"], a[k]["hash"], m[k]["len"], m[k]["hash"])
        if s24 and a[k]["len"] != m[k]["len"]:
            return t + "file length afterwards: implementation %d / model %d" % (a[k]["len"], m[k]["len"])
    return None


def first_difference(ilog, mlog, s24, tol=None):
    """as WM.first_difference, but the log starts in the middle of a file's life: classify appended chunks from the first truncate on.
    tol["uninit"]: the model says the C wrote a fresh chunk header with an uninitialised payload_prev_length in place
    (rp_uninit_ppl): 32-byte in-place writes may then differ in payload_prev_length and crc32 (tol["seen"] is set)."""
    n = min(len(ilog), len(mlog))
    end = None
    cur = None       # [tag, meta, stage] of the chunk being appended
    for i in range(n):
        a, m = ilog[i], mlog[i]
        what = ""
        if a[0] == "t":
            end = a[1] if end is None else min(end, a[1])
        elif a[0] == "w" and end is not None:
            if a[1] == end and len(a[2]) == 32 and (cur is None or cur[2] == "done"):
                f = WM.hdr_fields(a[2])
                cur = [f["tag"], f["chunk_meta"], "hdr" if f["payload_length"] else "done"]
                what = "chunk_header %s" % WM.tag_name(f["tag"])
            elif a[1] == end and cur is not None and cur[2] == "hdr":
                cur[2] = "payload"
                what = "payload %s" % WM.tag_name(cur[0])
            elif a[1] == end and cur is not None and cur[2] == "payload":
                cur[2] = "done"
                what = "footer %s" % WM.tag_name(cur[0])
            else:
                what = "in place"
            end = max(end, a[1] + len(a[2]))
        if a == m:
            continue
        if a[0] == "w" and m[0] == "w" and a[1] == m[1] and len(a[2]) == len(m[2]) and cur is not None and cur[0] == 0x24 \
                and (cur[1] & 0xff) in s24 and (what.startswith("footer") or (what.startswith("payload") and a[2][:16] == m[2][:16])):
            continue
        if tol and tol["uninit"] and a[0] == "w" and m[0] == "w" and a[1] == m[1] and len(a[2]) == 32 and len(m[2]) == 32 and what == "in place":
            fa, fm = WM.hdr_fields(a[2]), WM.hdr_fields(m[2])
            if all(fa[f] == fm[f] for f in fa if f not in ("payload_prev_length", "crc32")):
                tol["seen"] = True
                continue
        t = "log entry %d (%s): " % (i, what or a[0])
        if a[0] != m[0]:
            return t + "kind differs: implementation %s / model %s" % (a[0], m[0])
        if a[0] == "t":
            return t + "truncate length %d / %d" % (a[1], m[1])
        if a[0] == "s":
            continue
        if a[1] != m[1]:
            return t + "offset differs: implementation %d / model %d (lengths %d / %d)" % (a[1], m[1], len(a[2]), len(m[2]))
        if len(a[2]) != len(m[2]):
            return t + "length differs at offset %d: implementation %d / model %d" % (a[1], len(a[2]), len(m[2]))
        k = next(j for j in range(len(a[2])) if a[2][j] != m[2][j])
        extra = ""
        if len(a[2]) == 32:
            fa, fm = WM.hdr_fields(a[2]), WM.hdr_fields(m[2])
            extra = "; header fields: " + ", ".join("%s %d/%d" % (f, fa[f], fm[f]) for f in fa if fa[f] != fm[f])
        return t + "byte %d differs (offset %d): implementation %02x / model %02x%s" % (k, a[1] + k, a[2][k], m[2][k], extra)
    if len(ilog) != len(mlog):
        longer = ilog if len(ilog) > n else mlog
        e = longer[n]
        return "log entry %d: only the %s has it (%d vs %d entries): %s %s" % (
            n, "implementation" if len(ilog) > n else "model", len(ilog), len(mlog), e[0], ("@%d len %d" % (e[1], len(e[2]))) if e[0] == "w" else (e[1] if e[0] == "t" else ""))
    return None


# ---------------------------------------------------------------- check
def replay_text(c):
    script = ";".join(list(c["ops"]) + ["wclose"] + c["recipe"] + ["save /tmp/x.img", "ropenlog /tmp/x.l1", "hash", "ropenlog /tmp/x.l2", "hash"])
    return ("image class %s, crash point %s\nscript (one line):\n%s\n\nreplay:\n  echo '<script>' | %s/plain/jlsrun repair /tmp\n"
            "  echo '/tmp/x.img 2' | %s/jlsmodel repair | sed 's/ || /\\n/' | tr '|' '\\n'      (model: rc, fault, did, len, hash, log of both opens)\n"
            "  cat /tmp/x.l1 /tmp/x.l2                                                          (implementation's logs)\n\n"
            "difference:\n  %s\nimplementation: %s\nmodel: %s\n" % (
                c["cls"], c["point"], script, vlib.BUILD, vlib.BUILD, c["diff"], c.get("impl_raw", "")[:400], c.get("model_raw", "")[:300]))


def crc32c(data):
    crc = 0xFFFFFFFF
    for b in data:
        crc ^= b
        for _ in range(8):
            crc = (crc >> 1) ^ (0x82F63B78 if crc & 1 else 0)
    return crc ^ 0xFFFFFFFF


def cyclic_variant(final, chunks):
    """a closed file whose first SOURCE_DEF chunk links to itself (header CRC recomputed), or None"""
    for off, tag, tot in chunks:
        if tag == 1:
            b = bytearray(final)
            struct.pack_into("<Q", b, off, off)
            struct.pack_into("<I", b, off + 28, crc32c(bytes(b[off:off + 28])))
            return bytes(b)
    return None


def run_cycle_case(ctx, final, chunks):
    """one crafted image (not a crash image): the C must be killed by the watchdog, the model must run out of fuel.
    -> None (no SOURCE_DEF chunk), or (agree, text)"""
    b = cyclic_variant(final, chunks)
    if b is None:
        return None
    d = os.path.join(ctx.tmp, "rp")
    os.makedirs(d, exist_ok=True)
    path = os.path.join(d, "cyclic.img")
    with open(path, "wb") as f:
        f.write(b)
    scratch = os.path.join(ctx.tmp, "scratch_rp")
    os.makedirs(scratch, exist_ok=True)
    script = "load %s;ropenlog;hash" % path
    impl = vlib.run_c("plain", "repair", [script], args=[scratch, "timeout=4"], timeout=120)[0]
    m = parse_model_line(_run_model([path + " 1"])[0])
    text = ("crafted file: a properly closed file whose SOURCE_DEF chunk has item_next = its own offset, header CRC recomputed (%d bytes)\n"
            "script: %s   (jlsrun repair <scratch> timeout=4)\nimplementation: %s\nmodel: %s\n"
            "jls_core_scan_sources / _scan_signals and the repair walks follow item_next without any progress check.\n" % (len(b), script, impl, m))
    agree = ("FAULT TIMEOUT" in impl) and bool(m) and m[0]["fault"] == 1
    if not getattr(ctx, "rp_keep", False):
        os.remove(path)
    return agree, text, impl, m


def run_rp(ctx, n=None, per_program=None, variant="plain", cycle=True):
    """Assumes vlib.build was called (kinds prog + repair in the harness, drivers drv_wmodel.ml drv_repair.ml in the model).
    Reports through ctx.violation: a model/implementation difference without signature; a genuine defect class of the C with its
    signature (DEFECT_SIGS).  Returns the number of model/implementation differences."""
    n = n if n is not None else (10 if ctx.tier == "quick" else 60)
    per = per_program if per_program is not None else (60 if ctx.tier == "quick" else 120)
    progs = gen_programs(ctx.rng, ctx.tier, n)
    probes = probe_programs(ctx, [p[0] for p in progs])
    cases = []
    nprobe_fail = 0
    first_closed = None
    for (ops, meta), pr in zip(progs, probes):
        if not pr["ok"] or len(pr["final"]) > 400000:
            nprobe_fail += 1
            continue
        if first_closed is None and len(pr["final"]) < 100000:
            first_closed = (pr["final"], pr["chunks"])
        for recipe, cls, point in make_images(ctx.rng, ctx.tier, pr, per):
            cases.append(dict(ops=ops, recipe=recipe, cls=cls, point=point, nlog=len(pr["entries"]), flen=len(pr["final"]), chunks=pr["chunks"]))
    compare_images(ctx, cases, variant=variant)
    dist, outcome = {}, {}
    nsum = nidx = 0
    nv = 0
    ndef = {}
    second_writes = []
    biggest = 0

    def defect(c, key, what):
        ndef[key] = ndef.get(key, 0) + 1
        if ndef[key] <= 5:
            ctx.violation("rp_defect_%s_%d.txt" % (key, ndef[key]), replay_text(c) + "\ndefect class: %s\n%s\n" % (DEFECT_SIGS[key], what),
                          "repair-on-open (%s): %s" % (c["cls"], what[:200]), sig=DEFECT_SIGS[key])

    for c in cases:
        dist[c["cls"]] = dist.get(c["cls"], 0) + 1
        a, m = c.get("impl"), c.get("model")
        if a:
            o = "failed" if a[0]["rc"] else ("untouched" if a[0]["nlog"] == 0 else "repaired")
            if a[0]["rc"] and a[0]["nlog"]:
                o = "failed_after_writes"
            biggest = max(biggest, a[0]["len"])
            if c.get("impl_logs"):
                s, i = count_recreated(c["impl_logs"][0])
                nsum += s
                nidx += i
                if s:
                    outcome["repaired_with_new_summaries"] = outcome.get("repaired_with_new_summaries", 0) + 1
            if a[0]["rc"] == 0 and (a[1]["rc"] != 0 or a[1]["nlog"] != 0):
                second_writes.append(c)
                if m and m[0].get("end_inplace"):
                    defect(c, "end_inplace", "the repairing open wrote its END chunk header in the middle of the file (not at the end): the second open repairs again "
                           "(rc %d, %d backend calls) - repair does not converge and overwrites a complete chunk each time" % (a[1]["rc"], a[1]["nlog"]))
                else:
                    defect(c, "second_open", "the second open of the repaired file is not quiet: rc %d, %d backend calls (first open: rc 0, %d calls)" % (
                        a[1]["rc"], a[1]["nlog"], a[0]["nlog"]))
            elif m and a[0]["rc"] == 0 and m[0].get("end_inplace"):
                defect(c, "end_inplace", "the repairing open wrote its END chunk header in the middle of the file (not at the end); bytes of the old tail stay behind it")
            # a closed file cut at L: the last chunk that lies completely below L is CRC-valid, the repair must not truncate below its end
            if c["cls"].startswith("closed_truncated") and len(c["recipe"]) == 2 and c["recipe"][1].startswith("trunc ") and c.get("impl_logs") and c["impl_logs"][0]:
                L = int(c["recipe"][1].split()[1])
                ends = [off + tot for off, tag, tot in c["chunks"] if off + tot <= L]
                e0 = c["impl_logs"][0][0]
                if ends and e0[0] == "t" and e0[1] < max(ends):
                    # fixed by /repo 966bf8c (the scan tests every 8-aligned offset): a plain violation if it comes back
                    nv += 1
                    ctx.violation("rp_lastchunk_%d.txt" % nv, replay_text(c), "file cut at %d: the last complete chunk ends at %d, but the repair truncated at %d "
                                  "(a complete, CRC-valid chunk was discarded by the backward scan)" % (L, max(ends), e0[1]))
            if c.get("uninit_seen"):
                outcome["uninit_ppl_written"] = outcome.get("uninit_ppl_written", 0) + 1
                ctx.rp_uninit = getattr(ctx, "rp_uninit", []) + [c]
                defect(c, "uninit_ppl", "the open wrote a chunk header in place whose payload_prev_length is uninitialised stack memory (differs from run to run)")
        else:
            o = "fault"
        if c.get("defect"):
            defect(c, c["defect"][0], c["defect"][1])
        outcome[o] = outcome.get(o, 0) + 1
        ko = c["cls"] + "/" + o
        outcome[ko] = outcome.get(ko, 0) + 1
        ctx.count((";".join(c["ops"])[-200:], tuple(c["recipe"])), nontrivial=(c["cls"] != "closed"),
                  sample={"class": c["cls"], "recipe": c["recipe"], "impl": a, "diff": c["diff"]})
        if c["diff"]:
            nv += 1
            if nv <= 40:
                ctx.violation("rp_case_%d.txt" % nv, replay_text(c), "repair model and implementation differ (%s): %s" % (c["cls"], c["diff"][:160]))
    # the crafted cyclic file: implementation hangs, model runs out of fuel
    if cycle and first_closed is not None:
        r = run_cycle_case(ctx, *first_closed)
        if r is not None:
            agree, text, impl, m = r
            outcome["crafted_cycle"] = "hang" if agree else "other"
            if agree:
                ndef["cycle"] = 1
                ctx.violation("rp_defect_cycle.txt", text, "jls_rd_open never returns on a file with a self-linked SOURCE_DEF chunk (watchdog: %s)" % impl[-40:], sig=DEFECT_SIGS["cycle"])
            elif "FAULT" in impl or (m and m[0]["fault"] == 1):
                nv += 1
                ctx.violation("rp_cycle_mismatch.txt", text, "crafted cyclic file: model and implementation differ: %s / %s" % (impl[-60:], m and (m[0]["rc"], m[0]["fault"])))
    ctx.extra["distribution"] = dist
    ctx.extra["outcomes"] = outcome
    ctx.extra["rp_defects"] = {DEFECT_SIGS[k]: v for k, v in ndef.items()}
    ctx.extra["rp_stats"] = dict(programs=len(progs), probe_failed=nprobe_fail, images=len(cases), opens_compared=2 * len(cases),
                                 summary_chunks_recreated=nsum, index_chunks_recreated=nidx, largest_file=biggest,
                                 second_open_not_quiet=len(second_writes), model_differences=nv)
    ctx.extra["second_open_examples"] = [dict(cls=c["cls"], recipe=c["recipe"], impl=c["impl"], script_tail=";".join(c["ops"])[-300:]) for c in second_writes[:5]]
    ctx.rp_second = second_writes
    ctx.cov["rule"] = ("writer programs from crashlib.writer_program / WM.gen_case; images: every clean stop at structural positions, torn appends, torn in-place "
                       "writes, closed files, truncated closed files, closed / crash images with a damaged tail chunk, damaged file headers; per image two "
                       "consecutive opens; compared: rc of jls_rd_open, complete backend log, resulting file; distinct = (program, recipe); plus one crafted "
                       "file with a cyclic item_next chain (watchdog vs fuel)")
    return nv


def run(ctx):
    vlib.build(ctx, [], variants=("plain",))
    run_rp(ctx)
    return vlib.finish(ctx, "exploration", "python3 tools/props/RP.py", note="byte-exact correspondence of repair-on-open: model vs implementation")


if __name__ == "__main__":
    args = [a for a in sys.argv[1:] if a not in ("build", "asan", "keep")]
    ctx = WM.MiniCtx(int(args[1]) if len(args) > 1 else 1, args[2] if len(args) > 2 else "quick")
    ctx.extra, ctx.cov = {}, {}
    ctx.violations = []
    ctx.count = lambda *a, **k: None
    ctx.violation = lambda name, text, what, **k: ctx.violations.append((name, text, ("[sig %s] " % k["sig"] if k.get("sig") else "") + what))
    ctx.rp_keep = "keep" in sys.argv
    try:
        if "build" in sys.argv:
            class B:   # enough of Ctx for vlib.build
                proof_build_ok = True; proof_build_log = ""; obligations = []
            vlib.build(B(), [], variants=("plain", "asan") if "asan" in sys.argv else ("plain",))
        import time, json
        t0 = time.time()
        nv = run_rp(ctx, n=int(args[0]) if args else 10, per_program=int(args[3]) if len(args) > 3 else None,
                    variant="asan" if "asan" in sys.argv else "plain")
        for name, text, what in ctx.violations[:8]:
            print("DIFF " + what)
            print(text if len(text) < 1500 else text[:300] + " ... " + text[-1100:])
            print()
        print(json.dumps(ctx.extra["distribution"], sort_keys=True))
        print(json.dumps(ctx.extra["outcomes"], sort_keys=True))
        print(json.dumps(ctx.extra["rp_stats"], sort_keys=True))
        print("defect classes:", json.dumps(ctx.extra["rp_defects"], sort_keys=True))
        for e in ctx.extra["second_open_examples"][:3]:
            print("second open not quiet:", json.dumps(e)[:600])
        print("%d images, %d mismatches, %.1fs" % (ctx.extra["rp_stats"]["images"], nv, time.time() - t0))
    finally:
        if not ctx.rp_keep:
            ctx.cleanup()
        else:
            print("kept", ctx.tmp)
