"""C13: definitions and user data round-trip; identity rules are enforced."""
import vlib, proglib
from proglib import DT, DT_BITS

PROP_FILES = ["Properties_C13.v", "Properties_refine.v"]
BIG = 1 << 20


def strspec(rng, tier, big_ok=True):
    r = rng.random()
    if r < 0.12:
        return "-"
    if r < 0.24:
        return "e"
    if r < 0.8:
        return "g%d.%d" % (rng.choice([1, 2, 5, 24, 25, 63, 64, 255, 256, 1000]), rng.randrange(1, 10**6))
    if r < 0.9:
        # UTF-8 bytes (no NUL)
        return "x" + "".join("%02x" % b for b in "µΩ°→±".encode("utf-8")[:rng.randrange(2, 11)])
    if big_ok and tier != "quick" or (big_ok and rng.random() < 0.15):
        return "g%d.%d" % (rng.choice([BIG - 70, BIG - 3, BIG - 2, BIG - 1, BIG, BIG + 1, 3 * BIG + 5]), rng.randrange(1, 10**6))
    return "g%d.%d" % (rng.randrange(1, 5000), rng.randrange(1, 10**6))


def gen_case(rng, tier):
    ops = ["wopen"]
    nsrc = rng.randrange(0, 6)
    src_ids = []
    dist = []
    big_budget = [1]

    def s(big=True):
        sp = strspec(rng, tier, big_ok=big and big_budget[0] > 0)
        if sp[0] == "g" and int(sp[1:].split(".")[0]) > 100000:
            big_budget[0] -= 1
            dist.append("bigstr")
        return sp
    pending = []
    for _ in range(nsrc):
        sid = rng.choice([1, 2, 3, 7, 100, 254, 255, 255, 256, 300, 65535, 0])
        pending.append("src %d %s %s %s %s %s" % (sid, s(), s(False), s(False), s(False), s(False)))
        if 0 < sid < 256 and sid not in src_ids:
            src_ids.append(sid)
        if rng.random() < 0.2:
            pending.append("src %d e e e e e" % sid)      # duplicate
            dist.append("dup_src")
    nsig = rng.randrange(0, 6)
    sigs = {}
    for _ in range(nsig):
        gid = rng.choice([1, 2, 3, 9, 254, 255, 255, 256, 1000, 0])
        src = rng.choice(src_ids + [0, 0]) if rng.random() < 0.8 else rng.choice([4, 99, 256, 300])
        dt = rng.choice(list(DT.keys()))
        stype = rng.choice([0, 0, 0, 1, 2])
        rate = rng.choice([1000, 1, 2000000, 0]) if stype == 0 else rng.choice([0, 0, 50])
        if rng.random() < 0.5:
            spd, sdf, eps, sumdf = 0, 0, 0, 0
        else:
            spd, sdf, eps, sumdf = [rng.choice([0, 1, 9, 10, 11, 100, 1000, 1024, 4096]) for _ in range(4)]
        adf, udf = rng.choice([0, 10, 100, 7]), rng.choice([0, 10, 100, 7])
        if DT_BITS[dt] == 24:
            adf, udf = max(adf, 10), max(udf, 10)      # 24-bit types take no defaults (recorded under C16)
        dtv = DT[dt] if rng.random() < 0.92 else rng.choice([0, 5, 8197, 0x10000 | DT["f32"], 0x30000 | DT["i16"]])
        pending.append("sig %d %d %d %d %d %d %d %d %d %d %d %s %s" % (gid, src, stype, dtv, rate, spd, sdf, eps, sumdf, adf, udf, s(), s(False)))
        if rng.random() < 0.15:
            pending.append("sig %d %d 0 %d 1000 0 0 0 0 0 0 e e" % (gid, src if src < 256 else 0, DT["f32"]))
            dist.append("dup_sig")
        sigs[gid] = (dt, stype)
    # data-ish ops, some on undefined / wrong ids
    nud = rng.randrange(0, 7)
    for _ in range(nud):
        st = rng.choice([1, 1, 2, 3])
        r = rng.random()
        if r < 0.7:
            sz = rng.choice([0, 1, 7, 8, 9, 100, 4000, 65536])
        elif tier != "quick" or rng.random() < 0.3:
            sz = rng.choice([BIG - 13, BIG - 12, BIG - 4, BIG - 3, BIG, BIG + 8, 3 * BIG + 1])
            dist.append("bigud")
        else:
            sz = rng.randrange(0, 3000)
        pay = "g%d.%d" % (sz, rng.randrange(1, 10**6)) if sz or st != 1 else rng.choice(["-", "e"])
        pending.append("ud %d %d %s" % (rng.choice([0, 1, 0x123, 0xfff, 0x1fff, 0xffff]), st, pay))
    for _ in range(rng.randrange(0, 5)):
        gid = rng.choice(list(sigs.keys()) + [4, 77, 255, 256, 40000])
        k = rng.random()
        if k < 0.4:
            pending.append("fsr %d 0 %d 1 5" % (gid, rng.choice([1, 10, 100])))
        elif k < 0.7:
            pending.append("anno %d 5 3f800000 1 0 2 g4.2" % gid)
        else:
            pending.append("utc %d 0 1000" % gid)
        dist.append("data_maybe_undefined")
    # definitions at any time relative to data: shuffle but keep each op's relative duplicates order
    rng.shuffle(pending)
    ops += pending
    # a REJECTED definition must leave no trace: follow it by calls that would only succeed if it had been accepted
    if rng.random() < 0.45:
        k = rng.choice(["src_toobig", "src_toobig", "sig_badtype", "sig_nosrc", "sig_rate0", "sig_toobig"])
        sid = rng.choice([5, 9, 200])
        gid = rng.choice([11, 12, 250])
        if k == "src_toobig":
            ops.append("src %d g%d.%d e e e e" % (sid, rng.choice([BIG - 1, BIG, BIG + 7]), rng.randrange(1, 999)))
            ops.append(proglib.sigdef_op(gid, sid, "f32"))          # names the rejected source
            ops.append("fsr %d 0 10 1 3" % gid)
            ops.append("src %d g3.1 e e e e" % sid)                  # now really defined
            ops.append(proglib.sigdef_op(gid + 1, sid, "u8"))
        else:
            if k == "sig_badtype":
                ops.append("sig %d 0 0 5 1000 0 0 0 0 0 0 e e" % gid)
            elif k == "sig_nosrc":
                ops.append("sig %d 77 0 %d 1000 0 0 0 0 0 0 e e" % (gid, DT["f32"]))
            elif k == "sig_rate0":
                ops.append("sig %d 0 0 %d 0 0 0 0 0 0 0 e e" % (gid, DT["f32"]))
            else:
                ops.append("sig %d 0 0 %d 1000 0 0 0 0 0 0 g%d.5 e" % (gid, DT["f32"], BIG + 3))
            ops.append("fsr %d 0 10 1 3" % gid)
            ops.append("anno %d 0 3f800000 1 0 2 g3.3" % gid)
            ops.append("utc %d 0 5" % gid)
            ops.append(proglib.sigdef_op(gid, 0, "i16"))            # the id is still free
            ops.append("fsr %d 0 10 1 3" % gid)
        sigs[gid] = ("f32", 0)
        dist.append("after_rejection:" + k)
    ops += ["wclose", "ropen", "srcs", "sigs", "udr"]
    for gid in list(sigs.keys())[:3] + [4, 300]:
        ops.append("sigq %d" % gid)
    if rng.random() < 0.3:
        ops.append("udr 2")
    ops.append("rclose")
    return ";".join(ops), dict(dist=dist or ["plain"], n=len(pending))


def pre_run(ctx):
    import os
    if os.path.exists(os.path.join(vlib.VERIF, "tools", "props", "C13_defs.py")) and "drv_defs.ml" in open(os.path.join(vlib.VERIF, "ocaml", "DRIVERS")).read():
        import C13_defs
        C13_defs.run_defs(ctx, build=False)


def run(ctx):
    return proglib.run_prog_property(
        ctx, PROP_FILES, gen_case, ("defs", "udata"), 300, 2500,
        "case = writer program with 0..5 source definitions (ids incl. 0, 255, 256, 300, 65535, duplicates), 0..5 signal definitions (valid/invalid ids, "
        "undefined sources, all types incl. invalid type codes, FSR/VSR/invalid signal type, zero/odd definition parameters), user data of sizes 0..3 MiB "
        "with tags incl. >12 bits, FSR/annotation/UTC calls on defined and undefined signals, all shuffled; strings NULL/empty/ASCII/UTF-8/long (around the "
        "1 MiB internal string block); then sources, signals, single-signal queries and user data are read back and compared with the extracted Spec "
        "(acceptance of every call + definitions as stored + user data in order); distinct = script",
        timeout=60, pre_run=pre_run, variants=("plain", "asan"))


def replay(ctx, path):
    print(open(path).read())
    return 0
