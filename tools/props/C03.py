"""C03: a writer stopped at any point leaves a file that reopens to a correct prefix."""
import os, sys
import importlib
import vlib, proglib, crashlib

PROP_FILES = ["Properties_C03_shape.v", "Properties_C03_open.v", "Properties_C03_repair.v", "Properties_compose.v"]
STATS_COMPARED = [0]


def sig_offsets(sigs_line):
    """'sigs 0 n id,src,..,offset,name,units ...' -> {id: offset}"""
    out = {}
    t = sigs_line.split()
    if len(t) < 3 or t[1] != "0":
        return out
    for item in t[3:]:
        f = item.split(",")
        out[int(f[0])] = int(f[11])
    return out


def abs_items(items, off, kind):
    """add the first-sample-id offset back so that lists read from different files are comparable"""
    out = []
    for it in items:
        f = it.split(",")
        f[0] = str(int(f[0]) + off)
        out.append(",".join(f))
    return out


def check_rdall(meta, r, spec, offs, sid, st, ra, j, kind, first=True):
    """judge one answer of `rdall sid` (length + all samples) of the reopened image, and (for the first one) the statistics"""
    probs = []
    t = ra.split()
    if t[1] != "0":
        # a stop in the middle of a write may leave a torn in-place header: reads that fail with an error
        # code expose nothing wrong; at a clean point (j = 0) the signal must be readable
        if first and sid in offs and j == 0 and kind != "ctl":
            tl = meta.get("tail") or (None, None)
            in_pair = (tl[1] in ("FSR_INDEX", "FSR_SUMM")) or (tl[0] == "FSR_INDEX" and tl[1] is None)
            probs.append(("signal %d: length/read failed on the reopened file: %s" % (sid, ra),
                          "crash-repair-omitted-blocks-unreadable" if st.get("may_omit") else
                          ("repair-stop-inside-fsr-index-summary-pair" if in_pair else None)))
        return probs
    ln = int(t[2])
    if ln > st["total"]:
        probs.append(("signal %d: length %d exceeds the %d samples submitted" % (sid, ln, st["total"]), None))
        return probs
    if ln > 0 and not st.get("omit_req"):
        # (blocks omitted on request read back synthesised, see C15: no sample comparison for such signals)
        exp = spec.get("rd %d 0 %d" % (sid, ln), "")
        et = exp.split()
        if len(et) < 4 or et[3] != t[3]:
            probs.append(("signal %d: the %d samples read back%s differ from the submitted prefix" % (sid, ln, "" if first else " by a repeated call (the first call returned an error code)"),
                          "crash-repair-omitted-blocks-unreadable" if st.get("may_omit") else None))
    if not first:
        return probs
    # clean point: loses at most the buffered samples plus one block in flight
    if j == 0 and meta["defs_done"] and kind != "ctl":
        sub = meta["submitted"].get(sid, 0)
        need = (sub // st["spd"]) * st["spd"] - st["spd"]
        if ln < need and not meta["has_omit"]:
            probs.append(("signal %d: %d samples submitted before the stop, only %d readable (allowed loss: buffered + one block = down to %d)" % (sid, sub, ln, need), "clean-point-loss"))
    # statistics of the reopened file: aligned requests over the whole readable prefix, every entry compared with the exact
    # statistics of the submitted samples (min/max exact, mean within stored precision)
    if not st.get("omit_req") and proglib.DT_BITS[st["dt"]] not in (24, 64) and st.get("sdf"):
        import struct as _st
        for op, res in r["dump1"]:
            if not op.startswith("stall %d " % sid):
                continue
            t = res.split()
            if len(t) < 4 or t[1] != "0" or int(t[3]) < 1:
                continue
            incr, count = int(op.split()[2]), int(t[3])
            STATS_COMPARED[0] += 1
            exp = spec.get("st %d 0 %d %d" % (sid, incr, count), "")
            et = exp.split()
            if len(et) < 2 + count or et[1] != "0":
                continue
            vals = [_st.unpack("<d", _st.pack("<Q", int(h, 16)))[0] for h in t[4:4 + 4 * count]]
            for k in range(count):
                n_, sm, sq, mn, mx = et[2 + k].split(":")
                zi = lambda h: -int(h[1:], 16) if h.startswith("-") else int(h, 16)
                n_, sm, mn, mx = int(n_), zi(sm), zi(mn), zi(mx)
                mean, std, vmin, vmax = vals[4 * k:4 * k + 4]
                tol = (2.0 ** -20) * max(1.0, abs(mn), abs(mx))
                if vmin != float(mn) or vmax != float(mx) or abs(mean - sm / n_) > tol + abs(sm / n_) * 2.0 ** -20:
                    probs.append(("signal %d: statistics entry %d of (incr %d) after reopen: mean/min/max %r/%r/%r, submitted prefix has %r/%d/%d"
                                  % (sid, k, incr, mean, vmin, vmax, sm / n_, mn, mx),
                                  "crash-repair-omitted-blocks-unreadable" if st.get("may_omit") else None))
                    break
    return probs


def check_image(meta, r, model_line, spec_script):
    """returns list of (why, sig) problems for C03"""
    probs = []
    k, j, kind = meta["point"]
    if r["fault"]:
        return [("open/read did not terminate normally: %s" % r["fault"], None)]
    if r["open1"] is None:
        return [("no answer from open", None)]
    rc = r["open1"].split()[1]
    if rc != "0":
        if j == 0 and meta["defs_done"] and kind != "ctl":
            nw = meta.get("next_write")
            footer_pending = bool(nw) and nw[0] == 0 and nw[2] <= 8 and kind == "between"
            probs.append(("stop between two complete writes with all definitions on disk, but open failed with %s" % rc,
                          "open-fails-between-head-table-payload-and-footer" if footer_pending else None))
        return probs
    d1 = dict()
    for op, res in r["dump1"]:
        d1.setdefault(op, res)
    mops = spec_script.split(";")
    mres = model_line.split(";")
    spec = dict()
    for op, res in zip(mops, mres):
        spec.setdefault(op, res)
    offs = sig_offsets(d1.get("sigs", ""))
    soffs = sig_offsets(spec.get("sigs", ""))
    for sid, st in meta["sigs"].items():
        ras = [res for op, res in r["dump1"] if op == "rdall %d" % sid]
        if not ras:
            continue
        # judged: the first answer; if it is an error code and a repeated call succeeds, the data of that later call as well
        later_ok = [x for x in ras[1:] if x.split()[1:2] == ["0"]]
        for ra in ([ras[0]] + (later_ok[:1] if ras[0].split()[1:2] != ["0"] else [])):
            probs += check_rdall(meta, r, spec, offs, sid, st, ra, j, kind, first=(ra is ras[0]))
        for kind_op, cls in (("an %d -1000000000000" % sid, "anno"), ("ut %d -1000000000000" % sid, "utc")):
            got, rest = proglib.parse_items(d1.get(kind_op, "")[len(kind_op.split()[0]):])
            exp, _ = proglib.parse_items(spec.get(kind_op, "")[len(kind_op.split()[0]):])
            if got is None:
                continue
            # an iteration that ends with an error code after delivering valid entries is allowed (an error is reported)
            ga = abs_items(got, offs.get(sid, 0), cls)
            ea = abs_items(exp or [], soffs.get(sid, 0), cls)
            if not crashlib.is_subsequence(ga, ea):
                probs.append(("signal %d: returned %s entries are not written ones in order" % (sid, cls), None))
            # clean stop with all definitions on disk: the iteration itself must work (at most the entry in flight is lost), not fail
            # with an error code although several complete entries of this track are on disk
            nsub = meta.get("submitted_items", {}).get((cls, sid), 0)
            if j == 0 and meta["defs_done"] and kind != "ctl" and nsub >= 1 and (not rest or rest[0] != "0"):
                probs.append(("signal %d: %d %s entries were written before the clean stop but the iteration on the reopened file ends with an error code: %s"
                              % (sid, nsub, cls, d1.get(kind_op, "")[:80]), "clean-stop-%s-iteration-fails" % cls))
    got, rest = proglib.parse_items(d1.get("udr", "")[3:])
    exp, _ = proglib.parse_items(spec.get("udr", "")[3:])
    if got is not None and rest and rest[0] == "0":
        if not crashlib.is_subsequence(got, exp or []):
            probs.append(("returned user data are not written items in order", None))
    nud = meta.get("submitted_items", {}).get(("ud", 0), 0)
    if got is not None and j == 0 and meta["defs_done"] and kind != "ctl" and nud >= 1 and (not rest or rest[0] != "0"):
        probs.append(("%d user-data items were written before the clean stop but the iteration on the reopened file ends with an error code: %s" % (nud, d1.get("udr", "")[:80]),
                      "clean-stop-udata-iteration-fails"))
    return probs


def run_images(ctx, nprog, per_program):
    rng = ctx.rng
    programs, metas = [], []
    for i in range(nprog):
        ops, sigs, has_omit = crashlib.writer_program(rng, ctx.tier, no_fsr=(True if i % 5 == 1 else None))
        programs.append(ops)
        metas.append(dict(sigs=sigs, has_omit=has_omit))
    # regression corpus (committed; never written at run time): programs with the crash points that once failed; run first
    forced = {}
    corpus_path = os.path.join(vlib.VERIF, "corpus", "C03.json")
    if os.path.exists(corpus_path):
        import json as _json
        for e in reversed(_json.load(open(corpus_path))):
            programs.insert(0, e["ops"])
            metas.insert(0, dict(sigs={int(k): v for k, v in e["sigs"].items()}, has_omit=e["has_omit"], corpus=e.get("id")))
        for i, m in enumerate(metas):
            if m.get("corpus"):
                e = [x for x in _json.load(open(corpus_path)) if x.get("id") == m["corpus"]][0]
                forced[i] = [tuple(pt) for pt in e["points"]]
    probes = crashlib.probe(ctx, programs)
    cases = []
    for pi, (ops, meta, pr) in enumerate(zip(programs, metas, probes)):
        if not pr["ok"]:
            continue
        marks = pr["marks"]          # marks[i] = log length after op i (ops incl. wopen at 0); last = after wclose
        last_def = max([i for i, o in enumerate(ops) if o.split()[0] in ("src", "sig")] + [0])
        defs_k = marks[last_def] if last_def < len(marks) else 0
        points = forced[pi] if pi in forced else crashlib.crash_points(rng, pr["entries"], ctx.tier, per_program, pr.get("tails"), pr.get("firsts"))
        for (k, j, kind) in points:
            submitted = {}
            for i, o in enumerate(ops):
                if o.startswith("fsr ") and i < len(marks) and marks[i] <= k:
                    t = o.split()
                    sid = int(t[1])
                    st = meta["sigs"].get(sid)
                    if st:
                        submitted[sid] = max(submitted.get(sid, 0), int(t[2]) + int(t[3]) - st["first"])
            sitems = {}
            for i, o in enumerate(ops):
                if i < len(marks) and marks[i] <= k:
                    t = o.split()
                    if t[0] == "anno":
                        sitems[("anno", int(t[1]))] = sitems.get(("anno", int(t[1])), 0) + 1
                    elif t[0] == "utc":
                        sitems[("utc", int(t[1]))] = sitems.get(("utc", int(t[1])), 0) + 1
                    elif t[0] == "ud":
                        sitems[("ud", 0)] = sitems.get(("ud", 0), 0) + 1
            tail = pr["tails"][k] if k < len(pr["tails"]) else (None, None)
            nxt = pr["entries"][k] if k < len(pr["entries"]) else None
            cases.append((crashlib.image_script(ops, meta["sigs"], k, j),
                          dict(tail=tail, next_write=nxt, point=(k, j, kind), sigs=meta["sigs"], has_omit=meta["has_omit"], defs_done=(k >= defs_k),
                               submitted=submitted, submitted_items=sitems, ops=ops, nlog=len(pr["entries"]))))
    scripts = [c[0] for c in cases]
    impl, _ = proglib.run_pair(ctx, scripts, "plain", model=False, timeout=30)
    parsed = [crashlib.parse_image_result(s, a) for s, a in zip(scripts, impl)]
    # model: prefix content for the lengths the implementation reported
    spec_scripts = []
    for (s, meta), r in zip(cases, parsed):
        lens = {}
        for op, res in (r["dump1"] if r["open1"] and r["open1"].split()[1:2] == ["0"] else []):
            if op.startswith("rdall "):
                t = res.split()
                if len(t) >= 3 and t[1] == "0":
                    lens[int(op.split()[1])] = int(t[2])
        stalls = {}
        for op, res in (r["dump1"] if r["open1"] and r["open1"].split()[1:2] == ["0"] else []):
            if op.startswith("stall "):
                t = res.split()
                if len(t) >= 4 and t[1] == "0" and int(t[3]) > 0:
                    stalls.setdefault(int(op.split()[1]), []).append((int(op.split()[2]), int(t[3])))
        spec_scripts.append(crashlib.spec_dump(ctx, meta["ops"], meta["sigs"], lens, stalls))
    model = vlib.run_model("prog", spec_scripts, timeout=3000)
    return cases, parsed, spec_scripts, model


def run(ctx):
    prop_files = vlib.listed_props(PROP_FILES)
    vlib.build(ctx, prop_files, variants=("plain",))
    nprog, per = (8, 320) if ctx.tier == "quick" else (20, 1200)
    cases, parsed, spec_scripts, model = run_images(ctx, nprog, per)
    nviol = 0
    dist = {}
    for (script, meta), r, ss, m in zip(cases, parsed, spec_scripts, model):
        k, j, kind = meta["point"]
        opened = bool(r["open1"]) and r["open1"].split()[1:2] == ["0"]
        dist[kind + (":opened" if opened else ":error")] = dist.get(kind + (":opened" if opened else ":error"), 0) + 1
        ctx.count((script.split(";image")[0][-200:], k, j), nontrivial=(0 < k < meta["nlog"]),
                  sample={"crash_point": [k, j, kind], "log_entries": meta["nlog"], "open": r["open1"], "first_reads": [x[1][:60] for x in r["dump1"][:4]]})
        for why, sig in check_image(meta, r, m, ss):
            nviol += 1
            if nviol <= 40:
                ctx.violation("c03_image_%d.txt" % nviol,
                              "crash point: %d complete backend writes + %d bytes of the next (%s)\n%s\n\nscript:\n%s\n\nreplay: echo '<script>' | /verif/build/plain/jlsrun prog /tmp\n"
                              "implementation (after image): %s\n" % (k, j, kind, why, script, ";".join(r["out"])[:1500]),
                              "crash image (k=%d, j=%d, %s): %s" % (k, j, kind, why), sig=sig)
    # byte-exact repair-on-open model (coq/RepairModel.v, extracted) vs the implementation: return code, complete backend log and the
    # resulting file of two consecutive opens per image; defect classes carry signatures, everything else is a violation
    RP = importlib.import_module("RP")
    nviol += RP.run_rp(ctx, n=(4 if ctx.tier == "quick" else 30), per_program=(40 if ctx.tier == "quick" else 120), cycle=False)   # the crafted cyclic-link file (forged CRC) is outside the property: no crash produces it; see DESIGN.md
    dist.update({"rp_" + k: v for k, v in ctx.extra.get("distribution", {}).items()})
    ctx.extra["distribution"] = dist
    ctx.extra["statistics_requests_compared"] = STATS_COMPARED[0]
    ctx.cov["rule"] = ("case = (writer program, crash point): programs with 1-3 FSR signals of any type, annotations, UTC, user data, omission; the backend write log is "
                       "captured by interposition; crash points = every k (complete writes) with j=0, every byte prefix j of in-place writes (header links, head tables), "
                       "j in {1,8,28,31,len/2,len-1} of appends, sampled to %d per program (first: clean stops around the first chunk of each kind on a track, then stops inside INDEX/SUMMARY pairs and before in-place writes, then PRNG); the image is opened twice with the library; oracle: terminates without fault; "
                       "if opened: per signal length <= submitted and samples = submitted prefix (hash vs extracted Spec), annotations/UTC/user data returned are a "
                       "subsequence of the written ones; at j=0 with all definitions on disk the open succeeds and loses at most buffered samples + one block; "
                       "distinct = (program, k, j); non-trivial = 0 < k < log length" % per)
    return vlib.finish(ctx, "proof" if prop_files else "fault_enumeration", "coqc Properties_C03.v (when present); crash images via jlsrun prog `image k j`",
                       note="crash model: single fd, writes reach the file in program order, a stop leaves a byte prefix of one write (no reordering, no cache model)")


def replay(ctx, path):
    print(open(path).read())
    return 0
