"""C02: summaries and statistics describe exactly the samples that were written.
Oracle: the extracted Spec.stats_windows gives exact integer sums per window; the implementation's
{mean, std, min, max} are checked against them with exactly the tolerance the property states."""
import os, struct, math
from fractions import Fraction
import vlib, proglib
from proglib import DT, DT_BITS

PROP_FILES = ["Properties_C02.v", "Properties_float.v"]
SUMM64 = ("i32", "u32", "i64", "u64", "f64")


def f64(h):
    return struct.unpack("<d", struct.pack("<Q", int(h, 16)))[0]


def zint(h):
    return -int(h[1:], 16) if h.startswith("-") else int(h, 16)


def gen_case(rng, tier):
    dt = rng.choice([d for d in DT if DT_BITS[d] != 24])
    w = DT_BITS[dt]
    if rng.random() < 0.7:
        spd, sdf, eps, sumdf = proglib.min_def(dt)
    else:
        spd, sdf, eps, sumdf = proglib.small_def(rng, dt)
    epd = spd // sdf
    while eps % epd:
        epd -= 1
    a_spd = sdf * epd
    l1 = sdf * eps
    # enough samples for 1..4 summary levels
    nlev = rng.choice([1, 2, 2, 3, 3, 4])
    base = sdf * (sumdf ** (nlev - 1)) * rng.choice([26, 30, 60])
    limit = 60000 if tier == "quick" else 400000
    total = min(limit, base + rng.randrange(0, 3 * a_spd + 2))
    first = rng.choice([0, 0, 7, -5, 100000])
    ops = ["wopen", "src 1 e e e e e", proglib.sigdef_op(1, 1, dt, spd=spd, sdf=sdf, eps=eps, sumdf=sumdf)]
    pos = 0
    seed = rng.randrange(1, 10**6)
    # value patterns that are exactly representable everywhere: small integers (+-1000, k%17, constants); u1: PRNG bits
    # ramps (pattern 1) put the extremes of every window at its edges: a summary that drops or misplaces one child is visible
    pats = [2] if w == 1 else ([3, 4, 1, 1] if w > 8 else ([3, 4, 1] if dt in ("u8", "i8") else [3, 3, 0]))
    if w == 4:
        pats = [3, 2]
    while pos < total:
        n = min(total - pos, rng.choice([a_spd, 3 * a_spd + 1, 997, rng.randrange(1, 5000)]))
        ops.append("fsr 1 %d %d %d %d" % (first + pos, n, rng.choice(pats), seed + pos))
        pos += n
    ops += ["wclose", "ropen"]
    reqs = []
    nreq = 14 if tier == "quick" else 50
    for _ in range(nreq):
        lvl = rng.randrange(0, nlev + 1)
        step = sdf * (sumdf ** (lvl - 1)) if lvl >= 1 else 1
        r = rng.random()
        if r < 0.35:
            count = 1                                   # single window: any length
            incr = rng.choice([1, 2, sdf - 1, sdf, sdf + 1, step, 25 * step, 25 * step + 3, rng.randrange(1, total + 1), total])
        else:
            count = rng.choice([2, 3, 5, 25, 26, 40, 100])
            incr = rng.choice([1, 2, sdf, step, step + 1, 2 * step, max(1, total // (count + 1))])
        incr = max(1, min(incr, total))
        if incr * count > total:
            count = max(1, total // incr)
        start = rng.choice([0, 1, sdf - 1, a_spd, a_spd + 1, l1 - 1, l1, l1 + 1, total - incr * count, rng.randrange(0, total - incr * count + 1)])
        start = max(0, min(start, total - incr * count))
        reqs.append("st 1 %d %d %d" % (start, incr, count))
    ops += reqs + ["rclose"]
    return ";".join(ops), dict(dt=dt, sdf=sdf, sumdf=sumdf, total=total, nlev=nlev, dist=["%s:L%d" % (dt, nlev)], trivial=False)


def check_request(op, impl, model, meta):
    """returns list of problem strings for one `st` request"""
    probs = []
    it = impl.split()
    mt = model.split()
    if len(mt) >= 2 and mt[1] == "E":
        if len(it) >= 2 and it[1] == "0" and len(it) > 2:
            probs.append("request outside the signal answered with data")
        return probs
    if len(it) < 2 or it[1] != "0":
        return probs      # an error code: no entries returned (counted separately)
    vals = [f64(h) for h in it[2:]]
    wins = mt[2:]
    if len(vals) != 4 * len(wins):
        probs.append("%d values returned for %d windows" % (len(vals), len(wins)))
        return probs
    _, start, incr, count = [int(x) for x in op.split()[1:]]
    d = meta["sdf"]
    rel = 2.0 ** -20 if meta["dt"] not in SUMM64 else 2.0 ** -40     # stored-summary precision (f32 / f64) with margin
    exact = []
    for wn in wins:
        n, sm, sq, mn, mx = wn.split(":")
        n = int(n); sm = zint(sm); sq = zint(sq); mn = zint(mn); mx = zint(mx)
        exact.append((n, sm, sq, mn, mx))
    scale = max([1.0] + [abs(float(e[3])) for e in exact] + [abs(float(e[4])) for e in exact])
    tol = rel * scale
    if count == 1:
        n, sm, sq, mn, mx = exact[0]
        mean, std, vmin, vmax = vals
        if any(math.isnan(v) for v in vals):
            probs.append("NaN returned for a window without fill")
            return probs
        if vmin != float(mn) or vmax != float(mx):
            probs.append("single window: min/max %r/%r, exact %d/%d" % (vmin, vmax, mn, mx))
        em = Fraction(sm, n)
        if abs(Fraction(mean) - em) > Fraction(tol) + abs(em) * Fraction(rel):
            probs.append("single window: mean %r, exact %s" % (mean, float(em)))
        if n > 1:
            var = (Fraction(sq) - Fraction(sm * sm, n)) / (n - 1)
            S = math.sqrt(max(0.0, float(var)))
            lo = math.sqrt((d - 1) / d) * S
            if not (lo * (1 - 1e-4) - tol <= std <= S * (1 + 1e-4) + tol):
                probs.append("single window: std %r outside [sqrt((d-1)/d), 1] x true sample std %r (d=%d)" % (std, S, d))
    else:
        means = []
        for k, (n, sm, sq, mn, mx) in enumerate(exact):
            mean, std, vmin, vmax = vals[4 * k: 4 * k + 4]
            if any(math.isnan(v) for v in (mean, vmin, vmax)):
                probs.append("entry %d: NaN for a window without fill" % k)
                continue
            means.append(mean)
            lo = min(e[3] for e in exact[max(0, k - 1): k + 2])
            hi = max(e[4] for e in exact[max(0, k - 1): k + 2])
            for nm, v in (("mean", mean), ("min", vmin), ("max", vmax)):
                if not (lo - tol <= v <= hi + tol):
                    probs.append("entry %d: %s %r outside the extremes [%d, %d] of its window widened by one increment" % (k, nm, v, lo, hi))
        if len(means) == len(exact):
            tot = Fraction(sum(e[1] for e in exact), sum(e[0] for e in exact))
            avg = sum(Fraction(m) for m in means) / len(means)
            if abs(avg - tot) > Fraction(tol) * 4 + abs(tot) * Fraction(rel):
                probs.append("average of the entries' means %r differs from the exact mean of the range %r" % (float(avg), float(tot)))
    return probs


COUNTS = {"requests": 0, "answered": 0, "error_code": 0, "single_window": 0, "multi_window": 0}


def extra_check(script, meta, a, m):
    out = []
    ops = script.split(";")
    io = a.split(";")
    mo = m.split(";")
    for i, op in enumerate(ops):
        if op.startswith("st ") and i < len(io) and i < len(mo):
            COUNTS["requests"] += 1
            if io[i].split()[1:2] == ["0"]:
                COUNTS["answered"] += 1
                COUNTS["single_window" if op.split()[4] == "1" else "multi_window"] += 1
            else:
                COUNTS["error_code"] += 1
            for p in check_request(op, io[i], mo[i], meta):
                out.append(dict(op_index=i, op=op, cls="stats", impl=io[i][:300], model=mo[i][:300], why=p))
    return out


def pre_run(ctx):
    # tie of coq/SummQ.v (the model Properties_C02.v is about): every stored SUMMARY entry of every level and every
    # answered statistics request is compared with the extracted sq_levels / sq_rd_statistics
    import C02_summ
    C02_summ.run_summ(ctx, build=False, gap_clause=False)


def run(ctx):
    # `st` ops are compared by extra_check (tolerance), not by string equality
    saved = proglib.OP_CLASS.get("st")
    proglib.OP_CLASS["st"] = "stats_tol"
    ctx.extra["statistics_requests"] = COUNTS
    try:
        return proglib.run_prog_property(
            ctx, PROP_FILES, gen_case, (), 60, 600,
            "case = one FSR signal (every summarisable type; minimal/small definitions so that 1..4 summary levels exist with <= 60k samples; first ids 0/7/-5/100000; "
            "integer-valued samples exactly representable in the stored summaries) and 14 (thorough 50) statistics requests: single-window requests of lengths "
            "1, 2, d-1, d, d+1, one entry of each level, 25 entries (+3), arbitrary, whole signal; multi-window requests of 2..100 windows with increments selecting "
            "every level; starts at 0, 1, d-1, block and summary-chunk boundaries +-1, end-aligned, random; oracle (extracted Spec.stats_windows, exact integer sums): "
            "single window: min/max exact, mean within stored-summary precision, sqrt((d-1)/d) S <= std <= S; multi-window: mean/min/max of each entry within the "
            "extremes of its window widened by one increment, average of means = exact mean of the range; distinct = script",
            extra_check=extra_check, timeout=60, pre_run=pre_run)
    finally:
        proglib.OP_CLASS["st"] = saved


def replay(ctx, path):
    print(open(path).read())
    return 0
