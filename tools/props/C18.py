"""C18: CRC-32C correct for every length, alignment and code path.
Proof: coq/Properties_C18.v (all lengths/alignments, the three code paths, header variant).
Correspondence: jls_crc32c / jls_crc32c_hdr of the SSE4.2 build and of the
JLS_OPTIMIZE_CRC_DISABLE build vs the extracted reference."""
import vlib

PROP_FILES = ["Properties_C18.v"]


def gen_cases(ctx):
    rng = ctx.rng
    lines = []
    maxlen = 320 if ctx.tier == "quick" else 4096
    # exhaustive small lengths x 8 alignments x 4 patterns
    for ln in range(0, maxlen + 1):
        for al in range(8):
            for pat in range(4):
                lines.append("g %d %d %d %d" % (pat, rng.randrange(1, 2**31), ln, al))
    # random longer buffers
    for _ in range(300 if ctx.tier == "quick" else 3000):
        ln = rng.choice([rng.randrange(320, 9000), rng.randrange(320, 70000) if ctx.tier != "quick" else rng.randrange(320, 5000)])
        lines.append("g 3 %d %d %d" % (rng.randrange(1, 2**31), ln, rng.randrange(8)))
    # long buffers around the sizes where optimised CRC implementations switch code paths (block / stripe sizes), each with a
    # PRNG start alignment: any path taken only above some length must agree with the reference too
    for base in ([1024, 4096, 8192, 12288, 16384, 24576, 32768, 65536, 131072] if ctx.tier == "quick" else
                 [1024, 2048, 3072, 4096, 6144, 8192, 12288, 16384, 24576, 32768, 49152, 65536, 98304, 131072, 196608, 262144, 524288]):
        for d in (-1, 0, 1, 9):
            lines.append("g 3 %d %d %d" % (rng.randrange(1, 2**31), base + d, rng.randrange(8)))
    for ln in ([1048576 + 5, 786432 + 3] if ctx.tier == "quick" else [1048576 + 5, 786432 + 3, 2097152 + 1, 4194304, 3000001]):
        lines.append("g 3 %d %d %d" % (rng.randrange(1, 2**31), ln, rng.randrange(8)))
    # every single-byte buffer value at every alignment (table rows), explicit bytes
    for al in range(8):
        for b in range(256):
            lines.append("b %d %02x" % (al, b))
    # headers
    for _ in range(400 if ctx.tier == "quick" else 5000):
        h = bytes(rng.randrange(256) for _ in range(32))
        lines.append("h " + h.hex())
    for i in range(32):
        for bit in range(8):
            h = bytearray(32); h[i] = 1 << bit
            lines.append("h " + bytes(h).hex())
    return lines


def compare(ctx, lines):
    ref = vlib.run_model("crc", lines, args=["table"])
    # bit-serial reference on a subset (slow): everything short
    short = [l for l in lines if l[0] != "g" or int(l.split()[3]) <= 64]
    ref_spec = dict(zip(short, vlib.run_model("crc", short, args=["spec"])))
    bad = 0
    for variant in ("plain", "crcsw", "asan"):
        got = vlib.run_c(variant, "crc", lines)
        for l, r, g in zip(lines, ref, got):
            key = (variant, l if l[0] != "g" else tuple(l.split()[3:]) + (l.split()[1],))
            ctx.count(key, nontrivial=True, sample={"build": variant, "case": l[:100], "crc": g} if variant == "plain" else None)
            exp = ref_spec.get(l, r)
            if g != r or r != exp:
                bad += 1
                if bad <= 3:
                    ctx.violation("crc_%s_%d.txt" % (variant, bad),
                                  "build=%s\ncase=%s\nimplementation=%s\nreference(table)=%s\nreference(bit-serial)=%s\n"
                                  "replay: echo '%s' | build/%s/jlsrun crc\n" % (variant, l, g, r, exp, l, variant),
                                  "jls_crc32c differs from CRC-32C reference on build %s: %s" % (variant, l[:80]))
    return bad


def run(ctx):
    vlib.build(ctx, PROP_FILES, variants=("plain", "crcsw", "asan"))
    lines = gen_cases(ctx)
    compare(ctx, lines)
    ctx.cov["rule"] = ("cases = (pattern, length, alignment) for jls_crc32c and 32-byte headers for jls_crc32c_hdr; every length 0..%d x 8 alignments x "
                       "{zeros, 0xff, ramp, PRNG}, random longer buffers, long buffers at and around 1 KiB .. 128 KiB (512 KiB) block sizes and ~1 MiB (4 MiB), all 256 single bytes x 8 alignments, random and one-hot headers; each on the "
                       "SSE4.2, table-driven and ASan builds; distinct = (build, length, alignment, pattern/content); all non-trivial (result compared "
                       "with the extracted reference, short ones also with the bit-serial definition)" % (320 if ctx.tier == "quick" else 4096))
    if ctx.tier == "thorough":
        vlib.coqchk(ctx, ["Properties_C18"])
    return vlib.finish(ctx, "proof", "make -C /verif/coq -f Makefile.coq Properties_C18.vo && coqc -Q . JLS Properties_C18.v (Print Assumptions)",
                       trusted_extra=["x86 crc32 / ARM crc32c instruction semantics = U 8/32/64 (c xor operand) (Intel SDM); crc32c_arm_neon.c is modelled, not executed here"],
                       note="theorems quantify over all byte lists and all alignments; correspondence ties jls_crc32c/jls_crc32c_hdr binaries to crc_spec")


def replay(ctx, path):
    txt = open(path).read()
    print(txt)
    return 0
