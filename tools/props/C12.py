"""C12: UTC entries round-trip; id/time conversion is anchored, monotone, invertible.
This standalone module currently runs only the id/time conversion half (slice `tmap`,
tools/props/C12_tmap.py); the UTC round trip through files is added by the integrator."""
import vlib
from props import C12_tmap

PROP_FILES = list(C12_tmap.PROP_FILES)


def run(ctx):
    vlib.build(ctx, PROP_FILES, variants=("plain", "asan"))
    C12_tmap.run_tmap(ctx, build=False)
    if ctx.tier == "thorough":
        vlib.coqchk(ctx, [f[:-2] for f in PROP_FILES])
    return vlib.finish(ctx, "proof", "make -C /verif/coq -f Makefile.coq Properties_C12_tmap.vo && coqc -Q . JLS Properties_C12_tmap.v (Print Assumptions)",
                       trusted_extra=["binary64 evaluation of dk*(dt/ds) in tmap.c is modelled over Q exactly; the rounding gap is measured (model vs implementation within 1, and a python binary64 re-evaluation equal to the implementation), not proved",
                                      "the tmap harness prints the implementation's constants next to the model's (consts line)"],
                       note="theorems quantify over all maps (any number of entries >= 1, strictly increasing ids, non-decreasing times) and all queries; "
                            "correspondence ties jls_tmap_* binaries to TmapModel")


def replay(ctx, path):
    return C12_tmap.replay(ctx, path)
