"""C12: UTC entries round-trip; id/time conversion is anchored, monotone, invertible.
Two halves: (a) the id/time conversion (slice `tmap`, tools/props/C12_tmap.py: Coq model + theorems of tmap.c and a
correspondence run of jls_tmap_*); (b) the UTC round trip through files (tools/props/C12_file.py: writer programs with
0..1300 UTC entries, iteration from every sample-id class, compared with the extracted Spec.utc_from)."""
import os, glob
import vlib, proglib
import C12_tmap, C12_file

PROP_FILES = sorted(set(list(C12_tmap.PROP_FILES) + [os.path.basename(f) for f in glob.glob(os.path.join(vlib.COQ, "Properties_C12_*.v"))] + ["Properties_gen.v", "Properties_refine.v", "Properties_compose.v", "Properties_float.v"]))


def run(ctx):
    vlib.build(ctx, PROP_FILES, variants=("plain", "asan"))
    C12_tmap.run_tmap(ctx, build=False)
    # (the chunk-level UTC index model of coq/TsModel.v is exercised by C11's run_ts on the same files)
    # (b) file half
    n = 120 if ctx.tier == "quick" else 1200
    cases = [C12_file.gen_case(ctx.rng, ctx.tier) for _ in range(n)]
    impl, mod = proglib.run_pair(ctx, [c[0] for c in cases], "plain", timeout=60)
    nviol = 0
    for (script, meta), a, m in zip(cases, impl, mod):
        mism = [x for x in proglib.compare_case(script, a, m) if x["cls"] in ("utc", "fault")]
        ctx.count(("file", script), nontrivial=not meta.get("trivial"), sample=None)
        io = a.split(";")
        for (oi, lo, hi) in meta.get("anchors", []):
            if mism or oi >= len(io):
                break
            at = io[oi].split()
            ok = len(at) >= 3 and at[0] == "s2t" and at[1] == "0" and lo <= int(at[2]) <= hi
            if not ok:
                op = script.split(";")[oi]
                mism = [dict(op_index=oi, op=op, cls="utc", impl=io[oi], model="s2t 0 %d%s" % (lo, "" if lo == hi else " .. %d" % hi),
                             why="sample id -> time through the reader's time map is not anchored at a stored pair" if lo == hi else
                                 "sample id -> time through the reader's time map leaves the times of the two neighbouring stored pairs")]
        if mism:
            nviol += 1
            if nviol <= 20:
                ctx.violation("c12_file_%d.txt" % nviol, proglib.replay_text(script, "plain", mism), "UTC round trip: %s (%s)" % (mism[0]["why"], mism[0]["op"][:60]))
    ctx.extra["file_half_cases"] = n
    ctx.cov["rule"] = (ctx.cov.get("rule") or "") + " || file half: writer programs with 0..1300 UTC entries (decimation 10/11/13/100, first sample id 0/5/-7/10^6/2^40, rates 1..10^9, irregular spacing), iteration from ids before/at/between/after entries and with stopping callbacks, compared with extracted Spec.utc_from; decimations 2001/2500/4100 with 1999..4700 entries (time map grows more than once per chunk); jls_rd_sample_id_to_timestamp through the reader-built time map exact at stored pairs (first/last/random/around 1024, 2000, 2048, 4096 and the decimation) and between neighbours"
    if ctx.tier == "thorough":
        vlib.coqchk(ctx, [f[:-2] for f in PROP_FILES])
    return vlib.finish(ctx, "proof", "make -C /verif/coq -f Makefile.coq %s; coqc -Q . JLS <each> (Print Assumptions)" % " ".join(f.replace(".v", ".vo") for f in PROP_FILES),
                       trusted_extra=["binary64 evaluation of dk*(dt/ds) in tmap.c is modelled over Q exactly; the rounding gap is measured (model vs implementation within 1, and a python binary64 re-evaluation equal to the implementation), not proved",
                                      "the tmap harness prints the implementation's constants next to the model's (consts line)"],
                       note="theorems quantify over all maps (any number of entries >= 1, strictly increasing ids, non-decreasing times) and all queries; "
                            "correspondence ties jls_tmap_* binaries to TmapModel; the UTC file round trip is differential against Spec.utc_from")


def replay(ctx, path):
    return C12_tmap.replay(ctx, path)
