"""C05/C14 helpers: the verified format walker (coq/Decode.v `dw_walk`) and the verified write-once
checker (coq/WriteOnce.v `wo_check_log`), both extracted to OCaml (ocaml/drv_walk.ml, kinds "walk"
and "checklog"), run on real files / real backend write logs produced by the implementation.

    walk_files(ctx, paths, mode="strict")  -> list of verdict strings: "OK chunks=.. tags=.. ppl=[..] slack=.. content=<fnv64>[ | dump]"
                                              or "ERR <check> <offset>"; modes: strict | report | dump
    check_logs(ctx, paths)                 -> list of verdict strings: "OK <n> writes: a appends, h header links, t head tables, f file headers"
                                              or "FAIL <index> <reason>[ (ignoring payload_prev_length: <verdict>)]"
    gen_case(rng, tier)                    -> (writer program for the prog kind WITHOUT save/logdump, meta)
    run_walk(ctx, n=None, ...)             -> generates programs, runs them on the implementation with save/logdump into ctx.tmp,
                                              runs both checkers, compares the decoder's content with the library's own reader,
                                              routes failures through ctx.violation; returns the number of violations recorded
    compare_with_reader(verdict, reader_out, ids), reader_ops(script), classify_ppl(items), parse_ppl(verdict)

Signatures of the known class: SIG_PPL_EMPTY, SIG_PPL_SRC.  The caller must have run vlib.build with the kinds
prog (C side) and walk/checklog (model side: ocaml/drv_walk.ml) and the Coq files Properties_C05.v / Properties_C14.v.
The integrator owns tools/props/C05.py and C14.py; they call run_walk (or the pieces).
"""
import os, re
import vlib, proglib
from proglib import DT, DT_BITS

SIG_PPL_EMPTY = "payload-prev-length-after-empty-payload"
SIG_PPL_SRC = "payload-prev-length-zeroed-by-source-def"

TAG_SOURCE_DEF = 0x01


# ---------------------------------------------------------------- running the extracted checkers
def walk_files(ctx, paths, mode="strict"):
    """mode: 'strict' (payload_prev_length mismatches are errors), 'report' (they are listed in the OK line),
    'dump' (report + the rebuilt content printed after the OK summary, see drv_walk.ml)."""
    return vlib.run_model("walk", list(paths), args=[mode], timeout=3000)


def check_logs(ctx, paths):
    return vlib.run_model("checklog", list(paths), timeout=3000)


# ---------------------------------------------------------------- generator
def _payload(rng, st, small=True):
    n = rng.choice([0, 1, 3, 4, 5, 7, 8, 11, 12, 13, 100, 1000] if small else [0, 1, 7, 8, 12, 4000, 20000])
    if n == 0:
        return rng.choice(["e", "-"]) if st == 1 else "e"
    return "g%d.%d" % (n, rng.randrange(1, 10**6))


def _str(rng):
    r = rng.random()
    if r < 0.15:
        return "-"
    if r < 0.35:
        return "e"
    return "g%d.%d" % (rng.choice([1, 2, 3, 4, 5, 6, 7, 8, 9, 24, 63, 200]), rng.randrange(1, 10**6))


def gen_case(rng, tier):
    """A writer program (sync writer) covering: several sources/signals/types, annotations, UTC, user data,
    omitted blocks (omit ops, constant blocks of u8/u4/u1), 0..4 summary levels, empty signals,
    definitions interleaved with data.  Returns (script, meta); script has no save/logdump ops."""
    ops = ["wopen"]
    dist = []
    nsrc = rng.choice([0, 1, 1, 2, 3, 5])
    srcs = []
    for k in range(nsrc):
        sid = rng.choice([i for i in (1, 2, 3, 9, 100, 255) if i not in srcs])
        srcs.append(sid)
        ops.append("src %d %s %s %s %s %s" % (sid, _str(rng), _str(rng), _str(rng), _str(rng), _str(rng)))
    dist.append("src%d" % nsrc)
    nsig = rng.choice([0, 1, 1, 2, 2, 3, 4]) if srcs else rng.choice([0, 1])
    budget = 60000 if tier == "quick" else 260000      # bytes of sample data per program
    sigs = []
    data_ops = []
    for k in range(nsig):
        gid = rng.choice([i for i in (1, 2, 3, 7, 200, 255) if i not in [s[0] for s in sigs]])
        src = rng.choice(srcs) if srcs else 0
        vsr = rng.random() < 0.12
        dt = rng.choice(["f32", "f32", "f64", "u8", "u8", "i16", "u16", "i32", "u32", "i64", "u64", "i8", "u4", "i4", "u1", "u24", "i24"])
        w = DT_BITS[dt]
        spd, sdf, eps, sumdf = proglib.small_def(rng, dt)
        if rng.random() < 0.1 and not vsr:
            spd, sdf, eps, sumdf = 0, 0, 0, 0        # library defaults: level 0 only for the sizes used here
        adf = rng.choice([10, 10, 11, 25])
        udf = rng.choice([10, 10, 12, 30])
        sigs.append((gid, dt, vsr))
        defop = proglib.sigdef_op(gid, src, dt, rate=0 if vsr else rng.choice([1000, 1, 2000000]), spd=spd, sdf=sdf, eps=eps, sumdf=sumdf,
                                  adf=adf, udf=udf, name=_str(rng), units=_str(rng), stype=1 if vsr else 0)
        my = []
        if not vsr:
            # ---- FSR samples: target number of summary levels 0..4 ----
            levels = rng.choice([0, 0, 1, 1, 2, 2, 3, 3, 4])
            if spd == 0:
                total = rng.choice([0, 1, 100, 3000])
            elif levels == 0:
                total = rng.choice([0, 0, 1, sdf - 1, spd - 1 if spd > 1 else 1])
            else:
                base = sdf * eps          # samples per full level-1 summary chunk
                total = {1: rng.choice([sdf, spd, spd + 1, base - 1, base, base + spd]),
                         2: rng.choice([base + spd + 3, base * 2 + 1, base * sumdf - 1, base * sumdf]),
                         3: rng.choice([base * sumdf + base + 5, base * sumdf * 2 + 7, base * sumdf * 3]),
                         4: base * sumdf * sumdf + rng.choice([0, 1, base + 1])}[levels]
            total = min(total, max(0, budget * 8 // w))
            if levels == 4 and total * w // 8 > budget // 2 and tier == "quick":
                total = min(total, sdf * eps * sumdf * 3)
            budget -= total * w // 8
            dist.append("lv%d" % levels if total else "empty")
            first = rng.choice([0, 0, 0, 5, 1000000, -40, 2**40])
            pos = first
            left = total
            const_ok = w <= 8
            omit = rng.random() < 0.3
            if omit:
                my.append("omit %d 1" % gid)
                dist.append("omit")
            while left > 0:
                n = min(left, rng.choice([1, 7, sdf, spd, spd * 3 + 1, 1000, 4096, left]))
                if w < 8:
                    # keep calls byte aligned for sub-byte types (other alignments belong to C01)
                    n = max(8 // w, (n * w // 8) * 8 // w)
                    n = min(n, left) if left * w % 8 == 0 else n
                    if n > left:
                        n = left
                r = rng.random()
                if const_ok and r < 0.35:
                    pat, seed = 0, rng.choice([0, 1, 5])     # constant block -> omitted when omit is on
                    dist.append("const")
                else:
                    pat, seed = rng.choice([(1, rng.randrange(100)), (2, rng.randrange(1, 10**6)), (3, rng.randrange(17)), (4, rng.randrange(1, 10**6))])
                my.append("fsr %d %d %d %d %d" % (gid, pos, n, pat, seed))
                pos += n
                left -= n
                if rng.random() < 0.04 and w >= 8 and left > 0:
                    g = rng.choice([1, 3, spd + 1 if spd else 5])
                    pos += g                                    # a gap (filled by the writer)
                    dist.append("gap")
                if omit and rng.random() < 0.1:
                    my.append("omit %d %d" % (gid, rng.choice([0, 1])))
            # ---- UTC ----
            nu = rng.choice([0, 0, 1, 2, udf - 1, udf, udf + 1, udf * udf + 3, 2 * udf * udf + udf + 1])
            if tier == "quick":
                nu = min(nu, 250)
            t = rng.choice([0, 2**30 * 1700000000])
            s = first
            for j in range(nu):
                my.append("utc %d %d %d" % (gid, s, t))
                s += rng.choice([1, 10, 1000])
                t += rng.choice([1, 2**20, 2**30])
            dist.append("utc%d" % (0 if nu == 0 else 1 if nu < udf else 2 if nu < udf * udf else 3))
        # ---- annotations (FSR and VSR signals) ----
        na = rng.choice([0, 0, 1, 2, adf - 1, adf, adf + 1, adf * adf + 2, 2 * adf * adf + 3])
        if tier == "quick":
            na = min(na, 260)
        ts = rng.choice([0, 5, -3])
        for j in range(na):
            st = rng.choice([1, 2, 2, 3])
            at = rng.choice([0, 1, 2, 3])
            y = rng.choice(["3f800000", "7fc00000", "0", "c2280000"])
            my.append("anno %d %d %s %d %d %d %s" % (gid, ts, y, at, rng.randrange(0, 256) if rng.random() < 0.3 else 0, st, _payload(rng, st)))
            ts += rng.choice([0, 1, 1, 50])
        dist.append("anno%d" % (0 if na == 0 else 1 if na < adf else 2 if na < adf * adf else 3))
        # a REJECTED second definition of the same id with other layout parameters, somewhere in this signal's stream: it must leave
        # no trace (the chunks written afterwards still follow the stored definition)
        if my and rng.random() < 0.2:
            dup = proglib.sigdef_op(gid, src, dt, rate=0 if vsr else 1000, spd=(spd * 2 if spd else 4096), sdf=(sdf * 2 if sdf else 64),
                                    eps=(eps + sumdf if eps else 40), sumdf=sumdf or 10, adf=adf + 1, udf=udf + 1, name="e", units="e", stype=1 if vsr else 0)
            my.insert(rng.randrange(0, max(1, len(my) // 2 + 1)), dup)
            dist.append("dup_sigdef")
        data_ops.append((defop, my))
    # global annotations on signal 0 (VSR, defined by the library)
    g0 = []
    for j in range(rng.choice([0, 0, 1, 3, 12])):
        g0.append("anno 0 %d 0 1 0 2 %s" % (j * 7, _payload(rng, 2)))
    # user data
    uds = []
    for j in range(rng.choice([0, 0, 1, 2, 5, 12])):
        st = rng.choice([1, 1, 2, 3])
        uds.append("ud %d %d %s" % (rng.choice([0, 1, 7, 0x123, 0xfff]), st, _payload(rng, st, small=rng.random() < 0.8)))
    dist.append("ud%d" % min(len(uds), 2))
    # ---- interleave: every signal's definition precedes its data; streams are merged randomly ----
    streams = [[d] + m for d, m in data_ops] + [g0, uds]
    streams = [s for s in streams if s]
    body = []
    if rng.random() < 0.5:
        # definitions first (the common usage), then data round-robin in chunks
        for s in streams:
            if s and s[0].startswith("sig "):
                body.append(s.pop(0))
    while any(streams):
        s = rng.choice([x for x in streams if x])
        k = rng.choice([1, 1, 2, 5, 20])
        body += s[:k]
        del s[:k]
    if rng.random() < 0.1:
        body.insert(rng.randrange(len(body) + 1), "wflush")
    ops += body + ["wclose"]
    return ";".join(ops), dict(dist=dist, nsig=nsig, nsrc=nsrc, trivial=(nsig == 0 and nsrc == 0 and not uds))


# ---------------------------------------------------------------- classification of payload_prev_length findings
PPL_RE = re.compile(r"ppl=\[([^\]]*)\]")


def classify_ppl(items):
    """items: list of (offset, tag, stored, expected, prev_payload_length_is_zero) from the walker's report.
    Returns the set of signatures of the known class, or None if some mismatch is outside the class."""
    sigs = set()
    for (off, tag, stored, expected, prev_empty) in items:
        if prev_empty and expected == 0:
            sigs.add(SIG_PPL_EMPTY)           # chunk following a zero-payload chunk carries the length before it
        elif tag == TAG_SOURCE_DEF and stored == 0:
            sigs.add(SIG_PPL_SRC)             # SOURCE_DEF header rewritten by the next source definition
        else:
            return None
    return sigs


def parse_ppl(verdict):
    m = PPL_RE.search(verdict)
    if not m or not m.group(1).strip():
        return []
    out = []
    for it in m.group(1).split():
        off, tag, stored, expected, pe = it.split(":")
        out.append((int(off), int(tag), int(stored), int(expected), pe == "1"))
    return out


# ---------------------------------------------------------------- decoder vs the library's own reader
BIGNEG = -4000000000000000000


def reader_ops(script):
    """reader ops appended to a writer program: what the library's reader returns (definitions, user data,
    annotations, UTC entries, lengths).  Returns (ops string, ids in the order used)."""
    ids = [0]
    for op in script.split(";"):
        t = op.split()
        if t and t[0] == "sig" and int(t[1]) < 256 and int(t[1]) not in ids:
            ids.append(int(t[1]))
    ids.sort()
    ops = ["ropen", "srcs", "sigs", "udr"]
    for i in ids:
        ops += ["an %d %d" % (i, BIGNEG), "ut %d %d" % (i, BIGNEG), "len %d" % i]
    return ";" + ";".join(ops + ["rclose"]), ids


def _items(text):
    m = re.search(r"\[(.*?)\]", text)
    return m.group(1).split() if m else None


def compare_with_reader(walk_verdict, reader_out, ids):
    """walk_verdict: 'OK ... | <dump>' (mode dump); reader_out: the implementation's answers to reader_ops (from 'ropen' on).
    Returns a list of disagreements between the independent decoder and the library's reader."""
    if " | " not in walk_verdict:
        return []
    d = {}
    for it in walk_verdict.split(" | ", 1)[1].split(";"):
        t = it.split()
        if t[0] in ("srcs", "sigs", "udr"):
            d[t[0]] = it
        else:
            d[(t[0], int(t[1]))] = it
    rops = reader_out.split(";")
    if rops[0].split() != ["ropen", "0"]:
        return ["the library's reader does not open the file: %s" % rops[0]]
    out = []
    k = 1
    for name in ("srcs", "sigs"):
        if rops[k].split() != d[name].split():
            out.append("%s: reader '%s' / decoder '%s'" % (name, rops[k][:400], d[name][:400]))
        k += 1
    if _items(rops[k]) != _items(d["udr"]):
        out.append("user data: reader '%s' / decoder '%s'" % (rops[k][:400], d["udr"][:400]))
    k += 1
    defined = {key[1] for key in d if isinstance(key, tuple)}
    spd = {}
    for it in d["sigs"].split()[3:]:
        f = it.split(",")
        spd[int(f[0])] = int(f[5])
    for sid in ids:
        an, ut, ln = rops[k], rops[k + 1], rops[k + 2]
        k += 3
        if sid not in defined:
            continue          # the writer rejected this definition
        if _items(an) != _items(d[("an", sid)]):
            out.append("annotations of signal %d: reader '%s' / decoder '%s'" % (sid, an[:400], d[("an", sid)][:400]))
        fsr = ut.split()[1:2] == ["["]
        if fsr and re.search(r"\] 0 ", ut) and _items(ut) != _items(d[("ut", sid)]):
            out.append("UTC entries of signal %d: reader '%s' / decoder '%s'" % (sid, ut[:400], d[("ut", sid)][:400]))
        lt = ln.split()
        m = re.search(r"omitted=(\d+) end=(-?\d+) end_with_omitted=(-?\d+)", d[("data", sid)])
        if len(lt) == 3 and lt[1] == "0" and m:
            got, nom, end, endo = int(lt[2]), int(m.group(1)), int(m.group(2)), int(m.group(3))
            # the sample count of an omitted block is not stored: an omitted final block may be partial (and the reader may not count it at all: C15)
            ok = (got == end) if (nom == 0 or endo == end) else (end <= got <= endo and endo - got <= spd.get(sid, 1))
            if not ok:
                out.append("length of signal %d: reader %s / decoder %s" % (sid, ln, d[("data", sid)][:200]))
    return out


def run_walk(ctx, n=None, variant="plain", scripts=None, with_reader=True, parts=("walk", "log")):
    """Generate programs, run them on the implementation, walk every produced file and check every write log.
    Assumes vlib.build has been called by the caller (needs the `prog` kind and kinds walk/checklog).
    Returns the number of violations recorded (known findings excluded)."""
    n = n if n is not None else (120 if ctx.tier == "quick" else 900)
    cases = [(s, {}) for s in (scripts or [])] + [gen_case(ctx.rng, ctx.tier) for _ in range(n)]
    out = os.path.join(ctx.tmp, "walk")
    os.makedirs(out, exist_ok=True)
    progs, files, logs, idsl = [], [], [], []
    for i, (s, meta) in enumerate(cases):
        f = os.path.join(out, "p%d.jls" % i)
        l = os.path.join(out, "p%d.log" % i)
        files.append(f)
        logs.append(l)
        rops, ids = reader_ops(s) if with_reader else ("", [])
        idsl.append(ids)
        progs.append(s + ";save %s;logdump %s" % (f, l) + rops)
    scratch = os.path.join(ctx.tmp, "scratch_walk")
    os.makedirs(scratch, exist_ok=True)
    impl = vlib.run_c(variant, "prog", progs, args=[scratch, "timeout=60"], timeout=3000)
    vw = walk_files(ctx, files, "dump" if with_reader else "report")
    vl = check_logs(ctx, logs)
    # what the abstract specification (extracted Spec.v) says the same reader calls return: the decoder's rebuilt content must agree
    # with it too (a writer change that decoder and library reader interpret alike is caught here)
    spec_out = vlib.run_model("prog", [s + reader_ops(s)[0] for (s, _m) in cases], timeout=3000) if with_reader else [""] * len(cases)
    dist = {}
    nv = 0
    for i, ((script, meta), a, w, l) in enumerate(zip(cases, impl, vw, vl)):
        for dk in (meta.get("dist") or []):
            dist[dk] = dist.get(dk, 0) + 1
        wshort = w.split(" | ")[0]
        ctx.count(script, nontrivial=not meta.get("trivial", False), sample={"script": script[:300], "walk": wshort[:300], "checklog": l[:120]})
        wr_part, _, rd_part = a.partition(";ropen")
        replay = ("script:\n%s\n\nreplay:\n  echo '<script>;save /tmp/x.jls;logdump /tmp/x.log' | %s/%s/jlsrun prog /tmp\n"
                  "  echo /tmp/x.jls | %s/jlsmodel walk strict      (or: report, dump)\n  echo /tmp/x.log | %s/jlsmodel checklog\n\n"
                  "implementation: %s\nwalk: %s\nchecklog: %s\n" % (script, vlib.BUILD, variant, vlib.BUILD, vlib.BUILD, wr_part[-300:], wshort, l))
        ops = [o.split() for o in wr_part.split(";")]
        bad_ops = [" ".join(o) for o in ops if o and (o[0].startswith("FAULT") or (o[0] in ("wopen", "wclose") and o[1:2] != ["0"]))]
        if "FAULT" in a and not bad_ops:
            bad_ops = [a[a.index("FAULT"):][:40]]
        if bad_ops:
            nv += ctx.violation("walk_case_%d.txt" % i, replay, "writer program did not run to completion: %s" % bad_ops[0], sig=None)
            continue
        if "walk" not in parts:
            pass
        elif not w.startswith("OK"):
            nv += ctx.violation("walk_case_%d.txt" % i, replay, "format walk of a produced file failed: %s" % w[:160], sig=None)
        else:
            items = parse_ppl(wshort)
            if items:
                sigs = classify_ppl(items)
                if sigs is None:
                    nv += ctx.violation("walk_case_%d.txt" % i, replay, "payload_prev_length mismatch outside the known class: %s" % wshort[:200], sig=None)
                else:
                    for s in sorted(sigs):
                        nv += ctx.violation("walk_ppl_%s_%d.txt" % ("empty" if s == SIG_PPL_EMPTY else "src", i), replay,
                                            "payload_prev_length does not equal the previous chunk's payload_length (%s)" % s, sig=s)
            if with_reader and rd_part:
                diffs = compare_with_reader(w, "ropen" + rd_part, idsl[i])
                if diffs:
                    nv += ctx.violation("walk_reader_%d.txt" % i, replay + "\nreader: %s\n\n%s\n" % (rd_part[:3000], "\n".join(diffs)),
                                        "independent decoder and library reader disagree: %s" % diffs[0][:200], sig=None)
                sp_part = spec_out[i].partition(";ropen")[2]
                if sp_part and "FAULT" not in spec_out[i]:
                    diffs = compare_with_reader(w, "ropen" + sp_part, idsl[i])
                    if diffs:
                        nv += ctx.violation("walk_spec_%d.txt" % i, replay + "\nspecification: %s\n\n%s\n" % (sp_part[:3000], "\n".join(diffs).replace("reader", "specification")),
                                            "independent decoder and the abstract specification disagree: %s" % diffs[0][:200].replace("reader", "specification"), sig=None)
        if "log" in parts and not l.startswith("OK"):
            sig = None
            # strict checker: the only known class is the SOURCE_DEF header rewrite that zeroes payload_prev_length,
            # and only if everything else passes (the lenient verdict is appended by the driver)
            if re.match(r"FAIL \d+ header-rewrite-changes-payload_prev_length tag=1 \(ignoring payload_prev_length: OK", l):
                sig = SIG_PPL_SRC
            nv += ctx.violation("checklog_case_%d.txt" % i, replay, "write-once check of the backend write log failed: %s" % l[:200], sig=sig)
    ctx.extra["walk_distribution"] = dist
    return nv
