"""C09: gaps read back as fill values, overlapping writes keep the first-written samples."""
import vlib, proglib
from proglib import DT, DT_BITS

import glob, os as _os
PROP_FILES = sorted(_os.path.basename(f) for f in glob.glob(_os.path.join(vlib.COQ, "Properties_C09*.v"))) + ["Properties_C01_bits.v"]


def gen_case(rng, tier):
    dt = rng.choice(list(DT.keys()))
    w = DT_BITS[dt]
    if rng.random() < 0.6:
        spd, sdf, eps, sumdf = proglib.min_def(dt)
    else:
        spd, sdf, eps, sumdf = proglib.small_def(rng, dt)
    epd = spd // sdf
    while eps % epd:
        epd -= 1
    a_spd = sdf * epd
    fillbuf = (32768 * 8) // w if dt not in ("f32", "f64") else 32768 // (w // 8)     # samples per internal fill piece
    first = rng.choice([0, 0, 1, 3, 8, -5, 2**40 + 1, 3 * 2**32 + 123456])
    ops = ["wopen", "src 1 e e e e e", proglib.sigdef_op(1, 1, dt, spd=spd, sdf=sdf, eps=eps, sumdf=sumdf)]
    nxt = first
    events = []
    ncalls = rng.randrange(2, 9)
    seed = rng.randrange(1, 10**6)
    total_limit = 60000 if tier == "quick" else 250000
    for k in range(ncalls):
        n = rng.choice([1, 2, 3, 7, 8, 9, a_spd - 1, a_spd, a_spd + 1, sdf, 2 * a_spd + 5, rng.randrange(1, 4 * a_spd + 2)])
        n = max(1, n)
        if k == 0:
            sid = nxt
            ev = "first"
        else:
            r = rng.random()
            if r < 0.4:
                g = rng.choice([1, 2, 3, 7, 8, 9, a_spd - 1, a_spd, a_spd + 1, 3 * a_spd, 3 * a_spd + 1,
                                fillbuf - 1, fillbuf, fillbuf + 1, 2 * fillbuf + 3])
                if (nxt - first) + g > total_limit:
                    g = rng.choice([1, 3, a_spd + 1])
                sid = nxt + g
                ev = "gap%d" % (0 if g < a_spd else 1 if g < fillbuf else 2)
            elif r < 0.48:
                # a stale write far in the past (distance around multiples of 2^32 / 2^31, possibly before the first id):
                # everything in it was already accepted (or lies before the stream), nothing may be appended
                o = rng.choice([2**32, 2**32 + 1, 2**32 + n - 1, 2**32 + n // 2, 2**32 - 1, 2**31, 2**31 + 3, 2**33 + 5, 2**32 + 10, 5 * 2**32 + 2])
                sid = nxt - o
                ev = "overlap_far"
            elif r < 0.8:
                o = rng.choice([1, 2, 3, 7, 8, 9, n - 1, n, n + 1, n // 2, a_spd, a_spd + 1, rng.randrange(1, n + 3)])
                o = max(1, min(o, nxt - first))
                sid = nxt - o
                ev = "overlap_total" if o >= n else ("overlap_odd" if o % 2 else "overlap_even")
            else:
                sid = nxt
                ev = "normal"
        events.append(ev)
        pat = rng.choice([2, 2, 1, 4]) if w > 1 else 2
        ops.append("fsr 1 %d %d %d %d" % (sid, n, pat, seed + k))
        nxt = max(nxt, sid + n)
    total = nxt - first
    ops += ["wclose", "ropen", "len 1", "rd 1 0 %d" % total]
    for _ in range(10 if tier == "quick" else 30):
        start = rng.randrange(0, total)
        ln = rng.choice([1, 2, 7, 8, 9, a_spd, a_spd + 1, total - start, rng.randrange(1, total - start + 1)])
        ln = max(1, min(ln, total - start))
        ops.append("rd 1 %d %d" % (start, ln))
    ops.append("rclose")
    return ";".join(ops), dict(dt=dt, events=events, total=total, first=first, dist=["%s:%s" % (dt, e) for e in set(events)],
                               trivial=all(e in ("first", "normal") for e in events))


def pre_run(ctx):
    # gap clause ("summaries treat gap samples of float signals as absent"): stored SUMMARY entries of files with gaps
    # vs the extracted coq/SummQ.v model (Properties_C09_summ.v) and vs the statistics of the written samples
    import C02_summ
    C02_summ.run_gap(ctx, build=False)


def run(ctx):
    return proglib.run_prog_property(
        ctx, PROP_FILES, gen_case, ("fsr",), 250, 2500,
        "case = one FSR signal (all 15 types, minimal/small definitions, first ids 0,1,3,8,-5,2^40+1) written by 2..8 calls whose start is the next "
        "expected id, after it (gap lengths 1..3 blocks and around the internal fill buffer size) or before it (overlaps partial/total/odd/even, "
        "sub-byte for u1/u4/i4); then length, the whole signal and random windows are read and compared with the extracted Spec.fsr_write "
        "(fill = NaN/0, first-written kept); distinct = script; non-trivial = at least one gap or overlap",
        key_of=lambda m: (m["dt"], tuple(m["events"]), m["total"], m["first"]), pre_run=pre_run)


def replay(ctx, path):
    print(open(path).read())
    return 0
