"""C20: statistics accumulators are consistent under add, compute and combine.

Proof: coq/Properties_C20.v - over the rationals, for ALL finite sample lists, every split and
every grouping (model coq/StatsQ.v with the C's control flow, uint64 counts, DBL_MAX sentinels and
a pointer/store version of combine for the aliasing cases).
Not provable there: binary64 rounding.  The correspondence measures it: the real jls_statistics_*
functions (harness kind `stats`, plain and ASan/UBSan builds) and the extracted rational model run
the same programs over dyadic sample sequences; count/min/max must agree exactly, mean and s within
  |dmean| <= 4 n eps max|x|          |ds| <= 16 n eps (s + n max|x|^2)        eps = 2^-53
and the property's executable statement is evaluated on the C's own outputs: var >= 0,
min <= mean <= max, combine with an empty accumulator is the bit-exact identity, whole ==
combine(parts) (any grouping) within tolerance, a result that overwrites an operand is bit-identical
to the result in a fresh target.  A third, independent oracle (python integers/Fractions) checks the
extracted model against the definition of the statistics exactly."""
import json, os, struct, sys
from fractions import Fraction
import vlib

PROP_FILES = ["Properties_C20.v", "Properties_float.v"]
EPS = Fraction(1, 2 ** 53)
DBL_MAX = Fraction((2 ** 53 - 1) * 2 ** 971)
MEAS = {"mean": 0.0, "s": 0.0, "var": 0.0}    # largest observed |error| / tolerance per field
HEAVY = 6000          # model cost (element-operations) above which a line gets its own process


# ---------------------------------------------------------------- values
def tok(m, e):
    return ("-%xp%d" % (-m, e)) if m < 0 else ("%xp%d" % (m, e))


def fval(v):
    m, e = v
    return Fraction(m) * (Fraction(2) ** e)


def mkval(rng, bits, E, sign=None):
    """random value with exactly `bits` significant bits and 2^E <= |x| < 2^(E+1)"""
    m = (1 << (bits - 1)) | (rng.getrandbits(bits - 1) if bits > 1 else 0)
    if sign is None:
        sign = rng.choice((1, -1))
    return (sign * m, E - (bits - 1))


def family_seq(rng, fam, n):
    """returns list of (m, e); magnitudes within 2^-20 .. 2^40 (or 0)"""
    if n == 0:
        return []
    if fam == "const":
        v = mkval(rng, rng.randint(1, 53), rng.randint(-20, 39))
        return [v] * n
    if fam == "alt":
        a = mkval(rng, rng.randint(1, 53), rng.randint(-20, 39))
        b = (-a[0], a[1]) if rng.random() < 0.5 else mkval(rng, rng.randint(1, 53), rng.randint(-20, 39))
        return [a if i % 2 == 0 else b for i in range(n)]
    if fam == "offset":      # large offset, small spread: (2^52 + r) * 2^e
        E = rng.randint(20, 39)
        w = rng.randint(1, 20)
        sg = rng.choice((1, -1))
        return [(sg * ((1 << 52) + rng.getrandbits(w)), E - 52) for _ in range(n)]
    if fam == "decades":     # every element its own magnitude and precision
        return [mkval(rng, rng.randint(1, 53), rng.randint(-20, 39)) for _ in range(n)]
    if fam == "same":        # full 53-bit mantissas, one binade
        E = rng.randint(-20, 39)
        return [mkval(rng, 53, E) for _ in range(n)]
    if fam == "f32":         # exactly representable as float: compute_f32 is run too
        return [mkval(rng, rng.randint(1, 24), rng.randint(-20, 39)) for _ in range(n)]
    if fam == "ramp":
        st = mkval(rng, rng.randint(1, 20), rng.randint(-20, 10))
        i0 = rng.randint(-n, n)
        return [((i0 + i) * st[0], st[1]) for i in range(n)]
    if fam == "outlier":     # tiny values and one huge one
        E = rng.randint(-20, -10)
        xs = [mkval(rng, rng.randint(1, 53), E) for _ in range(n)]
        xs[rng.randrange(n)] = mkval(rng, rng.randint(1, 53), 39)
        return xs
    if fam == "zeros":       # zeros mixed with one-sided values
        sg = rng.choice((1, -1))
        return [(0, 0) if rng.random() < 0.5 else mkval(rng, rng.randint(1, 53), rng.randint(-20, 39), sg) for _ in range(n)]
    raise ValueError(fam)


FAMILIES = ["const", "alt", "offset", "decades", "same", "f32", "ramp", "outlier", "zeros"]


# ---------------------------------------------------------------- programs
class Prog:
    def __init__(self, vals, family, kind):
        self.vals, self.family, self.kind = vals, family, kind
        self.ops, self.prints, self.nreg, self.free = [], [], 0, []
        self.cost = 0
        self.special = False
        self.ngroup = 0

    def reg(self):
        if self.free:
            return self.free.pop()
        self.nreg += 1
        return self.nreg - 1

    def release(self, r):
        self.free.append(r)

    def op(self, *a):
        self.ops.append(" ".join(str(x) for x in a))

    def leaf(self, rng, r, lo, hi, how=None):
        how = how or rng.choice("CCA")
        if how == "C":
            self.op("C", r, lo, hi)
        elif how == "F":
            self.op("F", r, lo, hi)
        else:
            self.op("R", r)
            mid = rng.randint(lo, hi)
            self.op("A", r, lo, mid)
            self.op("A", r, mid, hi)
        self.cost += (hi - lo) + 3

    def combine(self, t, a, b):
        self.op("M", t, a, b)
        self.cost += 12

    def P(self, r, segs, group=None):
        self.op("P", r)
        self.prints.append({"segs": segs, "group": group})

    def newgroup(self):
        self.ngroup += 1
        return self.ngroup

    def line(self):
        n = len(self.vals)
        return "%d %d %s%s%s" % (max(1, self.nreg), n, " ".join(tok(m, e) for (m, e) in self.vals), " " if n else "", " ".join(self.ops))


def prog_routes(rng, vals, fam):
    """whole-array compute, one-at-a-time add, (f32 compute)"""
    n = len(vals)
    out = []
    for how in ("C", "A") + (("F",) if fam == "f32" else ()):
        p = Prog(vals, fam, "route-" + how)
        r = p.reg()
        p.leaf(rng, r, 0, n, how)
        p.P(r, [(0, n)])
        out.append(p)
    return out


def prog_splits(rng, vals, fam, points):
    """for each split point: parts -> combine into a fresh target, into a, into b (bit-identical group),
    swapped operands; parts printed now and then"""
    n = len(vals)
    p = Prog(vals, fam, "splits")
    a, b, t, sa, sb, w = [p.reg() for _ in range(6)]
    p.leaf(rng, w, 0, n, "C")
    p.P(w, [(0, n)])
    for j in points:
        p.leaf(rng, a, 0, j)
        p.leaf(rng, b, j, n)
        p.op("Y", sa, a)
        p.op("Y", sb, b)
        g = p.newgroup()
        p.combine(t, a, b); p.P(t, [(0, n)], g)
        p.combine(a, a, b); p.P(a, [(0, n)], g)
        p.op("Y", a, sa)
        p.combine(b, a, b); p.P(b, [(0, n)], g)
        p.op("Y", b, sb)
        if rng.random() < 0.5:
            g2 = p.newgroup()
            p.combine(t, b, a); p.P(t, [(0, n)], g2)       # operands swapped
            p.combine(b, b, a); p.P(b, [(0, n)], g2)
            p.op("Y", b, sb)
        if rng.random() < 0.3:
            p.P(a, [(0, j)]); p.P(b, [(j, n)])
    return p


def prog_empty(rng, vals, fam):
    """combine with an empty accumulator in every position / aliasing; empty with empty; self-combine"""
    n = len(vals)
    p = Prog(vals, fam, "empty")
    s, e, t, sv = [p.reg() for _ in range(4)]
    p.leaf(rng, s, 0, n)
    how = rng.choice(("fresh", "R", "C0", "A0"))
    if how == "R":
        p.op("R", e)
    elif how == "C0":
        p.op("C", e, 0, 0)
    elif how == "A0":
        p.op("R", e); p.op("A", e, 0, 0)
    g = p.newgroup()
    p.P(s, [(0, n)], g)
    p.op("Y", sv, e)
    p.combine(t, s, e); p.P(t, [(0, n)], g)
    p.combine(t, e, s); p.P(t, [(0, n)], g)
    p.combine(s, s, e); p.P(s, [(0, n)], g)
    p.combine(s, e, s); p.P(s, [(0, n)], g)
    p.combine(e, s, e); p.P(e, [(0, n)], g)      # the empty operand is overwritten
    p.op("Y", e, sv)
    p.combine(e, e, s); p.P(e, [(0, n)], g)
    p.op("Y", e, sv)
    g0 = p.newgroup()
    p.P(e, [], g0)
    p.combine(t, e, e); p.P(t, [], g0)
    p.combine(e, e, e); p.P(e, [], g0)
    # a == b: the statistics of the sequence taken twice
    g2 = p.newgroup()
    p.combine(t, s, s); p.P(t, [(0, n), (0, n)], g2)
    p.combine(s, s, s); p.P(s, [(0, n), (0, n)], g2)
    return p


def prog_tree(rng, vals, fam, nleaves, pprint=0.15):
    """random grouping: random cut points (empty leaves allowed), random binary tree over the leaves,
    every combine with a random aliasing mode, registers reused (stale contents)"""
    n = len(vals)
    p = Prog(vals, fam, "tree")
    cuts = sorted(rng.randint(0, n) for _ in range(max(0, nleaves - 1)))
    bounds = [0] + cuts + [n]
    leaves = [(bounds[i], bounds[i + 1]) for i in range(len(bounds) - 1)]

    def build(i, j):
        if j - i == 1:
            r = p.reg()
            p.leaf(rng, r, leaves[i][0], leaves[i][1])
            return r
        k = rng.randint(i + 1, j - 1)
        if rng.random() < 0.5:
            a = build(i, k); b = build(k, j)
        else:
            b = build(k, j); a = build(i, k)
        mode = rng.choice(("fresh", "a", "b"))
        if mode == "fresh":
            t = p.reg()
            p.combine(t, a, b)
            p.release(a); p.release(b)
        elif mode == "a":
            t = a
            p.combine(a, a, b)
            p.release(b)
        else:
            t = b
            p.combine(b, a, b)
            p.release(a)
        if rng.random() < pprint:
            p.P(t, [(leaves[i][0], leaves[j - 1][1])])
        return t

    # python recursion depth: at most the number of leaves
    root = build(0, len(leaves))
    p.P(root, [(0, n)])
    return p


def prog_chain(rng, vals, fam):
    """left-deep chain of single-sample leaves, accumulated in place (Welford by combine)"""
    n = len(vals)
    p = Prog(vals, fam, "chain")
    acc, b = p.reg(), p.reg()
    right = rng.random() < 0.5
    for i in range(n):
        p.leaf(rng, b, i, i + 1, "C")
        if right:
            p.combine(acc, b, acc)
        else:
            p.combine(acc, acc, b)
    p.P(acc, [(0, n)])
    return p


def prog_wrap(rng):
    """uint64 count wrap (k poked into the public struct): ++k -> 0 divides by (double)0;
    a->k + b->k -> 0 takes the kt == 0 branch.  Model predictions: NONFINITE / reset."""
    out = []
    for which in range(3):
        v = mkval(rng, rng.randint(1, 53), rng.randint(-20, 39))
        p = Prog([v, v], "wrap", "wrap")
        p.special = True
        a, b, t = p.reg(), p.reg(), p.reg()
        if which == 0:
            p.op("C", a, 0, 2); p.op("K", a, "ffffffffffffffff"); p.op("A", a, 0, 1); p.P(a, None)
        elif which == 1:
            p.op("C", a, 0, 1); p.op("C", b, 1, 2)
            p.op("K", a, "8000000000000000"); p.op("K", b, "8000000000000000")
            p.combine(t, a, b); p.P(t, None)
        else:
            p.op("C", a, 0, 1); p.op("C", b, 1, 2)
            p.op("K", a, "ffffffffffffffff"); p.op("K", b, "1")
            p.combine(a, a, b); p.P(a, None)
        out.append(p)
    return out


def gen_cases(ctx):
    rng = ctx.rng
    quick = ctx.tier == "quick"
    progs = []
    # 1. every length 0..Nsmall, every family: all routes, every split point, empties, trees, chain
    nsmall = 12 if quick else 40
    for n in range(0, nsmall + 1):
        for fam in FAMILIES:
            vals = family_seq(rng, fam, n)
            progs += prog_routes(rng, vals, fam)
            progs.append(prog_splits(rng, vals, fam, list(range(0, n + 1))))
            progs.append(prog_empty(rng, vals, fam))
            progs.append(prog_tree(rng, vals, fam, rng.randint(1, n + 2), pprint=0.5))
            progs.append(prog_chain(rng, vals, fam))
    # 2. medium lengths
    for _ in range(90 if quick else 700):
        fam = rng.choice(FAMILIES)
        n = rng.randint(nsmall + 1, 300 if quick else 600)
        vals = family_seq(rng, fam, n)
        progs += prog_routes(rng, vals, fam)
        pts = sorted(set([0, 1, n - 1, n] + [rng.randint(0, n) for _ in range(4)]))
        progs.append(prog_splits(rng, vals, fam, pts))
        progs.append(prog_tree(rng, vals, fam, rng.randint(2, 40)))
        if rng.random() < 0.3:
            progs.append(prog_empty(rng, vals, fam))
        if n <= 200 and rng.random() < 0.4:
            progs.append(prog_chain(rng, vals, fam))
    # 3. a few long ones (up to 10^4)
    longs = [(1000, "decades"), (2500, "offset"), (10000, "f32")] if quick else \
            [(1000, f) for f in FAMILIES] + [(3000, "decades"), (3000, "offset"), (5000, "alt"), (5000, "same"),
                                             (10000, "f32"), (10000, "decades"), (10000, "offset"), (10000, "const"), (10000, "outlier")]
    for (n, fam) in longs:
        vals = family_seq(rng, fam, n)
        progs += prog_routes(rng, vals, fam)
        progs.append(prog_tree(rng, vals, fam, rng.randint(8, 40)))
        pts = sorted(set([0, n] + [rng.randint(0, n)]))
        progs.append(prog_splits(rng, vals, fam, pts))
    # 4. count wrap (model predictions of the non-finite / reset outcomes)
    progs += prog_wrap(rng)
    return progs


# ---------------------------------------------------------------- oracles
def exact_stats(vals, segs):
    """definition of the statistics, exact, independent of the Coq model (integers scaled to a common exponent)"""
    xs = []
    for (lo, hi) in segs:
        xs += vals[lo:hi]
    n = len(xs)
    if n == 0:
        return {"k": 0, "mean": Fraction(0), "s": Fraction(0), "min": DBL_MAX, "max": -DBL_MAX, "var": Fraction(0), "maxabs": Fraction(0)}
    emin = min(e for (_, e) in xs)
    ints = [m << (e - emin) for (m, e) in xs]
    sc = Fraction(2) ** emin
    tot = sum(ints)
    sq = sum(i * i for i in ints)
    mean = Fraction(tot, n) * sc
    s = (Fraction(sq) - Fraction(tot * tot, n)) * sc * sc
    return {"k": n, "mean": mean, "s": s, "min": min(ints) * sc, "max": max(ints) * sc,
            "var": s / (n - 1) if n > 1 else Fraction(0), "maxabs": max(abs(min(ints)), abs(max(ints))) * sc}


def parse_q(t):
    a, b = t.split("/")
    return Fraction(int(a, 16), int(b, 16))


def parse_model(txt):
    if txt == "NONFINITE":
        return None
    d = dict(f.split("=") for f in txt.split())
    out = {"k": int(d["k"], 16)}
    for f in ("mean", "s", "min", "max", "var"):
        out[f] = parse_q(d[f])
    return out


def parse_c(txt):
    d = dict(f.split("=") for f in txt.split())
    out = {"k": int(d["k"], 16), "bits": txt}
    for f in ("mean", "s", "min", "max", "var"):
        x = struct.unpack(">d", bytes.fromhex(d[f]))[0]
        out[f] = Fraction(x) if (x == x and x not in (float("inf"), float("-inf"))) else None
    return out


def tolerances(ex):
    n, mx = ex["k"], ex["maxabs"]
    tm = 4 * n * EPS * mx
    ts = 16 * n * EPS * (ex["s"] + n * mx * mx)
    tv = (ts / (n - 1) + 2 * EPS * ex["var"]) if n > 1 else Fraction(0)
    return tm, ts, tv


def check_line(p, mline, cline):
    """returns list of (sig, message) for one program; p.prints[i] annotates the i-th printed result"""
    bad = []
    mparts = [x.strip() for x in mline.split("|")] if mline else []
    cparts = [x.strip() for x in cline.split("|")] if cline else []
    if len(mparts) != len(p.prints) or len(cparts) != len(p.prints) or "?" in mline or "?" in cline or "PROCFAIL" in mline or "PROCFAIL" in cline or "NOTF32" in cline:
        return [("C20:harness", "malformed result: model=%r implementation=%r" % (mline[:200], cline[:200]))]
    groups = {}
    byrange = {}
    for i, (ann, mt, ct) in enumerate(zip(p.prints, mparts, cparts)):
        try:
            m = parse_model(mt)
            c = parse_c(ct)
        except Exception as e:      # noqa
            bad.append(("C20:harness", "unparsable result #%d: %r / %r" % (i, mt[:100], ct[:100])))
            continue
        if p.special:
            if m is None:
                if c["mean"] is not None and c["s"] is not None:
                    bad.append(("C20:model-wrap", "print #%d: model predicts a non-finite result (division by (double)0), implementation gives %s" % (i, ct)))
            else:
                for f in ("mean", "s", "min", "max", "var"):
                    if c[f] != m[f]:
                        bad.append(("C20:model-wrap", "print #%d: field %s: model %s, implementation %s" % (i, f, m[f], ct)))
                if c["k"] != m["k"]:
                    bad.append(("C20:model-wrap", "print #%d: k: model %x, implementation %x" % (i, m["k"], c["k"])))
            continue
        ex = exact_stats(p.vals, ann["segs"])
        tm, ts, tv = tolerances(ex)
        where = "print #%d (samples %s, n=%d)" % (i, ann["segs"], ex["k"])
        # (a) extracted model == definition, exactly
        if m is None or any(m[f] != ex[f] for f in ("k", "mean", "s", "min", "max", "var")):
            bad.append(("C20:model-vs-definition", "%s: extracted model %s differs from the exact statistics" % (where, mt[:300])))
            continue
        # (b) exact fields
        for f in ("k", "min", "max"):
            if c[f] != m[f]:
                bad.append(("C20:%s-differs" % f, "%s: %s: implementation %s, exact %s   [%s]" % (where, f, c[f], m[f], ct)))
        # (c) rounded fields within the stated tolerance
        for f, t in (("mean", tm), ("s", ts), ("var", tv)):
            if c[f] is None:
                bad.append(("C20:%s-nonfinite" % f, "%s: %s is not finite   [%s]" % (where, f, ct)))
            elif abs(c[f] - m[f]) <= t:
                if t > 0:
                    MEAS[f] = max(MEAS[f], float(abs(c[f] - m[f]) / t))
            else:
                bad.append(("C20:%s-tolerance" % f, "%s: %s: implementation %s, exact %s, |d|=%.3e > tolerance %.3e   [%s]"
                            % (where, f, float(c[f]), float(m[f]), float(abs(c[f] - m[f])), float(t), ct)))
        # (d) the property's own statement on the implementation's output
        if c["var"] is not None and c["var"] < 0 or c["s"] is not None and c["s"] < 0:
            bad.append(("C20:var-negative", "%s: negative variance / s   [%s]" % (where, ct)))
        if ex["k"] > 0 and c["mean"] is not None and c["min"] is not None and c["max"] is not None:
            if c["mean"] < c["min"] - tm or c["mean"] > c["max"] + tm:
                bad.append(("C20:mean-outside-min-max", "%s: min <= mean <= max violated beyond rounding   [%s]" % (where, ct)))
        if ann["group"] is not None:
            groups.setdefault(ann["group"], []).append((i, ct))
        byrange.setdefault(tuple(ann["segs"]), []).append((i, c, tm, ts))
    # (e) bit-exact groups: result overwriting an operand == fresh target; combine with empty == identity
    for g, items in groups.items():
        ref = items[0]
        for (i, ct) in items[1:]:
            if ct != ref[1]:
                bad.append(("C20:alias-or-identity-not-bit-exact", "print #%d differs from print #%d although only the target aliasing / an empty operand differs:\n   #%d %s\n   #%d %s"
                            % (i, ref[0], ref[0], ref[1], i, ct)))
    # (f) every route / grouping over the same samples agrees within rounding, on the C's outputs alone
    for segs, items in byrange.items():
        i0, c0, tm, ts = items[0]
        for (i, c, _, _) in items[1:]:
            if c["mean"] is None or c0["mean"] is None or c["s"] is None or c0["s"] is None:
                continue
            if c["k"] != c0["k"] or c["min"] != c0["min"] or c["max"] != c0["max"] or abs(c["mean"] - c0["mean"]) > 2 * tm or abs(c["s"] - c0["s"]) > 2 * ts:
                bad.append(("C20:routes-disagree", "prints #%d and #%d cover the same samples %s but disagree beyond rounding:\n   %s\n   %s" % (i0, i, list(segs), c0["bits"], c["bits"])))
    return bad


def replay_text(p, variant, sig, msgs, mline, cline):
    line = p.line()
    return ("# C20 violation (%s) on build %s; program kind %s, family %s, n=%d\n" % (sig, variant, p.kind, p.family, len(p.vals)) +
            "".join("# " + m.replace("\n", "\n# ") + "\n" for m in msgs[:6]) +
            "# implementation: %s\n# model:          %s\n" % (cline[:2000], mline[:2000]) +
            "# replay by hand:  tail -n 1 <this file> | %s/%s/jlsrun stats      (model: ... | %s/jlsmodel stats)\n" % (vlib.BUILD, variant, vlib.BUILD) +
            "# or:              python3 tools/check.py C20 --replay <this file>\n" +
            "ANNOT " + json.dumps({"prints": p.prints, "special": p.special, "variant": variant, "kind": p.kind, "family": p.family}) + "\n" +
            line + "\n")


def run_lines(lines, costs, kind_runner):
    """heavy lines each in their own process, the rest sharded"""
    heavy = [i for i, c in enumerate(costs) if c > HEAVY]
    light = [i for i, c in enumerate(costs) if c <= HEAVY]
    out = [None] * len(lines)
    import threading
    res = {}

    def work(name, idx, shards):
        res[name] = kind_runner([lines[i] for i in idx], shards)
    th = [threading.Thread(target=work, args=("h", heavy, max(1, len(heavy)))),
          threading.Thread(target=work, args=("l", light, vlib.NPROC))]
    [t.start() for t in th]
    [t.join() for t in th]
    for i, r in zip(heavy, res["h"]):
        out[i] = r
    for i, r in zip(light, res["l"]):
        out[i] = r
    return out


def evaluate(ctx, progs, variants):
    lines = [p.line() for p in progs]
    costs = [p.cost for p in progs]
    model = run_lines(lines, costs, lambda ls, sh: vlib.run_model("stats", ls, shards=sh))
    nviol = 0
    seen_sigs = {}
    dist = {}
    for variant in variants:
        impl = vlib.run_c(variant, "stats", lines)
        for p, mline, cline in zip(progs, model, impl):
            n = len(p.vals)
            ctx.count((variant, p.line()), nontrivial=(n >= 2 or p.special),
                      sample=({"build": variant, "program": p.kind, "family": p.family, "n": n, "prints": len(p.prints),
                               "first_result_c": cline.split("|")[0].strip()[:160], "first_result_model": mline.split("|")[0].strip()[:160]}
                              if (variant == "plain" and n >= 5 and p.kind in ("tree", "splits") and len(ctx.cov["samples"]) < 6) else None))
            if variant == variants[0]:
                b = "n=0" if n == 0 else "n=1" if n == 1 else "n<=12" if n <= 12 else "n<=300" if n <= 300 else "n<=3000" if n <= 3000 else "n<=10000"
                dist.setdefault("length", {}).setdefault(b, 0); dist["length"][b] += 1
                dist.setdefault("family", {}).setdefault(p.family, 0); dist["family"][p.family] += 1
                dist.setdefault("program", {}).setdefault(p.kind, 0); dist["program"][p.kind] += 1
                dist["printed_results"] = dist.get("printed_results", 0) + len(p.prints)
            bad = check_line(p, mline, cline)
            if bad:
                bysig = {}
                for sig, msg in bad:
                    bysig.setdefault(sig, []).append(msg)
                for sig, msgs in bysig.items():
                    seen_sigs[sig] = seen_sigs.get(sig, 0) + 1
                    if seen_sigs[sig] <= 2:       # at most two replays per signature
                        nviol += 1
                        ctx.violation("stats_%s_%s_%d.txt" % (sig.split(":")[1], variant, seen_sigs[sig]),
                                      replay_text(p, variant, sig, msgs, mline, cline),
                                      "%s on build %s (%s, %s, n=%d): %s" % (sig, variant, p.kind, p.family, n, msgs[0].splitlines()[0][:200]),
                                      sig=sig)
    ctx.extra["distribution"] = dist
    ctx.extra["measured_max_error_over_tolerance"] = dict(MEAS)
    ctx.extra["violation_signatures"] = seen_sigs
    return nviol


def run(ctx):
    vlib.build(ctx, PROP_FILES, variants=("plain", "asan"))
    progs = gen_cases(ctx)
    evaluate(ctx, progs, ("plain", "asan"))
    ctx.cov["rule"] = ("case = one program (script line) over one dyadic sample sequence (families: constant, alternating, large offset, "
                       "random over 60 binades, one binade full mantissa, float-representable, ramp, outlier, zeros mixed; lengths: every "
                       "0..%d for every family, random up to %d, a few up to 10^4); programs: whole-array compute_f64/_f32, one-at-a-time add, "
                       "every split point (short) or boundary+random split points (long) combined into a fresh target / into a / into b / "
                       "swapped, combine with an empty accumulator in every position, self-combine, random grouping trees with random "
                       "aliasing and register reuse, left/right-deep chains of single samples, uint64 count wrap; each on the plain and "
                       "ASan/UBSan builds.  distinct = (build, script line); non-trivial = at least 2 samples (or a wrap case); every printed "
                       "result is compared with the extracted model (k/min/max exact, mean/s/var within the stated tolerance), the model with "
                       "the exact definition (python integers), and the property oracle is evaluated on the C outputs"
                       % ((12, 300) if ctx.tier == "quick" else (40, 600)))
    if ctx.tier == "thorough":
        vlib.coqchk(ctx, ["Properties_C20"])
    return vlib.finish(ctx, "proof", "make -C /verif/coq -f Makefile.coq Properties_C20.vo && coqc -Q . JLS Properties_C20.v (Print Assumptions)",
                       trusted_extra=["binary64 rounding is NOT covered by the proof: agreement of the double computation with the exact rational result "
                                      "is measured on the generated cases only, under |dmean| <= 4 n eps max|x|, |ds| <= 16 n eps (s + n max|x|^2)",
                                      "python fractions.Fraction / int arithmetic in tools/props/C20.py (tolerance evaluation, third oracle)"],
                       note="theorems quantify over all finite lists of rationals within +-DBL_MAX and all splits/groupings/aliasings; "
                            "hypotheses: count below 2^64 (uint64 k), |x| <= DBL_MAX (min/max start from the +-DBL_MAX sentinels); NaN/inf samples and "
                            "overflow of the running sum (|x| near DBL_MAX) are outside the model")


def replay(ctx, path):
    txt = open(path).read().splitlines()
    ann = [l for l in txt if l.startswith("ANNOT ")]
    if not ann:
        print(open(path).read())
        return 0
    meta = json.loads(ann[0][6:])
    line = txt[-1]
    vlib.build(ctx, PROP_FILES, variants=("plain", "asan"))
    toks = line.split()
    n = int(toks[1])
    vals = []
    for t in toks[2:2 + n]:
        mm, ee = t.split("p")
        vals.append((int(mm, 16), int(ee)))
    p = Prog(vals, meta.get("family", "?"), meta.get("kind", "?"))
    p.special = meta["special"]
    p.prints = [{"segs": ([tuple(s) for s in a["segs"]] if a["segs"] is not None else None), "group": a["group"]} for a in meta["prints"]]
    mline = vlib.run_model("stats", [line])[0]
    cline = vlib.run_c(meta["variant"], "stats", [line])[0]
    bad = check_line(p, mline, cline)
    print("implementation: " + cline[:4000])
    print("model:          " + mline[:4000])
    for sig, msg in bad:
        print("%s: %s" % (sig, msg))
    print("replay: %d finding(s)" % len(bad))
    return 1 if bad else 0
