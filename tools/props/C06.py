"""C06: threaded writer applies accepted calls exactly once, in order, on any schedule.
(shared engine of the `twr` slice; tools/props/C07.py imports it.)

Proof: coq/Properties_C06.v (interleaving model coq/TwrModel.v: fifo invariant, mutual
exclusion, rejected calls leave no trace, refinement of the synchronous writer).
Tie to the real code: harness/twr_sched.c (`twrrun`): the library objects of /repo with the
small-queue hook, pthread/time/file/queue calls interposed at link time, real threads under a
deterministic baton scheduler with virtual time.  For each (program, schedule):
  * the property oracles are evaluated on the real code's outputs (file bytes vs. the synchronous
    reference produced in the same binary, return codes, queue events, message hashes);
  * the extracted model `tw_step` replays the same scheduler decisions and must predict every
    wrapped call and its result (kind `twr` of ocaml/drv_twr.ml).
"""
import os, re, subprocess, sys, threading, time
import vlib

PROP_FILES = ["Properties_C06.v", "Properties_C06_msg.v"]
SIZES = (4096, 512)
HDR = 40          # sizeof(struct msg_header_s); checked against the trace (alloc sizes of empty messages)

SIG_CLOSE_HANG = "twr-close-send-failure-hang"
SIG_OOB_INDEX = "twr-signal-def-oob-index"
SIG_UNINIT_SIZE = "twr-fsr-uninit-entry-size"
SIG_FAILED_DEF_SIZE = "twr-signal-def-failed-size-update"
SIG_MSG_STR = "twr-message-str-oob"
STDERR_SIGS = [
    (re.compile(r"index \d+ out of bounds for type 'uint8_t \[256\]'"), SIG_OOB_INDEX),
    (re.compile(r"index \d+ out of bounds for type 'char \*\[6\]'"), SIG_MSG_STR),
]

DT_BITS = {"f32": 32, "f64": 64, "u1": 1, "u4": 4, "u8": 8, "u16": 16, "u32": 32, "u64": 64,
           "i4": 4, "i8": 8, "i16": 16, "i32": 32, "i64": 64}


# --------------------------------------------------------------------------- build
def twr_build(ctx):
    mk = ["make", "-f", os.path.join(vlib.VERIF, "harness", "twr.mk"), "-j%d" % vlib.NPROC, "REPO=" + vlib.REPO, "B=" + vlib.BUILD]
    with vlib.BuildLock():
        rc, out = vlib.sh(mk, timeout=1200)
    if rc != 0:
        print(out[-4000:])
        raise SystemExit("twr harness build failed (does /repo compile?)")


def twrrun(variant, size):
    return os.path.join(vlib.BUILD, "twr_%s_%d" % (variant, size), "twrrun")


def run_twr(ctx, variant, size, lines, timeout=1500):
    """-> list of (result_line, stderr_text_of_its_shard)"""
    if not lines:
        return []
    env = dict(os.environ)
    env["ASAN_OPTIONS"] = "detect_leaks=0:abort_on_error=0:exitcode=99:allocator_may_return_null=1"
    env["UBSAN_OPTIONS"] = "print_stacktrace=1:halt_on_error=1"
    shards = max(1, min(vlib.NPROC, len(lines)))
    per = (len(lines) + shards - 1) // shards
    chunks = [lines[i:i + per] for i in range(0, len(lines), per)]
    res = [None] * len(chunks)

    def work(k):
        scratch = os.path.join(ctx.tmp, "twr_%s_%d_%d" % (variant, size, k))
        os.makedirs(scratch, exist_ok=True)
        try:
            r = subprocess.run([twrrun(variant, size), scratch], input="\n".join(chunks[k]) + "\n", capture_output=True,
                               text=True, timeout=timeout, env=env, errors="replace")
            res[k] = (r.returncode, r.stdout, r.stderr)
        except subprocess.TimeoutExpired as e:
            res[k] = (124, (e.stdout or b"").decode(errors="replace") if isinstance(e.stdout, bytes) else (e.stdout or ""), "TIMEOUT")
    th = [threading.Thread(target=work, args=(k,)) for k in range(len(chunks))]
    [t.start() for t in th]
    [t.join() for t in th]
    out = []
    for k, ch in enumerate(chunks):
        rc, o, e = res[k]
        ol = o.splitlines()
        if len(ol) != len(ch):
            ol = ol[:len(ch)] + ["? st=PROCFAIL:rc%s tr=END" % rc] * (len(ch) - len(ol))
        out.extend((l, e) for l in ol)
    return out


# --------------------------------------------------------------------------- result parsing
class Res:
    pass


EV_RE = re.compile(r"^(\d)(!?[A-Za-z])(.*)$")


def parse_result(line):
    r = Res()
    r.raw = line
    head, _, trace = line.partition(" tr=")
    toks = head.split()
    r.name = toks[0] if toks else "?"
    r.f = {}
    for t in toks[1:]:
        k, _, v = t.partition("=")
        r.f[k] = v
    r.st = r.f.get("st", "?")
    tr = trace.split()
    if tr and tr[-1] == "END":
        tr = tr[:-1]
    r.ev = []          # (tid or None, code, arg)
    for t in tr:
        if t[0] == "T":
            r.ev.append((None, "T", t[1:]))
        else:
            m = EV_RE.match(t)
            if m:
                r.ev.append((int(m.group(1)), m.group(2), m.group(3)))
            else:
                r.ev.append((None, "?", t))

    def ilist(s):
        return [] if s in ("-", "", None) else s.split(",")
    r.rc = [ilist(r.f.get("rc0")), ilist(r.f.get("rc1"))]
    r.acc = [tuple(int(x) for x in a.split(".")) for a in ilist(r.f.get("acc"))]
    r.app = ilist(r.f.get("app"))
    r.q = int(r.f.get("q", "0") or 0)
    ec = ilist(r.f.get("ec"))
    r.busy, r.timed_out, r.endtag = (int(ec[0]), int(ec[1]), ec[2]) if len(ec) == 3 else (19, 11, "ff")
    return r


def sched_of_trace(r):
    """explicit schedule string that reproduces the run (scheduling steps are upper-case events)"""
    out = []
    for (tid, code, arg) in r.ev:
        if code == "T":
            out.append("T" + arg)
        elif tid is not None and code.isupper() and code not in ("C",) and len(code) == 1:
            if out and not out[-1].startswith("T") and out[-1].split("*")[0] == str(tid):
                a = out[-1].split("*")
                out[-1] = "%d*%d" % (tid, (int(a[1]) if len(a) > 1 else 1) + 1)
            else:
                out.append(str(tid))
    return ",".join(out)


def stats_of(r, d):
    prev_off = {}
    for (tid, code, arg) in r.ev:
        if code == "a":
            if arg.endswith(":-"):
                d["queue_full_events"] = d.get("queue_full_events", 0) + 1
            else:
                off = int(arg.split(":")[1])
                if prev_off.get("o", -1) > off:
                    d["wrap_events"] = d.get("wrap_events", 0) + 1
                prev_off["o"] = off
        elif code == "T":
            d["time_advances"] = d.get("time_advances", 0) + 1
    for p in (0, 1):
        for x in r.rc[p]:
            if x == str(r.busy):
                d["rc_busy"] = d.get("rc_busy", 0) + 1
            elif x == str(r.timed_out):
                d["rc_timed_out"] = d.get("rc_timed_out", 0) + 1
    d["steps_total"] = d.get("steps_total", 0) + int(r.f.get("steps", "0") or 0)
    d["st_" + r.st.split(":")[0]] = d.get("st_" + r.st.split(":")[0], 0) + 1


# --------------------------------------------------------------------------- oracles
def close_hang_shape(r):
    """DEADLOCK with producer 0 inside jls_twr_close whose CLOSE message was never queued"""
    if r.st != "DEADLOCK":
        return False
    last_call = None
    ok_alloc_in_call = False
    failed = False
    for (tid, code, arg) in r.ev:
        if tid == 0 and code == "c":
            last_call = int(arg)
            ok_alloc_in_call = False
            failed = False
        elif tid == 0 and code == "a" and last_call is not None:
            if arg.endswith(":-"):
                failed = True
            else:
                ok_alloc_in_call = True
    ncalls = len(r.rc[0])
    return last_call is not None and last_call == ncalls - 1 and failed and not ok_alloc_in_call and r.rc[0][-1] == "?"


def oracle_c06(r):
    """-> list of (what, signature or None)"""
    bad = []
    if r.st.startswith("FAULT") or r.st.startswith("PROCFAIL") or r.st == "BADSCRIPT":
        bad.append(("threaded writer run ended with %s" % r.st, None))
        return bad
    if r.st != "OK":
        return bad            # deadlock / livelock: judged by C07
    if r.f.get("cmp") != "eq":
        bad.append(("file differs from the synchronous reference fed the accepted calls in order (file=%s ref=%s)" % (r.f.get("file"), r.f.get("ref")), None))
    if r.f.get("chk", "-") != "-":
        bad.append(("accepted/applied bookkeeping inconsistent: %s" % r.f["chk"], None))
    # queue order and integrity from the trace
    allocs, hashes_p, peeks, hashes_c = [], [], [], []
    for (tid, code, arg) in r.ev:
        if code == "a" and not arg.endswith(":-"):
            sz, off = arg.split(":")
            allocs.append((int(off), int(sz)))
        elif code == "h":
            hashes_p.append(arg)
        elif code == "k":
            hashes_c.append(arg)
        elif code == "q" and arg != "-":
            off, sz = arg.split(":")
            peeks.append(("q", int(off), int(sz)))
        elif code == "p" and arg != "-":
            off, sz = arg.split(":")
            peeks.append(("p", int(off), int(sz)))
        elif code in ("!M", "!P", "!U"):
            bad.append(("unsynchronised access: event %d%s%s" % (tid, code, arg), None))
    # consumer view: p(m0) q(m0) p(m1) q(m1) ...
    seen = [(o, s) for (k, o, s) in peeks if k == "p"]
    pops = [(o, s) for (k, o, s) in peeks if k == "q"]
    if seen != allocs:
        bad.append(("consumer saw messages %s..., queue accepted %s... (lost/duplicated/reordered)" % (seen[:6], allocs[:6]), None))
    if pops != allocs:
        bad.append(("consumer popped %s..., queue accepted %s..." % (pops[:6], allocs[:6]), None))
    if hashes_c != hashes_p:
        k = next((i for i, (a, b) in enumerate(zip(hashes_c, hashes_p)) if a != b), min(len(hashes_c), len(hashes_p)))
        bad.append(("message %d: bytes processed by the writer thread differ from the bytes queued (torn/overwritten)" % k, None))
    return bad


def oracle_c07(r):
    bad = []
    if r.st == "DEADLOCK":
        bad.append(("DEADLOCK: no thread runnable, nothing sleeps, threads unfinished", SIG_CLOSE_HANG if close_hang_shape(r) else None))
        return bad
    if r.st == "LIVELOCK":
        bad.append(("LIVELOCK: step bound exceeded", None))
        return bad
    if r.st != "OK":
        return bad        # faults are reported by C06
    # index the trace
    ev = r.ev
    n_ok_alloc_before = []      # prefix counts
    cnt = 0
    proc_idx = []               # event index of each consumer process-lock acquisition
    fsync_idx = []
    for i, (tid, code, arg) in enumerate(ev):
        n_ok_alloc_before.append(cnt)
        if code == "a" and not arg.endswith(":-"):
            cnt += 1
        if tid == 2 and code == "L" and arg == "1":
            proc_idx.append(i)
        if tid == 2 and code == "f":
            fsync_idx.append(i)
    # flush calls
    for t in (0, 1):
        cur, ticket = None, None
        for i, (tid, code, arg) in enumerate(ev):
            if tid != t:
                continue
            if code == "c":
                cur, ticket = int(arg), None
            elif code == "L" and arg == "0" and ticket is None and cur is not None:
                ticket = i
            elif code == "r" and cur is not None and not arg.startswith("-1"):
                ci, rcv = arg.split("=")
                if int(ci) == cur and cur < len(r.rc[t]) and is_flush(r, t, cur) and rcv == "0":
                    need = n_ok_alloc_before[ticket] if ticket is not None else 0
                    done = len([x for x in proc_idx if x < i])
                    if done < need:
                        bad.append(("flush (thread %d call %d) returned 0 with %d of the %d previously accepted messages applied" % (t, cur, done, need), None))
                    else:
                        after = proc_idx[need - 1] if need else (ticket or 0)
                        if not any(after < x < i for x in fsync_idx):
                            bad.append(("flush (thread %d call %d) returned 0 but no fsync was issued after the last previously accepted message" % (t, cur), None))
                cur = None
    # single producer: file snapshot at flush return == reference snapshot after the same operations + jls_wr_flush
    if r.f.get("rc1") == "-" and r.f.get("fl", "-") != "-" and r.f.get("rsnap", "-") != "-":
        rs = r.f["rsnap"].split(",")
        acc_flush = [c for (t, c) in r.acc if is_flush(r, t, c)]
        snaps = {}
        for e in r.f["fl"].split(","):
            tc, rcv, wpos, nfs, napp, snap = e.split(":")
            snaps[int(tc.split(".")[1])] = (rcv, snap)
        for k, c in enumerate(acc_flush):
            if k < len(rs) and c in snaps and snaps[c][0] == "0" and snaps[c][1] != rs[k]:
                bad.append(("file content at the instant flush (call %d) returned differs from the synchronous writer after the same calls + flush" % c, None))
    # close
    cl = r.f.get("cl", "-")
    if cl != "-":
        rcv, wpos, napp = cl.split(":")
        if int(napp) != len(r.acc):
            bad.append(("close returned with %s of %d accepted messages applied" % (napp, len(r.acc)), None))
        flen = r.f.get("file", "0:0").split(":")[0]
        hl, tag = r.f.get("hdr", "0:00").split(":")
        if hl != flen or tag != r.endtag:
            bad.append(("file not properly closed: header length %s, file length %s, last chunk tag %s" % (hl, flen, tag), None))
        last_peek = [arg for (tid, code, arg) in ev if code == "p"]
        if last_peek and last_peek[-1] != "-":
            bad.append(("queue not empty when the writer thread ended", None))
    else:
        bad.append(("close did not return", None))
    return bad


def is_flush(r, t, c):
    return r.kinds[t][c] == "flush" if hasattr(r, "kinds") and c < len(r.kinds[t]) else False


def kinds_of_line(line):
    f = line.split("|")
    out = []
    for p in (f[2], f[3]):
        if p.strip() in ("-", ""):
            out.append([])
            continue
        ks = [o.split()[0] for o in p.split(";") if o.strip() and o.split()[0] != "close"]
        out.append(ks)
    out[0].append("close")
    return out


# --------------------------------------------------------------------------- programs
def sigdef(gid, src, dt, rng):
    spd, sdf, eps, sumdf = rng.choice([(100, 10, 10, 10), (64, 8, 8, 4), (200, 20, 10, 10), (1000, 100, 20, 10)])
    return "sig %d %d %s %d %d %d %d" % (gid, src, dt, spd, sdf, eps, sumdf)


def payload_for(rng, q, cls):
    """payload byte count of a message class relative to the queue capacity q"""
    if cls == "tiny":
        return rng.randrange(0, 24)
    if cls == "small":
        return rng.randrange(24, max(25, q // 16))
    if cls == "quarter":
        return q // 4 - HDR - rng.randrange(0, 24)
    if cls == "half":
        return q // 2 - HDR - rng.randrange(0, 40)
    if cls == "most":
        return q - HDR - 8 - rng.randrange(1, 60)      # usable, nearly the whole queue
    if cls == "edge":
        return q - HDR - 8                              # largest size the queue can ever take
    if cls == "toobig":
        return q - HDR + rng.randrange(1, 64)           # never fits: 5 s retry window, then BUSY
    return 0


def data_op(rng, q, sigs, cls=None):
    """sigs: list of (id, dtype) this producer may write.  -> (script op, class label)"""
    cls = cls or rng.choice(["tiny", "small", "small", "quarter", "quarter", "half", "most", "edge", "toobig"] if q > 1000 else
                            ["tiny", "tiny", "small", "quarter", "quarter", "half", "half", "most", "edge", "toobig"])
    pay = max(0, payload_for(rng, q, cls))
    # sizes in (capacity-8, capacity] are refused by jls_mrb_alloc like larger ones (C08, repaired in /repo): included
    kind = rng.choice(["fsr", "fsr", "fsr", "ud", "ann"])
    if kind == "fsr" and sigs:
        gid, dt = rng.choice(sigs)
        bits = DT_BITS[dt]
        n = max(1, pay * 8 // bits)
        return "fsr %d %d" % (gid, n), "fsr_" + cls
    if kind == "ann" and pay >= 1:
        gid = rng.choice(sigs)[0] if sigs else 0
        # the data_size passed for the string varies (n+1, 0, n, n/2): the library must take strlen + 1 in every case
        return "ann %d %d %d %d" % (gid, rng.randrange(0, 5000), pay - 1, rng.choice([0, 0, 1, 2, 3])), "ann_" + cls
    return "ud %d %d" % (rng.randrange(0, 4096), pay), "ud_" + cls


def gen_program(rng, q, two, nops=None, labels=None):
    labels = labels if labels is not None else []
    dts = ["f32", "u8", "u16", "i16", "f64", "u32", "u4", "u1"]
    dt1, dt2 = rng.choice(dts), rng.choice(dts)
    p0 = ["src 1", sigdef(1, 1, dt1, rng), sigdef(2, 1, dt2, rng)]
    sigs0 = [(1, dt1), (2, dt2)]
    n = nops or rng.randrange(3, 11)
    late_def = rng.random() < 0.25
    for k in range(n):
        x = rng.random()
        if x < 0.58:
            op, lab = data_op(rng, q, sigs0)
        elif x < 0.66:
            op, lab = "utc %d %d %d" % (rng.choice([1, 2]), rng.randrange(0, 10000), rng.randrange(1, 1 << 40)), "utc"
        elif x < 0.72:
            op, lab = "omit %d %d" % (rng.choice([1, 2]), rng.randrange(2)), "omit"
        elif x < 0.86:
            op, lab = "flush", "flush"
        elif x < 0.94:
            op, lab = "flags %d" % rng.randrange(2), "flags"
        elif late_def and not any(o.startswith("sig 3") for o in p0):
            dt3 = rng.choice(dts)
            p0.append(sigdef(3, 1, dt3, rng))
            sigs0.append((3, dt3))
            op, lab = data_op(rng, q, [(3, dt3)], "small")
            lab = "def_midstream"
        else:
            op, lab = data_op(rng, q, sigs0, "tiny")
        p0.append(op)
        labels.append(lab)
    p0.append("close")
    p1 = "-"
    if two:
        dt5 = rng.choice(dts)
        ops = ["src 2", sigdef(5, 2, dt5, rng)]
        for k in range(rng.randrange(1, 8)):
            x = rng.random()
            if x < 0.7:
                op, lab = data_op(rng, q, [(5, dt5)])
            elif x < 0.85:
                op, lab = "flush", "flush"
            else:
                op, lab = "utc 5 %d %d" % (rng.randrange(0, 10000), rng.randrange(1, 1 << 40)), "utc"
            ops.append(op)
            labels.append(lab)
        p1 = ";".join(ops)
    return ";".join(p0), p1


def fill_queue_program(rng, q, tail):
    """producer 0 fills the queue to the brim (no room for a 40-byte message), then `tail` ops"""
    p0 = ["src 1", "sig 1 1 f32 100 10 10 10"]
    big = (q - 460) // 4 if q >= 2048 else (q - 180) // 4
    p0.append("fsr 1 %d" % big)                      # head = 4 + 40 + 4*big
    head = 4 + HDR + 4 * big
    # second message leaves fewer than 4+40+5 bytes before the end
    L = q - head - 4 - HDR - 5 - rng.randrange(1, 40)
    p0.append("ud 7 %d" % L)
    return ";".join(p0 + tail + ["close"])


CORPUS = [
    # name, queue size, line (name filled in), what it demonstrates
    ("close_hang_min", 4096, "|src 1;sig 1 1 f32 100 10 10 10;fsr 1 900;ud 7 360;close|-|0*27,T5001"),
    ("close_hang_slow_write", 4096, "|src 1;sig 1 1 f32 100 10 10 10;fsr 1 900;ud 7 360;close|-|0*17,2*9,0*10,T5001"),
    ("close_hang_512", 512, "|src 1;sig 1 1 u8 100 10 10 10;fsr 1 300;ud 7 100;close|-|0+100000"),
    ("flush_send_fails_timed_out", 4096, "|src 1;sig 1 1 f32 100 10 10 10;fsr 1 900;ud 7 360;flush;close|-|0*17,2*9,0+12000,2*100000"),
    ("fsr_retry_then_accept", 4096, "|src 1;sig 1 1 f32 100 10 10 10;fsr 1 900;fsr 1 900;fsr 1 900;flush;close|-|0*30,2*12,0*30"),
    ("drop_on_overflow", 4096, "|src 1;sig 1 1 f32 100 10 10 10;flags 1;fsr 1 900;fsr 1 900;fsr 1 900;flags 0;fsr 1 10;close|-|0*60"),
    ("toobig_busy", 512, "|src 1;sig 1 1 u8 100 10 10 10;fsr 1 600;fsr 1 10;flush;close|-|"),
    ("two_producers", 512, "|src 1;sig 1 1 u8 100 10 10 10;fsr 1 100;fsr 1 200;flush;fsr 1 100;close|src 2;sig 5 2 u16 100 10 10 10;fsr 5 60;fsr 5 100;flush;fsr 5 30|0*9,1*9,2*5,1*7,0*9"),
    ("def_midstream", 4096, "|src 1;sig 1 1 f32 100 10 10 10;fsr 1 300;sig 2 1 u8 100 10 10 10;fsr 2 300;fsr 1 300;close|-|0*40"),
]
DEFECT_CORPUS = [
    ("sigdef_id_256", 4096, "|src 1;sig 1 1 f32 100 10 10 10;sig 256 1 f32 100 10 10 10;fsr 1 50;fsr 1 50;close|-|", SIG_OOB_INDEX),
    ("sigdef_id_260", 4096, "|src 1;sig 1 1 f32 100 10 10 10;sig 260 1 u8 100 10 10 10;fsr 1 50;fsr 1 50;close|-|", SIG_OOB_INDEX),
    ("sigdef_id_9000", 4096, "|src 1;sig 1 1 f32 100 10 10 10;sig 9000 1 u8 100 10 10 10;fsr 1 50;close|-|", SIG_OOB_INDEX),
    ("fsr_undefined_signal", 4096, "|src 1;sig 1 1 f32 100 10 10 10;fsr 9 50;fsr 1 50;close|-|", SIG_UNINIT_SIZE),
    ("utc_error_logs_message_str_6", 4096, "|src 1;sig 1 1 f32 100 10 10 10;utc 9 5 100;fsr 1 10;close|-|", SIG_MSG_STR),
    ("sigdef_dup_other_type", 4096, "|src 1;sig 1 1 f32 100 10 10 10;sig 1 1 u8 100 10 10 10;fsr 1 50;fsr 1 50;close|-|", SIG_FAILED_DEF_SIZE),
]


def sched_opts(rng):
    mode = rng.random()
    if mode < 0.30:
        return "seed=%d pri=1" % rng.randrange(1, 1 << 30)
    if mode < 0.50:
        return "seed=%d pri=0" % rng.randrange(1, 1 << 30)
    if mode < 0.75:
        return "seed=%d pri=%d starve=%d big=%d" % (rng.randrange(1, 1 << 30), rng.randrange(2), rng.choice([20, 100, 400]), rng.choice([0, 30, 200]))
    return "seed=%d pri=1 starve=%d big=%d" % (rng.randrange(1, 1 << 30), rng.choice([700, 950]), rng.choice([5, 50, 300]))


def gen_cases(ctx, nprog, nsched):
    """-> list of dict(name, size, line, sig)"""
    rng = ctx.rng
    cases = []
    for (nm, q, body) in CORPUS:
        cases.append({"name": nm, "size": q, "line": nm + "|" + body, "sig": None, "corpus": True})
    for (nm, q, body, sig) in DEFECT_CORPUS:
        cases.append({"name": nm, "size": q, "line": nm + "|" + body, "sig": sig, "corpus": True})
    labels = []
    progs = []
    for i in range(nprog):
        q = SIZES[i % 2] if rng.random() < 0.8 else rng.choice(SIZES)
        if i % 7 == 3:
            # two producers that both flush behind a backlog: a FLUSH message is still queued when the other producer takes its ticket
            d1, d2 = rng.choice(["u8", "u16", "f32"]), rng.choice(["u8", "u16", "f32"])
            a = ["src 1", sigdef(1, 1, d1, rng)] + [data_op(rng, q, [(1, d1)], "small")[0] for _ in range(rng.randrange(2, 5))] + ["flush"] + \
                [data_op(rng, q, [(1, d1)], "tiny")[0] for _ in range(rng.randrange(0, 3))] + ["close"]
            b = ["src 2", sigdef(5, 2, d2, rng)] + [data_op(rng, q, [(5, d2)], "small")[0] for _ in range(rng.randrange(1, 4))] + ["flush"] + \
                [data_op(rng, q, [(5, d2)], "tiny")[0] for _ in range(rng.randrange(1, 3))] + ["flush"]
            p0, p1 = ";".join(a), ";".join(b)
            labels.append("two_flushers")
        elif i % 5 == 4:
            tail = [rng.choice(["flush", "fsr 1 5", "utc 1 3 99", "flush;fsr 1 7"])] if rng.random() < 0.6 else []
            p0, p1 = fill_queue_program(rng, q, tail), "-"
            labels.append("fill_to_brim")
        else:
            p0, p1 = gen_program(rng, q, two=(i % 3 == 2), labels=labels)
        progs.append((q, p0, p1))
    for pi, (q, p0, p1) in enumerate(progs):
        for si in range(nsched):
            nm = "p%ds%d" % (pi, si)
            cases.append({"name": nm, "size": q, "line": "%s|%s|%s|%s|" % (nm, sched_opts(rng), p0, p1), "sig": None, "corpus": False})
    return cases, progs, labels


# --------------------------------------------------------------------------- the model side
MODEL_ARGS = []     # ["fx1"] when /repo implements the repaired close protocol (decided by a probe run, see engine)
def run_model(ctx, pairs):
    """pairs: list of (case, result_line) -> list of verdict strings ("OK ..." / "MISMATCH ...")"""
    if not pairs:
        return []
    lines = ["%d\t%s\t%s" % (c["size"], c["line"], o) for (c, o) in pairs]
    return vlib.run_model("twr", lines, args=MODEL_ARGS, timeout=3000)


def enum_schedules(ctx, size, line, bound, maxn):
    """ask the extracted model for every schedule of the program with at most `bound` preemptions"""
    rc, out = vlib.sh([os.path.join(vlib.BUILD, "jlsmodel"), "twr"] + MODEL_ARGS + ["enum", str(size), str(bound), str(maxn)], inp=line + "\n", timeout=3000)
    return [l for l in out.splitlines() if l and not l.startswith("#")]


# --------------------------------------------------------------------------- engine
def engine(ctx, which):
    """which: 'C06' or 'C07'.  Runs programs x schedules on the real code, evaluates the oracles of the
    property, replays every run on the extracted model."""
    quick = ctx.tier == "quick"
    twr_build(ctx)
    # which close protocol does /repo implement?  probe = the minimal close-hang schedule
    probe = parse_result(run_twr(ctx, "plain", 4096, ["probe|" + CORPUS[0][2]])[0][0])
    del MODEL_ARGS[:]
    if probe.st == "OK":
        MODEL_ARGS.append("fx1")
    ctx.extra["model_variant"] = "fx=true (repaired close: CLOSE is sent until queued)" if MODEL_ARGS else "fx=false (close as in the pinned source: failed CLOSE send ignored)"
    nprog, nsched = (40, 9) if quick else (120, 40)
    cases, progs, labels = gen_cases(ctx, nprog, nsched)
    dist = {"programs": len(progs) + len(CORPUS) + len(DEFECT_CORPUS), "program_ops": {}, "runs": 0}
    for l in labels:
        dist["program_ops"][l] = dist["program_ops"].get(l, 0) + 1

    # thorough: exhaustive enumeration with preemption bound 2 on small programs (schedules from the model)
    if not quick:
        small = [
            (512, "e1||src 1;sig 1 1 u8 100 10 10 10;fsr 1 200;fsr 1 200;flush;close|-|"),
            (512, "e2||src 1;sig 1 1 u8 100 10 10 10;flags 1;fsr 1 300;fsr 1 300;close|-|"),
            (512, "e3||src 1;sig 1 1 u8 100 10 10 10;fsr 1 100;close|src 2;sig 5 2 u8 100 10 10 10;fsr 5 300;flush|"),
            (512, "e4||src 1;sig 1 1 u8 100 10 10 10;fsr 1 300;ud 7 100;close|-|"),
            (512, "e5||src 1;flush;ud 1 400;ud 2 400;close|-|"),
        ]
        nenum = 0
        for (q, l) in small:
            scheds = enum_schedules(ctx, q, l, 2, 6000)
            f = l.split("|")
            for k, s in enumerate(scheds):
                nm = "%sx%d" % (f[0], k)
                cases.append({"name": nm, "size": q, "line": "%s|%s|%s|%s|%s" % (nm, f[1], f[2], f[3], s), "sig": None, "corpus": False, "enum": True})
            nenum += len(scheds)
        dist["enumerated_schedules_preemption_bound_2"] = nenum

    results = {}
    for q in SIZES:
        sub = [c for c in cases if c["size"] == q]
        outs = run_twr(ctx, "plain", q, [c["line"] for c in sub])
        for c, (o, e) in zip(sub, outs):
            results[c["name"]] = (c, o, e)
    # sanitizer build: corpus + every third generated case
    asan_cases = [c for i, c in enumerate(cases) if c.get("corpus") or (i % 3 == 0 and not c.get("enum"))]
    asan_results = {}
    for q in SIZES:
        sub = [c for c in asan_cases if c["size"] == q]
        outs = run_twr(ctx, "asan", q, [c["line"] for c in sub])
        for c, (o, e) in zip(sub, outs):
            asan_results[c["name"]] = (c, o, e)

    oracle = oracle_c06 if which == "C06" else oracle_c07
    nviol = {}
    pairs = []

    def judge(c, o, e, build):
        r = parse_result(o)
        r.kinds = kinds_of_line(c["line"])
        stats_of(r, dist)
        dist["runs"] += 1
        f = c["line"].split("|")
        key = (build, c["size"], f[2], f[3], sched_of_trace(r)[:4000])
        interesting = any(code == "a" for (_, code, _) in r.ev)
        ctx.count(key, nontrivial=interesting,
                  sample={"build": build, "queue": c["size"], "case": c["line"][:160], "status": r.st, "rc0": r.f.get("rc0"), "cmp": r.f.get("cmp")} if (build == "plain" and r.st == "OK" and "19" in r.rc[0]) else None)
        found = oracle(r)
        if found and r.st.startswith("FAULT") and build == "asan":
            # sanitizer report of this case alone
            e = run_twr(ctx, build, c["size"], [c["line"]])[0][1]
            for (rx, sg) in STDERR_SIGS:
                if rx.search(e or ""):
                    found = [(w + " (" + rx.search(e).group(0) + ")", sg) for (w, _) in found]
        for (what, sig) in found:
            sig = sig or (c["sig"] if c.get("sig") else None)
            k = sig or "new"
            nviol[k] = nviol.get(k, 0) + 1
            if nviol[k] > 2:
                continue
            sched = sched_of_trace(r)
            replay_line = "%s|%s|%s|%s|%s" % (f[0], "", f[2], f[3], sched) if r.st != "OK" or not f[4] else c["line"]
            fn = "%s_%s_%s_%d.txt" % (which.lower(), build, re.sub(r"[^A-Za-z0-9]+", "_", k)[:40], nviol[k])
            errtail = ""
            if r.st.startswith("FAULT") and e:
                errtail = "\nsanitizer/stderr output of the shard (tail):\n" + e[-3000:]
            ctx.violation(fn,
                          "property %s, build %s, queue %d bytes\nwhat: %s\nsignature: %s\n\nscript line (original):\n%s\n\nscript line with the explicit schedule of this run:\n%s\n\n"
                          "replay:\n  make -f /verif/harness/twr.mk B=%s\n  printf '%%s\\n' '%s' | %s /tmp\n\nresult line (trace truncated):\n%s\n%s" % (
                              which, build, c["size"], what, sig, c["line"], replay_line, vlib.BUILD, replay_line.replace("'", ""), twrrun(build, c["size"]),
                              o[:3000], errtail),
                          "%s [%s, queue %d] %s: %s" % (which, build, c["size"], c["name"], what), sig=sig)
        return r

    for nm, (c, o, e) in results.items():
        r = judge(c, o, e, "plain")
        if not c.get("sig") and r.st in ("OK", "DEADLOCK", "LIVELOCK"):
            pairs.append((c, o))
    for nm, (c, o, e) in asan_results.items():
        judge(c, o, e, "asan")
    # plain and sanitizer builds are the same deterministic program: same schedule => same trace
    ndiff = 0
    for nm, (c, o, e) in asan_results.items():
        if nm in results and not c.get("sig"):
            a, b = parse_result(results[nm][1]), parse_result(o)
            # (message hashes cover the padding bytes of struct msg_header_s, which are indeterminate: not compared)
            if a.st == "OK" and b.st == "OK" and [x for x in a.ev if x[1] not in "hk"] != [x for x in b.ev if x[1] not in "hk"]:
                ndiff += 1
    dist["plain_vs_asan_trace_differences"] = ndiff

    # model replay (correspondence)
    verdicts = run_model(ctx, pairs)
    nmis = 0
    nsteps = 0
    for (c, o), v in zip(pairs, verdicts):
        if v.startswith("OK"):
            m = re.search(r"steps=(\d+)", v)
            nsteps += int(m.group(1)) if m else 0
            continue
        nmis += 1
        if nmis <= 3:
            ctx.violation("%s_model_mismatch_%d.txt" % (which.lower(), nmis),
                          "The extracted model (coq/TwrModel.v tw_step) does not predict the real code's trace.\nqueue %d\nscript: %s\nverdict: %s\n"
                          "replay: printf '%%s\\n' '%s' | %s /tmp   and   jlsmodel twr < (queue<TAB>script<TAB>result)\nresult: %s\n" % (
                              c["size"], c["line"], v, c["line"], twrrun("plain", c["size"]), o[:3000]),
                          "%s: model/implementation disagreement on %s: %s" % (which, c["name"], v[:200]), no_input=True)
    dist["model_replays"] = len(pairs)
    dist["model_replay_steps"] = nsteps
    dist["model_mismatches"] = nmis
    dist["violations_by_signature"] = nviol
    ctx.extra["distribution"] = dist
    ctx.cov["rule"] = ("case = (program of 1-2 producer threads, schedule); programs mix fsr/annotation/utc/user-data/omit/flush/flags with message sizes chosen "
                       "relative to the queue capacity (tiny .. whole queue .. larger than the queue) on queues of 4096 and 512 bytes, plus fill-to-the-brim programs and the corpus; "
                       "schedules = seeded PRNG rules (random priorities with drops / uniform / starvation with virtual-time jumps of 5001 and 20001 ms) "
                       + ("" if quick else "and every schedule with <= 2 preemptions of 5 small programs (enumerated by the extracted model); ") +
                       "each run on the plain build, a third also on the ASan+UBSan build; distinct = (build, queue, programs, sequence of scheduler decisions); "
                       "non-trivial = at least one message reached the queue")
    return dist


def run_twm(ctx):
    """message codec of the threaded writer (coq/TwrMsg.v tm_encode / tm_decode, extracted) vs the real producers and writer thread:
    message bytes (header padding masked: the compiler leaves it uninitialised) and every argument the writer thread hands to jls_wr_*"""
    import importlib
    TWM = importlib.import_module("TWM")
    TWM.BUILD = vlib.BUILD
    os.environ["TWM_USE_MAIN_MODEL"] = "1"

    def report(what, line, msg):
        ctx.violation("twm_%s.txt" % what, "%s\n# echo '<line>' | %s/jlsmodel twrmsg ; the same line to %s/twm_asan/twm_probe\n%s\n" % (line, vlib.BUILD, vlib.BUILD, msg),
                      "threaded-writer message codec: " + msg[:200], sig=None)
    st = TWM.check(ctx.tier, ctx.seed, report)
    labs = st.get("labels", {})
    for lab, k in labs.items():
        ctx.count(("twm", lab), nontrivial=True, sample={"kind": "twr message codec case class", "class": lab, "cases": k})
    ctx.extra["twm"] = {k: v for k, v in st.items() if k != "labels"}


def run(ctx):
    vlib.build(ctx, PROP_FILES, variants=())
    engine(ctx, "C06")
    run_twm(ctx)
    if ctx.tier == "thorough":
        vlib.coqchk(ctx, ["Properties_C06"])
    return vlib.finish(ctx, "proof", "make -C /verif/coq -f Makefile.coq Properties_C06.vo && coqc -Q . JLS Properties_C06.v (Print Assumptions)",
                       trusted_extra=["harness/twr_sched.c: baton scheduler, emulated mutex/condition/virtual clock (the pthread semantics assumed are: mutual exclusion, "
                                      "cond_wait releases/re-acquires, signal wakes one waiter, no spurious wake-ups)",
                                      "C memory model: the unlocked reads of flush_processed_id / quit / flags and of fsr_entry_size_bits[] are modelled as atomic "
                                      "(sequentially consistent); data-race freedom of the C is not proved"],
                       note="theorems quantify over all schedules, programs and capacities of the model; the real code is tied to it by replaying the "
                            "scheduler decisions of every harness run on the extracted step function")


def replay(ctx, path):
    txt = open(path).read()
    print(txt)
    return 0
