"""C17: copy preserves everything the reader can see."""
import vlib, proglib
from proglib import DT, DT_BITS

PROP_FILES = ["Properties_C17.v"]
DUMP_CLASSES = ("defs", "udata", "fsr", "anno", "utc")


def gen_writer(rng, tier, allow_omit=True, deep=False):
    """a writer program in the style of C05: several sources/signals/types, annotations, UTC, user data"""
    ops = ["wopen"]
    for s in range(rng.randrange(1, 3)):
        ops.append("src %d g%d.%d e - g3.2 e" % (s + 1, rng.choice([1, 8, 300]), rng.randrange(1, 999)))
    nsig = rng.randrange(1, 4)
    sigs = {}
    body = []
    has_omit = False
    for k in range(nsig):
        sid = [1, 4, 200][k]
        dt = rng.choice(list(DT.keys()))
        spd, sdf, eps, sumdf = proglib.min_def(dt) if rng.random() < 0.6 else proglib.small_def(rng, dt)
        ops.append(proglib.sigdef_op(sid, 1, dt, rate=rng.choice([1000, 48000]), spd=spd, sdf=sdf, eps=eps, sumdf=sumdf, adf=10, udf=10))
        epd = max(1, spd // sdf)
        while eps % epd:
            epd -= 1
        a_spd = sdf * epd
        first = rng.choice([0, 0, 5, -3, 100000])
        total = rng.choice([0, 1, sdf, a_spd, 3 * a_spd + 1, sdf * eps + 3, rng.randrange(1, 4000 if tier == "quick" else 20000)])
        if deep and rng.random() < 0.75:
            # several level-1 chunks and (often) a level-2 chunk on disk: 1..3 summary levels
            total = sdf * eps * rng.choice([2, 3, 5, sumdf, sumdf + 2]) + rng.choice([0, 1, sdf, a_spd + 3])
            total = min(total, 9000 if tier == "quick" else 60000)
        pos = 0
        seed = rng.randrange(1, 10**6)
        calls = []
        const_blocks = DT_BITS[dt] <= 8 and allow_omit and rng.random() < 0.4
        while pos < total:
            n = min(total - pos, rng.choice([1, 7, a_spd, a_spd + 1, 2 * a_spd, rng.randrange(1, 3 * a_spd + 2)]))
            if const_blocks and rng.random() < 0.5:
                calls.append("fsr %d %d %d 0 %d" % (sid, first + pos, n, rng.choice([0, 1, 3])))
                has_omit = True
            else:
                calls.append("fsr %d %d %d %d %d" % (sid, first + pos, n, rng.choice([2, 1, 4]) if DT_BITS[dt] > 1 else 2, seed + len(calls)))
            if allow_omit and DT_BITS[dt] > 8 and rng.random() < 0.08:
                calls.append("omit %d %d" % (sid, rng.choice([0, 1])))
                has_omit = True
            pos += n
        na = rng.choice([0, 0, 1, 5, 25])
        ts = first
        for a in range(na):
            ts += rng.choice([0, 1, 10])
            calls.insert(rng.randrange(0, len(calls) + 1), None)
            calls[calls.index(None)] = "anno %d %d 3f800000 %d %d %d g%d.%d" % (sid, ts, rng.choice([0, 1, 2]), rng.choice([0, 3]), rng.choice([1, 2, 3]), rng.choice([0, 5, 200]), seed + a)
        nu = rng.choice([0, 0, 1, 3, 12])
        us = first
        utcs = []
        for u in range(nu):
            us += rng.choice([1, 100, 1000])
            utcs.append("utc %d %d %d" % (sid, us, 10**12 + u * 2**20))
        # keep annotation / utc order (non-decreasing) while interleaving with fsr calls
        annos = [c for c in calls if c.startswith("anno")]
        others = [c for c in calls if not c.startswith("anno")]
        merged = []
        ai = ui = 0
        for c in others:
            merged.append(c)
            while ai < len(annos) and rng.random() < 0.5:
                merged.append(annos[ai]); ai += 1
            while ui < len(utcs) and rng.random() < 0.5:
                merged.append(utcs[ui]); ui += 1
        merged += annos[ai:] + utcs[ui:]
        # annotation timestamps must be non-decreasing in write order
        ai_idx = [i for i, c in enumerate(merged) if c.startswith("anno")]
        tss = sorted(int(merged[i].split()[2]) for i in ai_idx)
        for i, tsv in zip(ai_idx, tss):
            f = merged[i].split()
            f[2] = str(tsv)
            merged[i] = " ".join(f)
        body.append(merged)
        sigs[sid] = dict(dt=dt, total=total, first=first, spd=a_spd, sdf=sdf, sumdf=sumdf, omit_req=any(c.startswith("omit") for c in merged),
                         may_omit=any(c.startswith("omit") for c in merged) or (DT_BITS[dt] <= 8 and any(c.startswith("fsr") and c.split()[4] == "0" for c in merged)))
    if rng.random() < 0.5:
        body.append(["anno 0 %d 3f800000 1 0 2 g6.%d" % (t, t) for t in sorted(rng.sample(range(0, 1000), rng.choice([1, 3, 12])))])
    body.append(["ud %d %d g%d.%d" % (rng.choice([1, 0xfff]), rng.choice([1, 2, 3]), rng.choice([0, 9, 1000]), rng.randrange(1, 999)) for _ in range(rng.randrange(0, 4))])
    idx = [0] * len(body)
    while any(idx[k] < len(body[k]) for k in range(len(body))):
        k = rng.choice([k for k in range(len(body)) if idx[k] < len(body[k])])
        ops.append(body[k][idx[k]])
        idx[k] += 1
    return ops, sigs, has_omit


def dump_ops(rng, sigs, tier, stats=False):
    ops = ["srcs", "sigs", "udr"]
    for sid, st in sigs.items():
        ops.append("len %d" % sid)
        if st["total"] > 0:
            ops.append("rd %d 0 %d" % (sid, st["total"]))
            for _ in range(3):
                a = rng.randrange(0, st["total"])
                ops.append("rd %d %d %d" % (sid, a, rng.randrange(1, st["total"] - a + 1)))
        ops.append("an %d -1000000000000" % sid)
        ops.append("ut %d -1000000000000" % sid)
    ops.append("an 0 -1000000000000")
    return ops


def gen_case(rng, tier):
    w, sigs, has_omit = gen_writer(rng, tier)
    d = dump_ops(rng, sigs, tier)
    ops = w + ["wclose", "copy", "ropen"] + d + ["rclose"]
    return ";".join(ops), dict(sigs=sigs, has_omit=has_omit, dist=["omit" if has_omit else "plain"], trivial=False)


def classify(script, meta, mism):
    if meta.get("has_omit") and all(x["cls"] == "fsr" and x["op"].startswith(("rd", "len")) for x in mism):
        return "copy-omitted-blocks-become-fill"
    return None


def run(ctx):
    return proglib.run_prog_property(
        ctx, PROP_FILES, gen_case, DUMP_CLASSES, 150, 1500,
        "case = writer program (1-2 sources, 1-3 FSR signals of any type with minimal/small definitions, first ids 0/5/-3/100000, 0..4000 samples in "
        "calls of block-relative sizes, constant blocks / omission toggles, annotations incl. signal 0, UTC entries, user data, all interleaved), "
        "closed, then jls_copy; the COPY is opened and sources, signals, user data, lengths, whole-signal and random windows, all annotations and all "
        "UTC entries are compared with the extracted spec_of of the program; distinct = script",
        classify=classify, timeout=60)


def replay(ctx, path):
    print(open(path).read())
    return 0
