"""C17: copy preserves everything the reader can see."""
import vlib, proglib
from proglib import DT, DT_BITS

PROP_FILES = ["Properties_C17.v"]
DUMP_CLASSES = ("defs", "udata", "fsr", "anno", "utc")


def edge_items(rng):
    """user-data items whose payload ends within a few bytes of a power-of-two scratch-buffer size (1 MiB, then 2 MiB after a larger
    item): jls_copy reads every chunk through one growing buffer, and the on-disk size is payload + pad + CRC"""
    if rng.random() > 0.12:
        return []
    out = []
    for _ in range(rng.choice([1, 2])):
        st = rng.choice([1, 1, 2])
        n = (1 << 20) - rng.choice([0, 1, 2, 3, 4, 5]) - (1 if st == 2 else 0)
        out.append("ud %d %d g%d.%d" % (rng.choice([1, 0x123]), st, n, rng.randrange(1, 999)))
    if rng.random() < 0.4:
        out.append("ud 7 1 g%d.%d" % ((1 << 20) + rng.choice([17, 5000]), rng.randrange(1, 999)))
        out.append("ud 8 1 g%d.%d" % ((1 << 21) - rng.choice([0, 1, 2, 3, 4]), rng.randrange(1, 999)))
    if rng.random() < 0.5:
        out.insert(rng.randrange(0, len(out) + 1), "ud 9 1 g12.5")
    return out


def gen_writer(rng, tier, allow_omit=True, deep=False, edge=False):
    """a writer program in the style of C05: several sources/signals/types, annotations, UTC, user data.
    edge: add user-data items next to the copy's scratch-buffer size (C17 only: the crash-image checks C03/C19/C05 share this generator and
    would copy, reopen and model megabyte-sized files thousands of times; without edge the PRNG stream is not consumed either)"""
    ops = ["wopen"]
    for s in range(rng.randrange(1, 3)):
        ops.append("src %d g%d.%d e - g3.2 e" % (s + 1, rng.choice([1, 8, 300]), rng.randrange(1, 999)))
    nsig = rng.randrange(1, 4)
    sigs = {}
    body = []
    has_omit = False
    for k in range(nsig):
        sid = [1, 4, 200][k]
        dt = rng.choice(list(DT.keys()))
        spd, sdf, eps, sumdf = proglib.min_def(dt) if rng.random() < 0.6 else proglib.small_def(rng, dt)
        ops.append(proglib.sigdef_op(sid, 1, dt, rate=rng.choice([1000, 48000]), spd=spd, sdf=sdf, eps=eps, sumdf=sumdf, adf=10, udf=10))
        epd = max(1, spd // sdf)
        while eps % epd:
            epd -= 1
        a_spd = sdf * epd
        first = rng.choice([0, 0, 5, -3, 100000])
        total = rng.choice([0, 1, sdf, a_spd, 3 * a_spd + 1, sdf * eps + 3, rng.randrange(1, 4000 if tier == "quick" else 20000)])
        if deep and rng.random() < 0.75:
            # several level-1 chunks and (often) a level-2 chunk on disk: 1..3 summary levels
            total = sdf * eps * rng.choice([2, 3, 5, sumdf, sumdf + 2]) + rng.choice([0, 1, sdf, a_spd + 3])
            total = min(total, 9000 if tier == "quick" else 60000)
        pos = 0
        seed = rng.randrange(1, 10**6)
        calls = []
        const_blocks = DT_BITS[dt] <= 8 and allow_omit and rng.random() < 0.4
        while pos < total:
            n = min(total - pos, rng.choice([1, 7, a_spd, a_spd + 1, 2 * a_spd, rng.randrange(1, 3 * a_spd + 2)]))
            if const_blocks and rng.random() < 0.5:
                calls.append("fsr %d %d %d 0 %d" % (sid, first + pos, n, rng.choice([0, 1, 3])))
                has_omit = True
            else:
                calls.append("fsr %d %d %d %d %d" % (sid, first + pos, n, rng.choice([2, 1, 4]) if DT_BITS[dt] > 1 else 2, seed + len(calls)))
            if allow_omit and DT_BITS[dt] > 8 and rng.random() < 0.08:
                calls.append("omit %d %d" % (sid, rng.choice([0, 1])))
                has_omit = True
            pos += n
        na = rng.choice([0, 0, 1, 5, 25])
        ts = first
        for a in range(na):
            ts += rng.choice([0, 1, 10])
            calls.insert(rng.randrange(0, len(calls) + 1), None)
            calls[calls.index(None)] = "anno %d %d 3f800000 %d %d %d g%d.%d" % (sid, ts, rng.choice([0, 1, 2]), rng.choice([0, 3]), rng.choice([1, 2, 3]), rng.choice([0, 5, 200]), seed + a)
        nu = rng.choice([0, 0, 1, 3, 12])
        us = first
        utcs = []
        for u in range(nu):
            us += rng.choice([1, 100, 1000])
            utcs.append("utc %d %d %d" % (sid, us, 10**12 + u * 2**20))
        # keep annotation / utc order (non-decreasing) while interleaving with fsr calls
        annos = [c for c in calls if c.startswith("anno")]
        others = [c for c in calls if not c.startswith("anno")]
        merged = []
        ai = ui = 0
        for c in others:
            merged.append(c)
            while ai < len(annos) and rng.random() < 0.5:
                merged.append(annos[ai]); ai += 1
            while ui < len(utcs) and rng.random() < 0.5:
                merged.append(utcs[ui]); ui += 1
        merged += annos[ai:] + utcs[ui:]
        # annotation timestamps must be non-decreasing in write order
        ai_idx = [i for i, c in enumerate(merged) if c.startswith("anno")]
        tss = sorted(int(merged[i].split()[2]) for i in ai_idx)
        for i, tsv in zip(ai_idx, tss):
            f = merged[i].split()
            f[2] = str(tsv)
            merged[i] = " ".join(f)
        body.append(merged)
        sigs[sid] = dict(dt=dt, total=total, first=first, spd=a_spd, sdf=sdf, sumdf=sumdf, omit_req=any(c.startswith("omit") for c in merged),
                         may_omit=any(c.startswith("omit") for c in merged) or (DT_BITS[dt] <= 8 and any(c.startswith("fsr") and c.split()[4] == "0" for c in merged)))
    if rng.random() < 0.5:
        body.append(["anno 0 %d 3f800000 1 0 2 g6.%d" % (t, t) for t in sorted(rng.sample(range(0, 1000), rng.choice([1, 3, 12])))])
    body.append(["ud %d %d g%d.%d" % (rng.choice([1, 0xfff]), rng.choice([1, 2, 3]), rng.choice([0, 9, 1000]), rng.randrange(1, 999)) for _ in range(rng.randrange(0, 4))] + (edge_items(rng) if edge else []))
    idx = [0] * len(body)
    while any(idx[k] < len(body[k]) for k in range(len(body))):
        k = rng.choice([k for k in range(len(body)) if idx[k] < len(body[k])])
        ops.append(body[k][idx[k]])
        idx[k] += 1
    return ops, sigs, has_omit


def dump_ops(rng, sigs, tier, stats=False):
    ops = ["srcs", "sigs", "udr"]
    for sid, st in sigs.items():
        ops.append("len %d" % sid)
        if st["total"] > 0:
            ops.append("rd %d 0 %d" % (sid, st["total"]))
            for _ in range(3):
                a = rng.randrange(0, st["total"])
                ops.append("rd %d %d %d" % (sid, a, rng.randrange(1, st["total"] - a + 1)))
        ops.append("an %d -1000000000000" % sid)
        ops.append("ut %d -1000000000000" % sid)
    ops.append("an 0 -1000000000000")
    return ops


def gen_case(rng, tier):
    w, sigs, has_omit = gen_writer(rng, tier, edge=True)
    d = dump_ops(rng, sigs, tier)
    ops = w + ["wclose", "copy", "ropen"] + d + ["rclose"]
    return ";".join(ops), dict(sigs=sigs, has_omit=has_omit, dist=["omit" if has_omit else "plain"], trivial=False)


# ---------------------------------------------------------------- tie of CopyModel.cp_reissue to src/copy.c
# For programs whose FSR data is one global ramp per signal (pattern 1: the value at sample id s is base + (s - first),
# so every block of the final stream can be written as a script op), the calls jls_copy has to make according to
# CopyModel.cp_reissue are rebuilt from the ORIGINAL file's chunks in file order (a plain linear chunk scan below) as a
# script q.  Checked per case:
#   (a) the file jls_copy produces is byte-identical to the file the C writer produces when it runs q
#       (so jls_copy made exactly the calls of q, in that order, with those arguments);
#   (b) the extracted Spec accepts every call of q and reads q back exactly as it reads the original program p
#       (the conclusions of C17_reissue_ok / C17_reissue_preserves on this instance: q is a cp_reissue of p).
import os, struct


def jls_chunks(b):
    off, out = 32, []
    while off + 32 <= len(b):
        _nx, _pv, tag, _r, meta, plen, _pp, _crc = struct.unpack_from("<QQBBHIII", b, off)
        pad = (plen + 4) & 7
        pad = (8 - pad) if pad else 0
        out.append((off, tag, meta, b[off + 32: off + 32 + plen]))
        off += 32 + ((plen + pad + 4) if plen else 0)      # an empty payload has no pad / CRC on disk
    return out


def _tok(bs):
    return "e" if len(bs) == 0 else "x" + bs.hex()


def _strs(pay, pos, n):
    out = []
    for _ in range(n):
        e = pay.index(b"\0", pos)
        out.append(pay[pos:e])
        pos = e + 2                                           # NUL, unit separator
    return out


def reissue_script(b, ramp):
    """the writer calls of copy.c's switch, one per chunk in file order; ramp[sig] = (first id, base value)"""
    ops = []
    for _off, tag, meta, pay in jls_chunks(b):
        if tag == 0x01 and meta != 0:
            ops.append("src %d %s" % (meta, " ".join(_tok(x) for x in _strs(pay, 64, 5))))
        elif tag == 0x02 and meta != 0:
            src, st, _, dt, rate, spd, sdf, eps, sumdf, adf, udf = struct.unpack_from("<HBBIIIIIIII", pay, 0)
            name, units = _strs(pay, 4 + 4 * 8 + 92, 2)
            ops.append("sig %d %d %d %d %d %d %d %d %d %d %d %s %s" % (meta, src, st, dt, rate, spd, sdf, eps, sumdf, adf, udf, _tok(name), _tok(units)))
        elif tag == 0x22:
            sig = meta & 0xfff
            ts, cnt, _esz, _ = struct.unpack_from("<qIHH", pay, 0)
            first, base = ramp[sig]
            ops.append("fsr %d %d %d 1 %d" % (sig, ts, cnt, base + (ts - first)))
        elif tag == 0x32:
            ts, _r, at, st, grp, _r8, ybits, dsz = struct.unpack_from("<qQBBBBII", pay, 0)
            data = pay[28:28 + dsz]
            if st in (2, 3):
                data = data[:-1]                              # the writer re-appends the terminator
            ops.append("anno %d %d %08x %d %d %d %s" % (meta & 0xfff, ts, ybits, at, grp, st, _tok(data)))
        elif tag == 0x3a:
            ts, _cnt, _esz, _, utc = struct.unpack_from("<qIHHq", pay, 0)
            ops.append("utc %d %d %d" % (meta & 0xfff, ts, utc))
        elif tag == 0x40:
            st = (meta >> 12) & 0xf
            if st != 0:
                ops.append("ud %d %d %s" % (meta & 0xfff, st, _tok(pay[:-1] if st in (2, 3) else pay)))
    return ops


def gen_ramp_writer(rng, tier):
    """like gen_writer, but every signal's data is one ramp (overlapping calls allowed: they agree on the overlap),
    no omission, plus calls that must be rejected (repeated definitions, annotation with storage type 0)"""
    ops = ["wopen"]
    strs = lambda: rng.choice(["-", "e", "g%d.%d" % (rng.choice([1, 8, 300]), rng.randrange(1, 999))])
    nsrc = rng.randrange(1, 3)
    for s in range(nsrc):
        ops.append("src %d %s %s %s %s %s" % ([1, 9][s], strs(), strs(), strs(), strs(), strs()))
    sigs, ramp, body = {}, {}, []
    for k in range(rng.randrange(1, 4)):
        sid = [1, 4, 200][k]
        # 24-bit types excluded: jls_dt_buffer_to_f64 has no case for them, so their SUMMARY chunks are computed from an
        # unconverted (stale / uninitialised) buffer and the file bytes are not a function of the calls (DESIGN.md, C02 note)
        dt = rng.choice([t for t in DT.keys() if DT_BITS[t] != 24])
        spd, sdf, eps, sumdf = proglib.min_def(dt) if rng.random() < 0.6 else proglib.small_def(rng, dt)
        ops.append(proglib.sigdef_op(sid, rng.choice([1, 9][:nsrc]), dt, rate=rng.choice([1000, 48000]), spd=spd, sdf=sdf, eps=eps, sumdf=sumdf,
                                     adf=rng.choice([0, 10]), udf=rng.choice([0, 10]), name=strs(), units=strs()))
        epd = max(1, spd // sdf)
        while eps % epd:
            epd -= 1
        a_spd = sdf * epd
        first = rng.choice([0, 0, 5, -3, 100000])
        base = rng.randrange(0, 90000)
        total = rng.choice([0, 1, sdf, a_spd, 3 * a_spd + 1, sdf * eps + 3, rng.randrange(1, 3000 if tier == "quick" else 20000)])
        pos, calls = 0, []
        while pos < total:
            n = min(total - pos, rng.choice([1, 7, a_spd, a_spd + 1, 2 * a_spd, rng.randrange(1, 3 * a_spd + 2)]))
            back = rng.randrange(0, min(pos, 2 * a_spd) + 1) if (pos and rng.random() < 0.25) else 0
            calls.append("fsr %d %d %d 1 %d" % (sid, first + pos - back, n + back, base + pos - back))
            pos += n
        ts = first
        for a in range(rng.choice([0, 0, 1, 5, 25])):
            ts += rng.choice([0, 1, 10])
            st = rng.choice([1, 2, 3])
            calls.insert(rng.randrange(0, len(calls) + 1), "anno %d %d 3f800000 %d %d %d g%d.%d" % (sid, ts, rng.choice([0, 1, 2]), rng.choice([0, 3]), st, rng.choice([0, 5, 200]), rng.randrange(1, 999)))
        us = first
        for u in range(rng.choice([0, 0, 1, 3, 12])):
            us += rng.choice([1, 100, 1000])
            calls.insert(rng.randrange(0, len(calls) + 1), "utc %d %d %d" % (sid, us, 10**12 + u * 2**20))
        # annotation timestamps and UTC sample ids non-decreasing in write order
        for kind, col in (("anno", 2), ("utc", 2)):
            idx = [i for i, c in enumerate(calls) if c.startswith(kind)]
            vals = sorted(int(calls[i].split()[col]) for i in idx)
            for i, v in zip(idx, vals):
                f = calls[i].split()
                f[col] = str(v)
                calls[i] = " ".join(f)
        if rng.random() < 0.3:
            calls.insert(rng.randrange(0, len(calls) + 1), proglib.sigdef_op(sid, 1, dt, rate=1000))        # repeated definition: rejected
        if rng.random() < 0.3:
            calls.insert(rng.randrange(0, len(calls) + 1), "anno %d %d 3f800000 0 0 0 e" % (sid, first))     # storage type 0: rejected
        body.append(calls)
        sigs[sid] = dict(dt=dt, total=total, first=first)
        ramp[sid] = (first, base)
    if rng.random() < 0.5:
        body.append(["anno 0 %d 3f800000 1 0 %d g6.%d" % (t, rng.choice([1, 2]), t) for t in sorted(rng.sample(range(0, 1000), rng.choice([1, 3, 12])))])
    body.append(["ud %d %d g%d.%d" % (rng.choice([1, 0xfff]), rng.choice([0, 1, 2, 3]), rng.choice([0, 9, 1000]), rng.randrange(1, 999)) for _ in range(rng.randrange(0, 4))] + edge_items(rng))
    if rng.random() < 0.3:
        body.append(["src 1 e e e e e"])                                                                    # repeated source: rejected
    idx = [0] * len(body)
    while any(idx[k] < len(body[k]) for k in range(len(body))):
        k = rng.choice([k for k in range(len(body)) if idx[k] < len(body[k])])
        ops.append(body[k][idx[k]])
        idx[k] += 1
    return ops, sigs, ramp


def _hash_of(line):
    last = line.split(";")[-1].split()
    return (last[1], last[2]) if len(last) == 3 and last[0] == "hash" else None


def tie_run(ctx):
    import random
    rng = random.Random(ctx.seed * 7919 + 17)              # own stream: the main generator's cases do not change
    n = 40 if ctx.tier == "quick" else 400
    scratch = os.path.join(ctx.tmp, "scratch_tie")
    os.makedirs(scratch, exist_ok=True)
    cases = []
    for k in range(n):
        w, sigs, ramp = gen_ramp_writer(rng, ctx.tier)
        cases.append(dict(w=w, sigs=sigs, ramp=ramp, orig=os.path.join(scratch, "orig_%d.jls" % k), dump=dump_ops(rng, sigs, ctx.tier)))
    args = [scratch, "timeout=60"]
    s1 = [";".join(c["w"] + ["wclose", "save " + c["orig"], "copy", "hash"]) for c in cases]
    o1 = vlib.run_c("plain", "prog", s1, args=args, timeout=3000)
    s2 = []
    for c, out in zip(cases, o1):
        try:
            c["q"] = reissue_script(open(c["orig"], "rb").read(), c["ramp"])
        except Exception as e:                              # noqa: the original could not be scanned
            c["q"] = None
            c["err"] = repr(e)
        s2.append(";".join(["wopen"] + (c["q"] or []) + ["wclose", "hash"]))
    o2 = vlib.run_c("plain", "prog", s2, args=args, timeout=3000)
    rd = lambda c: ["wclose", "ropen"] + c["dump"] + ["rclose"]
    m1 = vlib.run_model("prog", [";".join(c["w"] + rd(c)) for c in cases], timeout=3000)
    m2 = vlib.run_model("prog", [";".join(["wopen"] + (c["q"] or []) + rd(c)) for c in cases], timeout=3000)
    nbad = 0
    stats = dict(cases=n, identical=0, spec_equal=0, reissued_calls=0, rejected_in_original=0)
    for k, c in enumerate(cases):
        ctx.count(("tie", s1[k]), nontrivial=bool(c["q"]), sample=None)
        why = None
        copy_rc = [t for t in o1[k].split(";") if t.startswith("copy")]
        if c["q"] is None:
            why = "the original file could not be scanned: %s / %s" % (c.get("err"), o1[k][:200])
        elif not copy_rc or copy_rc[0].split()[1:] != ["0"]:
            why = "jls_copy failed: %s" % (copy_rc or o1[k][-200:])
        elif _hash_of(o1[k]) is None or _hash_of(o1[k]) != _hash_of(o2[k]):
            why = "jls_copy's file differs from the file written by the re-issued calls (cp_reissue, file order): copy %s, re-issue %s" % (_hash_of(o1[k]), _hash_of(o2[k]))
        else:
            stats["identical"] += 1
            nw = len(c["q"]) + 1
            wr2 = m2[k].split(";")[:nw]
            rd1 = m1[k].split(";")[len(c["w"]) + 1:]
            rd2 = m2[k].split(";")[nw + 1:]
            stats["reissued_calls"] += len(c["q"])
            stats["rejected_in_original"] += len([t for t in m1[k].split(";")[:len(c["w"])] if t.split()[1:2] == ["E"]])
            if any(t.split()[1:2] != ["0"] for t in wr2):
                why = "Spec rejects a re-issued call (C17_reissue_ok on this instance): %s" % [t for t in wr2 if t.split()[1:2] != ["0"]][:3]
            elif rd1 != rd2 or not rd1:
                d = [(a, b) for a, b in zip(rd1, rd2) if a != b][:2]
                why = "Spec reads the re-issued calls differently from the original program (C17_reissue_preserves on this instance): %s" % (d,)
            else:
                stats["spec_equal"] += 1
        if why:
            nbad += 1
            if nbad <= 10:
                ctx.violation("c17_tie_%d.txt" % nbad,
                              "original program + copy:\n%s\n\nre-issue script rebuilt from the original's chunks:\n%s\n\nreplay: echo '<script>' | "
                              "/verif/build/plain/jlsrun prog /tmp timeout=60\nimpl(original+copy): %s\nimpl(re-issue): %s\n\n%s\n"
                              % (s1[k], s2[k], o1[k][-300:], o2[k][-300:], why), "copy tie: " + why[:160])
    ctx.extra["reissue_tie"] = stats
    ctx.cov["rule_summ"] = ("%d ramp programs: jls_copy output byte-identical to the C writer run on the calls rebuilt from the original's chunks in file order "
                            "(%d identical), and Spec accepts those calls and reads them back as the original (%d equal)" % (n, stats["identical"], stats["spec_equal"]))


def unclosed_run(ctx):
    """originals that were left UNCLOSED: the writer program is stopped between two API calls (image = the first k backend writes, k = the
    log length after a randomly chosen call), jls_copy copies that file, and the reader dump of the copy must equal the reader dump of the
    original itself (which jls_rd_open repairs in place when it is opened afterwards)."""
    import crashlib
    rng = ctx.rng
    n = 25 if ctx.tier == "quick" else 250
    progs = [gen_writer(rng, ctx.tier, allow_omit=False, deep=(i % 2 == 0), edge=True) for i in range(n)]
    probes = crashlib.probe(ctx, [p[0] for p in progs])
    scripts, metas = [], []
    for (w, sigs, _), pr in zip(progs, probes):
        if not pr["ok"] or len(pr["marks"]) < 6:
            continue
        first_data = max(i for i, o in enumerate(w) if o.split()[0] in ("src", "sig")) + 2
        cand = [i for i in range(first_data, len(w)) if i < len(pr["marks"])]
        if not cand:
            continue
        for i in sorted(set(rng.sample(cand, min(3, len(cand))))):
            k = pr["marks"][i]
            d = ["srcs", "sigs", "udr"]
            for sid in sigs:
                d += ["rdall %d" % sid, "an %d -1000000000000" % sid, "ut %d -1000000000000" % sid]
            d.append("an 0 -1000000000000")
            scripts.append(";".join(w + ["wclose", "image %d 0" % k, "copy", "ropen"] + d + ["rclose", "use 1", "ropen"] + d + ["rclose"]))
            metas.append(dict(k=k, after_op=i, nd=len(d), nw=len(w)))
    impl, _ = proglib.run_pair(ctx, scripts, "plain", model=False, timeout=60)
    nv = 0
    for script, meta, a in zip(scripts, metas, impl):
        toks = a.split(";")
        base = meta["nw"] + 3                      # w ops, wclose, image, copy
        copy_rc = toks[base - 1] if len(toks) >= base else ""
        dc = toks[base + 1: base + 1 + meta["nd"]]
        do = toks[base + 1 + meta["nd"] + 3: base + 1 + 2 * meta["nd"] + 3]
        o1 = toks[base] if len(toks) > base else ""
        o2 = toks[base + meta["nd"] + 3] if len(toks) > base + meta["nd"] + 3 else ""
        ctx.count(("unclosed", script), nontrivial=True, sample={"kind": "unclosed original -> jls_copy", "stopped_after_op": meta["after_op"], "copy": copy_rc, "open_copy": o1, "open_original": o2})
        why = None
        sig = None
        if "FAULT" in a:
            why = "fault: " + toks[-1]
        elif o2.split()[1:2] != ["0"]:
            continue                               # the original itself cannot be opened after the stop: nothing to compare (C03's subject)
        elif copy_rc.split()[1:2] != ["0"]:
            why = "jls_copy of a readable unclosed original failed: %s" % copy_rc
        elif o1.split()[1:2] != ["0"]:
            why = "the copy of an unclosed original does not open: %s" % o1
        else:
            diff = [(x.split()[0], x[:120], y[:120]) for x, y in zip(dc, do) if x != y]
            if diff:
                why = "the copy of an unclosed original reads back differently from the original: %s: copy '%s' / original '%s'" % diff[0]
                # recorded finding: annotation / UTC tracks are not repaired by jls_rd_open, so the reader of the unclosed original returns only the
                # entries reachable through committed index chunks, while jls_copy re-issues every DATA chunk: the copy holds MORE entries
                import crashlib as _cl
                def _more(x, y):
                    if x.split()[0] not in ("ut", "an") or x.split()[0] != y.split()[0]:
                        return False
                    ix, _r = proglib.parse_items(x[2:])
                    iy, _r2 = proglib.parse_items(y[2:])
                    return ix is not None and iy is not None and len(iy) < len(ix) and _cl.is_subsequence(iy, ix)
                if all(_more(x, y) for x, y in zip(dc, do) if x != y):
                    sig = "unclosed-original-copy-recovers-more-index-track-entries"
        if why and nv < 40:
            if ctx.violation("c17_unclosed_%d.txt" % (nv + 1), "%s\n\nscript:\n%s\n\nreplay: echo '<script>' | /verif/build/plain/jlsrun prog /tmp timeout=60\nimplementation: %s\n" % (why, script, a[-3000:]),
                             "unclosed original: " + why[:200], sig=sig):
                nv += 1
    ctx.extra["unclosed_originals"] = {"cases": len(scripts), "violations": nv}


def pre_all(ctx):
    tie_run(ctx)
    unclosed_run(ctx)


def classify(script, meta, mism):
    if meta.get("has_omit") and all(x["cls"] == "fsr" and x["op"].startswith(("rd", "len")) for x in mism):
        return "copy-omitted-blocks-become-fill"
    return None


def run(ctx):
    return proglib.run_prog_property(
        ctx, PROP_FILES, gen_case, DUMP_CLASSES, 150, 1500,
        "case = writer program (1-2 sources, 1-3 FSR signals of any type with minimal/small definitions, first ids 0/5/-3/100000, 0..4000 samples in "
        "calls of block-relative sizes, constant blocks / omission toggles, annotations incl. signal 0, UTC entries, user data, all interleaved), "
        "closed, then jls_copy; the COPY is opened and sources, signals, user data, lengths, whole-signal and random windows, all annotations and all "
        "UTC entries are compared with the extracted spec_of of the program; also UNCLOSED originals (the program stopped between two API calls): reader dump of the copy = reader dump of the original; distinct = script",
        classify=classify, timeout=60, pre_run=pre_all)


def replay(ctx, path):
    print(open(path).read())
    return 0
