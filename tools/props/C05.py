"""C05: files conform to the published format; an independent decoder agrees.
coq/Decode.v is a decoder written from include/jls/format.h only; coq/Properties_C05.v proves its soundness
(dw_walk f = Ok w implies the conformance record: CRCs, alignment, tiling, END, lengths, links, head tables, index
entries) and totality.  The extracted decoder walks every file the implementation produces here (sync writer,
jls_copy output, repaired crash images) in STRICT mode and its rebuilt content is compared with the library reader."""
import os, glob, struct
import vlib, proglib
import C05_walk

def _gen_const(name, default):
    """a constant of coq/Generated.v (regenerated from /repo's headers by every run)"""
    import re
    try:
        m = re.search(r"Definition %s : N := (\d+)\." % name, open(os.path.join(vlib.COQ, "Generated.v")).read())
        return int(m.group(1)) if m else default
    except Exception:
        return default


PROP_FILES = ["Properties_C05.v", "Properties_gen.v", "Properties_compose.v", "Properties_e2e.v", "Properties_links.v"]


def _chunk(d, off):
    """(tag, chunk_meta, payload) of the chunk at byte offset off, or None"""
    if off < 32 or off + 32 > len(d):
        return None
    nx, pv, tag, rsv, meta, pl, ppl, crc = struct.unpack("<QQBBHIII", d[off:off + 32])
    if off + 32 + pl > len(d):
        return None
    return tag, meta, d[off + 32:off + 32 + pl]


def skipped_omitted_blocks(path, verdict, sigs):
    """The decoder refused a repaired file because a level-1 FSR index entry points at a DATA chunk with another timestamp than the entry's
    position implies.  Returns the signature of the recorded finding iff the file shows exactly that history: the signal can have omitted
    blocks (omission requested, or constant blocks of a <= 8-bit type), every mismatching entry points at a DATA chunk of the same signal
    that lies a whole number of blocks LATER than its position (the omitted blocks in between have no entry), and no entry points earlier."""
    try:
        TAG_FSR_DATA, TAG_FSR_INDEX = _gen_const("JLS_TAG_TRACK_FSR_DATA", 0x22), _gen_const("JLS_TAG_TRACK_FSR_INDEX", 0x23)
        off = int(verdict.split()[2])
        d = open(path, "rb").read()
        c = _chunk(d, off)
        if c is None or c[0] != TAG_FSR_INDEX or (c[1] >> 12) != 1 or len(c[2]) < 16:
            return None
        sid = c[1] & 0x0fff
        st = sigs.get(sid)
        if not st or not st.get("may_omit") or not st.get("spd"):
            return None
        ts, cnt, esb, _ = struct.unpack("<qIHH", c[2][:16])
        if esb != 64 or 16 + 8 * cnt > len(c[2]):
            return None
        late = 0
        for i, e in enumerate(struct.unpack("<%dQ" % cnt, c[2][16:16 + 8 * cnt])):
            if e == 0:
                continue
            t = _chunk(d, e)
            if t is None or t[0] != TAG_FSR_DATA or t[1] != sid or len(t[2]) < 16:
                return None
            delta = struct.unpack("<q", t[2][:8])[0] - (ts + i * st["spd"])
            if delta < 0 or delta % st["spd"] != 0:
                return None
            late += 1 if delta > 0 else 0
        return "repaired-nonconformant:index-entry-timestamp:omitted-blocks-skipped" if late else None
    except Exception:
        return None


def first_chunk_before_head_update(path, verdict):
    """The decoder refused a repaired file because level 0 of a track's head table does not name the first DATA chunk of the track.  Returns
    the signature of the recorded finding iff the file shows exactly this history: the table entry is still 0 (never written, not a wrong
    pointer), and the track's DATA chunks in the file form one list that starts with a chunk without predecessor - the writer was stopped
    after appending the first chunk of the track and before rewriting the head table in place, and the open repairs neither."""
    try:
        off = int(verdict.split()[2])
        d = open(path, "rb").read()
        c = _chunk(d, off)
        if c is None or (c[0] & 0x27) != 0x21 or len(c[2]) < 8:      # a track HEAD chunk
            return None
        if struct.unpack("<Q", c[2][:8])[0] != 0:
            return None
        data_tag = (c[0] & 0x38) | 0x02
        found, pos = [], 32
        while pos + 32 <= len(d):
            nx, pv, tag, rsv, meta, pl, ppl, crc = struct.unpack("<QQBBHIII", d[pos:pos + 32])
            if tag == data_tag and meta == c[1]:
                found.append((pos, pv))
            pos += (32 + pl + (4 if pl else 0) + 7) // 8 * 8
        if not found or found[0][1] != 0 or any(pv == 0 for (_, pv) in found[1:]):
            return None
        return "repaired-nonconformant:track-head-entry-0:first-chunk-before-head-update"
    except Exception:
        return None


def head_zeroed_after_omitted_tail(path, verdict):
    """The decoder refused a repaired file because level 1 of an FSR head table does not name the first level-1 INDEX chunk.  Returns the
    signature of the recorded finding iff: the entry is 0, level-1 INDEX chunks of the signal exist, and the last one of their list ends
    with a 0 entry (the last block was omitted) - jls_track_repair_pointers takes that 0 for 'no lower level' and clears the head entry."""
    try:
        off = int(verdict.split()[2])
        d = open(path, "rb").read()
        c = _chunk(d, off)
        if c is None or c[0] != _gen_const("JLS_TAG_TRACK_FSR_HEAD", 0x21) or len(c[2]) < 16:
            return None
        if struct.unpack("<Q", c[2][8:16])[0] != 0:
            return None
        last, pos = None, 32
        while pos + 32 <= len(d):
            nx, pv, tag, rsv, meta, pl, ppl, crc = struct.unpack("<QQBBHIII", d[pos:pos + 32])
            if tag == _gen_const("JLS_TAG_TRACK_FSR_INDEX", 0x23) and meta == (c[1] | 0x1000) and nx == 0:
                last = d[pos + 32:pos + 32 + pl]
            pos += (32 + pl + (4 if pl else 0) + 7) // 8 * 8
        if last is None or len(last) < 16:
            return None
        ts, cnt, esb, _ = struct.unpack("<qIHH", last[:16])
        if cnt < 1 or 16 + 8 * cnt > len(last) or struct.unpack("<Q", last[16 + 8 * (cnt - 1):16 + 8 * cnt])[0] != 0:
            return None
        return "repaired-nonconformant:track-head-entry-1:last-block-omitted"
    except Exception:
        return None


def run(ctx):
    vlib.build(ctx, PROP_FILES, variants=("plain",))
    C05_walk.run_walk(ctx, parts=("walk",))
    # files produced by jls_copy and by the repair-on-open path must conform too
    extra = []
    out = os.path.join(ctx.tmp, "walk2")
    os.makedirs(out, exist_ok=True)
    n = 30 if ctx.tier == "quick" else 300
    import C17, crashlib
    scripts, files, kinds, sigmeta = [], [], [], {}
    for i in range(n):
        w, sigs, has_omit = C17.gen_writer(ctx.rng, ctx.tier)
        f1 = os.path.join(out, "copy%d.jls" % i)
        scripts.append(";".join(w + ["wclose", "copy", "save " + f1])); files.append(f1); kinds.append("copy")
    probes = []
    progs = []
    for i in range(n // 3):
        w, sigs, has_omit = C17.gen_writer(ctx.rng, ctx.tier)
        progs.append((w, sigs))
    pr = crashlib.probe(ctx, [p[0] for p in progs])
    for i, ((w, sigs), p) in enumerate(zip(progs, pr)):
        if not p["ok"]:
            continue
        ne = len(p["entries"])
        pts = [(k, 0) for k in sorted(set([ne // 2, ne - 5, ne - 1]))]
        # torn appends: the stop leaves a partial chunk behind the last complete one (inside a header, a payload, a footer)
        end, app = 0, []
        for k, (kind, off, ln) in enumerate(p["entries"]):
            if kind == 1:
                end = min(end, off)
            if kind != 0:
                continue
            if off >= end and ln > 1 and k > 8:
                app.append((k, ln))
            end = max(end, off + ln)
        for (k, ln) in ctx.rng.sample(app, min(len(app), 5)):
            pts.append((k, ctx.rng.choice([1, min(8, ln - 1), ln // 2, ln - 1])))
        for (k, j) in pts:
            if k <= 0:
                continue
            f2 = os.path.join(out, "rep%d_%d_%d.jls" % (i, k, j))
            scripts.append(";".join(w + ["wclose", "image %d %d" % (k, j), "ropen", "rclose", "save " + f2])); files.append(f2); kinds.append("repaired")
            sigmeta[f2] = sigs
    scratch = os.path.join(ctx.tmp, "scratch_walk2")
    os.makedirs(scratch, exist_ok=True)
    impl = vlib.run_c("plain", "prog", scripts, args=[scratch, "timeout=60"], timeout=3000)
    have = [(s, f, k, a) for s, f, k, a in zip(scripts, files, kinds, impl) if os.path.exists(f) and os.path.getsize(f) > 0 and ";ropen 0" in (a if k == "repaired" else ";ropen 0")]
    verdicts = C05_walk.walk_files(ctx, [h[1] for h in have], "report")
    nbad = 0
    for (s, f, k, a), v in zip(have, verdicts):
        ctx.count((k, s), nontrivial=True, sample={"kind": k, "walk": v[:160]})
        # payload_prev_length of every chunk (also reported when another check fails first)
        ppl_items = C05_walk.parse_ppl(v)
        if ppl_items:
            nbad += 1
            if nbad <= 20:
                ctx.violation("walk_%s_ppl_%d.txt" % (k, nbad), "script:\n%s\n\nwalk: %s\n" % (s, v),
                              "%s file: payload_prev_length of a chunk does not equal the payload_length of the chunk before it (offset:tag:stored:expected:prev_empty) %s"
                              % (k, " ".join("%d:%d:%d:%d:%d" % it for it in ppl_items)[:200]), sig=None)
        if not v.startswith("OK"):
            nbad += 1
            sig = ("repaired-nonconformant:" + (v.split() + ["?", "?"])[1]) if k == "repaired" else None
            if sig == "repaired-nonconformant:index-entry-timestamp":
                # listed only for the one history that is a recorded defect (blocks omitted by the writer whose level-1 summary was still
                # buffered at the stop: the repair re-indexes the DATA chunks on disk as if they were consecutive); anything else stays a violation
                sig = skipped_omitted_blocks(f, v, sigmeta.get(f, {})) or sig
            elif sig == "repaired-nonconformant:track-head-entry-0":
                sig = first_chunk_before_head_update(f, v) or sig
            elif sig == "repaired-nonconformant:track-head-entry-1":
                sig = head_zeroed_after_omitted_tail(f, v) or sig
            if nbad <= 20:
                ctx.violation("walk_%s_%d.txt" % (k, nbad), "script:\n%s\n\nwalk: %s\n" % (s, v), "format walk of a %s file failed: %s" % (k, v[:160]), sig=sig)
    ctx.cov["rule"] = ("writer programs (several sources/signals/types, annotations, UTC, user data, omission, 0..4 summary levels, empty signals) run on the implementation; "
                       "every produced file is walked by the extracted verified decoder (strict: every CRC, alignment, zero padding, file length, payload_prev_length, "
                       "every link, head table and index entry incl. timestamps, INDEX followed by SUMMARY) and its rebuilt definitions/samples/annotations/UTC/user data are "
                       "compared with the library reader; also jls_copy outputs and files repaired on open (clean stops and stops inside an appended header / payload / footer); distinct = script")
    if ctx.tier == "thorough":
        vlib.coqchk(ctx, ["Properties_C05"])
    return vlib.finish(ctx, "proof", "make -C /verif/coq -f Makefile.coq Properties_C05.vo; coqc -Q . JLS Properties_C05.v",
                       note="verified checker (decoder soundness and totality proved for all byte strings) applied to sampled outputs of the implementation; "
                            "that the WRITER always produces conformant files is not proved here (no byte-level writer theorem yet)")


def replay(ctx, path):
    print(open(path).read())
    return 0
