"""C05: files conform to the published format; an independent decoder agrees.
coq/Decode.v is a decoder written from include/jls/format.h only; coq/Properties_C05.v proves its soundness
(dw_walk f = Ok w implies the conformance record: CRCs, alignment, tiling, END, lengths, links, head tables, index
entries) and totality.  The extracted decoder walks every file the implementation produces here (sync writer,
jls_copy output, repaired crash images) in STRICT mode and its rebuilt content is compared with the library reader."""
import os, glob
import vlib, proglib
import C05_walk

PROP_FILES = ["Properties_C05.v", "Properties_gen.v", "Properties_compose.v", "Properties_e2e.v", "Properties_links.v"]


def run(ctx):
    vlib.build(ctx, PROP_FILES, variants=("plain",))
    C05_walk.run_walk(ctx, parts=("walk",))
    # files produced by jls_copy and by the repair-on-open path must conform too
    extra = []
    out = os.path.join(ctx.tmp, "walk2")
    os.makedirs(out, exist_ok=True)
    n = 30 if ctx.tier == "quick" else 300
    import C17, crashlib
    scripts, files, kinds = [], [], []
    for i in range(n):
        w, sigs, has_omit = C17.gen_writer(ctx.rng, ctx.tier)
        f1 = os.path.join(out, "copy%d.jls" % i)
        scripts.append(";".join(w + ["wclose", "copy", "save " + f1])); files.append(f1); kinds.append("copy")
    probes = []
    progs = []
    for i in range(n // 3):
        w, sigs, has_omit = C17.gen_writer(ctx.rng, ctx.tier)
        progs.append((w, sigs))
    pr = crashlib.probe(ctx, [p[0] for p in progs])
    for i, ((w, sigs), p) in enumerate(zip(progs, pr)):
        if not p["ok"]:
            continue
        ne = len(p["entries"])
        pts = [(k, 0) for k in sorted(set([ne // 2, ne - 5, ne - 1]))]
        # torn appends: the stop leaves a partial chunk behind the last complete one (inside a header, a payload, a footer)
        end, app = 0, []
        for k, (kind, off, ln) in enumerate(p["entries"]):
            if kind == 1:
                end = min(end, off)
            if kind != 0:
                continue
            if off >= end and ln > 1 and k > 8:
                app.append((k, ln))
            end = max(end, off + ln)
        for (k, ln) in ctx.rng.sample(app, min(len(app), 5)):
            pts.append((k, ctx.rng.choice([1, min(8, ln - 1), ln // 2, ln - 1])))
        for (k, j) in pts:
            if k <= 0:
                continue
            f2 = os.path.join(out, "rep%d_%d_%d.jls" % (i, k, j))
            scripts.append(";".join(w + ["wclose", "image %d %d" % (k, j), "ropen", "rclose", "save " + f2])); files.append(f2); kinds.append("repaired")
    scratch = os.path.join(ctx.tmp, "scratch_walk2")
    os.makedirs(scratch, exist_ok=True)
    impl = vlib.run_c("plain", "prog", scripts, args=[scratch, "timeout=60"], timeout=3000)
    have = [(s, f, k, a) for s, f, k, a in zip(scripts, files, kinds, impl) if os.path.exists(f) and os.path.getsize(f) > 0 and ";ropen 0" in (a if k == "repaired" else ";ropen 0")]
    verdicts = C05_walk.walk_files(ctx, [h[1] for h in have], "report")
    nbad = 0
    for (s, f, k, a), v in zip(have, verdicts):
        ctx.count((k, s), nontrivial=True, sample={"kind": k, "walk": v[:160]})
        # payload_prev_length of every chunk (also reported when another check fails first)
        ppl_items = C05_walk.parse_ppl(v)
        if ppl_items:
            nbad += 1
            if nbad <= 20:
                ctx.violation("walk_%s_ppl_%d.txt" % (k, nbad), "script:\n%s\n\nwalk: %s\n" % (s, v),
                              "%s file: payload_prev_length of a chunk does not equal the payload_length of the chunk before it (offset:tag:stored:expected:prev_empty) %s"
                              % (k, " ".join("%d:%d:%d:%d:%d" % it for it in ppl_items)[:200]), sig=None)
        if not v.startswith("OK"):
            nbad += 1
            sig = ("repaired-nonconformant:" + (v.split() + ["?", "?"])[1]) if k == "repaired" else None
            if nbad <= 20:
                ctx.violation("walk_%s_%d.txt" % (k, nbad), "script:\n%s\n\nwalk: %s\n" % (s, v), "format walk of a %s file failed: %s" % (k, v[:160]), sig=sig)
    ctx.cov["rule"] = ("writer programs (several sources/signals/types, annotations, UTC, user data, omission, 0..4 summary levels, empty signals) run on the implementation; "
                       "every produced file is walked by the extracted verified decoder (strict: every CRC, alignment, zero padding, file length, payload_prev_length, "
                       "every link, head table and index entry incl. timestamps, INDEX followed by SUMMARY) and its rebuilt definitions/samples/annotations/UTC/user data are "
                       "compared with the library reader; also jls_copy outputs and files repaired on open (clean stops and stops inside an appended header / payload / footer); distinct = script")
    if ctx.tier == "thorough":
        vlib.coqchk(ctx, ["Properties_C05"])
    return vlib.finish(ctx, "proof", "make -C /verif/coq -f Makefile.coq Properties_C05.vo; coqc -Q . JLS Properties_C05.v",
                       note="verified checker (decoder soundness and totality proved for all byte strings) applied to sampled outputs of the implementation; "
                            "that the WRITER always produces conformant files is not proved here (no byte-level writer theorem yet)")


def replay(ctx, path):
    print(open(path).read())
    return 0
