"""C11 / C12, timestamp-indexed tracks (slice `ts`): wr_ts.c commit pyramid, jls_core_ts_seek,
jls_core_annotations, jls_core_utc at the level of chunks and entries.

Proof: coq/Properties_C11.v, coq/Properties_C12_ts.v (TsModel.v / TsProofs.v).
Correspondence: real files are written with the `prog` harness (jls_wr_annotation / jls_wr_utc /
jls_wr_close), the chunk structure of the annotation / UTC track is parsed from the bytes
(kind, level, index entries as (timestamp, ordinal of the target chunk within the track),
summary entries, head offsets) and compared with the disk of the extracted model; the
delivered lists of jls_rd_annotations / jls_rd_utc (incl. stopping callbacks) are compared with
the model's reader and with the property's executable statement.

run_ts(ctx) is called by tools/props/C11.py / C12.py (or stand-alone: python3 tools/props/C11_ts.py [quick|thorough])."""
import os, struct, sys
sys.path.insert(0, os.path.dirname(os.path.dirname(os.path.abspath(__file__))))
import vlib

PROP_FILES = ["Properties_C11.v", "Properties_C12_ts.v"]
SIG_D1 = "ts-decimate-factor-1-level-16-alloc-then-heap-overflow"
SIG_D0 = "ts-decimate-factor-0-heap-overflow"
SIG_LVL = "ts-level-16-alloc-fails-then-heap-overflow"
TAGS = {"a": (48, 49, 50, 51, 52), "u": (56, 57, 58, 59, 60)}   # DEF HEAD DATA INDEX SUMMARY (checked against Generated.v in run_ts)
F32, U24 = 8196, 6147


# ---------------------------------------------------------------- file parser
def parse_track(path, sig, kind):
    """-> (chunks in the model's text format, head string) for the track of `sig`."""
    b = open(path, "rb").read()
    _, t_head, t_data, t_index, t_summary = TAGS[kind]
    pos = 32
    chunks = []       # (offset, tag, level, payload)
    head_payload = None
    while pos + 32 <= len(b):
        item_next, item_prev, tag, rsv, meta, plen, pprev, crc = struct.unpack_from("<QQBBHIII", b, pos)
        pay = b[pos + 32: pos + 32 + plen]
        if (meta & 0x0fff) == sig and tag in (t_data, t_index, t_summary):
            chunks.append((pos, tag, meta >> 12, pay, item_next))
        if (meta & 0x0fff) == sig and tag == t_head:
            head_payload = pay
        pos += 32 + (((plen + 4 + 7) // 8) * 8 if plen else 0)
    ordn = {c[0]: i + 1 for i, c in enumerate(chunks)}
    out = []
    links_ok = True
    for (off, tag, lvl, pay, item_next) in chunks:
        ts, cnt, esb, _ = struct.unpack_from("<qIHH", pay, 0)
        if tag == t_data:
            if kind == "a":
                ts, _, at, st, grp, _, yb, dsz = struct.unpack_from("<qQBBBBII", pay, 0)
                out.append("D:%d,%d" % (ts, yb))
            else:
                ts, cnt, esb, _, utc = struct.unpack_from("<qIHHq", pay, 0)
                out.append("D:%d,%d" % (ts, utc))
            sel = lambda c: c[1] == t_data
        elif tag == t_index:
            es = [struct.unpack_from("<qQ", pay, 16 + 16 * i) for i in range(cnt)]
            out.append("I%d:%s" % (lvl, ",".join("%d@%d" % (t, ordn.get(o, -1)) for t, o in es)))
            if es and ts != es[0][0]:
                links_ok = False
            sel = lambda c, lvl=lvl: c[1] == t_index and c[2] == lvl
        else:
            if kind == "a":
                es = [struct.unpack_from("<qBBBBI", pay, 16 + 16 * i) for i in range(cnt)]
                out.append("S%d:%s" % (lvl, "|".join("%d,%d" % (e[0], e[5]) for e in es)))
            else:
                es = [struct.unpack_from("<qq", pay, 16 + 16 * i) for i in range(cnt)]
                out.append("S%d:%s" % (lvl, "|".join("%d,%d" % e for e in es)))
            sel = lambda c, lvl=lvl: c[1] == t_summary and c[2] == lvl
        # item_next = the next chunk of the same list (the model's ts_next)
        nxt = [c[0] for c in chunks if c[0] > off and sel(c)]
        if item_next != (nxt[0] if nxt else 0):
            links_ok = False
    heads = struct.unpack_from("<16Q", head_payload, 0) if head_payload is not None and len(head_payload) >= 128 else (0,) * 16
    return " ".join(out), ",".join(str(ordn.get(h, -1) if h else 0) for h in heads), links_ok


# ---------------------------------------------------------------- cases
def patterns(rng, d, n):
    """non-decreasing key sequences of length n, aimed at runs of equal keys across index-chunk boundaries"""
    pats = []
    pats.append(("inc", [10 * i - 50 for i in range(n)]))
    if n:
        pats.append(("alleq", [7] * n))
    # one run of equal keys straddling a level-1 chunk boundary (start a few before k*d, given length)
    for _ in range(3):
        if n > d:
            b = d * rng.randrange(1, (n - 1) // d + 1)
            before = rng.choice([1, 1, 2, d - 1, d])
            ln = before + rng.choice([1, 2, d - 1, d, d + 1, 2 * d, 2 * d + 1, d * d, d * d + 1])
            s = max(0, b - before)
            ks, t = [], -3
            for i in range(n):
                if not (s < i < s + ln):
                    t += rng.choice([1, 2, 5])
                ks.append(t)
            pats.append(("run@%d+%d" % (s, ln), ks))
    # many runs: every boundary of level 1 / level 2 straddled
    for per in (d, d * d):
        if n > per:
            ks, t = [], 0
            for i in range(n):
                if i % per != 0:
                    t += 1            # key[b] == key[b-1] at every multiple b of per
                ks.append(t)
            pats.append(("every%d" % per, ks))
    # random with runs
    for _ in range(2):
        ks, t, i = [], rng.choice([0, -100, 2 ** 40]), 0
        while i < n:
            run = rng.choice([1, 1, 1, 2, 3, d - 1, d, d + 1, 2 * d + 1, d * d + 1]) if rng.random() < 0.4 else 1
            for _ in range(min(run, n - i)):
                ks.append(t); i += 1
            t += rng.choice([1, 1, 2, 100])
        pats.append(("rand", ks))
    return pats


def counts(d, tier):
    cap = 1150 if tier == "quick" else 2300     # (4200 made the thorough tier hold ~45 M delivered entries in memory: 46 GB)
    c = {0, 1, 2, d - 1, d, d + 1, 2 * d - 1, 2 * d, 2 * d + 1, d * d - 1, d * d, d * d + 1, d * d + d, d * d + d + 1, 2 * d * d, 2 * d * d + 1,
         d ** 3 - 1, d ** 3, d ** 3 + 1, d ** 3 + d * d + d + 1, 2 * d ** 3 + 1, d ** 4 - 1, d ** 4, d ** 4 + 1, d ** 4 + d ** 3 + 1, d ** 5, d ** 5 + 1}
    return sorted(x for x in c if 0 <= x <= cap)


def queries(rng, kind, d, keys, tier):
    q = []
    nq = 14 if tier == "quick" else 22
    ts = [-10 ** 9, 10 ** 13]
    if keys:
        ts += [keys[0] - 1, keys[0], keys[-1], keys[-1] + 1]
        for b in range(d, len(keys), d):
            if len(ts) < nq and rng.random() < 0.6:
                ts += [keys[b], keys[b - 1], keys[b] + 1]
        for b in range(d * d, len(keys), d * d):
            ts += [keys[b], keys[b] - 1]
        while len(ts) < nq:
            ts.append(keys[rng.randrange(len(keys))] + rng.choice([0, 0, -1, 1]))
    ts = ts[:nq + 6]
    for t in ts:
        q.append((kind, t, 0))
    q.append((kind, ts[-1], rng.choice([1, 2, 3])))
    q.append((kind, -10 ** 9, rng.choice([1, d, d + 1])))
    return q


REQUESTED = {"quick": [0, 1, 2, 3, 10, 11, 13], "thorough": [0, 1, 2, 3, 5, 7, 10, 11, 13, 20, 31, 100]}


def probe_effective(ctx, scratch):
    """the decimate factors the writer stores for each requested value (normalisation is C16's subject):
       requested -> (annotation factor, utc factor), f32 and u24 signals"""
    eff = {}
    keys = [(d, dt) for d in REQUESTED[ctx.tier] for dt in (F32, U24)]
    scripts = ["wopen;src 1 e e e e e;sig 1 1 0 %d 1000 0 0 0 0 %d %d e e;wclose;ropen;sigs;rclose" % (dt, d, d) for d, dt in keys]
    for (d, dt), out in zip(keys, vlib.run_c("plain", "prog", scripts, args=[scratch])):
        try:
            sig1 = [x for x in out.split(";") if x.startswith("sigs ")][0].split()[4].split(",")
            eff[(d, dt)] = (int(sig1[9]), int(sig1[10]))
        except Exception:
            eff[(d, dt)] = (d, d)      # could not be read back: assume stored as requested
    return eff


def gen_cases(ctx, eff):
    rng = ctx.rng
    cases = []
    for (dreq, dt), (adf, udf) in sorted(eff.items()):
        for kind in ("a", "u"):
            d = adf if kind == "a" else udf
            if d < 2:
                # fault classes of the unclamped writer: factor 1 (any count), 0 (no defaults taken)
                for n in (1, 2, 3):
                    cases.append(dict(kind=kind, d=d, dreq=dreq, keys=list(range(n)), q=[], pat="inc", dtype=dt, fault=True))
                continue
            if dt == U24 and dreq not in (0, 1, 10):
                continue
            for n in counts(d, ctx.tier):
                for (pname, keys) in patterns(rng, d, n):
                    if n > 600 and rng.random() < (0.5 if ctx.tier == "quick" else 0.8):
                        continue
                    cases.append(dict(kind=kind, d=d, dreq=dreq, keys=keys, q=queries(rng, kind, d, keys, ctx.tier), pat=pname, dtype=dt))
    # The 15-level limit (factor 2 stored as such and 2^15 annotations: alloc(16) fails, the next annotation overruns the
    # level-1 array) was confirmed by hand on the C before the factors were clamped to >= 10; it is not generated here
    # (the extracted model is quadratic in the record count; see the module report).
    return cases


def model_line(c):
    return "%d 1 W %s R %s" % (c["d"], " ".join(str(k) for k in c["keys"]), " ".join("%s %d %d" % q for q in c["q"]))


def prog_script(c, path):
    sid = 1
    ops = ["wopen", "src 1 e e e e e",
           "sig %d 1 0 %d 1000 0 0 0 0 %d %d e e" % (sid, c["dtype"], c["dreq"], c["dreq"])]
    for k, key in enumerate(c["keys"]):
        if c["kind"] == "a":
            ops.append("anno %d %d %08x %d %d 1 e" % (sid, key, k, k % 4, k % 256))
        else:
            ops.append("utc %d %d %d" % (sid, key, k))
    ops += ["wclose", "save " + path, "ropen"]
    for (kind, t, stop) in c["q"]:
        ops.append("%s %d %d %d" % ("an" if kind == "a" else "ut", sid, t, stop))
    ops.append("rclose")
    return ";".join(ops)


def impl_line(c, out, path):
    """rebuild the model's result line from the implementation's output + the saved file"""
    if "FAULT" in out or "PROCFAIL" in out:
        if "FAULT" not in out:
            return "PROCFAIL " + out[-200:]
        # the crash may be in a write or in jls_wr_close (the op's output is lost either way): only the final status is compared
        return "st=?/fault"
    ops = out.split(";")
    wr = [o for o in ops if o.startswith(("anno ", "utc "))]
    st = "ok" if all(o.split()[1] == "0" for o in wr) else "err"
    disk, head, links_ok = parse_track(path, 1, c["kind"])
    res = []
    for o in ops:
        if o.startswith(("an [", "ut [")):
            body, tail = o[o.index("[") + 1:].rsplit("]", 1)
            rc = int(tail.split()[0])
            items = body.split()
            if o.startswith("an"):
                kv = []
                for it in items:
                    f = it.split(",")
                    kv.append("%s,%d" % (f[0], int(f[4], 16)))
                res.append("a:%d:%s" % (1 if rc else 0, "|".join(kv)))
            else:
                res.append("u:%d:%s" % (1 if rc else 0, "|".join(items)))
    return "st=%s/%s disk=%s head=%s r=%s" % (st, st, disk, head, " ".join(res)) + ("" if links_ok else " LINKS-BROKEN")


def flatten_model(line):
    """the model reports UTC batches (a/b); the harness callback prints entries without batch marks"""
    if " r=" not in line:
        return line
    a, r = line.split(" r=", 1)
    return a + " r=" + " ".join(x.replace("/", "|") if x.startswith("u:") else x for x in r.split(" "))


# ---------------------------------------------------------------- the property's executable statement
def oracle(c, line):
    """C11: delivered = written[j:] with first_ge(t)-1 <= j <= first_ge(t) (stop: first k of it);
       C12: delivered = exactly the pairs with id >= s.  Returns a message or None."""
    if " r=" not in line:
        return None
    recs = ["%d,%d" % (k, i) for i, k in enumerate(c["keys"])]
    res = line.split(" r=", 1)[1].replace(" LINKS-BROKEN", "").split(" ")
    res = [x for x in res if x]
    for (kind, t, stop), r in zip(c["q"], res):
        _, rc, body = r.split(":", 2)
        got = [x for x in body.replace("/", "|").split("|") if x]
        if rc != "0":
            return "query %s %d: return code non-zero" % (kind, t)
        fg = next((i for i, k in enumerate(c["keys"]) if k >= t), len(recs))
        if kind == "a":
            ok = False
            for j in (max(fg - 1, 0), fg):
                exp = recs[j:]
                if stop:
                    exp = exp[:stop]
                ok = ok or got == exp
            if not ok:
                return "annotations from %d (stop %d): delivered %d items starting %s, first_ge=%d of %d" % (t, stop, len(got), got[:1], fg, len(recs))
        else:
            strictly = all(a < b for a, b in zip(c["keys"], c["keys"][1:]))
            exp = [x for x, k in zip(recs, c["keys"]) if k >= t]
            if stop:
                # the callback sees whole batches: the result is a prefix of exp of length >= stop (or all)
                if not (exp[:len(got)] == got and (len(got) >= min(stop, len(exp)))):
                    return "utc from %d (stop %d): not a prefix" % (t, stop)
            elif got != exp:
                return "utc from %d: delivered %d, expected %d (strict ids: %s)" % (t, len(got), len(exp), strictly)
    if line.endswith("LINKS-BROKEN"):
        return "item_next links / chunk header timestamp not as modelled"
    return None


def run_ts(ctx, variants=("plain", "asan")):
    scratch = os.path.join(ctx.tmp, "ts")
    os.makedirs(scratch, exist_ok=True)
    eff = probe_effective(ctx, scratch)
    ctx.extra["ts_effective_factors"] = {"%d/%s" % (k[0], "u24" if k[1] == U24 else "f32"): v for k, v in sorted(eff.items())}
    all_cases = gen_cases(ctx, eff)
    dist = {}
    nbad = 0
    # in batches: the delivered lists of a few thousand cases (tens of millions of entries in the thorough tier) do not fit in memory at once
    BATCH = 250
    for b0 in range(0, len(all_cases), BATCH):
        nbad = _run_ts_batch(ctx, all_cases[b0:b0 + BATCH], b0, variants, scratch, dist, nbad)
    ctx.extra.setdefault("distribution", {}).update({"ts": dist})
    return nbad


def _run_ts_batch(ctx, cases, b0, variants, scratch, dist, nbad):
    mlines = [model_line(c) for c in cases]
    model = [flatten_model(x) for x in vlib.run_model("ts", mlines)]
    for variant in variants:
        sel = [i for i, c in enumerate(cases) if variant == "asan" or not c.get("fault")]
        if variant == "asan" and ctx.tier == "quick":
            sel = [i for i in sel if len(cases[i]["keys"]) <= 130 or cases[i].get("fault")]
        paths = [os.path.join(scratch, "%s_%d.jls" % (variant, b0 + i)) for i in sel]
        scripts = [prog_script(cases[i], p) for i, p in zip(sel, paths)]
        outs = vlib.run_c(variant, "prog", scripts, args=[scratch])
        for i, p, script, out in zip(sel, paths, scripts, outs):
            c = cases[i]
            try:
                impl = impl_line(c, out, p)
            except Exception as e:      # unparsable file
                impl = "PARSE-ERROR %r %s" % (e, out[-200:])
            if os.path.exists(p):
                os.remove(p)
            n, d = len(c["keys"]), c["d"]
            lv = 0
            while d >= 2 and n and d ** lv < n:
                lv += 1
            straddle = sum(1 for b in range(d, n, d) if c["keys"][b] == c["keys"][b - 1]) if d else 0
            key = (variant, c["kind"], d, n, c["pat"], tuple(c["keys"][:40]))
            cls = "%s d=%d levels=%d %s" % (c["kind"], d, max(lv, 1) if n else 0, "straddle" if straddle else "nostraddle")
            dist[cls] = dist.get(cls, 0) + 1
            ctx.count(key, nontrivial=n > 0,
                      sample={"build": variant, "kind": c["kind"], "d": d, "n": n, "pattern": c["pat"], "queries": len(c["q"]),
                              "result": impl[:160]} if (variant == "plain" and n > d * d and straddle) else None)
            m = model[i]
            replay = ("kind=%s d=%d n=%d pattern=%s build=%s\nmodel line : %s\nprog script: %s\n\nimplementation: %s\nmodel         : %s\n\n"
                      "replay: echo '<prog script>' | build/%s/jlsrun prog /tmp ; echo '<model line>' | build/jlsmodel ts\n"
                      % (c["kind"], d, n, c["pat"], variant, mlines[i][:4000], script[:6000], impl[:3000], m[:3000], variant))
            if c.get("fault"):
                agree = impl.split(" ")[0].split("/")[1] == m.split(" ")[0].split("/")[1]
                sig = SIG_D1 if d == 1 else (SIG_D0 if d == 0 else SIG_LVL)
                what = ("%s track with decimate factor %d, %d record(s): implementation %s (model %s): the write returns an error and/or the "
                        "heap is overrun; C11/C12 require the records back" % ("annotation" if c["kind"] == "a" else "UTC", d, n, impl.split(" ")[0], m.split(" ")[0]))
                if not agree:
                    nbad += 1
                    ctx.violation("ts_fault_model_%d.txt" % (b0 + i), replay, "model/implementation disagree on a fault case: " + what)
                elif "fault" in impl or "err" in impl:
                    ctx.violation("ts_d%d_%s.txt" % (d, c["kind"]), replay, what, sig=sig)
                continue
            msg = None
            if impl != m:
                msg = "chunk structure / delivered lists differ between model and implementation"
            else:
                msg = oracle(c, impl)
            if msg:
                nbad += 1
                if nbad <= 4:
                    ctx.violation("ts_%s_%d.txt" % (variant, b0 + i), replay, "%s (%s, d=%d, n=%d, %s)" % (msg, c["kind"], d, n, c["pat"]))
    return nbad


def run(ctx):
    vlib.build(ctx, PROP_FILES, variants=("plain", "asan"))
    gen = open(os.path.join(vlib.COQ, "Generated.v")).read()
    for nm, v in (("ANNOTATION_DEF", 48), ("ANNOTATION_SUMMARY", 52), ("UTC_DEF", 56), ("UTC_SUMMARY", 60)):
        assert "JLS_TAG_TRACK_%s : N := %d." % (nm, v) in gen, "tag values changed: " + nm
    run_ts(ctx)
    ctx.cov["rule"] = ("case = (track kind annotation/UTC, decimate factor d, record count n, key pattern): n on both sides of d, d^2, d^3, d^4 (1-5 index levels), "
                       "keys strictly increasing / all equal / runs of equal keys placed across level-1 and level-2 index-chunk boundaries and spanning several chunks / "
                       "random with runs; the file written by the real writer is parsed (chunk kinds, levels, index entries -> ordinal of target, summary entries, "
                       "head offsets, item_next links) and compared with the extracted model's disk; jls_rd_annotations / jls_rd_utc from keys before / at / between / "
                       "after and at chunk boundaries, with stopping callbacks, compared with the model's reader and with the property statement; d = 0, 1 fault classes "
                       "on the ASan build; distinct = (build, kind, d, n, pattern, keys); non-trivial = at least one record")
    return vlib.finish(ctx, "proof", "make -C /verif/coq -f Makefile.coq Properties_C11.vo Properties_C12_ts.vo",
                       note="theorems quantify over all record counts, all d >= 2 (below the 15-level limit), all non-decreasing key sequences and all seek values")


def replay(ctx, path):
    print(open(path).read())
    return 0


if __name__ == "__main__":
    # development runner: builds, runs the correspondence, prints the outcome; writes no evidence file
    sys.path.insert(0, os.path.dirname(os.path.dirname(os.path.abspath(__file__))))
    tier = sys.argv[1] if len(sys.argv) > 1 else "quick"
    ctx = vlib.Ctx("C11", tier, int(os.environ.get("VERIF_SEED", "1")))
    vlib.build(ctx, [f for f in PROP_FILES if os.path.exists(os.path.join(vlib.COQ, f))], variants=("plain", "asan"))
    nbad = run_ts(ctx)
    for (p, what, _) in ctx.violations:
        print("# " + what); print("VIOLATION replay=" + p)
    print("ts: %d evaluations, %d distinct, %d mismatches, proofs ok=%s" % (ctx.cov["evaluations"], len(ctx.distinct), nbad, ctx.proof_build_ok))
    print(ctx.extra.get("distribution"))
    ctx.cleanup()
    sys.exit(1 if ctx.violations else 0)
