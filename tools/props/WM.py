"""Byte-exact correspondence of the SYNCHRONOUS WRITER with its executable model (coq/WriterModel.v and
WmRaw/WmCore/WmTs/WmFsr.v, extracted; ocaml/drv_wmodel.ml, kind "wmodel").

    gen_case(rng, tier)            -> (writer program `wopen;...;wclose`, meta)
    compare_logs(ctx, scripts)     -> list of (script, first_difference or None)
    run_wm(ctx, n=None)            -> generates programs, runs implementation (`...;logdump <path>` on
                                      <BUILD>/plain/jlsrun prog) and model, records the first differing log
                                      entry (decoded: which chunk/tag/field) as a violation text;
                                      returns the number of violations
    run(ctx)                       -> stand-alone check (build + run_wm + evidence), e.g.
                                      JLS_BUILD=/verif/build_wm JLS_DRV=drv_wmodel.ml JLS_EXTRACT=/verif/coq/Extract_wmodel.v
                                      JLS_KINDS="/verif/harness/jlsrun_k_crc.h /verif/harness/jlsrun_k_prog.h"
                                      python3 tools/check.py WM  (if check.py knows the id) or  python3 tools/props/WM.py [n] [seed]

What is compared: the complete interposed backend log (every O_TRUNC/ftruncate, write(2) call with offset and
bytes, fsync), entry by entry, and the return code of every writer call.
Exclusion (stated): for 24-bit signals (i24/u24) the payload bytes and the payload CRC of FSR SUMMARY chunks are
not compared (jls_dt_buffer_to_f64 does not convert 24-bit types: the C summarises uninitialised memory);
offsets and lengths of those writes are compared.
"""
import os, struct, sys

if __name__ == "__main__":
    sys.path.insert(0, os.path.dirname(os.path.dirname(os.path.abspath(__file__))))
import vlib, proglib
from proglib import DT, DT_BITS

TAGS = {0x01: "SOURCE_DEF", 0x02: "SIGNAL_DEF", 0x40: "USER_DATA", 0xFF: "END"}
for _t, _tn in ((0, "FSR"), (1, "VSR"), (2, "ANNOTATION"), (3, "UTC")):
    for _k, _kn in ((0, "DEF"), (1, "HEAD"), (2, "DATA"), (3, "INDEX"), (4, "SUMMARY")):
        TAGS[0x20 | (_t << 3) | _k] = "TRACK_%s_%s" % (_tn, _kn)
WRITER_OPS = ("src", "sig", "fsr", "omit", "anno", "utc", "ud", "wflush")
ALL_TYPES = ["f32", "f64", "u8", "i8", "u16", "i16", "u32", "i32", "u64", "i64", "u4", "i4", "u1", "u24", "i24"]


# ---------------------------------------------------------------- log parsing / decoding
def parse_log_lines(lines):
    """-> list of ('t', len) | ('s',) | ('w', offset, bytes)"""
    out = []
    for l in lines:
        l = l.strip()
        if not l:
            continue
        if l[0] == "w":
            p = l.split(" ")
            out.append(("w", int(p[1]), bytes.fromhex(p[2]) if len(p) > 2 else b""))
        elif l[0] == "t":
            out.append(("t", int(l.split()[1])))
        elif l[0] == "s":
            out.append(("s",))
    return out


def hdr_fields(b):
    nxt, prv, tag, rsv, meta, plen, ppl, crc = struct.unpack("<QQBBHIII", b[:32])
    return dict(item_next=nxt, item_prev=prv, tag=tag, rsv0=rsv, chunk_meta=meta, payload_length=plen,
                payload_prev_length=ppl, crc32=crc)


def tag_name(t):
    return TAGS.get(t, "tag0x%02x" % t)


def annotate(log):
    """Classify every entry of a log by replaying it: returns list of dicts (same length) with
    what (file_header/chunk_header/payload/footer/link_rewrite/head_table/head_table_footer/trunc/sync/?),
    and the chunk (offset, tag, chunk_meta) it belongs to."""
    out = []
    end = 0
    chunks = {}          # offset -> header fields
    cur = None           # (offset, fields, stage) of the chunk being appended
    inplace = None       # chunk whose head table is being rewritten
    for e in log:
        if e[0] == "t":
            out.append(dict(what="trunc"))
            end = min(end, e[1])
            continue
        if e[0] == "s":
            out.append(dict(what="sync"))
            continue
        off, b = e[1], e[2]
        d = dict(what="?", offset=off, length=len(b))
        if off == 0 and len(b) == 32:
            d["what"] = "file_header"
        elif off == end and len(b) == 32 and (cur is None or cur[2] == "done"):
            f = hdr_fields(b)
            chunks[off] = f
            cur = [off, f, "hdr" if f["payload_length"] else "done"]
            d.update(what="chunk_header", chunk=off, tag=f["tag"], meta=f["chunk_meta"])
        elif off == end and cur is not None and cur[2] == "hdr":
            cur[2] = "payload"
            d.update(what="payload", chunk=cur[0], tag=cur[1]["tag"], meta=cur[1]["chunk_meta"])
        elif off == end and cur is not None and cur[2] == "payload":
            cur[2] = "done"
            d.update(what="footer", chunk=cur[0], tag=cur[1]["tag"], meta=cur[1]["chunk_meta"])
        elif off in chunks and len(b) == 32:
            f = chunks[off]
            d.update(what="link_rewrite", chunk=off, tag=f["tag"], meta=f["chunk_meta"])
        elif (off - 32) in chunks and len(b) == 128:
            f = chunks[off - 32]
            inplace = off - 32
            d.update(what="head_table", chunk=off - 32, tag=f["tag"], meta=f["chunk_meta"])
        elif inplace is not None and off == inplace + 32 + 128:
            f = chunks[inplace]
            d.update(what="head_table_footer", chunk=inplace, tag=f["tag"], meta=f["chunk_meta"])
            inplace = None
        end = max(end, off + len(b))
        out.append(d)
    return out


def describe(ann):
    if ann["what"] in ("trunc", "sync"):
        return ann["what"]
    s = ann["what"]
    if "chunk" in ann:
        s += " of chunk @%d %s signal/meta=0x%04x (level %d)" % (ann["chunk"], tag_name(ann["tag"]), ann["meta"], ann["meta"] >> 12)
    return s


def first_difference(impl_log, model_log, skip24=()):
    """impl_log/model_log: parsed logs.  skip24: signal ids of 24-bit signals.  Returns None or a text."""
    ann = annotate(impl_log)
    n = min(len(impl_log), len(model_log))
    for i in range(n):
        a, m = impl_log[i], model_log[i]
        if a == m:
            continue
        d = ann[i]
        if a[0] == "w" and m[0] == "w" and a[1] == m[1] and len(a[2]) == len(m[2]) and d.get("tag") == 0x24 \
                and (d["meta"] & 0xff) in skip24 and d["what"] in ("payload", "footer"):
            if d["what"] == "footer" or a[2][:16] == m[2][:16]:
                continue           # summary values of a 24-bit signal (uninitialised in the C)
        t = "entry %d (%s): " % (i, describe(d))
        if a[0] != m[0]:
            return t + "kind differs: implementation %s / model %s" % (a[0], m[0])
        if a[0] == "t":
            return t + "truncate length %d / %d" % (a[1], m[1])
        if a[1] != m[1]:
            return t + "offset differs: implementation %d / model %d (lengths %d / %d)" % (a[1], m[1], len(a[2]), len(m[2]))
        if len(a[2]) != len(m[2]):
            return t + "length differs at offset %d: implementation %d / model %d" % (a[1], len(a[2]), len(m[2]))
        k = next(j for j in range(len(a[2])) if a[2][j] != m[2][j])
        extra = ""
        if d["what"] in ("chunk_header", "link_rewrite") and len(a[2]) == 32:
            fa, fm = hdr_fields(a[2]), hdr_fields(m[2])
            extra = "; header fields: " + ", ".join("%s %d/%d" % (f, fa[f], fm[f]) for f in fa if fa[f] != fm[f])
        return t + "byte %d differs (offset %d): implementation %02x / model %02x%s; impl %s.. model %s.." % (
            k, a[1] + k, a[2][k], m[2][k], extra, a[2][max(0, k - 8):k + 8].hex(), m[2][max(0, k - 8):k + 8].hex())
    if len(impl_log) != len(model_log):
        longer = impl_log if len(impl_log) > n else model_log
        who = "implementation" if len(impl_log) > n else "model"
        e = longer[n]
        return "entry %d: only the %s has it (%d vs %d entries): %s %s" % (
            n, who, len(impl_log), len(model_log), e[0], ("@%d len %d" % (e[1], len(e[2]))) if e[0] == "w" else "")
    return None


# ---------------------------------------------------------------- running both sides
def impl_rcs(script, impl_line):
    """return codes the implementation printed for the writer ops of the script, in order"""
    out = []
    res = impl_line.split(";")
    for i, op in enumerate(script.split(";")):
        t = op.split()
        if t and t[0] in WRITER_OPS and i < len(res):
            r = res[i].split()
            out.append(int(r[1]) if len(r) > 1 and r[1].lstrip("-").isdigit() else None)
    return out


def sigs24(script, rcs):
    """ids of accepted 24-bit signal definitions"""
    out = set()
    k = 0
    for op in script.split(";"):
        t = op.split()
        if not t or t[0] not in WRITER_OPS:
            continue
        rc = rcs[k] if k < len(rcs) else None
        k += 1
        if t[0] == "sig" and rc == 0 and ((int(t[4], 0) >> 8) & 0xff) == 24:
            out.add(int(t[1], 0) & 0xff)
    return out


def run_model(scripts, timeout=3000):
    """the extracted model on the scripts; the extracted list functions are not tail recursive, so the stack
    limit is raised for blocks / payloads of several 100 KB"""
    cmd = ["bash", "-c", "ulimit -s 4000000 2>/dev/null || ulimit -s unlimited 2>/dev/null; exec \"$0\" wmodel",
           os.path.join(vlib.BUILD, "jlsmodel")]
    return vlib._run_sharded(cmd, scripts, vlib.NPROC, timeout)


def compare_logs(ctx, scripts, variant="plain", keep=False):
    """-> list of (script, first_difference or None).  A difference is a text naming the first differing log entry."""
    out_dir = os.path.join(ctx.tmp, "wm")
    os.makedirs(out_dir, exist_ok=True)
    scratch = os.path.join(ctx.tmp, "scratch_wm")
    os.makedirs(scratch, exist_ok=True)
    base = len(os.listdir(out_dir))
    paths = [os.path.join(out_dir, "l%d.log" % (base + i)) for i in range(len(scripts))]
    progs = [s + ";logdump " + p for s, p in zip(scripts, paths)]
    impl = vlib.run_c(variant, "prog", progs, args=[scratch, "timeout=120"], timeout=3000)
    model = run_model(scripts)
    res = []
    for s, p, a, m in zip(scripts, paths, impl, model):
        diff = None
        if "FAULT" in a or "PROCFAIL" in a:
            diff = "implementation fault: " + a[-200:]
        elif not m.startswith("rc:"):
            diff = "model run failed: " + m[:200]
        elif not os.path.exists(p):
            diff = "no log written by the implementation: " + a[-200:]
        else:
            parts = m.split("|")
            mrc = [int(x) for x in parts[0][3:].split(",") if x]
            arc = impl_rcs(s, a)
            ilog = parse_log_lines(open(p).read().splitlines())
            mlog = parse_log_lines(parts[2:])
            if parts[1] != "fault:0":
                diff = "the model left its domain (wm_fault set)"
            elif arc != mrc:
                k = next((j for j in range(min(len(arc), len(mrc))) if arc[j] != mrc[j]), min(len(arc), len(mrc)))
                wops = [o for o in s.split(";") if o.split() and o.split()[0] in WRITER_OPS]
                diff = "return code of writer call #%d (%s): implementation %s / model %s" % (
                    k, wops[k] if k < len(wops) else "?", arc[k] if k < len(arc) else None, mrc[k] if k < len(mrc) else None)
            else:
                diff = first_difference(ilog, mlog, sigs24(s, arc))
            st = getattr(ctx, "wm_stats", None)
            if st is None:
                st = ctx.wm_stats = {"programs": 0, "log_entries": 0, "bytes_written": 0, "largest_file": 0, "most_entries": 0}
            fsz = max([e[1] + len(e[2]) for e in ilog if e[0] == "w"] or [0])
            st["programs"] += 1
            st["log_entries"] += len(ilog)
            st["bytes_written"] += sum(len(e[2]) for e in ilog if e[0] == "w")
            st["largest_file"] = max(st["largest_file"], fsz)
            st["most_entries"] = max(st["most_entries"], len(ilog))
            if not keep:
                os.unlink(p)
        res.append((s, diff))
    return res


# ---------------------------------------------------------------- generator
def _payload(rng, st, small=True):
    n = rng.choice([0, 1, 3, 4, 5, 7, 8, 11, 12, 13, 100, 1000] if small else [0, 1, 7, 8, 12, 4000, 20000])
    if n == 0:
        return rng.choice(["e", "-"]) if st == 1 else "e"
    return "g%d.%d" % (n, rng.randrange(1, 10**6))


def _str(rng):
    r = rng.random()
    if r < 0.15:
        return "-"
    if r < 0.35:
        return "e"
    return "g%d.%d" % (rng.choice([1, 2, 3, 4, 5, 6, 7, 8, 9, 24, 63, 200]), rng.randrange(1, 10**6))


def _defparams(rng, dt):
    """(spd, sdf, eps, sumdf, kind): minimal / small / library defaults / odd requests the writer re-aligns"""
    w = DT_BITS[dt]
    r = rng.random()
    if r < 0.3:
        spd, sdf, eps, sumdf = proglib.min_def(dt)
        return spd, sdf, eps, sumdf, "min"
    if r < 0.8:
        spd, sdf, eps, sumdf = proglib.small_def(rng, dt)
        return spd, sdf, eps, sumdf, "small"
    if r < 0.9:
        return 0, 0, 0, 0, "default"
    # unaligned requests: rounded by jls_core_signal_def_align
    return rng.choice([1, 37, 100, 1000]), rng.choice([1, 7, 33, 100]), rng.choice([1, 15, 25]), rng.choice([1, 3, 10, 13]), "odd"


def _aligned(dt, spd, sdf, eps, sumdf):
    """what jls_core_signal_def_align makes of the request (python mirror, for sizing the data only)"""
    w = DT_BITS[dt]
    dflt = {1: (65536, 1024, 1280, 20), 4: (65536, 1024, 1280, 20), 8: (32768, 1024, 640, 20), 16: (16384, 256, 1280, 20),
            24: (8192, 128, 640, 20), 32: (8192, 128, 640, 20), 64: (8192, 128, 640, 20)}[w]
    spd, sdf, eps, sumdf = [v or d for v, d in zip((spd, sdf, eps, sumdf), dflt)]
    mult = 32 if w == 24 else 256 // w
    up = lambda x, m: ((x + m - 1) // m) * m
    sdf = up(max(sdf, 10), mult)
    spd = max(spd, 10)
    eps = max(eps, 10)
    sumdf = max(sumdf, 10)
    eps = up(eps, sumdf)
    spd = up(spd, sdf)
    epd = spd // sdf
    while eps != (eps // epd) * epd:
        epd -= 1
    return sdf * epd, sdf, eps, sumdf


def gen_case(rng, tier):
    """A sync-writer program.  Covers: several sources/signals of all 15 data types with minimal/small/default/odd
    definitions; data in calls of block-relative sizes (incl. calls not aligned to bytes for u1/u4/i4), gaps and
    overlaps; omission toggles and constant blocks of <= 8-bit types; annotations (incl. signal 0 and VSR signals)
    and UTC with small decimation so that 2-3 index levels appear; user data; flush; rejected calls (duplicate
    ids, undefined signals/sources, wrong track, bad storage types); empty signals; 0..4 FSR summary levels."""
    ops = ["wopen"]
    dist = []
    nsrc = rng.choice([0, 1, 1, 2, 3, 5])
    srcs = []
    for k in range(nsrc):
        sid = rng.choice([i for i in (1, 2, 3, 9, 100, 255) if i not in srcs])
        srcs.append(sid)
        ops.append("src %d %s %s %s %s %s" % (sid, _str(rng), _str(rng), _str(rng), _str(rng), _str(rng)))
    dist.append("src%d" % nsrc)
    nsig = rng.choice([0, 1, 1, 2, 2, 3, 4]) if srcs else rng.choice([0, 1, 2])
    budget = 60000 if tier == "quick" else 260000      # bytes of sample data per program
    sigs = []
    data_ops = []
    for k in range(nsig):
        gid = rng.choice([i for i in (1, 2, 3, 7, 200, 255) if i not in [s[0] for s in sigs]])
        src = rng.choice(srcs) if srcs else 0
        vsr = rng.random() < 0.1
        dt = rng.choice(ALL_TYPES)
        w = DT_BITS[dt]
        spd, sdf, eps, sumdf, kind = _defparams(rng, dt)
        adf = rng.choice([10, 10, 11, 25, 2, 0, 1])
        udf = rng.choice([10, 10, 12, 30, 3, 0, 1])
        dist.append("def_" + kind)
        dist.append(dt)
        sigs.append((gid, dt, vsr))
        defop = proglib.sigdef_op(gid, src, dt, rate=0 if vsr else rng.choice([1000, 1, 2000000]), spd=spd, sdf=sdf, eps=eps, sumdf=sumdf,
                                  adf=adf, udf=udf, name=_str(rng), units=_str(rng), stype=1 if vsr else 0)
        if rng.random() < 0.08 and DT[dt] & 0x0f != 4:
            # fixed-point q field (bits 16..23) on an integer type: accepted, ignored by the summaries
            defop = defop.replace(" %d " % DT[dt], " %d " % (DT[dt] | (rng.choice([1, 8, 16, 255]) << 16)), 1)
            dist.append("q")
        elif rng.random() < 0.03:
            # bits 24..31 of data_type are not validated: a float type is then no longer == JLS_DATATYPE_F32/F64 (gap fill = 0)
            defop = defop.replace(" %d " % DT[dt], " %d " % (DT[dt] | (1 << 24)), 1)
            dist.append("dt_hi")
        adf_e = max(adf or 100, 10)
        udf_e = max(udf or 100, 10)
        my = []
        if not vsr:
            spd, sdf, eps, sumdf = _aligned(dt, spd, sdf, eps, sumdf)
            # ---- FSR samples: target number of summary levels 0..4 ----
            levels = rng.choice([0, 0, 1, 1, 2, 2, 3, 3, 4])
            base = sdf * eps          # samples per full level-1 summary chunk
            if levels == 0:
                total = rng.choice([0, 0, 1, sdf - 1, spd - 1 if spd > 1 else 1])
            else:
                total = {1: rng.choice([sdf, spd, spd + 1, base - 1, base, base + spd]),
                         2: rng.choice([base + spd + 3, base * 2 + 1, base * sumdf - 1, base * sumdf]),
                         3: rng.choice([base * sumdf + base + 5, base * sumdf * 2 + 7, base * sumdf * 3]),
                         4: base * sumdf * sumdf + rng.choice([0, 1, base + 1])}[levels]
            total = min(total, max(0, budget * 8 // w))
            if levels == 4 and total * w // 8 > budget // 2 and tier == "quick":
                total = min(total, sdf * eps * sumdf * 3)
            budget -= total * w // 8
            dist.append("lv%d" % levels if total else "empty")
            first = rng.choice([0, 0, 0, 5, 1000000, -40, 2**40])
            pos = first
            left = total
            const_ok = w <= 8
            omit = rng.random() < 0.3
            if omit:
                my.append("omit %d 1" % gid)
                dist.append("omit")
            while left > 0:
                n = min(left, rng.choice([1, 7, sdf, sdf + 1, spd - 1, spd, spd + 1, spd * 3 + 1, 1000, 4096, left]))
                n = max(n, 1)
                r = rng.random()
                if const_ok and r < 0.35:
                    pat, seed = 0, rng.choice([0, 1, 5, 255])     # constant block -> omitted (<= 8 bit: always; else when omit is on)
                    n = min(left, rng.choice([n, spd, 2 * spd, 3 * spd + 5]))
                    dist.append("const")
                else:
                    pat, seed = rng.choice([(1, rng.randrange(100)), (2, rng.randrange(1, 10**6)), (3, rng.randrange(17)), (4, rng.randrange(1, 10**6)), (0, rng.randrange(50))])
                r2 = rng.random()
                if r2 < 0.05 and pos > first:
                    back = rng.choice([1, 3, n, n + 2, spd])       # an overlap (the first-written samples stay); may be entirely old
                    start = max(first, pos - back)
                    my.append("fsr %d %d %d %d %d" % (gid, start, n, pat, seed))
                    adv = max(0, start + n - pos)
                    pos += adv
                    left -= min(left, adv)
                    dist.append("overlap")
                    continue
                if r2 < 0.10 and left > 0:
                    g = rng.choice([1, 3, 7, sdf, spd + 1])
                    g = min(g, left)
                    pos += g                                    # a gap (filled by the writer with NaN / 0)
                    left -= g
                    dist.append("gap")
                    if left <= 0:
                        break
                    n = min(n, left)
                my.append("fsr %d %d %d %d %d" % (gid, pos, n, pat, seed))
                pos += n
                left -= n
                if omit and rng.random() < 0.1:
                    my.append("omit %d %d" % (gid, rng.choice([0, 1])))
            if rng.random() < 0.1:
                my.append("fsr %d %d 0 1 1" % (gid, pos + 5))      # zero-length call: accepted, no effect
            # ---- UTC ----
            nu = rng.choice([0, 0, 1, 2, udf_e - 1, udf_e, udf_e + 1, udf_e * udf_e + 3, 2 * udf_e * udf_e + udf_e + 1, udf_e ** 3 + 5])
            nu = min(nu, 1100 if (tier == "quick" and rng.random() < 0.2) else 250 if tier == "quick" else 2300)
            t = rng.choice([0, 2**30 * 1700000000])
            s = first
            for j in range(nu):
                my.append("utc %d %d %d" % (gid, s, t))
                s += rng.choice([1, 10, 1000])
                t += rng.choice([1, 2**20, 2**30])
            dist.append("utc%d" % (0 if nu == 0 else 1 if nu < udf_e else 2 if nu < udf_e * udf_e else 3))
        # ---- annotations (FSR and VSR signals) ----
        na = rng.choice([0, 0, 1, 2, adf_e - 1, adf_e, adf_e + 1, adf_e * adf_e + 2, 2 * adf_e * adf_e + 3, adf_e ** 3 + 1])
        na = min(na, 1100 if (tier == "quick" and rng.random() < 0.2) else 260 if tier == "quick" else 2300)
        ts = rng.choice([0, 5, -3])
        for j in range(na):
            st = rng.choice([1, 2, 2, 3])
            at = rng.choice([0, 1, 2, 3])
            y = rng.choice(["3f800000", "7fc00000", "0", "c2280000"])
            my.append("anno %d %d %s %d %d %d %s" % (gid, ts, y, at, rng.randrange(0, 256) if rng.random() < 0.3 else 0, st, _payload(rng, st)))
            ts += rng.choice([0, 1, 1, 50])
        dist.append("anno%d" % (0 if na == 0 else 1 if na < adf_e else 2 if na < adf_e * adf_e else 3))
        data_ops.append((defop, my))
    # global annotations on signal 0 (VSR, defined by the library; decimation 100)
    g0 = []
    for j in range(rng.choice([0, 0, 1, 3, 12, 101, 205])):
        g0.append("anno 0 %d 0 1 0 2 %s" % (j * 7, _payload(rng, 2)))
    # user data
    uds = []
    for j in range(rng.choice([0, 0, 1, 2, 5, 12])):
        st = rng.choice([1, 1, 2, 3, 0])
        uds.append("ud %d %d %s" % (rng.choice([0, 1, 7, 0x123, 0xfff, 0xf123]), st, _payload(rng, st, small=rng.random() < 0.8)))
    dist.append("ud%d" % min(len(uds), 2))
    # rejected calls
    rej = []
    for j in range(rng.choice([0, 0, 1, 2, 4])):
        k = rng.randrange(14)
        defined = [s[0] for s in sigs]
        undefined = rng.choice([i for i in (4, 5, 6, 77, 254, 256, 300, 65535) if i not in defined])
        if k == 0:
            rej.append("src %d e e e e e" % rng.choice(srcs + [0, 256, 1000]))                 # duplicate / out of range
        elif k == 1:
            rej.append(proglib.sigdef_op(rng.choice(defined + [0]), 0, "f32"))               # duplicate signal
        elif k == 2:
            rej.append(proglib.sigdef_op(undefined & 0xff, rng.choice([i for i in (4, 50, 254) if i not in srcs]), "f32"))   # unknown source
        elif k == 3:
            rej.append("sig %d 0 0 %d 1000 0 0 0 0 0 0 e e" % (undefined, rng.choice([0x2104, 0x4204, 0x0503, 0x2000, 0, 0x0104])))   # bad data type / id
        elif k == 4:
            rej.append("sig %d 0 %d %d 0 0 0 0 0 0 0 e e" % (undefined & 0xff, rng.choice([0, 2, 7]), DT["f32"]))                  # FSR without rate / bad signal type
        elif k == 5:
            rej.append("fsr %d 0 10 1 1" % rng.choice([undefined, 0]))                        # undefined signal / VSR signal 0
        elif k == 6:
            rej.append("utc %d 0 0" % rng.choice([undefined, 0]))
        elif k == 7:
            rej.append("anno %d 0 0 %d 0 %d g3.1" % (rng.choice([undefined] + defined + [0]), rng.choice([0, 256, -1]), rng.choice([0, 4, 1, 300, -1])))
        elif k == 8:
            rej.append("ud 1 %d g3.1" % rng.choice([4, 9, -1, 256]))
        elif k == 9:
            rej.append("omit %d 1" % rng.choice([undefined, 0]))
        elif k == 10:
            rej.append("anno %d 0 0 0 0 2 -" % rng.choice(defined + [0]))                     # NULL string
        elif k == 11:
            rej.append("ud 1 %d -" % rng.choice([2, 3]))                                      # NULL string
        elif k == 12:
            rej.append("ud %d %d n%d" % (rng.choice([1, 0x123]), rng.choice([0, 1, 1, 1, 2]), rng.choice([1, 16, 4000])))   # NULL data with a size
        else:
            rej.append("anno %d 0 0 1 0 %d n%d" % (rng.choice(defined + [0]), rng.choice([1, 1, 2]), rng.choice([1, 16])))  # NULL data with a size
    if rej:
        dist.append("rejected")
    # ---- interleave: every signal's definition precedes its data; streams are merged randomly ----
    streams = [[d] + m for d, m in data_ops] + [g0, uds, rej]
    streams = [s for s in streams if s]
    body = []
    if rng.random() < 0.5:
        for s in streams:
            if s and s[0].startswith("sig "):
                body.append(s.pop(0))
    while any(streams):
        s = rng.choice([x for x in streams if x])
        k = rng.choice([1, 1, 2, 5, 20])
        body += s[:k]
        del s[:k]
    for j in range(rng.choice([0, 0, 0, 1, 2])):
        body.insert(rng.randrange(len(body) + 1), "wflush")
    ops += body + ["wclose"]
    return ";".join(ops), dict(dist=dist, nsig=nsig, nsrc=nsrc, trivial=(nsig == 0 and nsrc == 0 and not uds))


# ---------------------------------------------------------------- check
def replay_text(script, diff):
    return ("script (one line, ops separated by ';'):\n%s\n\n"
            "replay:\n  echo '<script>;logdump /tmp/x.log' | %s/plain/jlsrun prog /tmp\n"
            "  echo '<script>' | %s/jlsmodel wmodel | tr '|' '\\n' | tail -n +3 > /tmp/x.model ; diff /tmp/x.log /tmp/x.model\n\n"
            "first difference between the implementation's backend log and the model's:\n  %s\n" % (script, vlib.BUILD, vlib.BUILD, diff))


def run_wm(ctx, n=None, scripts=None, variant="plain"):
    """Assumes vlib.build was called (kind prog in the harness, kind wmodel in the model binary)."""
    n = n if n is not None else (150 if ctx.tier == "quick" else 1200)
    corpus = proglib.load_corpus("WM")
    cases = [(s, {"corpus": True}) for s in corpus + list(scripts or [])] + [gen_case(ctx.rng, ctx.tier) for _ in range(n)]
    res = compare_logs(ctx, [c[0] for c in cases], variant=variant)
    dist = {}
    nv = 0
    for (script, meta), (_, diff) in zip(cases, res):
        for dk in (meta.get("dist") or []):
            dist[dk] = dist.get(dk, 0) + 1
        ctx.count(script, nontrivial=not meta.get("trivial", False), sample={"script": script[:300], "diff": diff})
        if diff:
            nv += 1
            if nv <= 40:
                ctx.violation("wm_case_%d.txt" % nv, replay_text(script, diff), "writer model and implementation differ: " + diff[:160])
    ctx.extra["distribution"] = dist
    ctx.extra["corpus_cases"] = len(corpus)
    ctx.extra["wm_stats"] = getattr(ctx, "wm_stats", {})
    ctx.cov["rule"] = ("programs from WM.gen_case (sources, signals of all 15 types, min/small/default/odd definitions, block-relative call "
                       "sizes, gaps, overlaps, omission, constant blocks, annotations, UTC, user data, flush, rejected calls); the complete "
                       "backend log and every return code are compared; distinct = distinct scripts")
    return nv


def run(ctx):
    vlib.build(ctx, [], variants=("plain",))
    run_wm(ctx)
    return vlib.finish(ctx, "exploration", "python3 tools/props/WM.py", note="byte-exact write-log correspondence model vs implementation")


class MiniCtx:
    """enough of vlib.Ctx for compare_logs (command-line use; writes nothing under /verif)"""
    def __init__(self, seed, tier):
        import random, tempfile
        self.rng = random.Random(seed)
        self.tier = tier
        self.tmp = tempfile.mkdtemp(prefix="jlsverif.WM.")

    def cleanup(self):
        import shutil
        shutil.rmtree(self.tmp, ignore_errors=True)


if __name__ == "__main__":
    # python3 tools/props/WM.py [n] [seed] [tier]   or   python3 tools/props/WM.py -f <file with one script per line>
    ctx = MiniCtx(int(sys.argv[2]) if len(sys.argv) > 2 and sys.argv[1] != "-f" else 1,
                  sys.argv[3] if len(sys.argv) > 3 else "quick")
    try:
        if len(sys.argv) > 2 and sys.argv[1] == "-f":
            scripts = [l.strip() for l in open(sys.argv[2]) if l.strip() and not l.startswith("#")]
        else:
            scripts = [gen_case(ctx.rng, ctx.tier)[0] for _ in range(int(sys.argv[1]) if len(sys.argv) > 1 else 100)]
        import time
        t0 = time.time()
        res = compare_logs(ctx, scripts)
        bad = [(s, d) for s, d in res if d]
        for s, d in bad[:10]:
            print("DIFF: %s\n   script: %s\n" % (d, s if len(s) < 900 else s[:900] + "..."))
        print("%d programs, %d differ, %.1fs; %s" % (len(res), len(bad), time.time() - t0, getattr(ctx, "wm_stats", {})))
    finally:
        ctx.cleanup()
