"""C16: signal definitions normalise to consistent, stable storage parameters.
Proof: coq/Properties_C16.v (model coq/SigDef.v of jls_core_signal_def_validate / signal_def_defaults /
round_up_to_multiple / jls_core_signal_def_align; all 2^128 inputs x 7 widths; the guard is proved exact).
Correspondence: harness kind `sigdef` (validate + align called directly on a struct, forked child so SIGFPE
and hangs are observations) on the plain and ASan/UBSan builds vs the extracted model (sd_align_fast, proved
equal to sd_align); the extracted `consistent_clauses` / `entry256b` evaluated on the implementation's output;
idempotence of the implementation (output fed back); a sample through jls_wr_signal_def -> file -> jls_rd_signal
-> second file.
Defect classes of /repo are reported with stable signatures:
  sigdef-overflow-divzero        uint32 wrap in round_up_to_multiple -> division by zero (SIGFPE)
  sigdef-overflow-inconsistent   uint32 wrap -> entries_per_summary stored as 0
  sigdef-24bit-zero-ts-factors   24-bit types take no defaults: annotation/utc decimate factors stay 0
  sigdef-24bit-not-256-multiple  24-bit types: level-1 entry of sdf*24 bits is not a multiple of 256 bits
  sigdef-renormalise-overflow    a consistent stored definition faults / changes when defined again"""
import math, os, re
import vlib

PROP_FILES = ["Properties_C16.v"]
U32 = 1 << 32
SIGS = ("sigdef-overflow-divzero", "sigdef-overflow-inconsistent", "sigdef-24bit-zero-ts-factors",
        "sigdef-24bit-not-256-multiple", "sigdef-renormalise-overflow")
CLAUSES = ["entry-whole-bytes", "entry-256bit-if-w-divides-256", "sdf-divides-spd", "block-entries-divide-eps",
           "sumdf-divides-eps", "spd>=min", "sdf>=min", "eps>=min", "sumdf>=min", "anno>=1", "utc>=1"]

SMALL = [0, 1, 10, 11, 256, 257, 1000]
BOUNDARY = [0, 1, 9, 10, 11, 255, 256, 257, 1000, 65535, 65536, 65537, 2**31 - 1, 2**31, 2**31 + 1]
TOP_QUICK = [U32 - k for k in (300, 257, 256, 255, 65, 64, 63, 33, 32, 31, 20, 17, 16, 15, 11, 10, 9, 8, 7, 6, 5, 4, 3, 2, 1)]
TOP_ALL = [U32 - k for k in range(300, 0, -1)]


def datatypes():
    txt = open(os.path.join(vlib.COQ, "Generated.v")).read()
    d = {m.group(1): int(m.group(2)) for m in re.finditer(r"Definition JLS_DATATYPE_([IUF]\d+) : N := (\d+)\.", txt)}
    if len(d) != 15:
        raise SystemExit("C16: expected 15 JLS_DATATYPE_* constants in Generated.v, found %d" % len(d))
    return d


def width(dt):
    return (dt >> 8) & 0xff


def gen_cases(ctx, dts):
    """returns list of (origin, line)"""
    rng = ctx.rng
    quick = ctx.tier == "quick"
    dtv = sorted(dts.values())
    out = []
    ts = [0, 1, 100, U32 - 1]
    # 1. complete small grid x all 15 data types (annotation/utc factors cycle)
    k = 0
    for dt in dtv:
        for a in SMALL:
            for b in SMALL:
                for c in SMALL:
                    for e in SMALL:
                        out.append(("small-grid", "%d %d %d %d %d %d %d" % (dt, a, b, c, e, ts[k % 4], ts[(k // 4) % 4])))
                        k += 1
    # 2. the boundary grid: complete over pairs of "large" coordinates, sampled over the rest
    top = TOP_QUICK if quick else TOP_ALL
    n_grid = 22000 if quick else 600000
    for _ in range(n_grid):
        dt = rng.choice(dtv)
        a, b, c, e = (rng.choice(BOUNDARY) if rng.random() < 0.6 else rng.choice(top) for _ in range(4))
        out.append(("boundary-grid", "%d %d %d %d %d %d %d" % (dt, a, b, c, e, rng.choice(ts), rng.choice(ts))))
    # one coordinate sweeps the whole boundary list, the others at zero (defaults) / small: complete
    for dt in dtv:
        for pos in range(4):
            for v in BOUNDARY + TOP_ALL:
                f = [0, 0, 0, 0]
                f[pos] = v
                out.append(("axis-sweep", "%d %d %d %d %d 0 0" % (dt, f[0], f[1], f[2], f[3])))
    # 3. aimed at the three guard boundaries (case splits of the proofs)
    n_aim = 250 if quick else 6000
    for dt in dtv:
        w = width(dt)
        m = 256 // w
        for _ in range(n_aim):
            kind = rng.randrange(3)
            sdf = rng.choice([0, 10, rng.randrange(1, 5000), rng.randrange(1, U32)])
            if kind == 0:        # sdf0 + m - 1 around 2^32
                sdf = U32 - m + 1 + rng.randrange(-3, 3)
                spd, eps, sumdf = rng.choice([0, 10, rng.randrange(U32)]), rng.choice([0, 640]), rng.choice([0, 20])
            elif kind == 1:      # spd0 + sdf1 - 1 around 2^32
                sdf0 = max(sdf, 10) if sdf else 128
                sdf1 = (sdf0 + m - 1) // m * m
                spd = (U32 - sdf1 + 1 + rng.randrange(-3, 3)) % U32
                eps, sumdf = rng.choice([0, 640, rng.randrange(10, 100000)]), rng.choice([0, 20, rng.randrange(10, 1000)])
            else:                # eps0 + sumdf1 - 1 around 2^32
                sumdf = rng.choice([10, 20, rng.randrange(1, 100000), rng.randrange(1, U32)])
                eps = (U32 - max(sumdf, 10) + 1 + rng.randrange(-3, 3)) % U32
                spd = rng.choice([0, rng.randrange(10, 100000)])
                sdf = rng.choice([0, rng.randrange(1, 2000)])
            out.append(("guard-boundary", "%d %d %d %d %d %d %d" % (dt, spd % U32, sdf % U32, eps % U32, sumdf % U32, rng.choice(ts), rng.choice(ts))))
    # 4. random, magnitudes log-uniform
    def rv():
        return rng.randrange(1 << rng.randrange(1, 33))
    for _ in range(6000 if quick else 150000):
        out.append(("random", "%d %d %d %d %d %d %d" % (rng.choice(dtv), rv(), rv(), rv(), rv(), rv() if rng.random() < .5 else 0, rv() if rng.random() < .5 else 0)))
    # divisibility structure: eps a multiple / near-multiple of spd/sdf, small co-prime cases (the loop)
    for _ in range(4000 if quick else 80000):
        dt = rng.choice(dtv)
        sdf = rng.randrange(1, 600)
        epd = rng.randrange(1, 400)
        spd = sdf * epd + rng.randrange(-2, 3)
        sumdf = rng.randrange(1, 60)
        eps = rng.choice([epd * rng.randrange(1, 50), sumdf * rng.randrange(1, 500), rng.randrange(1, 30000)]) + rng.randrange(-1, 2)
        out.append(("divisibility", "%d %d %d %d %d %d %d" % (dt, max(spd, 0), sdf, max(eps, 0), sumdf, rng.choice(ts), rng.choice(ts))))
    # 5. validation: data types, q field, signal/source ids, signal type
    for _ in range(700 if quick else 20000):
        base = rng.choice(dtv)
        c = rng.randrange(8)
        dt = base
        if c == 0:
            dt = base | (rng.randrange(1, 256) << 16)                       # q != 0
        elif c == 1:
            dt = base | (rng.randrange(1, 256) << 24)                       # ignored top byte
        elif c == 2:
            dt = (base & ~0xf) | rng.randrange(16)                          # other base type
        elif c == 3:
            dt = (base & 0xff) | (rng.choice([0, 2, 3, 12, 24, 48, 128, 255]) << 8)   # other width (0: would divide by zero if not rejected)
        elif c == 4:
            dt = rng.randrange(U32)
        sid = rng.choice([0, 1, 255, 256, 257, 65535]) if c == 5 else 1
        src = rng.choice([0, 1, 255, 256, 257, 65535]) if c == 6 else 1
        ty = rng.choice([0, 1, 2, 3, 255]) if c == 7 else rng.choice([0, 1])
        out.append(("validate", "%d %d %d %d %d %d %d %d %d %d" % (dt, rng.choice(SMALL), rng.choice(SMALL), rng.choice(SMALL), rng.choice(SMALL), 0, 0, sid, src, ty)))
    # de-duplicate, keep first origin
    seen, res = set(), []
    for o, l in out:
        if l not in seen:
            seen.add(l)
            res.append((o, l))
    return res


def budget_split(ctx, lines, guard, scale=1.0):
    """light cases run everywhere; heavy ones (long C loop / long model divisor scan) are sampled within a budget."""
    quick = ctx.tier == "quick"
    model_budget = scale * (6.0e6 if quick else 5.0e7)       # divisor-scan steps of the extracted model (~7 us each)
    c_budget = scale * (1.5e10 if quick else 2.0e11)         # C loop iterations (~2 ns each), per build
    light, heavy = [], []
    for l, g in zip(lines, guard):
        _, e1, e0 = g.split()
        e1, e0 = int(e1), int(e0)
        if e1 == 0 or e0 == 0:
            mc = cc = 0
        elif e0 >= e1:
            mc, cc = 0, e0 - e1
        else:
            mc, cc = (math.isqrt(e1) if e0 > 256 else 0), e0
        (light if (mc < 3000 and cc < 2000000) else heavy).append((l, mc, cc))
    ctx.rng.shuffle(heavy)
    kept, skipped, ms, cs = [], 0, 0, 0
    for l, mc, cc in heavy:
        if ms + mc <= model_budget and cs + cc <= c_budget:
            kept.append(l); ms += mc; cs += cc
        else:
            skipped += 1
    light = [l for l, _, _ in light]
    ctx.rng.shuffle(light)        # faulting cases (one fork each) cluster in generation order: spread them over the shards
    return light, kept, skipped


def run_c_quiet(variant, lines, alarm_s):
    """vlib.run_c with sanitizer stack traces / symbolisation off (a faulting case is a forked child that writes a report)"""
    env = dict(os.environ)
    env["ASAN_OPTIONS"] = "detect_leaks=1:abort_on_error=0:exitcode=99:allocator_may_return_null=1:symbolize=0"
    env["UBSAN_OPTIONS"] = "print_stacktrace=0:halt_on_error=1:symbolize=0"
    return vlib._run_sharded([os.path.join(vlib.BUILD, variant, "jlsrun"), "sigdef", str(alarm_s)], lines, vlib.NPROC, 3000, env)


def norm_fault(s):
    return "FAULT SIGFPE" if s == "FAULT UBSAN_DIVZERO" else s


class Classes:
    def __init__(self, ctx):
        self.ctx = ctx
        self.n = {}
        self.first = {}

    def hit(self, sig, line, text):
        key = sig or "UNEXPLAINED"
        self.n[key] = self.n.get(key, 0) + 1
        if key not in self.first or (sig is None and self.n[key] <= 5):
            self.first.setdefault(key, []).append((line, text))

    def report(self):
        for key, lst in self.first.items():
            sig = None if key == "UNEXPLAINED" else key
            for i, (line, text) in enumerate(lst[:5]):
                name = "%s_%d.txt" % (key, i)
                body = ("property=C16\nclass=%s\ncount_in_this_run=%d\nline=%s\n%s\n"
                        "replay (implementation): echo '%s' | %s/plain/jlsrun sigdef      (also %s/asan/jlsrun)\n"
                        "replay (model):          echo '%s' | %s/jlsmodel sigdef\n"
                        "line format: data_type samples_per_data sample_decimate_factor entries_per_summary summary_decimate_factor "
                        "annotation_decimate_factor utc_decimate_factor [signal_id source_id signal_type]; result: rc + the same six fields\n"
                        % (key, self.n[key], line, text, line, vlib.BUILD, vlib.BUILD, line, vlib.BUILD))
                self.ctx.violation(name, body, "%s: %s  [%s] (%d case(s) in this run)" % (key, text.splitlines()[0][:150], line, self.n[key]), sig=sig)


def check(ctx, cases, dts, cls):
    origin = dict((l, o) for o, l in cases)
    lines = [l for _, l in cases]
    guard = vlib.run_model("sigdef", lines, args=["guard"])
    light, heavy, skipped = budget_split(ctx, lines, guard)
    gmap = dict(zip(lines, guard))
    run_lines = light + heavy
    model = dict(zip(run_lines, vlib.run_model("sigdef", light, args=["align"]) + vlib.run_model("sigdef", heavy, args=["align"])))
    impl = {}
    impl["plain"] = dict(zip(run_lines, run_c_quiet("plain", light, 5) + run_c_quiet("plain", heavy, 120)))
    # a faulting case costs a fork + a sanitizer report on the ASan/UBSan build: all non-faulting cases, a sample of the faulting ones
    pred_fault = [l for l in light if model[l].startswith("FAULT")]
    ctx.rng.shuffle(pred_fault)
    n_f = 1500 if ctx.tier == "quick" else 12000
    skip_asan = set(pred_fault[n_f:])
    asan_light = [l for l in light if l not in skip_asan]
    impl["asan"] = dict(zip(asan_light + heavy, run_c_quiet("asan", asan_light, 5) + run_c_quiet("asan", heavy, 120)))
    dist = {"by_origin": {}, "by_outcome": {}, "by_width": {}, "heavy_run": len(heavy), "heavy_skipped_over_budget": skipped,
            "faulting_cases_not_repeated_on_asan_build": len(skip_asan)}
    # what the implementation stored, for the consistency oracle and the second pass
    stored = {}
    for l in run_lines:
        g = impl["plain"][l]
        t = g.split()
        if t and t[0] == "0" and len(t) == 7:
            stored[l] = "%s %s" % (l.split()[0], " ".join(t[1:]))
    slines = sorted(set(stored.values()))
    cons = dict(zip(slines, vlib.run_model("sigdef", slines, args=["consistent"])))
    # second pass (stored definition defined again): same budgeting - a stored entries_per_summary of 0 takes the default
    # again and can start a long loop
    l2, h2, skipped2 = budget_split(ctx, slines, vlib.run_model("sigdef", slines, args=["guard"]), scale=0.3)
    dist["second_pass_run"] = len(l2) + len(h2)
    dist["second_pass_skipped_over_budget"] = skipped2
    second_model = dict(zip(l2 + h2, vlib.run_model("sigdef", l2, args=["align"]) + vlib.run_model("sigdef", h2, args=["align"])))
    second = {v: dict(zip(l2 + h2, run_c_quiet(v, l2, 5) + run_c_quiet(v, h2, 120))) for v in ("plain", "asan")}

    for l in run_lines:
        dt = int(l.split()[0])
        w = width(dt)
        gb = gmap[l].split()[0]
        m = model[l]
        gp, ga = impl["plain"][l], impl["asan"].get(l)
        o = origin[l]
        dist["by_origin"][o] = dist["by_origin"].get(o, 0) + 1
        # --- correspondence ---
        for variant, g in (("plain", gp), ("asan", ga)):
            if g is not None and norm_fault(g) != m:
                cls.hit(None, l, "model and implementation differ on build %s: implementation=%r model=%r" % (variant, g, m))
        # --- the property on the implementation's result ---
        t = gp.split()
        if gp.startswith("FAULT"):
            outcome = gp
            if norm_fault(gp) == "FAULT SIGFPE" and (gb[0] == "0" or gb[1] == "0"):
                cls.hit("sigdef-overflow-divzero", l, "jls_core_signal_def_align divides by zero (%s; ASan/UBSan build: %s); guard bits sdf/spd/eps/ts=%s: "
                        "a uint32 rounding wrapped to 0" % (gp, ga or "same class sampled, this case not repeated", gb))
            else:
                cls.hit(None, l, "implementation faults: %s (guard bits %s)" % (gp, gb))
        elif len(t) == 7 and t[0] != "0":
            outcome = "rejected rc=" + t[0]
        elif len(t) == 7:
            s = stored[l]
            cb, e256 = cons[s].split()
            bad = [CLAUSES[i] for i, b in enumerate(cb) if b == "0"]
            outcome = "stored-consistent" if not bad and e256 == "1" else "stored-INCONSISTENT"
            if gb == "1111" and (bad or (w != 24 and e256 != "1")):
                cls.hit(None, l, "guard holds but stored parameters %s violate %s (contradicts C16_align_ok_partial)" % (s, bad or "256-bit"))
            if gb != "1111" and not bad:
                cls.hit(None, l, "guard fails (%s) but implementation stored consistent parameters %s (contradicts C16_align_guard_exact)" % (gb, s))
            if bad:
                ts_only = set(bad) <= {"anno>=1", "utc>=1"}
                eps_only = set(bad) <= {"eps>=min", "block-entries-divide-eps", "sumdf-divides-eps", "anno>=1", "utc>=1"} and "eps>=min" in bad
                if w == 24 and ({"anno>=1", "utc>=1"} & set(bad)):
                    cls.hit("sigdef-24bit-zero-ts-factors", l, "24-bit type takes no defaults: stored %s has a zero annotation/utc decimate factor (violates %s)" % (s, [b for b in bad if b in ("anno>=1", "utc>=1")]))
                if eps_only and gb[2] == "0":
                    cls.hit("sigdef-overflow-inconsistent", l, "rounding of entries_per_summary wrapped: stored %s violates %s" % (s, [b for b in bad if b not in ("anno>=1", "utc>=1")]))
                elif not (w == 24 and ts_only):
                    cls.hit(None, l, "stored parameters %s violate %s (guard bits %s)" % (s, bad, gb))
            if e256 != "1":
                if w == 24:
                    cls.hit("sigdef-24bit-not-256-multiple", l, "24-bit type: stored %s: level-1 entry covers sample_decimate_factor*24 = %d bits, not a multiple of 256" % (s, int(s.split()[2]) * 24))
                elif not bad:
                    cls.hit(None, l, "stored %s: level-1 entry not a multiple of 256 bits" % s)
            # --- normalising the stored parameters again ---
            if s not in second_model:
                dist["by_outcome"][outcome] = dist["by_outcome"].get(outcome, 0) + 1
                dist["by_width"][w] = dist["by_width"].get(w, 0) + 1     # (stored => w is one of the 7 widths)
                for variant in ("plain", "asan"):
                    if not (variant == "asan" and ga is None):
                        ctx.count((variant, l), nontrivial=True)
                continue
            s2p, s2a, s2m = second["plain"][s], second["asan"][s], second_model[s]
            for variant, g in (("plain", s2p), ("asan", s2a)):
                if norm_fault(g) != s2m:
                    cls.hit(None, s, "model and implementation differ on build %s (second pass): implementation=%r model=%r" % (variant, g, s2m))
            same = s2p.split()[1:] == s.split()[1:] and s2p.split()[0] == "0"
            if not same:
                outcome += "+second-pass-differs"
                if not bad:
                    big = int(s.split()[1]) + int(s.split()[2]) - 1 >= U32 or int(s.split()[3]) + int(s.split()[4]) - 1 >= U32
                    cls.hit("sigdef-renormalise-overflow" if big else None, l,
                            "stored %s is consistent, but defining a signal from it (second file) gives %s instead of the same parameters%s\n"
                            "line=%s" % (s, s2p, " (spd+sdf-1 or eps+sumdf-1 >= 2^32)" if big else "", s))
                # stored-inconsistent cases that also change are part of the class already reported
        else:
            outcome = "unparsed"
            cls.hit(None, l, "unparsable implementation output %r" % gp)
        dist["by_outcome"][outcome] = dist["by_outcome"].get(outcome, 0) + 1
        wk = w if w in (1, 4, 8, 16, 24, 32, 64) else "other (rejected by validation)"
        dist["by_width"][wk] = dist["by_width"].get(wk, 0) + 1
        nontrivial = not outcome.startswith("rejected") or o == "validate"
        for variant in ("plain", "asan"):
            if variant == "asan" and ga is None:
                continue
            ctx.count((variant, l), nontrivial=nontrivial,
                      sample={"case": l, "guard_bits": gb, "implementation": gp, "model": m, "origin": o} if variant == "plain" and (ctx.cov["evaluations"] % 9973 == 0) else None)
    return dist, stored


def check_files(ctx, stored, cls):
    """whole path: jls_wr_signal_def -> file -> jls_rd_signal, then the stored definition into a second file"""
    rng = ctx.rng
    cand = sorted(stored.items())
    rng.shuffle(cand)
    cand = cand[:400 if ctx.tier == "quick" else 6000]
    first = ["F " + l for l, _ in cand if len(l.split()) == 7]
    exp = [stored[l[2:]] for l in first]
    got = run_c_quiet("asan", first, 20)
    n = 0
    again = []
    for l, e, g in zip(first, exp, got):
        ctx.count(("file", l), nontrivial=True)
        n += 1
        want = "0 " + " ".join(e.split()[1:])
        if g != want:
            cls.hit(None, l, "jls_wr_signal_def + reopen + jls_rd_signal gives %r, direct normalisation gives %r" % (g, want))
        else:
            again.append("F " + e)
    got2 = run_c_quiet("asan", again, 20)
    direct2 = run_c_quiet("asan", [l[2:] for l in again], 5)
    for l, g, d in zip(again, got2, direct2):
        ctx.count(("file2", l), nontrivial=True)
        if norm_fault(g) != norm_fault(d):
            cls.hit(None, l, "second file: jls_wr_signal_def path gives %r, direct normalisation gives %r" % (g, d))
    return n, len(again)


def run(ctx):
    vlib.build(ctx, PROP_FILES, variants=("plain", "asan"))
    dts = datatypes()
    cases = gen_cases(ctx, dts)
    cls = Classes(ctx)
    dist, stored = check(ctx, cases, dts, cls)
    nf, nf2 = check_files(ctx, stored, cls)
    dist["file_roundtrips"] = nf
    dist["second_file_definitions"] = nf2
    dist["defect_class_counts"] = dict(cls.n)
    cls.report()
    ctx.extra["distribution"] = dist
    ctx.cov["rule"] = ("case = (data_type, samples_per_data, sample_decimate_factor, entries_per_summary, summary_decimate_factor, annotation/utc factors"
                       "[, signal_id, source_id, signal_type]); complete grid {0,1,10,11,256,257,1000}^4 x 15 data types; sampled grid over the boundary list "
                       "{0,1,9,10,11,255,256,257,1000,2^16-1..2^16+1,2^31-1..2^31+1,2^32-300..2^32-1}^4 x 15 types; complete single-axis sweeps of the whole list; cases "
                       "aimed at the three rounding guards (x+m-1 = 2^32 +-3); random log-uniform; divisibility-structured; validation cases (q, base type, width, ids, "
                       "signal type). Each case on the plain and the ASan+UBSan build, compared with the extracted model; the extracted Consistent/Entry256 oracle is "
                       "evaluated on what the implementation stored; the stored definition is normalised again (must be identical); a sample goes through "
                       "jls_wr_signal_def/jls_rd_signal and into a second file. distinct = (build, script line); non-trivial = not rejected by validation "
                       "(validation cases count). Cases whose C loop would run > 2e6 iterations or whose model divisor scan is long are sampled within a budget "
                       "(distribution.heavy_run / heavy_skipped_over_budget).")
    if ctx.tier == "thorough":
        vlib.coqchk(ctx, ["Properties_C16"])
    return vlib.finish(ctx, "proof", "make -C /verif/coq -f Makefile.coq Properties_C16.vo && coqc -Q . JLS Properties_C16.v (Print Assumptions)",
                       trusted_extra=["harness/jlsrun_k_sigdef.h calls jls_core_signal_def_validate then jls_core_signal_def_align exactly as jls_wr_signal_def does (writer.c:214-215)",
                                      "x86 integer division by zero raises SIGFPE (UBSan build: 'division by zero' report) = model result SdFault SdDivZero"],
                       note="theorems quantify over all 32-bit field values and all 7 sample widths; C16_align_guard_exact proves the guard is exactly the set of inputs on "
                            "which the C neither faults nor stores inconsistent parameters; the unguarded statement is refuted (C16_refuted_*), matching the defect classes "
                            "reported by this check")


def replay(ctx, path):
    txt = open(path).read()
    print(txt)
    lines = re.findall(r"(?m)^line=(.*)$", txt)
    if not lines:
        return 0
    vlib.build(ctx, PROP_FILES, variants=("plain", "asan"))
    rc = 0
    for l in lines:
        m = vlib.run_model("sigdef", [l], shards=1)[0]
        g = vlib.run_model("sigdef", [l], args=["guard"], shards=1)[0]
        p = vlib.run_c("plain", "sigdef", [l], shards=1)[0]
        a = vlib.run_c("asan", "sigdef", [l], shards=1)[0]
        print("case: %s\n  model:                   %s\n  guard bits, loop args:   %s\n  implementation (plain):  %s\n  implementation (asan):   %s" % (l, m, g, p, a))
        t = p.split()
        if p.startswith("FAULT") or norm_fault(p) != m or norm_fault(a) != m:
            rc = 1
        elif len(t) == 7 and t[0] == "0":
            s = "%s %s" % (l.split()[0], " ".join(t[1:]))
            c = vlib.run_model("sigdef", [s], args=["consistent"], shards=1)[0]
            p2 = vlib.run_c("plain", "sigdef", [s], shards=1)[0]
            print("  stored: %s\n  Consistent clause bits, Entry256 bit: %s  (%s)\n  stored definition normalised again:   %s" % (s, c, ", ".join(CLAUSES), p2))
            if "0" in c or p2 != p:
                rc = 1
    print("replay: violation %s" % ("reproduced" if rc else "NOT reproduced"))
    return rc
