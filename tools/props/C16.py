"""C16: signal definitions normalise to consistent, stable storage parameters.
Proof: coq/Properties_C16.v (model coq/SigDef.v of jls_core_signal_def_validate / signal_def_defaults /
round_up_to_multiple / jls_core_signal_def_align as they are now; all 2^128 inputs x 7 widths):
C16_align_total (stored consistent - 256-bit entries for every width - or rejected with PARAMETER_INVALID, never a
fault), C16_align_exact (exactly which definitions are rejected and what is stored), C16_align_idem (unguarded),
C16_align_defaults (24-bit included).
Correspondence: harness kind `sigdef` (validate + align called directly on a struct, forked child so SIGFPE
and hangs are observations) on the plain and ASan/UBSan builds vs the extracted model (sd_align_fast, proved
equal to sd_align).  Independently of the model, on what the implementation returns: no fault; a stored definition
satisfies the extracted `consistent_clauses` (proved to reflect Consistent); the stored definition defined again gives
identical parameters; a sample goes through jls_wr_signal_def -> file -> jls_rd_signal -> second file.
(The five defect classes this check found in the original code - uint32 wrap -> SIGFPE / entries_per_summary 0,
24-bit types without defaults and with 240-bit entries, consistent stored definitions that fault when defined again -
are fixed in /repo (591c3d3, e7caa59, 9149f75); their witnesses are the C16_old_* theorems.)"""
import math, os, re
import vlib

PROP_FILES = ["Properties_C16.v", "Properties_gen.v"]
U32 = 1 << 32
CLAUSES = ["entry-whole-bytes", "entry-multiple-of-256-bits", "sdf-divides-spd", "block-entries-divide-eps",
           "sumdf-divides-eps", "spd>=min", "sdf>=min", "eps>=min", "sumdf>=min", "anno>=min", "utc>=min"]

SMALL = [0, 1, 10, 11, 256, 257, 1000]
BOUNDARY = [0, 1, 9, 10, 11, 255, 256, 257, 1000, 65535, 65536, 65537, 2**31 - 1, 2**31, 2**31 + 1]
TOP_QUICK = [U32 - k for k in (300, 257, 256, 255, 65, 64, 63, 33, 32, 31, 20, 17, 16, 15, 11, 10, 9, 8, 7, 6, 5, 4, 3, 2, 1)]
TOP_ALL = [U32 - k for k in range(300, 0, -1)]
EPS_LIMIT = (U32 - 1) // 2 // 32          # entries_per_summary * 4 * sizeof(double) <= UINT32_MAX / 2


def datatypes():
    txt = open(os.path.join(vlib.COQ, "Generated.v")).read()
    d = {m.group(1): int(m.group(2)) for m in re.finditer(r"Definition JLS_DATATYPE_([IUF]\d+) : N := (\d+)\.", txt)}
    if len(d) != 15:
        raise SystemExit("C16: expected 15 JLS_DATATYPE_* constants in Generated.v, found %d" % len(d))
    return d


def width(dt):
    return (dt >> 8) & 0xff


def multiple(w):
    return 32 if w == 24 else 256 // w


def gen_cases(ctx, dts):
    """returns list of (origin, line)"""
    rng = ctx.rng
    quick = ctx.tier == "quick"
    dtv = sorted(dts.values())
    out = []
    ts = [0, 1, 100, U32 - 1]
    # 1. complete small grid x all 15 data types (annotation/utc factors cycle)
    k = 0
    for dt in dtv:
        for a in SMALL:
            for b in SMALL:
                for c in SMALL:
                    for e in SMALL:
                        out.append(("small-grid", "%d %d %d %d %d %d %d" % (dt, a, b, c, e, ts[k % 4], ts[(k // 4) % 4])))
                        k += 1
    # 2. the boundary grid, sampled; 3. complete single-axis sweeps of the whole boundary list
    top = TOP_QUICK if quick else TOP_ALL
    for _ in range(22000 if quick else 1200000):
        dt = rng.choice(dtv)
        a, b, c, e = (rng.choice(BOUNDARY) if rng.random() < 0.6 else rng.choice(top) for _ in range(4))
        out.append(("boundary-grid", "%d %d %d %d %d %d %d" % (dt, a, b, c, e, rng.choice(ts), rng.choice(ts))))
    for dt in dtv:
        for pos in range(4):
            for v in BOUNDARY + TOP_ALL:
                f = [0, 0, 0, 0]
                f[pos] = v
                out.append(("axis-sweep", "%d %d %d %d %d 0 0" % (dt, f[0], f[1], f[2], f[3])))
    # 4. aimed at the accept/reject boundaries of C16_align_exact
    n_aim = 300 if quick else 12000
    for dt in dtv:
        w = width(dt)
        m = multiple(w)
        lim_spd = ((U32 - 1) // 2 * 8 + 7) // w          # samples_per_data * w / 8 <= UINT32_MAX / 2
        for _ in range(n_aim):
            kind = rng.randrange(5)
            anno, utc = rng.choice(ts), rng.choice(ts)
            if kind == 0:        # rounding of sample_decimate_factor reaches 2^32
                sdf = U32 - m + rng.randrange(-3, 3)
                spd, eps, sumdf = rng.choice([0, 10, rng.randrange(U32)]), rng.choice([0, 640]), rng.choice([0, 20])
            elif kind == 1:      # rounding of samples_per_data reaches 2^32
                sdf = rng.choice([10, rng.randrange(1, 5000), rng.randrange(1, U32)])
                sdf1 = (max(sdf, 10) + m - 1) // m * m
                spd = ((U32 - 1) // sdf1 * sdf1 + rng.randrange(-2, 3)) % U32
                eps, sumdf = rng.choice([0, 640, rng.randrange(10, 100000)]), rng.choice([0, 20, rng.randrange(10, 1000)])
            elif kind == 2:      # rounding of entries_per_summary reaches 2^32
                sumdf = rng.choice([10, 20, rng.randrange(1, 100000), rng.randrange(1, U32)])
                s1 = max(sumdf, 10)
                eps = ((U32 - 1) // s1 * s1 + rng.randrange(-2, 3)) % U32
                spd, sdf = rng.choice([0, rng.randrange(10, 100000)]), rng.choice([0, rng.randrange(1, 2000)])
            elif kind == 3:      # summary buffer size limit: entries_per_summary around UINT32_MAX/2/32
                sumdf = rng.choice([0, 10, 16, 20, rng.randrange(1, 2000)])
                eps = EPS_LIMIT + rng.randrange(-2 * max(sumdf, 20), 2 * max(sumdf, 20))
                spd, sdf = rng.choice([0, rng.randrange(10, 100000)]), rng.choice([0, rng.randrange(1, 2000)])
            else:                # block buffer size limit: spd = sdf1 * k around the limit, eps a multiple of k (loop keeps k)
                kk = rng.choice([1, 2, 5, rng.randrange(1, 4000), rng.randrange(1, 200000)])
                sdf = max(10, lim_spd // kk) // m * m + m * rng.randrange(-2, 3)
                sdf = min(max(sdf, m), U32 - 1)
                spd = min(sdf * kk, U32 - 1)
                sumdf = 10
                eps = min(kk * 10 * rng.randrange(1, 50), EPS_LIMIT - 7)
            out.append(("accept-boundary", "%d %d %d %d %d %d %d" % (dt, spd % U32, sdf % U32, eps % U32, sumdf % U32, anno, utc)))
    # 5. random, magnitudes log-uniform
    def rv():
        return rng.randrange(1 << rng.randrange(1, 33))
    for _ in range(8000 if quick else 300000):
        out.append(("random", "%d %d %d %d %d %d %d" % (rng.choice(dtv), rv(), rv(), rv(), rv(), rv() if rng.random() < .5 else 0, rv() if rng.random() < .5 else 0)))
    # 6. divisibility structure: eps a multiple / near-multiple of spd/sdf, small co-prime cases (the loop)
    for _ in range(6000 if quick else 150000):
        dt = rng.choice(dtv)
        sdf = rng.randrange(1, 600)
        epd = rng.randrange(1, 400)
        spd = sdf * epd + rng.randrange(-2, 3)
        sumdf = rng.randrange(1, 60)
        eps = rng.choice([epd * rng.randrange(1, 50), sumdf * rng.randrange(1, 500), rng.randrange(1, 30000)]) + rng.randrange(-1, 2)
        out.append(("divisibility", "%d %d %d %d %d %d %d" % (dt, max(spd, 0), sdf, max(eps, 0), sumdf, rng.choice(ts), rng.choice(ts))))
    # 7. validation: data types, q field, signal/source ids, signal type
    for _ in range(700 if quick else 20000):
        base = rng.choice(dtv)
        c = rng.randrange(8)
        dt = base
        if c == 0:
            dt = base | (rng.randrange(1, 256) << 16)                       # q != 0
        elif c == 1:
            dt = base | (rng.randrange(1, 256) << 24)                       # ignored top byte
        elif c == 2:
            dt = (base & ~0xf) | rng.randrange(16)                          # other base type
        elif c == 3:
            dt = (base & 0xff) | (rng.choice([0, 2, 3, 12, 24, 48, 128, 255]) << 8)   # other width (0: would divide by zero if not rejected)
        elif c == 4:
            dt = rng.randrange(U32)
        sid = rng.choice([0, 1, 255, 256, 257, 65535]) if c == 5 else 1
        src = rng.choice([0, 1, 255, 256, 257, 65535]) if c == 6 else 1
        ty = rng.choice([0, 1, 2, 3, 255]) if c == 7 else rng.choice([0, 1])
        out.append(("validate", "%d %d %d %d %d %d %d %d %d %d" % (dt, rng.choice(SMALL), rng.choice(SMALL), rng.choice(SMALL), rng.choice(SMALL), 0, 0, sid, src, ty)))
    seen, res = set(), []
    for o, l in out:
        if l not in seen:
            seen.add(l)
            res.append((o, l))
    return res


def budget_split(ctx, lines, loopargs, scale=1.0):
    """light cases run everywhere; heavy ones (long C loop: up to 3.6e8 iterations / long model divisor scan) are
    sampled within a budget."""
    quick = ctx.tier == "quick"
    model_budget = scale * (1.2e7 if quick else 5.0e7)       # divisor-scan steps of the extracted model (~7 us each)
    c_budget = scale * (4.0e10 if quick else 2.0e11)         # C loop iterations (~2 ns each), per build
    light, heavy = [], []
    for l, g in zip(lines, loopargs):
        e1, e0 = (int(x) for x in g.split())
        if e1 == 0 or e0 == 0:
            mc = cc = 0
        elif e0 >= e1:
            mc, cc = 0, e0 - e1
        else:
            mc, cc = (math.isqrt(e1) if e0 > 256 else 0), e0
        (light if (mc < 3000 and cc < 2000000) else heavy).append((l, mc, cc))
    ctx.rng.shuffle(heavy)
    kept, skipped, ms, cs = [], 0, 0, 0
    for l, mc, cc in heavy:
        if ms + mc <= model_budget and cs + cc <= c_budget:
            kept.append(l); ms += mc; cs += cc
        else:
            skipped += 1
    light = [l for l, _, _ in light]
    ctx.rng.shuffle(light)
    return light, kept, skipped


def run_c_quiet(variant, lines, alarm_s):
    """vlib.run_c with sanitizer stack traces / symbolisation off (a faulting case is a forked child that writes a report)"""
    env = dict(os.environ)
    env["ASAN_OPTIONS"] = "detect_leaks=1:abort_on_error=0:exitcode=99:allocator_may_return_null=1:symbolize=0"
    env["UBSAN_OPTIONS"] = "print_stacktrace=0:halt_on_error=1:symbolize=0"
    return vlib._run_sharded([os.path.join(vlib.BUILD, variant, "jlsrun"), "sigdef", str(alarm_s)], lines, vlib.NPROC, 3000, env)


def norm_fault(s):
    return "FAULT SIGFPE" if s == "FAULT UBSAN_DIVZERO" else s


class Findings:
    """violations grouped by kind; the first few of each kind become replay files"""
    def __init__(self, ctx):
        self.ctx, self.n, self.first = ctx, {}, {}

    def hit(self, kind, line, text):
        self.n[kind] = self.n.get(kind, 0) + 1
        if self.n[kind] <= 3:
            self.first.setdefault(kind, []).append((line, text))

    def report(self):
        for kind, lst in self.first.items():
            for i, (line, text) in enumerate(lst):
                body = ("property=C16\nkind=%s\ncount_in_this_run=%d\nline=%s\n%s\n"
                        "replay (implementation): echo '%s' | %s/plain/jlsrun sigdef      (also %s/asan/jlsrun)\n"
                        "replay (model):          echo '%s' | %s/jlsmodel sigdef\n"
                        "or: python3 tools/check.py C16 --replay <this file>\n"
                        "line format: data_type samples_per_data sample_decimate_factor entries_per_summary summary_decimate_factor "
                        "annotation_decimate_factor utc_decimate_factor [signal_id source_id signal_type]; result: rc + the same six fields\n"
                        % (kind, self.n[kind], line, text, line, vlib.BUILD, vlib.BUILD, line, vlib.BUILD))
                self.ctx.violation("%s_%d.txt" % (kind, i), body,
                                   "%s: %s  [%s] (%d case(s) in this run)" % (kind, text.splitlines()[0][:170], line, self.n[kind]))


def check(ctx, cases, fnd):
    origin = dict((l, o) for o, l in cases)
    lines = [l for _, l in cases]
    light, heavy, skipped = budget_split(ctx, lines, vlib.run_model("sigdef", lines, args=["loopargs"]))
    run_lines = light + heavy
    model = dict(zip(run_lines, vlib.run_model("sigdef", light, args=["align"]) + vlib.run_model("sigdef", heavy, args=["align"])))
    impl = {v: dict(zip(run_lines, run_c_quiet(v, light, 5) + run_c_quiet(v, heavy, 120))) for v in ("plain", "asan")}
    dist = {"by_origin": {}, "by_outcome": {}, "by_width": {}, "heavy_run": len(heavy), "heavy_skipped_over_budget": skipped}
    # what the implementation stored, for the consistency oracle and the second pass
    stored = {}
    for l in run_lines:
        t = impl["plain"][l].split()
        if t and t[0] == "0" and len(t) == 7:
            stored[l] = "%s %s" % (l.split()[0], " ".join(t[1:]))
    slines = sorted(set(stored.values()))
    cons = dict(zip(slines, vlib.run_model("sigdef", slines, args=["consistent"])))
    l2, h2, skipped2 = budget_split(ctx, slines, vlib.run_model("sigdef", slines, args=["loopargs"]), scale=0.3)
    dist["second_pass_run"] = len(l2) + len(h2)
    dist["second_pass_skipped_over_budget"] = skipped2
    second_model = dict(zip(l2 + h2, vlib.run_model("sigdef", l2, args=["align"]) + vlib.run_model("sigdef", h2, args=["align"])))
    second = {v: dict(zip(l2 + h2, run_c_quiet(v, l2, 5) + run_c_quiet(v, h2, 120))) for v in ("plain", "asan")}

    for l in run_lines:
        w = width(int(l.split()[0]))
        m, gp, ga, o = model[l], impl["plain"][l], impl["asan"][l], origin[l]
        dist["by_origin"][o] = dist["by_origin"].get(o, 0) + 1
        # --- correspondence ---
        for variant, g in (("plain", gp), ("asan", ga)):
            if norm_fault(g) != m:
                fnd.hit("model-differs", l, "model and implementation differ on build %s: implementation=%r model=%r" % (variant, g, m))
        # --- the property on the implementation's result (independent of the model) ---
        t = gp.split()
        if gp.startswith("FAULT") or ga.startswith("FAULT"):
            outcome = gp if gp.startswith("FAULT") else ga
            fnd.hit("fault", l, "defining this signal faults instead of storing or rejecting it: plain build %s, ASan/UBSan build %s" % (gp, ga))
        elif len(t) == 7 and t[0] != "0":
            # generators other than "validate" use valid data types and ids: there the rejection comes from align
            outcome = "rejected rc=%s (%s)" % (t[0], "validation cases" if o == "validate" else "by jls_core_signal_def_align")
        elif len(t) == 7:
            s = stored[l]
            cb, e256 = cons[s].split()
            bad = [CLAUSES[i] for i, b in enumerate(cb) if b == "0"]
            outcome = "stored"
            if bad or e256 != "1":
                outcome = "stored-INCONSISTENT"
                fnd.hit("inconsistent", l, "stored parameters %s violate %s" % (s, bad))
            if s in second_model:
                s2p, s2a, s2m = second["plain"][s], second["asan"][s], second_model[s]
                for variant, g in (("plain", s2p), ("asan", s2a)):
                    if norm_fault(g) != s2m:
                        fnd.hit("model-differs", s, "model and implementation differ on build %s (stored definition defined again): implementation=%r model=%r" % (variant, g, s2m))
                want = "0 " + " ".join(s.split()[1:])
                if s2p != want or s2a != want:
                    outcome += "+second-pass-differs"
                    fnd.hit("not-idempotent", l, "stored %s, but defining a signal from the stored definition (second file) gives %s (ASan build: %s) "
                            "instead of the same parameters\nline=%s" % (s, s2p, s2a, s))
        else:
            outcome = "unparsed"
            fnd.hit("unparsed", l, "unparsable implementation output %r" % gp)
        dist["by_outcome"][outcome] = dist["by_outcome"].get(outcome, 0) + 1
        wk = w if w in (1, 4, 8, 16, 24, 32, 64) else "other (rejected by validation)"
        dist["by_width"][wk] = dist["by_width"].get(wk, 0) + 1
        for variant in ("plain", "asan"):
            ctx.count((variant, l), nontrivial=True,
                      sample={"case": l, "implementation": gp, "model": m, "origin": o} if variant == "plain" and (ctx.cov["evaluations"] % 9973 == 0) else None)
    return dist, stored, model


def check_files(ctx, stored, model, fnd):
    """whole path: jls_wr_signal_def -> file -> jls_rd_signal, then the stored definition into a second file;
    plus definitions that align rejects: jls_wr_signal_def must return the same error code"""
    rng = ctx.rng
    n = 400 if ctx.tier == "quick" else 6000
    cand = sorted(l for l in stored if len(l.split()) == 7)
    rng.shuffle(cand)
    rej = sorted(l for l, m in model.items() if len(l.split()) == 7 and m.split()[0] not in ("0", "FAULT"))
    rng.shuffle(rej)
    first = ["F " + l for l in cand[:n]] + ["F " + l for l in rej[:n // 4]]
    got = run_c_quiet("asan", first, 20)
    again = []
    for l, g in zip(first, got):
        ctx.count(("file", l), nontrivial=True)
        if l[2:] in stored:
            want = "0 " + " ".join(stored[l[2:]].split()[1:])
            if g != want:
                fnd.hit("file-path-differs", l, "jls_wr_signal_def + reopen + jls_rd_signal gives %r, direct normalisation gives %r" % (g, want))
            else:
                again.append("F " + stored[l[2:]])
        elif g.split()[0] != model[l[2:]].split()[0]:
            fnd.hit("file-path-differs", l, "jls_wr_signal_def gives %r, direct validate+align gives %r" % (g, model[l[2:]]))
    got2 = run_c_quiet("asan", again, 20)
    for l, g in zip(again, got2):
        ctx.count(("file2", l), nontrivial=True)
        want = "0 " + " ".join(l.split()[2:])
        if g != want:
            fnd.hit("not-idempotent", l, "second file: a signal defined from the parameters read out of the first file is stored as %r instead of %r" % (g, want))
    return len(first), len(again)


def run(ctx):
    vlib.build(ctx, PROP_FILES, variants=("plain", "asan"))
    cases = gen_cases(ctx, datatypes())
    fnd = Findings(ctx)
    dist, stored, model = check(ctx, cases, fnd)
    nf, nf2 = check_files(ctx, stored, model, fnd)
    dist["file_roundtrips"] = nf
    dist["second_file_definitions"] = nf2
    dist["violations_by_kind"] = dict(fnd.n)
    fnd.report()
    ctx.extra["distribution"] = dist
    ctx.cov["rule"] = ("case = (data_type, samples_per_data, sample_decimate_factor, entries_per_summary, summary_decimate_factor, annotation/utc factors"
                       "[, signal_id, source_id, signal_type]); complete grid {0,1,10,11,256,257,1000}^4 x 15 data types; sampled grid over the boundary list "
                       "{0,1,9,10,11,255,256,257,1000,2^16-1..2^16+1,2^31-1..2^31+1,2^32-300..2^32-1}^4 x 15 types; complete single-axis sweeps of the whole list; cases "
                       "aimed at the five accept/reject boundaries of C16_align_exact (three roundings reaching 2^32, block and summary buffer byte sizes reaching "
                       "UINT32_MAX/2); random log-uniform; divisibility-structured; validation cases (q, base type, width, ids, signal type). Each case on the plain and "
                       "the ASan+UBSan build, compared with the extracted model; independently the extracted Consistent oracle (incl. multiple of 256 bits for every "
                       "width) is evaluated on what the implementation stored, no fault is allowed, and the stored definition is normalised again (must be "
                       "identical); a sample goes through jls_wr_signal_def/jls_rd_signal and into a second file. distinct = (build, script line); every case is "
                       "non-trivial (stored: oracle + second pass; rejected: error code compared). Cases whose C loop would run > 2e6 iterations or whose model "
                       "divisor scan is long are sampled within a budget (distribution.heavy_run / heavy_skipped_over_budget).")
    if ctx.tier == "thorough":
        vlib.coqchk(ctx, ["Properties_C16"])
    return vlib.finish(ctx, "proof", "make -C /verif/coq -f Makefile.coq Properties_C16.vo && coqc -Q . JLS Properties_C16.v (Print Assumptions)",
                       trusted_extra=["harness/jlsrun_k_sigdef.h calls jls_core_signal_def_validate then jls_core_signal_def_align exactly as jls_wr_signal_def does (writer.c)",
                                      "sizeof(double) = 8 (SigDef.SD_SIZEOF_DOUBLE; not among the generated constants)",
                                      "x86 integer division by zero raises SIGFPE (UBSan build: 'division by zero' report) = model result SdFault SdDivZero (only width 0, rejected by validation)"],
                       note="theorems quantify over all 32-bit field values and all 7 sample widths, no guard: C16_align_total (stored consistent or rejected, never a fault), "
                            "C16_align_exact (the exact set of rejected definitions and the exact stored parameters), C16_align_idem (unconditional); C16_old_* document the "
                            "five defect classes of the original code that this check found and that are fixed in /repo")


def replay(ctx, path):
    txt = open(path).read()
    print(txt)
    lines = re.findall(r"(?m)^line=(.*)$", txt)
    if not lines:
        return 0
    vlib.build(ctx, PROP_FILES, variants=("plain", "asan"))
    rc = 0
    for l in lines:
        m = vlib.run_model("sigdef", [l], shards=1)[0]
        p = vlib.run_c("plain", "sigdef", [l], shards=1)[0]
        a = vlib.run_c("asan", "sigdef", [l], shards=1)[0]
        print("case: %s\n  model:                   %s\n  implementation (plain):  %s\n  implementation (asan):   %s" % (l, m, p, a))
        t = p.split()
        if p.startswith("FAULT") or a.startswith("FAULT") or norm_fault(p) != m or norm_fault(a) != m:
            rc = 1
        elif len(t) == 7 and t[0] == "0":
            s = "%s %s" % (l.split()[0], " ".join(t[1:]))
            c = vlib.run_model("sigdef", [s], args=["consistent"], shards=1)[0]
            p2 = vlib.run_c("plain", "sigdef", [s], shards=1)[0]
            print("  stored: %s\n  Consistent clause bits, Entry256 bit: %s  (%s)\n  stored definition normalised again:   %s" % (s, c, ", ".join(CLAUSES), p2))
            if "0" in c or p2 != p:
                rc = 1
    print("replay: violation %s" % ("reproduced" if rc else "NOT reproduced"))
    return rc
