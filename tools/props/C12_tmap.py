"""C12, id/time conversion half (slice `tmap`): jls_tmap_* of /repo/src/tmap.c.

Proof: coq/Properties_C12_tmap.v (no read outside the entries and no fault but int64 overflow for every map and query;
anchors exact, monotone, linear interpolation / nearest-segment extrapolation within half a tick, inverse within one
sample; documentation of the two repaired defects on the old-code model).
Correspondence: extracted TmapModel vs jls_tmap_add / jls_tmap_sample_id_to_timestamp /
jls_tmap_timestamp_to_sample_id (ASan+UBSan build and plain build, forked child per case), plus the property's
executable statement evaluated directly on the implementation's outputs with exact rationals (Fractions), plus a
binary64 re-evaluation of the modelled expression (python floats) that must equal the implementation bit for bit.

run_tmap(ctx) is called by tools/props/C12.py."""
import math
from fractions import Fraction
import vlib

PROP_FILES = ["Properties_C12_tmap.v"]
SIG_OOB = "tmap-search-reads-x-length"
SIG_EQT = "tmap-equal-times-nan-cast"
SECOND = 1 << 30
I64MIN, I64MAX = -(1 << 63), (1 << 63) - 1
# Default: the model of the current code.  JLS_TMAP_MODEL=old compares against the model of the code before the
# two repairs (TmapModel.*_old: over-read of x[length], 0/0 on equal UTC times) - only useful with JLS_REPO
# pointing at a checkout older than /repo commit 4ae268d; it reproduces the two fixed defects (signatures below).
import os
MODEL_OLD = os.environ.get("JLS_TMAP_MODEL", "") == "old"
COUNTS = (1, 2, 3, 10, 999, 1000, 1001, 2000, 2500)


# ---------------------------------------------------------------- script helpers
def hx(v):
    return ("-%x" % -v) if v < 0 else ("%x" % v)


def unhx(s):
    return -int(s[1:], 16) if s.startswith("-") else int(s, 16)


def xs32(s):
    s ^= (s << 13) & 0xffffffff
    s ^= s >> 17
    s ^= (s << 5) & 0xffffffff
    return s


def gen_adds(n, seed, id0, t0, dmin, dspan, tnum, tden, jspan, tadd):
    s = seed or 1
    i, t = id0, t0
    out = [(i, t)]
    for _ in range(1, n):
        s = xs32(s); r1 = s
        s = xs32(s); r2 = s
        did = dmin + r1 % dspan
        dtk = (did * tnum) // tden + r2 % jspan + tadd
        assert did * tnum < (1 << 62)
        i += did
        t += dtk
        out.append((i, t))
    assert abs(i) < (1 << 61) and abs(t) < (1 << 61)
    return out


class Case:
    """one script line: rate, sections (G/E), queries; knows the adds it performs"""

    def __init__(self, rnum, rsh, sections, queries, tag):
        self.rnum, self.rsh, self.sections, self.queries, self.tag = rnum, rsh, sections, list(queries), tag
        self.rate = Fraction(rnum, 1 << rsh)
        adds = []
        for sec in sections:
            if sec[0] == "G":
                adds.extend(gen_adds(*sec[1:]))
            else:
                adds.extend(sec[1])
        self.adds = adds
        # jls_tmap_add semantics, re-stated: duplicate id overwrites the last entry, smaller id is rejected
        ent, rcs, alloc = [], [], 1000
        for (i, t) in adds:
            if len(ent) >= alloc:
                alloc *= 2
            if ent and i == ent[-1][0]:
                ent[-1] = (i, t); rcs.append(0)
            elif ent and i < ent[-1][0]:
                rcs.append(5)
            else:
                ent.append((i, t)); rcs.append(0)
        self.entries, self.rcs, self.alloc = ent, rcs, alloc
        self.x = [e[0] for e in ent]
        self.y = [e[1] for e in ent]

    def line(self, queries=None):
        q = self.queries if queries is None else queries
        parts = [hx(self.rnum), str(self.rsh)]
        for sec in self.sections:
            if sec[0] == "G":
                n, seed = sec[1], sec[2]
                parts += ["G", str(n), str(seed)] + [hx(v) for v in sec[3:]]
            else:
                parts += ["E", str(len(sec[1]))] + [hx(v) for e in sec[1] for v in e]
        parts.append("Q")
        parts += [d + hx(v) for (d, v) in q]
        return " ".join(parts)

    def expected_add_field(self):
        out, k = "", 0
        for sec in self.sections:
            if sec[0] == "G":
                n = sec[1]
                out += "g%d" % sum(1 for r in self.rcs[k:k + n] if r)
                k += n
            else:
                for _ in sec[1]:
                    out += "e%d" % self.rcs[k]
                    k += 1
        return "a=" + out


def parse_result(res):
    """'a=.. rc:val rc:val FAULT:x' -> (addfield, [(rc, val or None)], fault or None)"""
    toks = res.split()
    if not toks:
        return "", [], "EMPTY"
    outs, fault = [], None
    for tk in toks[1:]:
        if tk.startswith("FAULT:"):
            fault = tk[6:]
            break
        rc, _, v = tk.partition(":")
        outs.append((int(rc), None if v == "-" else unhx(v)))
    if toks[0].startswith("PROCFAIL"):
        fault = "PROCFAIL"
    return toks[0], outs, fault


# ---------------------------------------------------------------- exact specification (Fractions)
def seg_for(x, q):
    """segment the property prescribes: the neighbouring pair around q, else the nearest (first/last) one"""
    n = len(x)
    if q < x[0]:
        return 0
    if q >= x[n - 1]:
        return n - 2
    lo, hi = 0, n - 1           # x[lo] <= q < x[hi]
    while hi - lo > 1:
        m = (lo + hi) // 2
        if x[m] <= q:
            lo = m
        else:
            hi = m
    return lo


def exact_value(case, d, q):
    """exact rational value of the conversion, or None when undefined (zero-width segment / rate <= 0)"""
    x, y = (case.x, case.y) if d == "s" else (case.y, case.x)
    n = len(x)
    if n == 0:
        return None
    if n == 1:
        if case.rate <= 0:
            return None
        if d == "s":
            return y[0] + Fraction(q - x[0]) / case.rate * SECOND
        return y[0] + Fraction(q - x[0], SECOND) * case.rate
    c = seg_for(x, q)
    ds = x[c + 1] - x[c]
    if ds == 0:
        return None
    return y[c] + Fraction((q - x[c]) * (y[c + 1] - y[c]), ds)


def exact_base(case, d, q):
    """y[c]: the anchor value the interpolation offset k is added to"""
    x, y = (case.x, case.y) if d == "s" else (case.y, case.x)
    return y[0] if len(x) == 1 else y[seg_for(x, q)]


def c_round(v):          # C round(): half away from zero, exact
    a = abs(v)
    r = math.floor(a)
    if a - r >= 0.5:
        r += 1
    return int(math.copysign(r, v)) if r else 0


def float_eval(case, d, q):
    """binary64 evaluation of the expression tmap.c computes (python float = binary64, round-to-nearest-even);
    None when the C has undefined behaviour (division by zero -> NaN/inf cast)"""
    x, y = (case.x, case.y) if d == "s" else (case.y, case.x)
    n = len(x)
    if n == 1:
        rate = math.ldexp(float(case.rnum), -case.rsh)
        if d == "s":
            dt = float(q - x[0]) / rate
            dt *= float(SECOND)
            return y[0] + int(dt)
        dt = float(q - x[0])
        dt *= (1.0 / float(SECOND))
        return y[0] + int(dt * rate)
    c = seg_for(x, q)
    # the C picks segment i when q == x[i] (i < n-1); both give the same value in exact arithmetic,
    # and in binary64 dk = 0 gives k = 0 exactly, so evaluate on the C's segment
    if q >= x[n - 1]:
        c = n - 2
    dk, ds, dt = float(q - x[c]), float(x[c + 1] - x[c]), float(y[c + 1] - y[c])
    if ds == 0.0:
        return None
    k = dk * (dt / ds)
    if math.isnan(k) or math.isinf(k) or abs(k) >= 2.0 ** 63:
        return None
    return y[c] + c_round(k)


def must_agree_exactly(case, d, q, ex):
    """True when binary64 and exact evaluation provably give the same integer: the exact value of k is
    farther from a rounding boundary than the worst-case binary64 error (2 roundings, 2^-53 each)"""
    x, y = (case.x, case.y) if d == "s" else (case.y, case.x)
    n = len(x)
    if n == 1:
        k = ex - y[0]
        if abs(q - x[0]) >= (1 << 53) or abs(k) >= (1 << 51):
            return False
        frac = abs(k) - math.floor(abs(k))
        if frac == 0:
            return True                  # the quotient / product is a representable integer: no rounding at all
        return min(frac, 1 - frac) > abs(k) * Fraction(1, 1 << 50)
    c = seg_for(x, q)
    k = ex - y[c]
    if max(abs(q - x[c]), abs(x[c + 1] - x[c]), abs(y[c + 1] - y[c])) >= (1 << 53) or abs(k) >= (1 << 51):
        return False
    if q == x[c] or q == x[c + 1]:
        return True                      # anchors: dk = 0, or dk = ds and |dt| < 2^51
    frac = abs(k) - math.floor(abs(k))
    dist = abs(frac - Fraction(1, 2))
    return dist > abs(k) * Fraction(1, 1 << 50)


# ---------------------------------------------------------------- case generation
RATES = [  # (rnum, rsh)   rate = rnum / 2^rsh
    (1, 0), (1000, 0), (44100, 0), (10 ** 6, 0), (2 * 10 ** 6, 0), (10 ** 9, 0), (1, 1), (4001, 2), (1 << 30, 0),
]


def approx_ratio(fr, maxnum):
    """fr as num/den with num < maxnum (continued-fraction approximation), num >= 0"""
    if fr.numerator < maxnum:
        return fr.numerator, fr.denominator
    f = fr.limit_denominator(max(1, int(maxnum / max(1, fr))))
    while f.numerator >= maxnum:
        f = Fraction(f.numerator // 2, max(1, f.denominator // 2))
    return f.numerator, f.denominator


def make_gen_section(rng, n, rate, mode):
    """returns ('G', n, seed, id0, t0, dmin, dspan, tnum, tden, jspan, tadd)"""
    seed = rng.randrange(1, 1 << 31)
    id0 = rng.choice([0, 0, rng.randrange(1 << 40), -rng.randrange(1 << 36), rng.randrange(1 << 20)])
    t0 = rng.choice([rng.randrange(1 << 57, 1 << 59), rng.randrange(1 << 57, 1 << 59), 0, -rng.randrange(1 << 50), rng.randrange(1 << 34)])
    tps = Fraction(SECOND) / rate                      # ticks per sample, nominal
    if mode == "regular":
        dmin, dspan, jspan, tadd = rng.choice([1, 10, 1000, rng.randrange(1, 10 ** 6)]), 1, 1, 0
    elif mode == "irregular":
        dmin, dspan, jspan, tadd = rng.randrange(1, 100), rng.choice([2, 17, 1000, 10 ** 5]), 1, 0
    elif mode == "drift":
        dmin, dspan, jspan, tadd = rng.randrange(1, 5000), rng.choice([1, 50]), 1, 0
        tps = tps * Fraction(10 ** 6 + rng.choice([-500, -50, -1, 1, 20, 100, 900]), 10 ** 6)
    elif mode == "jitter":
        dmin, dspan, tadd = rng.randrange(1, 2000), rng.choice([1, 300]), 0
        jspan = rng.choice([2, 3, 1000, 1 << 20, 1 << 31])
    elif mode == "dense":          # adjacent sample ids
        dmin, dspan, jspan, tadd = 1, rng.choice([1, 2]), rng.choice([1, 2]), 0
    else:
        raise ValueError(mode)
    dmax = dmin + dspan - 1
    # keep did * tnum < 2^62 and the totals below 2^61
    maxnum = (1 << 61) // dmax
    tnum, tden = approx_ratio(tps, maxnum)
    while n * (dmax * tnum // tden + jspan + tadd) >= (1 << 59) or n * dmax >= (1 << 59):
        if dmax > 1 and dspan > 1:
            dspan = max(1, dspan // 2)
        elif dmin > 1:
            dmin = max(1, dmin // 2)
        else:
            jspan = max(1, jspan // 2)
        dmax = dmin + dspan - 1
    return ("G", n, seed, id0, t0, dmin, dspan, tnum, tden, jspan, tadd)


def pick_queries(rng, case, nq, with_t=True):
    """queries aimed at the case split of the proofs: anchors (first, last, last-1, bisection points),
    inside (offset 1, ds-1, midpoint, random), before first, after last (last: they fault when length = 1000)"""
    x, y = case.x, case.y
    n = len(x)
    qs = []

    def side(d, a):
        out = []
        idx = {0, n - 1, max(0, n - 2), min(1, n - 1), (n + 1) // 2 if (n + 1) // 2 < n else 0, n // 4, (3 * n) // 4 if (3 * n) // 4 < n else 0}
        for _ in range(max(2, nq // 6)):
            idx.add(rng.randrange(n))
        for i in sorted(idx):
            out.append((d, a[i], "anchor"))
        if n >= 2:
            for _ in range(max(3, nq // 3)):
                i = rng.randrange(n - 1)
                w = a[i + 1] - a[i]
                if w <= 1:
                    continue
                off = rng.choice([1, w - 1, w // 2, rng.randrange(1, w), rng.randrange(1, w)])
                off = min(max(off, 1), w - 1)
                out.append((d, a[i] + off, "inside"))
        span = max(1, a[n - 1] - a[0]) if n >= 2 else rng.choice([1000, 10 ** 6, 10 ** 9])
        for dist in (1, rng.randrange(1, span + 1), rng.randrange(1, 4 * span + 1)):
            out.append((d, a[0] - dist, "before"))
        for dist in (1, rng.randrange(1, span + 1), rng.randrange(1, 4 * span + 1)):
            out.append((d, a[n - 1] + dist, "after"))
        return out
    qs = side("s", x)
    if with_t:
        qs += side("t", y)
    # after-last queries at the end of the line (a fault ends the line)
    qs.sort(key=lambda e: e[2] == "after")
    return qs


def gen_cases(ctx):
    rng = ctx.rng
    cases = []
    quick = ctx.tier == "quick"
    modes = ["regular", "irregular", "drift", "jitter", "dense"]
    reps = 1 if quick else 4
    for n in COUNTS:
        for (rnum, rsh) in RATES:
            for mode in modes:
                for _ in range(reps):
                    rate = Fraction(rnum, 1 << rsh)
                    sec = make_gen_section(rng, n, rate, mode)
                    c = Case(rnum, rsh, [sec], [], "gen:%s" % mode)
                    c.meta = pick_queries(rng, c, 12 if quick else 24)
                    c.queries = [(d, v) for (d, v, _) in c.meta]
                    cases.append(c)
    # small random counts (every n up to 40, so every shape of the bisection on small maps)
    for n in range(1, 41 if quick else 130):
        (rnum, rsh) = rng.choice(RATES)
        sec = make_gen_section(rng, n, Fraction(rnum, 1 << rsh), rng.choice(modes))
        c = Case(rnum, rsh, [sec], [], "gen:small")
        c.meta = pick_queries(rng, c, 18)
        c.queries = [(d, v) for (d, v, _) in c.meta]
        cases.append(c)
    # rates above 2^30 Hz (less than one tick per sample): strictly increasing times forced by tadd = 1
    for n in (2, 3, 10, 1001):
        for (rnum, rsh) in ((2 * 10 ** 9, 0), (1 << 32, 0)):
            sec = list(make_gen_section(rng, n, Fraction(rnum, 1 << rsh), "irregular"))
            sec[10] = 1
            c = Case(rnum, rsh, [tuple(sec)], [], "gen:subtick")
            c.meta = pick_queries(rng, c, 12)
            c.queries = [(d, v) for (d, v, _) in c.meta]
            cases.append(c)
    # equal consecutive times (non-decreasing but not increasing): time -> id divides by zero
    for n in (2, 3, 10):
        sec = ("G", n, rng.randrange(1, 1 << 31), 0, 1 << 40, 1, 5, 0, 1, 2, 0)
        c = Case(1000, 0, [sec], [], "gen:equal-times")
        c.meta = pick_queries(rng, c, 8)
        c.queries = [(d, v) for (d, v, _) in c.meta]
        cases.append(c)
    c = Case(1000, 0, [("E", [(0, 1 << 40), (1000, 1 << 40), (2000, (1 << 40) + SECOND)])], [], "explicit:equal-times")
    c.meta = [("s", 0, "anchor"), ("s", 500, "inside"), ("s", 1000, "anchor"), ("s", 1500, "inside"), ("s", 2000, "anchor"),
              ("t", (1 << 40) + SECOND, "anchor"), ("t", (1 << 40) + 5, "inside"), ("t", 1 << 40, "anchor")]
    c.queries = [(d, v) for (d, v, _) in c.meta]
    cases.append(c)
    # jls_tmap_add semantics: duplicates overwrite, smaller ids are rejected, growth at 1000 / 2000
    T = 1 << 58
    adds_sets = [
        [(10, T), (10, T + 5), (20, T + 100)],
        [(10, T), (5, T + 1), (20, T + 100), (20, T + 200), (15, T + 7), (30, T + 300)],
        [(0, T), (0, T + 1), (0, T + 2)],
        [(-5, -T), (-4, -T + 3), (-4, -T + 4), (-6, 0), (100, -T + 1000)],
        [(5, T)],
        [],
    ]
    for adds in adds_sets:
        c = Case(1000, 0, [("E", adds)], [], "explicit:add")
        if c.entries:
            c.meta = pick_queries(rng, c, 10)
        else:
            c.meta = [("s", 0, "empty"), ("t", 0, "empty")]
        c.queries = [(d, v) for (d, v, _) in c.meta]
        cases.append(c)
    # rate <= 0 with one entry: UNAVAILABLE
    for rnum in (0, -1000):
        c = Case(rnum, 0, [("E", [(5, T)])], [("s", 7), ("t", T + 9)], "explicit:rate<=0")
        c.meta = [("s", 7, "rate<=0"), ("t", T + 9, "rate<=0")]
        cases.append(c)
    # exactly at capacity, then one more add that is a duplicate / rejected / new: the growth happens first
    for n in (1000, 2000):
        for extra, nm in (("none", "none"), ("dup", "dup"), ("rej", "rej"), ("new", "new")):
            sec = make_gen_section(rng, n, Fraction(1000), "regular")
            base = Case(1000, 0, [sec], [], "x")
            last = base.entries[-1]
            e = {"dup": [(last[0], last[1] + 3)], "rej": [(last[0] - 1, last[1])], "new": [(last[0] + 7, last[1] + 9)]}.get(extra, [])
            c = Case(1000, 0, [sec] + ([("E", e)] if e else []), [], "capacity:%d:%s" % (n, nm))
            c.meta = pick_queries(rng, c, 8)
            c.queries = [(d, v) for (d, v, _) in c.meta]
            cases.append(c)
    return cases


# ---------------------------------------------------------------- checking
def check_case(ctx, case, variant, line, mres, cres, qmeta, stats, phase):
    """compare the model and implementation result lines of one case and evaluate the property on the implementation's outputs.
    returns the list of (dir, query, value) the implementation produced (for the inverse pass)"""
    madd, mouts, mfault = parse_result(mres)
    cadd, couts, cfault = parse_result(cres)
    n = len(case.entries)
    cur = {"sig": None}

    def viol(kind, what, sig=None):
        if sig is None:
            sig = cur["sig"]
        stats["viol"][kind] = stats["viol"].get(kind, 0) + 1
        if stats["viol"][kind] > 3:
            return
        name = "tmap_%s_%s_%d.txt" % (kind, variant, stats["viol"][kind])
        marg = ("old-asan" if variant == "asan" else "old-plain") if MODEL_OLD else ""
        txt = ("property C12 (tmap): %s\nbuild=%s tag=%s entries=%d rate=%s\nline=%s\nimplementation=%s\nmodel=%s\n"
               "replay: echo '%s' | JLS_TMAP_STDERR=1 %s/%s/jlsrun tmap\n"
               "model:  echo '%s' | %s/jlsmodel tmap %s\n" % (what, variant, case.tag, n, case.rate, line, cres, mres, line, vlib.BUILD, variant, line, vlib.BUILD, marg))
        ctx.violation(name, txt, what, sig=sig)

    # add return codes: implementation, model and the restated add semantics agree
    exp_add = case.expected_add_field()
    if cadd != exp_add or madd != exp_add:
        viol("add", "jls_tmap_add return codes: implementation %s model %s expected %s" % (cadd, madd, exp_add))
    produced = []
    strict_t = all(case.y[i] < case.y[i + 1] for i in range(n - 1))
    nondecr_t = all(case.y[i] <= case.y[i + 1] for i in range(n - 1))
    # faults
    if cfault or mfault:
        if cfault == "ASAN" and mfault == "ASAN" and len(mouts) == len(couts):
            d, q = qmeta[len(couts)][0], qmeta[len(couts)][1]
            stats["oob"] += 1
            viol("oob", "heap over-read: interp_i64 reads x[entries_length] with entries_length == allocated cells (%d entries, query %s%s beyond the last anchor); predicted by the model (search_oob_iff)" % (n, d, hx(q)), sig=SIG_OOB)
        elif mfault == "FPINV" and len(couts) >= len(mouts) and cfault in (None, "UBSAN"):
            if cfault == "UBSAN":
                stats["eqt"] += 1
                viol("eqt", "time -> sample id across two anchors with equal time: NaN/inf cast to int64, then signed overflow (UBSan)", sig=SIG_EQT)
            # else handled per query below (the implementation returns garbage instead of trapping)
        elif mfault == "OVF":
            stats["ovf"] += 1   # undefined behaviour on both sides: outside the property's domain
        else:
            viol("fault", "fault mismatch: implementation %s after %d results, model %s after %d results" % (cfault, len(couts), mfault, len(mouts)))
    elif len(mouts) != len(couts) or len(couts) != len(qmeta):
        viol("count", "result count mismatch: implementation %d model %d queries %d" % (len(couts), len(mouts), len(qmeta)))
    # per query
    tick_per_sample = (all(case.y[i + 1] - case.y[i] >= case.x[i + 1] - case.x[i] for i in range(n - 1)) if n >= 2 else (0 < case.rate <= SECOND))
    results_sorted = {"s": [], "t": []}
    for qi in range(len(couts)):
        d, q, cls = qmeta[qi][0], qmeta[qi][1], qmeta[qi][2]
        rc, cv = couts[qi]
        mm = mouts[qi] if qi < len(mouts) else None
        # time -> id over a map with equal consecutive times is the separate defect class SIG_EQT
        cur["sig"] = SIG_EQT if (MODEL_OLD and d == "t" and not strict_t) else None
        key = (variant, phase, case.tag, n, case.rnum, case.rsh, d, cls, q if n <= 3 else None, qi if n > 3 else None, case.sections[0][2] if case.sections and case.sections[0][0] == "G" else None)
        nontrivial = n >= 1
        ctx.count(key, nontrivial=nontrivial,
                  sample={"build": variant, "entries": n, "rate": str(case.rate), "query": d + hx(q), "class": cls, "implementation": "%d:%s" % (rc, "-" if cv is None else hx(cv)),
                          "model": None if mm is None else "%d:%s" % (mm[0], "-" if mm[1] is None else hx(mm[1]))} if (qi == 3 and variant == "asan") else None)
        stats["classes"][(d, cls)] = stats["classes"].get((d, cls), 0) + 1
        if n == 0 or (n == 1 and case.rate <= 0):
            if rc != 20 or (mm is not None and mm[0] != 20):
                viol("rc", "expected JLS_ERROR_UNAVAILABLE for %s%s: implementation rc=%d model=%s" % (d, hx(q), rc, mm))
            continue
        if rc != 0:
            viol("rc", "unexpected rc=%d for %s%s" % (rc, d, hx(q)))
            continue
        if d == "t" and not strict_t:
            # map with equal consecutive times (allowed: non-decreasing): the exact value is not unique.  The model
            # says Fault FP_invalid (undefined behaviour) for a zero-width segment, which any C outcome is consistent
            # with; the property still demands a result between the anchors around the query time
            stats["eqt"] += 1
            if mm is not None and mm[1] is not None and abs(cv - mm[1]) > 1:
                viol("model", "model %s and implementation %s differ by more than 1 at %s%s (%s, map with equal consecutive times)" % (hx(mm[1]), hx(cv), d, hx(q), cls))
            before = [case.x[i] for i in range(n) if case.y[i] < q]
            after = [case.x[i] for i in range(n) if case.y[i] > q]
            if before and after and not (before[-1] <= cv <= after[0]):
                stats["eqt_bad"] += 1
                viol("eqt", "time -> sample id on a map with equal consecutive times: %s%s -> %s is not between the neighbouring anchors' ids %s..%s "
                     "(dt/ds with ds = 0: NaN/inf cast to int64, undefined behaviour); model: %s" % (d, hx(q), hx(cv), hx(before[-1]), hx(after[0]), "FAULT:FPINV" if mm is None else mm), sig=SIG_EQT)
            elif (not before or not after) and q in case.y and not (case.x[case.y.index(q)] <= cv <= case.x[n - 1 - case.y[::-1].index(q)]):
                stats["eqt_bad"] += 1
                viol("eqt", "time -> sample id at an anchor time shared by several anchors: %s%s -> %s is none of their ids %s..%s (NaN/inf cast to int64); model: %s"
                     % (d, hx(q), hx(cv), hx(case.x[case.y.index(q)]), hx(case.x[n - 1 - case.y[::-1].index(q)]), "FAULT:FPINV" if mm is None else mm), sig=SIG_EQT)
            continue
        ex = exact_value(case, d, q)
        if ex is None:
            continue
        yc = exact_base(case, d, q)
        kmag = abs(ex - yc)                      # |k|: offset from the segment's first anchor
        guard = kmag < (1 << 51)                 # range in which binary64 evaluates dk*(dt/ds) to within 1/2
        tol = 1 if guard else 1 + kmag * Fraction(1, 1 << 50)
        if not guard:
            stats["beyond_guard"] += 1
        produced.append((d, q, cv, guard))
        # (1) model vs implementation: exact where binary64 and exact arithmetic must agree, else +-1
        if mm is not None and mm[1] is not None:
            dm = abs(cv - mm[1])
            if must_agree_exactly(case, d, q, ex):
                stats["cmp_exact"] += 1
                if dm != 0:
                    viol("model", "model %s and implementation %s differ at %s%s (%s) where exact and binary64 evaluation must agree" % (hx(mm[1]), hx(cv), d, hx(q), cls))
            else:
                stats["cmp_pm1"] += 1
                if dm > tol:
                    viol("model", "model %s and implementation %s differ by more than %s at %s%s (%s)" % (hx(mm[1]), hx(cv), float(tol), d, hx(q), cls))
                if dm >= 1:
                    stats["gap1"] += 1
        # (2) binary64 re-evaluation of the modelled expression equals the implementation bit for bit
        fe = float_eval(case, d, q)
        if fe is not None:
            stats["cmp_float"] += 1
            if fe != cv:
                viol("float", "implementation %s differs from the binary64 evaluation %s of dk*(dt/ds) at %s%s (%s)" % (hx(cv), hx(fe), d, hx(q), cls))
        # (3) the property on the implementation's output
        if cls == "anchor":
            # every stored pair is reproduced exactly
            i = (case.x if d == "s" else case.y).index(q)
            want = (case.y if d == "s" else case.x)[i]
            if cv != want:
                viol("anchor", "anchor not reproduced: %s%s -> %s, stored %s" % (d, hx(q), hx(cv), hx(want)))
        if abs(cv - ex) > tol:
            viol("tick", "%s%s -> %s is %s away from the exact value %s (> %s)" % (d, hx(q), hx(cv), float(abs(cv - ex)), float(ex), float(tol)))
        if abs(cv - ex) > Fraction(1, 2) and guard:
            stats["off_half"] += 1
        results_sorted[d].append((q, cv))
    cur["sig"] = None
    # monotone over sorted queries
    for d in ("s", "t"):
        if d == "t" and not strict_t:
            continue
        if d == "s" and not nondecr_t:
            continue
        rs = sorted(results_sorted[d])
        for (a, b) in zip(rs, rs[1:]):
            if a[1] > b[1]:
                viol("monotone", "not monotone: %s%s -> %s but %s%s -> %s" % (d, hx(a[0]), hx(a[1]), d, hx(b[0]), hx(b[1])))
    return produced, tick_per_sample and strict_t


def compress(v):
    out, i = [], 0
    while i < len(v):
        j = i
        while j + 1 < len(v) and v[j + 1] == v[j] + 1:
            j += 1
        out.append(str(v[i]) if i == j else "%d..%d" % (v[i], v[j]))
        i = j + 1
    return ",".join(out)


def run_pass(ctx, cases, lines, metas, stats, phase, variants):
    results = {}
    for variant in variants:
        marg = []
        if MODEL_OLD:
            marg = ["old-asan"] if variant == "asan" else ["old-plain", "-5a5a5a5a"]
        model = vlib.run_model("tmap", lines, args=marg)
        impl = vlib.run_c(variant, "tmap", lines)
        out = []
        for case, line, meta, m, c in zip(cases, lines, metas, model, impl):
            out.append(check_case(ctx, case, variant, line, m, c, meta, stats, phase))
        results[variant] = out
    return results


def run_tmap(ctx, build=True):
    if build:
        vlib.build(ctx, PROP_FILES, variants=("plain", "asan"))
    stats = {"viol": {}, "nviol": 0, "oob": 0, "eqt": 0, "ovf": 0, "cmp_exact": 0, "cmp_pm1": 0, "gap1": 0, "cmp_float": 0,
             "off_half": 0, "beyond_guard": 0, "eqt_bad": 0, "classes": {}, "inverse": 0, "inverse_na": 0, "inverse_exact": 0}
    # constants
    cm = vlib.run_model("tmap", ["consts"], shards=1)
    cc = vlib.run_c("asan", "tmap", ["consts"], shards=1)
    ctx.count(("consts",), nontrivial=True)
    if cm != cc or not cc or "unavailable=20" not in cc[0]:
        ctx.violation("tmap_consts.txt", "model: %s\nimplementation: %s\nreplay: echo consts | %s/asan/jlsrun tmap\n" % (cm, cc, vlib.BUILD),
                      "constants used by the tmap model differ from the implementation's")
    cases = gen_cases(ctx)
    lines = [c.line() for c in cases]
    metas = [c.meta for c in cases]
    res = run_pass(ctx, cases, lines, metas, stats, "fwd", ("asan", "plain"))
    # inverse pass: feed the implementation's own outputs back in the other direction
    inv_cases, inv_lines, inv_metas, inv_expect = [], [], [], []
    for case, (produced, applicable) in zip(cases, res["plain"]):
        fw = [(d, q, v) for (d, q, v, g) in produced if d == "s" and g]
        if not fw:
            continue
        if not applicable:
            stats["inverse_na"] += len(fw)
            continue
        # ascending, so that queries beyond the last anchor come last
        fw.sort(key=lambda e: e[2])
        meta = [("t", v, "inverse") for (_, _, v) in fw]
        inv_cases.append(case)
        inv_lines.append(case.line([("t", v) for (_, _, v) in fw]))
        inv_metas.append(meta)
        inv_expect.append([(q, v) for (_, q, v) in fw])
    res2 = run_pass(ctx, inv_cases, inv_lines, inv_metas, stats, "inv", ("asan", "plain"))
    nbad = 0
    for case, line, want, (produced, _) in zip(inv_cases, inv_lines, inv_expect, res2["plain"]):
        back = {t: b for (_, t, b, g) in produced if g}
        for (q, t) in want:
            if t not in back:
                continue
            stats["inverse"] += 1
            if back[t] == q:
                stats["inverse_exact"] += 1
            if abs(back[t] - q) > 1:
                nbad += 1
                if nbad <= 3:
                    ctx.violation("tmap_inverse_%d.txt" % nbad,
                                  "property C12 (tmap): sample id %s -> time %s -> sample id %s (more than one sample away)\nline=%s\n"
                                  "replay: echo '%s' | %s/plain/jlsrun tmap\n" % (hx(q), hx(t), hx(back[t]), line, line, vlib.BUILD),
                                  "inverse not within one sample: s%s -> t%s -> %s" % (hx(q), hx(t), hx(back[t])))
    ctx.extra["distribution"] = {
        "cases(lines)": len(lines) + len(inv_lines), "entry_counts": compress(sorted({len(c.entries) for c in cases})),
        "rates_hz": sorted({float(c.rate) for c in cases}),
        "queries_by_class": {"%s/%s" % k: v for k, v in sorted(stats["classes"].items())},
        "model_vs_implementation_exact": stats["cmp_exact"], "model_vs_implementation_within_1": stats["cmp_pm1"], "of_which_differ_by_1 (binary64 gap, measured)": stats["gap1"],
        "binary64_reevaluation_equal": stats["cmp_float"], "implementation_off_exact_by_more_than_half_tick": stats["off_half"],
        "inverse_checked": stats["inverse"], "inverse_exact": stats["inverse_exact"], "inverse_not_applicable(<1 tick/sample or equal times)": stats["inverse_na"],
        "queries_beyond_the_2^51_guard(relative tolerance)": stats["beyond_guard"], "over_read_faults(asan)": stats["oob"], "equal_time_queries": stats["eqt"], "equal_time_queries_with_garbage_result": stats["eqt_bad"], "overflow_ub_cases": stats["ovf"],
        "violations_by_kind": dict(stats["viol"]),
    }
    ctx.cov["rule"] = ("case = one map (rate, generated or explicit adds) + one query; maps: entry counts %s and every count 1..40, rates 0.5 Hz..2^32 Hz, "
                       "spacing modes regular/irregular/drift/jitter/dense, id offsets (0, positive, negative), UTC bases (2^57..2^59, 0, negative); queries: at anchors "
                       "(first, last, last-1, bisection points, random), inside (offset 1, ds-1, midpoint, random), before first, after last; both directions; on the "
                       "ASan+UBSan and the plain build; second pass converts the implementation's times back (inverse). distinct = (build, pass, map parameters, direction, class, query); "
                       "non-trivial = the map has at least one entry" % (list(COUNTS),))
    return stats


def replay(ctx, path):
    txt = open(path).read()
    print(txt)
    line = None
    for l in txt.splitlines():
        if l.startswith("line="):
            line = l[5:]
    if line is None:
        return 0
    vlib.build(ctx, PROP_FILES, variants=("plain", "asan"))
    for variant in ("asan", "plain"):
        print("implementation(%s):" % variant, vlib.run_c(variant, "tmap", [line], shards=1))
        marg = []
        if MODEL_OLD:
            marg = ["old-asan"] if variant == "asan" else ["old-plain"]
        print("model(%s):" % variant, vlib.run_model("tmap", [line], args=marg, shards=1))
    return 1
