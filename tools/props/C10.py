"""C10: API misuse yields error codes, never crashes, hangs or stray memory access.
Call sequences over the public writer / reader / copy API run on the ASan+UBSan+LSan build with caller
buffers malloc'ed to exactly the documented size, each case in a forked child under a watchdog."""
import os
import vlib, proglib
from proglib import DT, DT_BITS

PROP_FILES = ["Properties_C10.v", "Properties_reader.v"]
U32 = 2**32 - 1
IDS = [0, 1, 1, 2, 3, 255, 256, 300, 65535]
PARAMS = [0, 0, 1, 9, 10, 11, 255, 256, 1000, 65536, 2**31 - 1, 2**31, U32 - 300, U32 - 1, U32]


BIG = 1 << 20      # JLS_BUF_DEFAULT_SIZE: the reader's initial chunk buffer


def near_capacity_case(rng):
    """payloads whose on-disk size (payload + pad + CRC) straddles the reader's buffer capacity: every read of such a chunk must grow
    the buffer first (or fail with an error code), never write past it; run on the ASan build like every other case"""
    ops = ["wopen"]
    k = rng.randrange(1, 4)
    for _ in range(k):
        sz = BIG - rng.randrange(-2, 17)
        if rng.random() < 0.7:
            ops.append("ud %d %d g%d.%d" % (rng.randrange(0, 4096), rng.choice([1, 1, 2, 3]), sz, rng.randrange(1, 10**6)))
        else:
            ops.append("anno 0 %d 3f800000 1 0 %d g%d.%d" % (rng.randrange(0, 100), rng.choice([1, 2, 3]), sz, rng.randrange(1, 10**6)))
        if rng.random() < 0.5:
            ops.append("ud %d 1 g%d.%d" % (rng.randrange(0, 4096), rng.choice([1, 8, 100]), rng.randrange(1, 10**6)))
    ops += ["wclose"] + (["copy"] if rng.random() < 0.3 else []) + ["ropen", "udr", "an 0 0", "udr", "rclose"]
    return ";".join(ops), dict(dist=["near_capacity"], defined={}, threaded=False)


I64MAX = 2**63 - 1
SIG_HUGE_GAP = "wr-fsr-huge-gap-fill-never-returns"


def extreme_id_case(rng):
    """sample ids at the ends of int64: every sum / difference the writer forms with them must stay defined (UBSan) and every call must
    come back (a rejected call is fine)"""
    dt = rng.choice(["u8", "f32", "u1", "i16"])
    ops = ["wopen", "src 1 e e e e e", proglib.sigdef_op(3, 1, dt)]
    # every id in the script is a valid int64; only the sums / differences the library forms with them leave the range
    base = rng.choice([I64MAX - 120, I64MAX - 40000, -I64MAX - 1, -I64MAX + 5])
    ops.append("fsr 3 %d %d 0 0" % (base, rng.choice([1, 8, 16])))
    ops.append("fsr 3 %d %d 0 0" % (base + rng.choice([0, 4, 8, 16]), rng.choice([8, 16, 100, 200])))
    if rng.random() < 0.5:
        ops.append("fsr 3 %d 8 0 0" % max(-I64MAX - 1, base - rng.choice([1, 100])))
    ops += ["wclose", "ropen", "len 3", "rd 3 0 8", "rclose"]
    return ";".join(ops), dict(dist=["extreme_sample_id"], defined={3: (dt, False)}, threaded=False)


def huge_gap_case(rng):
    """a jump of the sample id by 2^40 .. 2^62: the writer fills the gap sample by sample (recorded known finding: the call does not
    return in any reasonable time and no error code limits the gap)"""
    ops = ["wopen", "src 1 e e e e e", proglib.sigdef_op(3, 1, rng.choice(["u1", "u8"])), "fsr 3 0 8 0 0",
           "fsr 3 %d 8 0 0" % rng.choice([2**40, 2**50, 2**62]), "wclose"]
    return ";".join(ops), dict(dist=["huge_gap"], defined={}, threaded=False, huge_gap=True, no_model=True)


def wide_window_case(rng):
    """statistics windows around the thresholds at which the reader switches between reading samples and reading summaries, with
    a LARGE first-level decimation: the sample path then stages up to 25 * sample_decimate_factor values (or one increment of them)
    in buffers sized from the definition or from the request - every such buffer must hold what is put into it (ASan)"""
    dt = rng.choice(["f32", "u8", "i16", "f64", "u4"])
    sdf = rng.choice([2624, 4096, 8192, 3000 // 32 * 32 + 32 * rng.randrange(0, 40)])
    spd = sdf * rng.choice([1, 2, 4])
    sumdf = rng.choice([2, 4, 10])
    eps = sumdf * rng.choice([1, 4, 16])
    total = rng.choice([66000, 70000, 140000, 210000])
    ops = ["wopen", "src 1 e e e e e", proglib.sigdef_op(3, 1, dt, spd=spd, sdf=sdf, eps=eps, sumdf=sumdf, adf=10, udf=10)]
    at = 0
    while at < total:
        n = min(40000, total - at)
        ops.append("fsr 3 %d %d %d %d" % (at, n, rng.choice([0, 1, 2]), rng.randrange(1, 999)))
        at += n
    ops += ["wclose", "ropen", "len 3"]
    for _ in range(rng.randrange(4, 10)):
        ln = rng.choice([1, 1, 1, 2, 3, 24, 25, 26])
        incr = rng.choice([65535, 65536, 65537, 65540, sdf - 1, sdf, sdf + 1, 25 * sdf // ln - 1, 25 * sdf // ln, 25 * sdf // ln + 1, total // ln, total // ln - 1])
        incr = max(1, incr)
        start = rng.choice([0, 0, 1, sdf - 1, max(0, total - incr * ln), max(0, total - incr * ln - 1)])
        ops.append("st 3 %d %d %d" % (start, incr, ln))
    ops += ["rd 3 %d %d" % (rng.choice([0, total - 100]), 100), "rclose"]
    return ";".join(ops), dict(dist=["wide_window"], defined={3: (dt, False)}, threaded=False)


def gen_case(rng, tier):
    r0 = rng.random()
    if r0 < 0.03:
        return near_capacity_case(rng)
    if r0 < 0.06:
        return extreme_id_case(rng)
    if r0 < 0.065:
        return huge_gap_case(rng)
    if r0 < 0.09:
        return wide_window_case(rng)
    threaded = rng.random() < 0.25
    ops = ["topen" if threaded else "wopen"]
    defined = {}
    n = rng.randrange(3, 30)
    dist = []
    for _ in range(n):
        r = rng.random()
        if r < 0.12:
            sid = rng.choice(IDS)
            ops.append("src %d %s %s %s e -" % (sid, rng.choice(["e", "-", "g5.1", "g300.2"]), rng.choice(["e", "-"]), rng.choice(["e", "-", "g2000.3"])))
        elif r < 0.35:
            gid = rng.choice(IDS)
            dt = rng.choice(list(DT.keys()))
            dtv = DT[dt] if rng.random() < 0.85 else rng.choice([0, 4, 0xffff, 0x10000 | DT["f32"], 0x2004 | 0x100000])
            extreme = rng.random() < 0.35
            if extreme:
                spd, sdf, eps, sumdf = [rng.choice(PARAMS) for _ in range(4)]
                # (a decimation of 2^31 makes the library allocate a 32 GiB index buffer: legal, lazily mapped, but it
                #  takes ASan ~20 s of mmap work and would only produce watchdog false alarms)
                adf, udf = rng.choice([0, 0, 1, 9, 10, 11, 255, 1000, 65536, U32]), rng.choice([0, 0, 1, 9, 10, 11, 255, 1000, 65536, U32])
                dist.append("extreme_def")
            else:
                spd, sdf, eps, sumdf = proglib.min_def(dt) if rng.random() < 0.7 else (0, 0, 0, 0)
                adf, udf = rng.choice([0, 10]), rng.choice([0, 10])
            ops.append("sig %d %d %d %d %d %d %d %d %d %d %d %s %s" % (gid, rng.choice([0, 0, 1, 1, 7, 256]), rng.choice([0, 0, 0, 1, 2, 255]), dtv,
                                                                     rng.choice([0, 1, 1000, U32]), spd, sdf, eps, sumdf, adf, udf, rng.choice(["e", "-", "g4.1"]), rng.choice(["e", "-"])))
            if gid < 256 and gid not in defined:
                defined[gid] = (dt, extreme)
        elif r < 0.6:
            gid = rng.choice(list(defined.keys()) + IDS)
            cnt = rng.choice([0, 1, 7, 8, 9, 100, 1000, 40000])
            # a base per signal id so that gaps stay small (a gap of 2^62 samples is written out faithfully, forever)
            base = [0, 0, 5, 2**62, -2**62, 1000][gid % 6]
            sidv = base + rng.choice([0, 0, 5, -5, 100, 1000])
            ops.append("fsr %d %d %d %d %d" % (gid, sidv, cnt, rng.choice([0, 1, 2]), rng.randrange(1, 999)))
        elif r < 0.68:
            ops.append("omit %d %d" % (rng.choice(list(defined.keys()) + IDS), rng.choice([0, 1, U32])))
        elif r < 0.8:
            gid = rng.choice(list(defined.keys()) + IDS)
            ops.append("anno %d %d %s %d %d %d %s" % (gid, rng.choice([0, 5, -5, 2**62]), rng.choice(["3f800000", "7fc00000"]), rng.choice([0, 1, 3, 255, 256, 70000]),
                                                    rng.choice([0, 255]), rng.choice([0, 1, 2, 3, 4, 255, 1000]), rng.choice(["e", "-", "g5.1", "g3000.2"])))
        elif r < 0.88:
            ops.append("utc %d %d %d" % (rng.choice(list(defined.keys()) + IDS), rng.choice([0, 10, -10, 2**62]), rng.choice([0, 10**15, -10**15])))
        elif r < 0.96:
            ops.append("ud %d %d %s" % (rng.choice([0, 1, 0xfff, 0x1000, 0xffff]), rng.choice([0, 1, 2, 3, 4, 255]), rng.choice(["-", "e", "g1.1", "g8.2", "g70000.3"])))
        else:
            ops.append("wflush")
    if rng.random() < 0.9:
        ops.append("wclose")
    if rng.random() < 0.25:
        ops.append("copy")
    ops.append("ropen")
    for _ in range(rng.randrange(3, 25)):
        gid = rng.choice(list(defined.keys()) + IDS)
        r = rng.random()
        if r < 0.1:
            ops.append(rng.choice(["srcs", "sigs", "udr", "udr 1"]))
        elif r < 0.2:
            ops.append("sigq %d" % gid)
        elif r < 0.3:
            ops.append("len %d" % gid)
        elif r < 0.6:
            ops.append("rd %d %d %d" % (gid, rng.choice([0, 0, 1, 7, -1, 99, 39990, 2**40, -2**62, 2**62]), rng.choice([0, 1, 2, 7, 8, 9, 100, 40000, -1, -2**62, 2**40, 2**62])))
        elif r < 0.8:
            ops.append("st %d %d %d %d" % (gid, rng.choice([0, 0, 1, -1, 100, 2**40]), rng.choice([1, 1, 0, -1, 7, 16, 1000, 2**40, 2**62]), rng.choice([1, 1, 0, -1, 3, 25, 1000, 2**40])))
        elif r < 0.87:
            ops.append("an %d %d" % (gid, rng.choice([0, -2**62, 2**62])))
        elif r < 0.94:
            ops.append("ut %d %d" % (gid, rng.choice([0, -2**62, 2**62])))
        else:
            ops.append(rng.choice(["s2t", "t2s"]) + " %d %d" % (gid, rng.choice([0, 10, -10, 2**62, -2**62])))
    ops.append("rclose")
    if "extreme_def" not in dist:
        dist.append("plain")
    if threaded:
        dist.append("threaded")
    return ";".join(ops), dict(dist=dist, defined=defined, threaded=threaded)


SIG_TMAP = "tmap-extreme-argument-int64-overflow"


def _tmap_ub(script):
    """re-run one script alone on the sanitizer build with the child's stderr visible: is the report a signed overflow / out-of-range
    float-to-int conversion inside tmap.c (recorded known finding)?"""
    import subprocess, os, tempfile
    env = dict(os.environ, JLSRUN_STDERR="1", UBSAN_OPTIONS="print_stacktrace=1:halt_on_error=1",
               ASAN_OPTIONS="detect_leaks=1:abort_on_error=0:exitcode=99:allocator_may_return_null=1")
    d = tempfile.mkdtemp(prefix="jlsverif.c10.")
    try:
        r = subprocess.run([os.path.join(vlib.BUILD, "asan", "jlsrun"), "prog", d, "exact", "timeout=30"], input=script + "\n", capture_output=True, text=True, timeout=120, env=env, errors="replace")
        err = r.stderr
    except Exception:
        err = ""
    finally:
        import shutil
        shutil.rmtree(d, ignore_errors=True)
    lines = [l for l in err.splitlines() if "runtime error" in l]
    return bool(lines) and all("tmap.c" in l and ("signed integer overflow" in l or "outside the range of representable" in l) for l in lines)


def classify(script, meta, mism):
    if any("FAULT EXIT1" in (str(x.get("why", "")) + str(x.get("impl", ""))) for x in mism) and any(o.split()[0] in ("s2t", "t2s") for o in script.split(";") if o.split()):
        if _tmap_ub(script):
            return SIG_TMAP
    if meta.get("huge_gap") and any("TIMEOUT" in (str(x.get("why", "")) + str(x.get("impl", ""))) for x in mism):
        return SIG_HUGE_GAP
    return None


def run(ctx):
    return proglib.run_prog_property(
        ctx, PROP_FILES, gen_case, (), 400, 4000,
        "case = call sequence of 3..30 writer calls (sync or threaded writer) and 3..25 reader calls over the public API with ids from {0, defined, undefined, 255, 256, "
        "300, 65535}, definition parameters from {0,1,9,10,11,...,2^31,UINT32_MAX}, invalid type codes, windows/increments/lengths from {0,1,-1,2^40,+-2^62}, "
        "NULL/empty/long strings, optional missing close and jls_copy; 3 % of the cases use sample ids at the ends of int64, 0.5 % a sample-id jump of 2^40..2^62 (recorded known finding), 3 % of the cases write payloads whose on-disk size straddles the reader's 1 MiB buffer capacity and read them back; run on the ASan+UBSan+LSan build with exactly sized caller buffers in a forked child with a "
        "20 s watchdog; oracle: no sanitizer report, signal, or time-out (every misuse must come back as an error code); distinct = script",
        classify=classify, variant="asan", exact=True, timeout=20,
        note="memory safety of the C itself is established only for the sequences run (sanitizers), not proved; libc, allocator-failure paths and uninstrumented intra-object overflows are not covered")


def replay(ctx, path):
    print(open(path).read())
    return 0
