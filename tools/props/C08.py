"""C08: the message ring buffer (src/msg_ring_buffer.c) is a faithful bounded FIFO that never
leaves its buffer.
Proof: coq/Properties_C08.v (all capacities <= 2^31, all sizes, all operation sequences; the
function as it is in /repo under the guard size + 8 <= capacity, the intended `alloc_fixed`
without guard; C08_refuted_* / C08_guard_tight for the defect class).
Correspondence: harness kind `mrb` (ASan build: buffer malloc'ed with exactly `capacity` bytes;
plain build: guard bytes checked after every op; forked child per program) against the extracted
model (`alloc` = the function as it is in /repo, `alloc_fixed` = the intended one):
 (a) complete reachable state space of the model for small capacities, every transition
     (all sizes 0..capacity+1, peek, pop) replayed on the C;
 (b) long random walks on capacities up to 64 KiB with sizes biased to the capacity and to
     the remaining space.
Beyond model-vs-C equality the FIFO property itself is evaluated on the C outputs."""
import os, subprocess, threading
import vlib

PROP_FILES = ["Properties_C08.v", "Properties_gen.v"]
SIGS = ("mrb-near-capacity-oob", "mrb-full-wrap-message-lost", "mrb-marker-past-end")


# ---------------------------------------------------------------- generation
def sparse_sizes(cap):
    return sorted(set([0, 5, 9, cap // 2 - 6] + list(range(cap - 13, cap + 2))))


def gen_state_space(ctx, caps_full, caps_sparse):
    """ask the extracted model for programs that cover every transition of every reachable state"""
    jobs = [("cap=%d" % c, c, "all") for c in caps_full] + \
           [("cap=%d sizes=%s" % (c, ",".join(map(str, sparse_sizes(c)))), c, "sparse") for c in caps_sparse]
    out = {}
    stats = []
    lock = threading.Lock()
    sem = threading.Semaphore(vlib.NPROC)

    def work(req, cap, mode, variant):
        with sem:
            r = subprocess.run([os.path.join(vlib.BUILD, "jlsmodel"), "mrb", "gen", variant], input=req + "\n",
                               capture_output=True, text=True, timeout=3000)
        lines = [l for l in r.stdout.splitlines() if l and not l.startswith("#")]
        st = [l for l in r.stdout.splitlines() if l.startswith("#stats")]
        with lock:
            out[(cap, variant)] = lines
            stats.append("%s %s %s" % (variant, mode, st[0][7:] if st else "FAILED rc=%s" % r.returncode))
    th = [threading.Thread(target=work, args=(req, cap, mode, v)) for (req, cap, mode) in jobs for v in ("fixed", "orig")]
    [t.start() for t in th]
    [t.join() for t in th]
    return out, sorted(stats)


class Shadow:
    """generator-only bookkeeping of head/tail (never used as an oracle): lets the random walk aim
    sizes at the remaining contiguous space"""
    def __init__(self, cap):
        self.cap, self.h, self.t, self.q = cap, 0, 0, []

    def runs(self):
        return [self.cap - self.h, self.t] if self.t <= self.h else [self.t - self.h]

    def alloc(self, n):
        c, h, t = self.cap, self.h, self.t
        if n + 8 > c:
            return
        if h >= t:
            if h + 8 + n + (0 if t else 1) < c:
                p = h
            elif n + 5 < t:
                p = 0
            elif h == t:
                self.t = 0
                p = 0
            else:
                return
        elif h + n + 5 < t:
            p = h
        else:
            return
        self.h = p + 4 + n
        self.q.append((p + 4, n))

    def pop(self):
        if self.q:
            o, n = self.q.pop(0)
            self.t = o + n


def gen_walk(rng, cap, nops):
    sh = Shadow(cap)
    ops = []
    hist = {"near_cap": 0, "near_space": 0, "small": 0, "mid": 0, "huge": 0}
    for _ in range(nops):
        r = rng.random()
        if r < 0.5:
            k = rng.random()
            if k < 0.3:
                n = cap - rng.randrange(0, 13) + (1 if rng.random() < 0.05 else 0)
                hist["near_cap"] += 1
            elif k < 0.65:
                run = rng.choice(sh.runs())
                n = run - 4 - rng.randrange(-2, 13)
                hist["near_space"] += 1
            elif k < 0.85:
                n = rng.randrange(0, 17)
                hist["small"] += 1
            else:
                n = rng.randrange(0, max(1, cap // 2))
                hist["mid"] += 1
            n = max(0, min(n, cap + 1))
            if rng.random() < 0.04:
                # sizes at the top of uint32 (size + framing wraps), around 2^31 and 2^32 - capacity: must be refused
                n = rng.choice([2**32 - 1 - rng.randrange(0, 17), 2**32 - cap + rng.randrange(-9, 10), 2**31 + rng.randrange(-9, 10), 2**32 - 8, 2**32 - 4])
                n = max(0, min(n, 2**32 - 1))
                hist["huge"] += 1
            ops.append("a:%d" % n)
            sh.alloc(n)
        elif r < 0.85:
            ops.append("p")
            sh.pop()
        else:
            ops.append("k")
    return "cap=%d %s" % (cap, " ".join(ops)), hist


# ---------------------------------------------------------------- oracle on the C output
def pattern_digest(k, n):
    if n <= 24:
        return bytes((31 * k + 3 * i + 1) % 251 for i in range(n)).hex()
    first = bytes((31 * k + 3 * i + 1) % 251 for i in range(8)).hex()
    last = bytes((31 * k + 3 * i + 1) % 251 for i in range(n - 8, n)).hex()
    # sum over i of (31k + 3i + 1) mod 251, computed over whole periods
    per = [(31 * k + 3 * i + 1) % 251 for i in range(251)]
    s = (n // 251) * sum(per) + sum(per[:n % 251])
    return "%s..%s+%d" % (first, last, s & 0xffffffff)


def parse_line(line):
    toks = line.split()
    cap = int(toks[0][4:])
    return cap, toks[1:]


def norm(out):
    return " ".join("FAULT" if t.startswith("FAULT") else t for t in out.split())


def complete(line, out):
    """the result line has one well-formed token per op or ends with a fault token (an unforked
    process that died leaves a truncated line and nothing for the following programs)"""
    toks = out.split()
    if toks and toks[-1].startswith("FAULT"):
        return True
    if len(toks) != len(line.split()) - 1:
        return False
    for t in toks:
        st = t.partition("@")[2].split(",")
        if len(st) != 3 or not all(x.isdigit() for x in st):
            return False
    return True


def oracle(line, out):
    """evaluate the FIFO property on the implementation's output; returns None or (op index, text)"""
    cap, ops = parse_line(line)
    res = out.split()
    q = []          # (k, n, offset) accepted and not yet popped
    k = 0
    h, t = 0, 0
    for i, op in enumerate(ops):
        if i >= len(res):
            return (i, "no result for op %d (%s)" % (i, op))
        r = res[i]
        if r.startswith("FAULT") or r.startswith("PROCFAIL"):
            return (i, "op %d (%s): %s - the queue left its buffer" % (i, op, r))
        body, _, stt = r.partition("@")
        try:
            nh, nt, nc = [int(x) for x in stt.split(",")]
        except ValueError:
            return (i, "op %d (%s): no well-formed result (%s): the process died or a fault interrupted the op" % (i, op, " ".join(res[i:i + 3])[:80]))
        if op.startswith("a:"):
            n = int(op[2:])
            if body == "a=NULL":
                if n + 8 <= cap:
                    if not q:
                        return (i, "op %d (%s): refused on an empty queue although %d <= capacity - 8" % (i, op, n))
                    runs = [cap - h, t] if t <= h else [t - h]
                    if any(run >= 4 + n + 6 for run in runs):
                        return (i, "op %d (%s): refused although a free run of %d bytes exists (needs %d + 6 slack)" % (i, op, max(runs), 4 + n))
            else:
                off = int(body[2:])
                if off < 4 or off + n > cap:
                    return (i, "op %d (%s): region [%d,%d) not inside the buffer [0,%d)" % (i, op, off - 4, off + n, cap))
                for (_, qn, qo) in q:
                    if not (off + n + 4 <= qo or qo + qn + 4 <= off):
                        return (i, "op %d (%s): region [%d,%d) overlaps un-popped message at [%d,%d)" % (i, op, off - 4, off + n, qo - 4, qo + qn))
                q.append((k, n, off))
            k += 1
        else:
            c = op
            if body == c + "=NULL":
                if q:
                    return (i, "op %d (%s): NULL but %d accepted message(s) are waiting (message lost)" % (i, op, len(q)))
            else:
                if not q:
                    return (i, "op %d (%s): returned a message from an empty queue: %s" % (i, op, body))
                qk, qn, qo = q[0]
                exp = "%s=%d:%d:%s" % (c, qo, qn, pattern_digest(qk, qn))
                if body != exp:
                    return (i, "op %d (%s): returned %s, the FIFO head is %s" % (i, op, body[:80], exp[:80]))
                if c == "p":
                    q.pop(0)
        if nc != len(q):
            return (i, "op %d (%s): count field %d but %d message(s) are queued" % (i, op, nc, len(q)))
        h, t = nh, nt
    if len(res) != len(ops):
        return (len(ops), "extra output")
    return None


def classify(line, m_orig, m_fixed):
    """signature of the known near-capacity class: the first op where the function as it is in
    /repo leaves the intended one must be an alloc with capacity-8 < size <= capacity"""
    cap, ops = parse_line(line)
    a, b = norm(m_orig).split(), norm(m_fixed).split()
    for i, op in enumerate(ops):
        ra = a[i] if i < len(a) else None
        rb = b[i] if i < len(b) else None
        if ra != rb:
            if op.startswith("a:"):
                n = int(op[2:])
                if cap - 8 < n <= cap:
                    if n >= cap - 3:
                        return SIGS[0], i
                    if n == cap - 4:
                        return SIGS[1], i
                    return SIGS[2], i
            return None, i
    return None, None


# ---------------------------------------------------------------- comparison
def run_c(variant, lines):
    """vlib.run_c with symbolize=0: an ASan report with symbolization costs 120 ms per faulting child"""
    env = dict(os.environ)
    env["ASAN_OPTIONS"] = "detect_leaks=1:abort_on_error=0:exitcode=99:allocator_may_return_null=1:symbolize=0"
    env["UBSAN_OPTIONS"] = "print_stacktrace=0:halt_on_error=1"
    return vlib._run_sharded([os.path.join(vlib.BUILD, variant, "jlsrun"), "mrb"], lines, vlib.NPROC, 1800, env)


def check_lines(ctx, lines, tag, st):
    m_fixed = vlib.run_model("mrb", lines, args=["fixed"])
    m_orig = vlib.run_model("mrb", lines, args=["orig"])
    # programs on which neither model predicts a fault run without fork (ASan fork is slow); whatever
    # does not come back (the process died on an unpredicted fault) is re-run in forked children
    clean = [("FAULT" not in mf) and ("FAULT" not in mo) for mf, mo in zip(m_fixed, m_orig)]
    for variant in ("asan", "plain"):
        got = run_c(variant, [("nofork " + l) if c else l for l, c in zip(lines, clean)])
        redo = [i for i, g in enumerate(got) if not complete(lines[i], g)]
        if redo:
            st["rerun_forked"] += len(redo)
            for i, g in zip(redo, run_c(variant, [lines[i] for i in redo])):
                got[i] = g
        for l, g, mf, mo in zip(lines, got, m_fixed, m_orig):
            ng = norm(g)
            nops = len(l.split()) - 1
            st["ops"] += nops
            interesting = ("a=4@" in g[4:]) or ("FAULT" in g)      # wrapped/reset at least once after the first alloc
            ctx.count((variant, l), nontrivial=True,
                      sample={"build": variant, "program": l[:160], "result": g[:200]} if (interesting and variant == "asan" and nops > 6) else None)
            orc = oracle(l, g)
            if ng == norm(mf):
                st["eq_fixed"] += 1
                if orc is not None:
                    report(ctx, st, variant, tag, l, g, mf, mo, None, "implementation equals the intended model but the FIFO oracle fails: " + orc[1])
                continue
            if ng == norm(mo):
                sig, idx = classify(l, mo, mf)
                what = orc[1] if orc is not None else \
                    "op %s: accepts a message larger than capacity-8 (head ends within 4 bytes of the end: no room for the wrap marker)" % idx
                if sig is not None:
                    st["known_class"][sig] = st["known_class"].get(sig, 0) + 1
                report(ctx, st, variant, tag, l, g, mf, mo, sig, what)
                continue
            report(ctx, st, variant, tag, l, g, mf, mo, None,
                   "implementation differs from the model of the function as it is in /repo and from the intended one" +
                   (": " + orc[1] if orc is not None else ""))


def report(ctx, st, variant, tag, line, got, mf, mo, sig, what):
    """remember the two most useful programs per class: those where the FIFO oracle itself fails, shortest first"""
    key = sig or "other"
    st["reported"][key] = st["reported"].get(key, 0) + 1
    rank = (0 if oracle(line, got) is not None else 1, len(line))
    c = st["cands"].setdefault(key, [])
    if len(c) < 2 or rank < c[-1][0]:
        c.append((rank, variant, tag, line, got, mf, mo, sig, what))
        c.sort(key=lambda x: x[0])
        del c[2:]


def emit_reports(ctx, st):
    for key in sorted(st["cands"]):
        for n, (rank, variant, tag, line, got, mf, mo, sig, what) in enumerate(st["cands"][key]):
            emit(ctx, key, n + 1, variant, tag, line, got, mf, mo, sig, what)


def emit(ctx, key, n, variant, tag, line, got, mf, mo, sig, what):
    name = "mrb_%s_%s_%d.txt" % (key.replace("mrb-", ""), variant, n)
    txt = ("property C08, build=%s, source=%s\nsignature=%s\nwhat: %s\n\nprogram:\n%s\n\nimplementation:\n%s\n\n"
           "model of the function as it is in /repo (alloc):\n%s\n\nintended model (alloc_fixed):\n%s\n\n"
           "replay:\n  echo '%s' | ASAN_OPTIONS=exitcode=99:symbolize=0 %s/%s/jlsrun mrb\n  echo '%s' | %s/jlsmodel mrb orig\n  echo '%s' | %s/jlsmodel mrb fixed\n"
           % (variant, tag, sig, what, line, got, mo, mf, line, vlib.BUILD, variant, line, vlib.BUILD, line, vlib.BUILD))
    ctx.violation(name, txt, "jls_mrb (%s build): %s   [%s]" % (variant, what, line[:100]), sig=sig)


def run(ctx):
    vlib.build(ctx, PROP_FILES, variants=("plain", "asan"))
    rng = ctx.rng
    quick = ctx.tier == "quick"
    st = {"ops": 0, "eq_fixed": 0, "known_class": {}, "reported": {}, "rerun_forked": 0, "cands": {}}

    # (a) complete reachable state space
    caps_full = list(range(16, 29)) if quick else list(range(16, 35))
    caps_sparse = [] if quick else list(range(35, 49))
    progs, stats = gen_state_space(ctx, caps_full, caps_sparse)
    nlines = 0
    for cap in caps_full + caps_sparse:
        lines = sorted(set(progs.get((cap, "fixed"), []) + progs.get((cap, "orig"), [])))
        nlines += len(lines)
        check_lines(ctx, lines, "state space cap=%d" % cap, st)

    # the three recorded witnesses (Properties_C08.C08_refuted_*) and small capacities
    fixed_lines = ["cap=100 a:98", "cap=100 a:96 k p", "cap=100 a:94 p a:10", "cap=100 a:92 p a:10 a:2 k p p p",
                   "cap=0 a:0 k p", "cap=3 a:0 p", "cap=7 a:0 a:1 p", "cap=8 a:0 k p a:0 p a:1", "cap=9 a:1 p a:1 a:0 p p",
                   "cap=12 a:4 p a:4 p a:3 a:0 p p"]
    check_lines(ctx, fixed_lines, "fixed cases", st)

    # (b) random walks
    walk_caps = [29, 33, 47, 64, 100, 255, 256, 257, 1000, 4096, 65535, 65536]
    total_ops = 40000 if quick else 400000
    hist_all = {}
    walks = []
    done = 0
    while done < total_ops:
        cap = rng.choice(walk_caps)
        nops = rng.choice([40, 120, 400]) if cap <= 4096 else rng.choice([40, 120])
        line, hist = gen_walk(rng, cap, nops)
        walks.append(line)
        done += nops
        for k, v in hist.items():
            hist_all[k] = hist_all.get(k, 0) + v
    check_lines(ctx, walks, "random walk", st)

    emit_reports(ctx, st)
    ctx.extra["distribution"] = {
        "state_space": stats, "state_space_programs": nlines, "fixed_programs": len(fixed_lines),
        "random_walk_programs": len(walks), "random_walk_capacities": walk_caps, "random_walk_alloc_size_classes": hist_all,
        "operations_executed_on_C_both_builds": st["ops"], "program_runs_equal_to_intended_model": st["eq_fixed"],
        "program_runs_in_known_defect_class": st["known_class"], "reported": st["reported"], "programs_rerun_in_forked_children_after_unpredicted_process_death": st["rerun_forked"],
    }
    ctx.cov["rule"] = ("a case is one operation program (capacity; alloc n with a counter-derived byte pattern / peek / pop) run on the ASan build "
                       "(buffer of exactly `capacity` bytes) and on the plain build (guard bytes), each compared token by token (returned offset, size, "
                       "bytes, head/tail/count, fault) with the extracted model of the function as it is in /repo and of the intended one, and checked "
                       "against the FIFO oracle (order, size, bytes, region inside the buffer, no overlap with un-popped messages, refusal only without room, "
                       "empty queue accepts every size <= capacity-8). (a) state space: BFS over the model states (head, tail, chain of un-popped messages) "
                       "from jls_mrb_init for capacities %s with every size 0..capacity+1%s; programs are covering walks so that every transition of every "
                       "state is executed on the C at least once. (b) random walks on capacities %s, sizes aimed at capacity-12..capacity+1 and at the "
                       "remaining contiguous space -2..+12. distinct = (build, program); all non-trivial."
                       % ("%d..%d" % (caps_full[0], caps_full[-1]),
                          "" if quick else " and 35..48 with the size alphabet {0,5,9,cap/2-6,cap-13..cap+1} (the full space has > 10^5 states from 36 on, 4x per 4 bytes)",
                          walk_caps))
    if ctx.tier == "thorough":
        vlib.coqchk(ctx, ["Properties_C08"])
    return vlib.finish(ctx, "proof", "make -C /verif/coq -f Makefile.coq Properties_C08.vo && coqc -Q . JLS Properties_C08.v (Print Assumptions)",
                       trusted_extra=["capacity <= 2^31 bytes (a precondition of every theorem: above it uint32 index arithmetic wraps and sizes collide with the wrap marker bit)",
                                      "single-threaded use (the concurrent use by the threaded writer is C06)"],
                       note="theorems quantify over all capacities <= 2^31, all sizes and all operation sequences; for the function as it is in /repo under the "
                            "guard size+8 <= capacity (C08_guard_tight: the guard is exact), for alloc_fixed unguarded")


def replay(ctx, path):
    txt = open(path).read()
    print(txt)
    line = None
    ls = txt.splitlines()
    for i, l in enumerate(ls):
        if l.strip() == "program:" and i + 1 < len(ls):
            line = ls[i + 1]
    if line is None:
        return 0
    vlib.build(ctx, [], variants=("plain", "asan"))
    mf = vlib.run_model("mrb", [line], args=["fixed"])[0]
    rc = 0
    for variant in ("asan", "plain"):
        g = run_c(variant, [line])[0]
        orc = oracle(line, g)
        print("%s: %s" % (variant, g))
        if norm(g) != norm(mf) or orc is not None:
            print("  -> still violates: %s" % (orc[1] if orc else "differs from the intended model"))
            rc = 1
    print("intended model: %s" % mf)
    return rc
