"""C02 / C09 (gap clause) / C15 (numeric part), slice `summ`: the numeric content of the FSR summaries and of
jls_rd_fsr_statistics (jls_core_fsr_summary1 / summaryN of /repo/src/wr_fsr.c, fsr_statistics / jls_core_fsr_statistics
of /repo/src/reader.c).

Proof: coq/Properties_C02.v (summary_exact, single_window, multi_window), coq/Properties_C09_summ.v (gap_absent_level1,
gap_absent_levelN_refuted, ...), coq/Properties_C15.v (omit_summaries_equal, auto_omit_exact) over coq/SummQ.v.
Correspondence (ties SummQ.sq_summary1 / sq_summaryN / sq_levels / sq_rd_statistics to the C): the `prog` harness writes
real files; this module parses the chunks of the file, takes the SAMPLES from the DATA chunks and ALL entries of ALL
SUMMARY chunks of every level, and compares every stored entry {mean, std, min, max} with the extracted model evaluated on
the same samples: which fields are NaN must agree exactly, min/max exactly, mean and std^2 within 2^-20 (4 x f32 entries)
or 2^-45 (4 x f64 entries) relative to the magnitude of the data.  Signals with gaps (NaN fill) exercise clause 4 of C09: a level >= 2 entry whose children are
each wholly gap or wholly written must be exactly the statistics of the written samples (executable statement of
gap_absent_levelN_aligned, checked on the file independently of the model; a NaN std next to a finite mean is an ordinary
model/implementation mismatch since /repo commit 358343b); a child that lies PARTLY in a gap is weighted like a full one
(known finding, signature summaryN-partial-gap-unweighted-mean, routed through the known-findings filter).  `st` requests are answered by
the implementation and by the extracted reader model (sq_rd_statistics) and compared the same way.

run_summ(ctx) is called by the integrated C02 check.  Standalone (development):
    JLS_BUILD=/verif/build_summ JLS_DRV=drv_summ.ml JLS_EXTRACT=/verif/coq/Extract_summ.v \
    JLS_KINDS="/verif/harness/jlsrun_k_crc.h /verif/harness/jlsrun_k_prog.h" python3 tools/props/C02_summ.py [--tier quick|thorough]"""
import json, math, os, shutil, struct, sys
from fractions import Fraction
if __name__ == "__main__":
    sys.path.insert(0, os.path.dirname(os.path.dirname(os.path.abspath(__file__))))
import vlib

PROP_FILES = ["Properties_C02.v", "Properties_C09_summ.v", "Properties_C15.v"]
TAG_DATA, TAG_INDEX, TAG_SUMMARY = 34, 35, 36          # cross-checked against coq/Generated.v in run_summ
DT = {"i4": 1025, "i8": 2049, "i16": 4097, "i32": 8193, "i64": 16385,
      "u1": 259, "u4": 1027, "u8": 2051, "u16": 4099, "u32": 8195, "u64": 16387, "f32": 8196, "f64": 16388}
SIG_UNWEIGHTED = "summaryN-partial-gap-unweighted-mean"


def dt_bits(dt):
    return (DT[dt] >> 8) & 0xff


def dt_signed(dt):
    return dt[0] == "i"


# ---------------------------------------------------------------- file parser
def parse_file(path):
    b = open(path, "rb").read()
    pos, out = 32, []
    while pos + 32 <= len(b):
        nxt, prv, tag, rsv, meta, plen, pprev, crc = struct.unpack_from("<QQBBHIII", b, pos)
        out.append(dict(off=pos, tag=tag, meta=meta, pay=b[pos + 32:pos + 32 + plen]))
        pos += 32 if plen == 0 else 32 + (plen + 4 + 7) // 8 * 8
    return out


def decode_samples(dt, pay, n):
    """n samples of a DATA payload (after the 16-byte payload header): python ints, or None for a non-finite float"""
    w = dt_bits(dt)
    raw = pay[16:]
    out = []
    if dt in ("f32", "f64"):
        vals = struct.unpack_from("<%d%s" % (n, "f" if dt == "f32" else "d"), raw, 0)
        for v in vals:
            if math.isnan(v) or math.isinf(v):
                out.append(None)
            else:
                if v != int(v):
                    raise ValueError("non-integer sample")
                out.append(int(v))
        return out
    if w >= 8:
        fmt = {8: "b", 16: "h", 32: "i", 64: "q"}[w]
        if not dt_signed(dt):
            fmt = fmt.upper()
        return list(struct.unpack_from("<%d%s" % (n, fmt), raw, 0))
    for k in range(n):
        bit = k * w
        v = (raw[bit // 8] >> (bit % 8)) & ((1 << w) - 1)
        if dt_signed(dt) and v >= (1 << (w - 1)):
            v -= 1 << w
        out.append(v)
    return out


def signal_content(chunks, sig, dt):
    """samples (from the DATA chunks, by timestamp), entries per level (all SUMMARY chunks in file order: list of 4-tuples
    of floats mean, std, min, max), entry width, number of omitted blocks, top level with an INDEX chunk"""
    datas, levels, omitted, top, width = [], {}, 0, 0, None
    for c in chunks:
        if (c["meta"] & 0x0fff) != sig or c["tag"] not in (TAG_DATA, TAG_INDEX, TAG_SUMMARY):
            continue
        ts, n, esb, rsv = struct.unpack_from("<qIHH", c["pay"], 0)
        lvl = c["meta"] >> 12
        if c["tag"] == TAG_DATA:
            datas.append((ts, decode_samples(dt, c["pay"], n)))
        elif c["tag"] == TAG_INDEX:
            top = max(top, lvl)
            if lvl == 1:
                omitted += sum(1 for e in struct.unpack_from("<%dQ" % n, c["pay"], 16) if e == 0)
        else:
            width = esb // 4
            f = "f" if esb == 128 else "d"
            vals = struct.unpack_from("<%d%s" % (4 * n, f), c["pay"], 16)
            levels.setdefault(lvl, []).extend([vals[4 * i: 4 * i + 4] for i in range(n)])
    datas.sort(key=lambda t: t[0])
    samples, ok = [], True
    for i, (ts, vals) in enumerate(datas):
        if i and ts != datas[0][0] + len(samples):
            ok = False
        samples.extend(vals)
    return samples, levels, width, omitted, top, ok


# ---------------------------------------------------------------- model text
def zint(h):
    return -int(h[1:], 16) if h.startswith("-") else int(h, 16)


def qval(t):
    if t == "nan":
        return None
    a, b = t.split("/")
    return Fraction(zint(a), int(b, 16))


def parse_levels(line):
    out = {}
    for part in line.split(" | "):
        t = part.split(" ", 1)
        lvl = int(t[0][1:])
        ents = []
        if len(t) > 1 and t[1].strip():
            for e in t[1].strip().split(";"):
                ents.append(tuple(qval(x) for x in e.split(",")))
        out[lvl] = ents
    return out


def fin(v):
    return not (math.isnan(v) or math.isinf(v))


def cmp_entry(c, m, rel, scale):
    """c = (mean, std, min, max) floats of the implementation, m = (mean, var, min, max) Fractions/None of the model"""
    cm, cs, cmin, cmax = c
    mm, mv, mmin, mmax = m
    pat_c = tuple(fin(x) for x in c)
    pat_m = tuple(x is not None for x in m)
    if pat_c != pat_m:
        return "finite/NaN pattern (mean,std,min,max) implementation %s, model %s" % (pat_c, pat_m)
    if mmin is not None and Fraction(cmin) != mmin:
        return "min %r, model %s" % (cmin, mmin)
    if mmax is not None and Fraction(cmax) != mmax:
        return "max %r, model %s" % (cmax, mmax)
    if mm is not None and abs(Fraction(cm) - mm) > Fraction(rel) * Fraction(scale):
        return "mean %r, model %r" % (cm, float(mm))
    if mv is not None:
        sd = math.sqrt(float(mv))
        tol = rel * float(mv) + 4 * rel * scale * sd + 4 * (rel * scale) ** 2
        if abs(cs * cs - float(mv)) > tol:
            return "std^2 %r, model %r (tolerance %g)" % (cs * cs, float(mv), tol)
    return None


# ---------------------------------------------------------------- generator
def pick_def(rng, dt):
    w = dt_bits(dt)
    mult = 256 // w
    sdf = ((rng.choice([10, 10, 16, 20, 32]) + mult - 1) // mult) * mult
    sumdf = rng.choice([10, 10, 10, 11, 12, 16])
    eps = ((rng.choice([10, 20, 30, 40]) + sumdf - 1) // sumdf) * sumdf
    epd = rng.choice([1, 1, 2, 3, 5])
    while eps % epd:
        epd -= 1
    return (sdf * epd, sdf, eps, sumdf)


def gen_case(rng, tier, idx):
    dt = rng.choice(["f32", "f32", "f32", "f64", "f64", "i16", "u16", "i32", "u32", "u8", "i8", "i64", "u4"])
    spd, sdf, eps, sumdf = pick_def(rng, dt)
    nlev = rng.choice([1, 2, 2, 3, 3, 3, 4])
    base = sdf * sumdf ** (nlev - 1)
    limit = 40000 if tier == "quick" else 250000
    total = min(limit, base * rng.choice([1, 2, 3, 7]) + rng.choice([0, 0, 1, sdf - 1, sdf, spd + 3, rng.randrange(0, base + 1)]))
    total = max(total, 1)
    w = dt_bits(dt)
    gaps = dt in ("f32", "f64") and rng.random() < 0.6
    first = rng.choice([0, 0, 0, 5, -3, 1000])
    if w == 4:
        pats = [3]
    elif w == 8:
        pats = [3, 4, 2]
    elif dt in ("f32", "f64"):
        pats = [1, 2, 3, 4, 4]
    else:
        pats = [1, 3, 4, 4]
    ops = ["wopen", "src 1 e e e e e", "sig 1 1 0 %d 1000 %d %d %d %d 10 10 e e" % (DT[dt], spd, sdf, eps, sumdf)]
    pos, seed, ngaps, gap_kinds = 0, rng.randrange(1, 10 ** 6), 0, []
    while pos < total:
        n = min(total - pos, rng.choice([spd, 3 * spd + 1, 997, sdf, rng.randrange(1, 4000)]))
        ops.append("fsr 1 %d %d %d %d" % (first + pos, n, rng.choice(pats), seed + pos))
        pos += n
        if gaps and pos < total and rng.random() < 0.5:
            # gap classes: inside one level-1 entry, one whole entry (aligned), several entries, a whole level-2 entry and more
            k = rng.choice(["sub", "sub", "entry", "entries", "lvl2", "unaligned"])
            if k == "sub":
                g = rng.randrange(1, sdf)
            elif k == "entry":
                pad = (-pos) % sdf
                ops.append("fsr 1 %d %d %d %d" % (first + pos, pad, 4, seed + pos)) if pad else None
                pos += pad
                g = sdf
            elif k == "entries":
                g = sdf * rng.randrange(2, sumdf)
            elif k == "lvl2":
                pad = (-pos) % (sdf * sumdf)
                if pad and pos + pad < total:
                    ops.append("fsr 1 %d %d %d %d" % (first + pos, pad, 4, seed + pos))
                    pos += pad
                g = sdf * sumdf * rng.choice([1, 1, 2])
            else:
                g = rng.randrange(1, 3 * sdf * sumdf)
            if pos + g < total:
                pos += g
                ngaps += 1
                gap_kinds.append(k)
    ops = [o for o in ops if o]
    ops += ["wclose", "save %s", "ropen", "sigq 1", "len 1"]
    # statistics requests for the reader model
    reqs = []
    for _ in range(8 if tier == "quick" else 20):
        lvl = rng.randrange(0, nlev + 1)
        step = sdf * sumdf ** (lvl - 1) if lvl >= 1 else 1
        if rng.random() < 0.5:
            count = 1
            incr = rng.choice([1, 2, sdf, step, 25 * step, 25 * step + 3, 26 * step - 1, rng.randrange(1, total + 1), total])
        else:
            count = rng.choice([2, 3, 25, 26, 40])
            incr = rng.choice([1, sdf, step, step + 1, 2 * step, 2 * step - 1, max(1, total // (count + 1))])
        incr = max(1, min(incr, total))
        if incr * count > total:
            count = max(1, total // incr)
        start = rng.choice([0, 1, sdf - 1, sdf, step, step + 1, total - incr * count, rng.randrange(0, total - incr * count + 1)])
        start = max(0, min(start, total - incr * count))
        reqs.append((start, incr, count))
        ops.append("st 1 %d %d %d" % (start, incr, count))
    ops.append("rclose")
    return dict(idx=idx, dt=dt, d=(spd, sdf, eps, sumdf), nlev=nlev, total=total, first=first, ngaps=ngaps, gap_kinds=gap_kinds,
                script=";".join(ops), reqs=reqs)


def f64(h):
    return struct.unpack("<d", struct.pack("<Q", int(h, 16)))[0]


def replay_text(case, path, script, mline, detail):
    B = vlib.BUILD
    return ("%s\n\ncase: dtype=%s definition (spd, sdf, eps, sumdf)=%s samples=%d first id=%d gaps=%d %s\n\n"
            "implementation script:\n%s\nreplay: echo '<script>' | %s/plain/jlsrun prog /tmp   (writes %s; entries: python3 %s --dump %s %s)\n\n"
            "model line (samples as read from the DATA chunks of the file):\n%s\nreplay: echo '<line>' | (ulimit -s unlimited; %s/jlsmodel summ)\n"
            % (detail, case["dt"], case["d"], case["total"], case["first"], case["ngaps"], case["gap_kinds"], script, B, path,
               os.path.abspath(__file__), path, case["dt"], mline if len(mline) < 200000 else mline[:200000] + " ...", B))


def run_summ(ctx, build=True, gap_clause=None):
    """gap_clause (default on): entries whose mean differs from the mean of the written samples because a child lies partly in
    a gap are reported through ctx.violation(..., sig=SIG_UNWEIGHTED); a known-findings entry with that signature (of any
    property) turns them into a KNOWN-FINDING line.  gap_clause=False only counts them.  run_gap(ctx) = the C09 entry point."""
    if gap_clause is None:
        gap_clause = True
    if build:
        vlib.build(ctx, [f for f in PROP_FILES if os.path.exists(os.path.join(vlib.COQ, f))], variants=("plain",))
    gen = open(os.path.join(vlib.COQ, "Generated.v")).read()
    for name, val in (("JLS_TAG_TRACK_FSR_DATA", TAG_DATA), ("JLS_TAG_TRACK_FSR_INDEX", TAG_INDEX), ("JLS_TAG_TRACK_FSR_SUMMARY", TAG_SUMMARY)):
        if ("Definition %s : N := %d." % (name, val)) not in gen:
            ctx.violation("summ_tags.txt", "tag %s is not %d in coq/Generated.v\n" % (name, val), "chunk tag constants of the parser differ from the implementation's")
    n = 60 if ctx.tier == "quick" else 500
    cases = [gen_case(ctx.rng, ctx.tier, i) for i in range(n)]
    outdir = os.path.join(ctx.tmp, "summ_files")
    scratch = os.path.join(ctx.tmp, "summ_scratch")
    os.makedirs(outdir, exist_ok=True)
    os.makedirs(scratch, exist_ok=True)
    paths = [os.path.join(outdir, "s%d.jls" % c["idx"]) for c in cases]
    scripts = [c["script"] % p for c, p in zip(cases, paths)]
    impl = vlib.run_c("plain", "prog", scripts, args=[scratch, "timeout=60"], timeout=3000)
    stats = {"by_dtype": {}, "levels_present": {}, "entries_compared": {}, "entries_nan": 0, "files_with_gaps": 0, "gap_kinds": {},
             "aligned_gap_entries": 0, "unweighted_mean_entries": 0, "viol": {}, "def_adjusted": 0, "entry_width": {},
             "requests": 0, "requests_answered": 0, "requests_error_both": 0, "requests_nan": 0, "single_window": 0, "multi_window": 0,
             "request_levels": {}, "error_classes": {}}
    work = []      # (case, path, script, samples, levels, width, top, impl outputs)
    for case, path, script, a in zip(cases, paths, scripts, impl):
        if a.startswith("PROCFAIL") or "FAULT" in a or not os.path.exists(path):
            ctx.violation("summ_impl_fault_%d.txt" % case["idx"], replay_text(case, path, script, "-", "implementation run failed: %s" % a[-300:]),
                          "FSR summaries: the implementation failed on a plain write/read script: %s" % a[-160:])
            continue
        ao = a.split(";")
        stored = None
        for o in ao:
            t = o.split()
            if t and t[0] == "sigq" and len(t) >= 4 and t[1] == "0":
                stored = tuple(int(v) for v in t[3].split(",")[5:9])
        if stored != tuple(case["d"]):
            stats["def_adjusted"] += 1
            continue
        chunks = parse_file(path)
        samples, levels, width, omitted, top, ok = signal_content(chunks, 1, case["dt"])
        if not ok or omitted:
            stats["def_adjusted"] += 1       # constant <= 8-bit block omitted / non-contiguous data: the samples cannot be taken from the file
            continue
        work.append((case, path, script, samples, levels, width, top, ao))
    # model: levels, then the requests
    mlines, owner = [], []
    for k, (case, path, script, samples, levels, width, top, ao) in enumerate(work):
        spd, sdf, eps, sumdf = case["d"]
        nl = max([1] + list(levels))
        vtxt = " ".join("n" if v is None else str(v) for v in samples)
        mlines.append("L %d %d %d | %s" % (sdf, sumdf, nl, vtxt))
        owner.append((k, "L", None))
        l0ok = 1 if dt_bits(case["dt"]) <= 32 else 0
        for (start, incr, count) in case["reqs"]:
            mlines.append("R %d %d %d %d %d %d %d | %s" % (sdf, sumdf, top, l0ok, start, incr, count, vtxt))
            owner.append((k, "R", (start, incr, count)))
    model = vlib.run_model("summ", mlines, timeout=3000)
    redo = [i for i, m in enumerate(model) if m.startswith("PROCFAIL")]
    if redo:
        for i, m in zip(redo, vlib.run_model("summ", [mlines[i] for i in redo], shards=len(redo), timeout=3000)):
            model[i] = m

    def known_listed(sig):
        kf = os.path.join(vlib.VERIF, "known_findings.json")
        if not os.path.exists(kf):
            return None
        for k in json.load(open(kf)).get("findings", []):
            if k.get("signature") == sig and k.get("status") == "known":
                return k
        return None

    def viol(kind, case, path, script, mline, detail, sig=None):
        stats["viol"][kind] = stats["viol"].get(kind, 0) + 1
        if sig == SIG_UNWEIGHTED and not gap_clause:
            return
        if sig is not None:
            k = known_listed(sig)
            if k is not None:            # listed (under whatever property): KNOWN-FINDING line, no violation
                if k["id"] not in [h["id"] for h in ctx.known_hits]:
                    ctx.known_hits.append(k)
                return
        if stats["viol"][kind] <= 3:
            keep = os.path.join(vlib.VERIF, "replays", ctx.prop, "summ_%s_%d.jls" % (kind, stats["viol"][kind]))
            try:
                shutil.copy(path, keep)
            except OSError:
                keep = path
            ctx.violation("summ_%s_%d.txt" % (kind, stats["viol"][kind]), replay_text(case, keep, script, mline, detail),
                          "FSR summaries %s: %s %s samples=%d: %s" % (kind, case["dt"], case["d"], case["total"], detail[:200]), sig=sig)

    req_i = {}
    for (k, kind, req), mline, m in zip(owner, mlines, model):
        case, path, script, samples, levels, width, top, ao = work[k]
        spd, sdf, eps, sumdf = case["d"]
        rel = 2.0 ** -20 if width == 32 else 2.0 ** -45
        present = [v for v in samples if v is not None]
        scale = float(max([1] + [abs(v) for v in present]))
        if m.startswith("PROCFAIL") or m == "BAD":
            viol("model_fail", case, path, script, mline, "the MODEL process failed on this line (harness problem): %s" % m[:200])
            continue
        if kind == "L":
            stats["by_dtype"][case["dt"]] = stats["by_dtype"].get(case["dt"], 0) + 1
            stats["entry_width"][width] = stats["entry_width"].get(width, 0) + 1
            stats["levels_present"][max([0] + list(levels))] = stats["levels_present"].get(max([0] + list(levels)), 0) + 1
            if case["ngaps"]:
                stats["files_with_gaps"] += 1
                for g in case["gap_kinds"]:
                    stats["gap_kinds"][g] = stats["gap_kinds"].get(g, 0) + 1
            ml = parse_levels(m)
            ctx.count((case["dt"], case["d"], case["total"], case["first"], case["ngaps"], tuple(case["gap_kinds"])),
                      nontrivial=max([0] + list(levels)) >= 2,
                      sample={"dtype": case["dt"], "def": case["d"], "samples": case["total"], "gaps": case["ngaps"],
                              "entries_per_level": {l: len(v) for l, v in levels.items()}} if case["idx"] % 12 == 5 else None)
            for lvl in sorted(set(levels) | set(ml)):
                ce, me = levels.get(lvl, []), ml.get(lvl, [])
                if len(ce) != len(me):
                    viol("entry_count", case, path, script, mline, "level %d: %d entries in the SUMMARY chunks, the stream recurrence gives %d"
                         % (lvl, len(ce), len(me)))
                    continue
                stats["entries_compared"][lvl] = stats["entries_compared"].get(lvl, 0) + len(ce)
                grp = sdf * sumdf ** (lvl - 1)
                for j, (c, e) in enumerate(zip(ce, me)):
                    why = cmp_entry(c, e, rel, scale)
                    if why:
                        viol("entry", case, path, script, mline, "level %d entry %d (samples %d..%d): %s; implementation (mean,std,min,max)=%r"
                             % (lvl, j, j * grp, (j + 1) * grp - 1, why, c))
                        break
                    if e[0] is None:
                        stats["entries_nan"] += 1
                    # clause 4 (C09): gap samples are to be treated as absent
                    seg = samples[j * grp:(j + 1) * grp]
                    win = [v for v in seg if v is not None]
                    if lvl >= 2 and win and len(win) < grp and fin(c[0]):
                        child = grp // sumdf
                        aligned = all(all(v is None for v in seg[a:a + child]) or all(v is not None for v in seg[a:a + child])
                                      for a in range(0, grp, child))
                        exact_mean = Fraction(sum(win), len(win))
                        exact_var = sum((Fraction(v) - exact_mean) ** 2 for v in win) / len(win)
                        if aligned:
                            # executable statement of gap_absent_levelN_aligned (independent of the model)
                            stats["aligned_gap_entries"] += 1
                            why2 = cmp_entry(c, (exact_mean, exact_var, Fraction(min(win)), Fraction(max(win))), rel * 4, scale)
                            if why2:
                                viol("gap_aligned", case, path, script, mline,
                                     "level %d entry %d covers %d written and %d gap samples, every child is wholly gap or wholly written, "
                                     "but the entry is not the statistics of the written samples: %s" % (lvl, j, len(win), grp - len(win), why2))
                                break
                        elif abs(Fraction(c[0]) - exact_mean) > Fraction(rel) * Fraction(scale) * 4:
                            stats["unweighted_mean_entries"] += 1
                            viol("gap_unweighted", case, path, script, mline,
                                 "level %d entry %d covers %d written and %d gap samples: stored mean %r, mean of the written samples %r "
                                 "(children with fewer written samples are weighted like full ones)"
                                 % (lvl, j, len(win), grp - len(win), c[0], float(exact_mean)), sig=SIG_UNWEIGHTED)
        else:
            start, incr, count = req
            i = req_i.get(k, 0)
            req_i[k] = i + 1
            sts = [o for o in ao if o.split() and o.split()[0] == "st"]
            if i >= len(sts):
                continue
            it = sts[i].split()
            stats["requests"] += 1
            c_ok = len(it) >= 2 and it[1] == "0"
            vals = [f64(h) for h in it[2:]] if c_ok else []
            if m in ("ERR",) or m.startswith("FAULT"):
                if c_ok:
                    viol("rd_err", case, path, script, mline, "st %d %d %d: model %s, implementation answered %r" % (start, incr, count, m, vals[:8]))
                else:
                    stats["requests_error_both"] += 1
                    cls = "64-bit sample type (level-0 path unsupported)" if dt_bits(case["dt"]) > 32 else "tail of the level not summarised / level absent"
                    stats["error_classes"][cls] = stats["error_classes"].get(cls, 0) + 1
                continue
            if m == "NAN":
                stats["requests_nan"] += 1       # fill consumed: outside the rational reader model
                continue
            if not c_ok:
                viol("rd_err", case, path, script, mline, "st %d %d %d: implementation returned %s, model answered" % (start, incr, count, " ".join(it[1:3])))
                continue
            outs = [tuple(qval(x) for x in e.split(",")) for e in m[3:].split(";")] if len(m) > 3 else []
            if len(vals) != 4 * len(outs):
                viol("rd_len", case, path, script, mline, "st %d %d %d: %d values for %d model entries" % (start, incr, count, len(vals), len(outs)))
                continue
            stats["requests_answered"] += 1
            stats["single_window" if count == 1 else "multi_window"] += 1
            # level the request is served from (the selection loop)
            lvl, smn = 0, sdf
            while incr >= smn and incr * count >= 25 * smn:
                lvl += 1
                smn *= sumdf
            stats["request_levels"][lvl] = stats["request_levels"].get(lvl, 0) + 1
            ctx.count(("st", case["idx"], start, incr, count), nontrivial=lvl >= 1)
            rrel = rel * 8          # the reader re-reads rounded entries and combines them
            for j, e in enumerate(outs):
                why = cmp_entry(vals[4 * j: 4 * j + 4], e, rrel, scale)
                if why:
                    viol("rd_value", case, path, script, mline, "st %d %d %d (level %d) entry %d: %s" % (start, incr, count, lvl, j, why))
                    break
    ctx.extra["distribution"] = stats
    ctx.extra["summary_model_correspondence"] = stats
    ctx.cov["rule_summ"] = ctx.cov["rule"] = ("case = one FSR signal (f32/f64/i16/u16/i32/u32/i64/u8/i8/u4; sample_decimate_factor 10..32 rounded to the type's multiple, "
                       "summary_decimate_factor 10/11/12/16, entries_per_summary 10..48, 1/2/3/5 entries per block; 1..4 summary levels; first ids 0/5/-3/1000; "
                       "integer-valued samples: ramps, k*7%17, +-1000, PRNG; written by calls of block size, 3 blocks+1, 997, one entry, random) with, for float types, "
                       "gaps (NaN fill) inside one entry, of exactly one aligned entry, several entries, whole level-2 entries, unaligned; samples are read back from the DATA "
                       "chunks; every entry of every SUMMARY chunk of every level is compared with the extracted sq_level1 / sq_level_next; 8 (thorough 20) statistics "
                       "requests per file (single window of lengths 1, 2, d, one entry of each level, 25 entries (+3, 26 entries - 1), random, whole signal; multi-window "
                       "with increments step, step+1, 2 step, 2 step - 1; starts 0, 1, d-1, d, step, step+1, end-aligned, random) are compared with the extracted "
                       "sq_rd_statistics; distinct = (type, definition, length, first id, gap classes) resp. request; non-trivial = at least 2 levels resp. served from level >= 1")
    return stats


def run_gap(ctx, build=True):
    """entry point for the C09 check (same run; the partial-gap class goes through the known-findings filter)"""
    return run_summ(ctx, build=build, gap_clause=True)


def dump(path, dt):
    chunks = parse_file(path)
    samples, levels, width, omitted, top, ok = signal_content(chunks, 1, dt)
    print("samples=%d width=%s omitted=%d top=%d contiguous=%s" % (len(samples), width, omitted, top, ok))
    for lvl in sorted(levels):
        for j, e in enumerate(levels[lvl]):
            print("L%d #%d mean=%r std=%r min=%r max=%r" % (lvl, j, e[0], e[1], e[2], e[3]))


if __name__ == "__main__":
    if len(sys.argv) >= 4 and sys.argv[1] == "--dump":
        dump(sys.argv[2], sys.argv[3])
        sys.exit(0)
    tier = "quick"
    if "--tier" in sys.argv:
        tier = sys.argv[sys.argv.index("--tier") + 1]
    ctx = vlib.Ctx("C02", tier, int(os.environ.get("VERIF_SEED", "1")))
    ctx.prop = "C02_summ"
    os.makedirs(os.path.join(vlib.VERIF, "replays", ctx.prop), exist_ok=True)
    run_summ(ctx, gap_clause=("--no-gap" not in sys.argv))
    print(json.dumps(ctx.extra["distribution"], indent=1, default=str))
    sys.exit(vlib.finish(ctx, "proof", "python3 tools/props/C02_summ.py --tier " + tier,
                         note="numeric content of summaries and statistics over exact rationals; binary32/64 rounding measured by the correspondence"))
