#!/usr/bin/env python3
"""Fails when Coq's monolithic extraction silently renamed a clashing identifier (foo -> foo0):
an identifier ending in a digit in jlsmodel_ext.mli that does not occur in any coq/*.v source."""
import glob, os, re, sys
mli = open(sys.argv[1]).read()
coq = os.path.join(os.path.dirname(os.path.dirname(os.path.abspath(__file__))), "coq")
src = "\n".join(open(f, errors="replace").read() for f in glob.glob(os.path.join(coq, "*.v")))
src_ids = set(re.findall(r"[A-Za-z_][A-Za-z0-9_']*", src)) | {"Z0", "N0", "O", "S", "XH", "XO", "XI"}   # stdlib constructors
bad = []
for ident in sorted(set(re.findall(r"\b[A-Za-z_][A-Za-z0-9_']*[0-9]\b", mli))):
    base = ident
    # extraction lower-cases the first letter of values and upper-cases constructors
    cands = {ident, ident[0].upper() + ident[1:], ident[0].lower() + ident[1:]}
    if len(ident) > 1 and ident[1].isupper():
        cands.add(ident[0].upper() + ident[1:])
    if not (cands & src_ids):
        bad.append(ident)
if bad:
    print("extraction renamed clashing identifiers (rename them in the Coq sources): " + " ".join(bad))
    sys.exit(1)
