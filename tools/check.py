#!/usr/bin/env python3
"""usage: check.py Cxx [--tier quick|thorough] [--replay path]
Exit 0 = property held on everything explored; exit 1 + 'VIOLATION property=<id> replay=<path>'."""
import argparse, importlib, os, sys
sys.path.insert(0, os.path.dirname(os.path.abspath(__file__)))
sys.path.insert(0, os.path.join(os.path.dirname(os.path.abspath(__file__)), "props"))
import vlib


def main():
    ap = argparse.ArgumentParser()
    ap.add_argument("prop")
    ap.add_argument("--tier", default=os.environ.get("VERIF_TIER", "quick"), choices=["quick", "thorough"])
    ap.add_argument("--replay", default=None)
    a = ap.parse_args()
    seed = int(os.environ.get("VERIF_SEED", "1"))
    mod = importlib.import_module(a.prop)
    ctx = vlib.Ctx(a.prop, a.tier, seed)
    try:
        if a.replay:
            rc = mod.replay(ctx, a.replay)
        else:
            rc = mod.run(ctx)
    finally:
        ctx.cleanup()
    sys.exit(rc)


if __name__ == "__main__":
    main()
