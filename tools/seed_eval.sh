#!/bin/bash
# usage: tools/seed_eval.sh <patch.diff> <prop> [<prop> ...]
# Applies a seeded change to a scratch copy of /repo's HEAD (never to /repo), confirms it builds with the
# repository's flags and passes the pinned suite, then runs the named checks against the copy.
set -u
PATCH=$(realpath "$1"); shift
WT=/tmp/seed_eval_$$
git -C /repo worktree add --detach $WT >/dev/null 2>&1 || exit 2
trap 'git -C /repo worktree remove --force $WT >/dev/null 2>&1; rm -rf /tmp/seed_build_$$' EXIT
if ! git -C $WT apply "$PATCH"; then echo "PATCH DOES NOT APPLY"; exit 3; fi
( cd $WT && cmake -G Ninja -B _build -S . >/dev/null 2>&1 && cmake --build _build >/tmp/seed_build_log_$$ 2>&1 ) || { echo "BUILD FAILS"; tail -5 /tmp/seed_build_log_$$; exit 4; }
( cd $WT && ctest --test-dir _build --timeout 900 2>&1 | grep -E "tests passed|tests failed" )
for P in "$@"; do
  echo "== $P"
  JLS_REPO=$WT JLS_BUILD=/tmp/seed_build_$$ timeout 1800 python3 /verif/tools/check.py $P 2>&1 | grep -E "^VIOLATION|^KNOWN|quick:|thorough:" | head -6
done
rm -f /tmp/seed_build_log_$$
