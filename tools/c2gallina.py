#!/usr/bin/env python3
"""T1b: regenerate Gallina models of small pure C functions from /repo's current source.

    python3 tools/c2gallina.py [--out DIR] [--only GenMrb,GenSigDef]      (env JLS_REPO)

Input : the clang JSON AST of the real source file (macros already expanded).
Output: coq/Gen<Name>.v, one per C file (see FILES), rewritten only when the content
        changes.  The meaning of the emitted helper names is fixed in coq/GenLib.v.

SUPPORTED SUBSET.  Anything else raises Unsupported (exit status 2, message names the
construct): nothing approximate is ever emitted.
  types        integer types (unsigned -> N with explicit u8/u16/u32/u64 wrap, signed -> Z
               with `sint` overflow faults), `uint8_t *` = pointer into the one byte array of
               the function (`ptr`), `struct T *` parameter = record value in/out,
               `const struct T *` = record value, `uintN_t *` parameter (not uint8_t) = scalar
               in/out, static const struct / const integer array globals.
  expressions  literals, enum constants, + - * / % & | ^ ~ << >> comparisons && || ! ?:,
               casts, field access, p[i], *p, p + n, p - q, &local / &GLOBAL as call argument,
               sizeof(primitive type), calls of translated functions, memset.
  statements   declarations, assignments (= op= ++ --) as statements, if/else, switch
               without fall-through, while / for / do-while(0) (loops become a Fixpoint on
               explicit fuel, out of fuel = Fault Out_of_fuel), break, continue, return.
  dropped      statements that only call jls_log_printf (arguments must be free of side
               effects); they are listed in a comment of the generated function.
ASSUMPTIONS written into every generated file: struct / scalar pointer parameters are
valid and do not alias; all `uint8_t *` values of one function point into one array.
"""
import hashlib, json, os, subprocess, sys

REPO = os.environ.get("JLS_REPO", "/repo")
VERIF = os.path.dirname(os.path.dirname(os.path.abspath(__file__)))

# output module -> (source file, entry functions); callees are added automatically
FILES = {
    "GenMrb": ("src/msg_ring_buffer.c",
               ["jls_mrb_init", "jls_mrb_clear", "jls_mrb_alloc", "jls_mrb_peek", "jls_mrb_pop"]),
    "GenSigDef": ("src/core.c",
                  ["jls_core_signal_def_validate", "jls_core_signal_def_align"]),
}
LOG_FUNCS = {"jls_log_printf"}
PRIM = {  # desugared C type -> (signed, bits)   (x86-64 SysV, the platform of the harness)
    "_Bool": (False, 8), "char": (True, 8), "signed char": (True, 8), "unsigned char": (False, 8),
    "short": (True, 16), "unsigned short": (False, 16), "int": (True, 32), "unsigned int": (False, 32),
    "long": (True, 64), "unsigned long": (False, 64), "long long": (True, 64),
    "unsigned long long": (False, 64),
    "uint8_t": (False, 8), "uint16_t": (False, 16), "uint32_t": (False, 32), "uint64_t": (False, 64),
    "int8_t": (True, 8), "int16_t": (True, 16), "int32_t": (True, 32), "int64_t": (True, 64),
    "size_t": (False, 64), "intptr_t": (True, 64), "uintptr_t": (False, 64), "ptrdiff_t": (True, 64),
}
SIZEOF = {"double": 8, "float": 4}
RESERVED = set("""as at cofix else end exists exists2 fix for forall fun if IF in let match mod
 return Set Prop Type then using where with by bind Ok Fault Next Ret Null Ptr res ctl ptr len upd
 u8 u16 u32 u64 udiv umod ushl ushr sint sdiv smod sshl sshr cast_s cast_u b2z idx_of_Z ptr_add
 ptr_add_z ptr_diff ptr_eqb ptr_is_null load8 store8 memset8 loadN loadZ negb andb orb fst snd
 nth repeat firstn skipn length list nat N Z bool unit tt true false O S Some None option""".split())


class Unsupported(Exception):
    pass


def bad(node, what):
    loc = node.get("range", {}).get("begin", {})
    raise Unsupported("%s [%s line %s col %s]" % (what, node.get("kind"), loc.get("line", "?"), loc.get("col", "?")))


# ----------------------------------------------------------------------------- types
class Ty:
    """kind: int (signed, bits) | ptr (to: Ty) | struct (name) | void | other (text)"""
    def __init__(self, kind, signed=False, bits=0, to=None, name=None, const=False):
        self.kind, self.signed, self.bits, self.to, self.name, self.const = kind, signed, bits, to, name, const

    def coq(self):
        if self.kind == "int":
            return "Z" if self.signed else "N"
        if self.kind == "ptr":
            if self.to.kind == "struct":
                return self.to.name
            return "ptr"
        if self.kind == "struct":
            return self.name
        raise Unsupported("no Gallina type for C type kind %s %s" % (self.kind, self.name))

    def scope(self):
        return ("Z" if self.signed else "N") if self.kind == "int" else "*"


def parse_type(text):
    t = text.strip()
    if t.endswith("*"):
        return Ty("ptr", to=parse_type(t[:-1]))
    if t.endswith("*const") or t.endswith("* const"):
        return Ty("ptr", to=parse_type(t[:t.rindex("*")]))
    words = t.split()
    const = "const" in words
    words = [w for w in words if w not in ("const", "volatile", "restrict")]
    t = " ".join(words)
    if t in PRIM:
        s, b = PRIM[t]
        return Ty("int", signed=s, bits=b, const=const)
    if t.startswith("struct "):
        return Ty("struct", name=t[7:], const=const)
    if t == "void":
        return Ty("void")
    return Ty("other", name=t)


def node_type(n):
    t = n.get("type", {})
    q = t.get("desugaredQualType") or t.get("qualType")
    if q is None:
        bad(n, "node without type")
    ty = parse_type(q)
    if ty.kind == "other" and "qualType" in t:
        ty2 = parse_type(t["qualType"])
        if ty2.kind != "other":
            return ty2
    return ty


# ----------------------------------------------------------------------------- expressions as text
class E:
    """Gallina text + the notation scope it must be read in ('N', 'Z' or '*' = any) + C type"""
    def __init__(self, text, scope, ty, atomic=False):
        self.text, self.scope, self.ty, self.atomic = text, scope, ty, atomic


def emb(e, amb, paren=True):
    """text of e for a position whose ambient notation scope is amb ('?' = unknown)"""
    if e.scope not in ("*", amb):
        return "(%s)%%%s" % (e.text, e.scope)
    if paren and not e.atomic:
        return "(%s)" % e.text
    return e.text


def lit(v, ty):
    if v < 0:
        return E("(%d)" % v, "Z", ty, True)
    return E("%d" % v, ty.scope(), ty, True)


BOOL = Ty("bool")
PRIMTY = {k: Ty("int", signed=s, bits=b) for k, (s, b) in PRIM.items()}


def wrapname(ty):
    return "u%d" % ty.bits


def strip_parens(n):
    while n.get("kind") in ("ParenExpr", "ConstantExpr"):
        n = n["inner"][0]
    return n


def kids(n):
    return n.get("inner", [])


# ----------------------------------------------------------------------------- translation unit
class TU:
    def __init__(self, path):
        cmd = ["clang", "-std=gnu11", "-fsyntax-only", "-w", "-DJLS_VERIF",
               "-I%s/include" % REPO, "-I%s/include_prv" % REPO, "-I%s/src" % REPO,
               "-Xclang", "-ast-dump=json", path]
        r = subprocess.run(cmd, capture_output=True, text=True)
        if r.returncode != 0:
            raise Unsupported("clang failed on %s:\n%s" % (path, r.stderr[-2000:]))
        self.ast = json.loads(r.stdout)
        self.funcs, self.order, self.records, self.enums, self.globals = {}, [], {}, {}, {}
        for d in kids(self.ast):
            k = d.get("kind")
            if k == "FunctionDecl" and any(c.get("kind") == "CompoundStmt" for c in kids(d)):
                self.funcs[d["name"]] = d
                self.order.append(d["name"])
            elif k == "RecordDecl" and d.get("completeDefinition") and "name" in d:
                self.records[d["name"]] = d
            elif k == "EnumDecl":
                self.read_enum(d)
            elif k == "VarDecl" and "name" in d:
                self.globals[d["name"]] = d

    def read_enum(self, d):
        nxt = 0
        for c in kids(d):
            if c.get("kind") != "EnumConstantDecl":
                continue
            init = [x for x in kids(c) if x.get("kind") not in ("FullComment",) and "Comment" not in x.get("kind", "")]
            if init:
                nxt = self.const_eval(init[0])
            self.enums[c["name"]] = nxt
            nxt += 1

    def const_eval(self, n):
        """value of an enum initialiser (literals, enum constants, + - | & << unary -, casts)"""
        k = n.get("kind")
        if k in ("ConstantExpr", "ParenExpr", "ImplicitCastExpr", "CStyleCastExpr"):
            if "value" in n and k == "ConstantExpr":
                return int(n["value"])
            return self.const_eval(kids(n)[0])
        if k == "IntegerLiteral":
            return int(n["value"])
        if k == "DeclRefExpr" and n["referencedDecl"]["kind"] == "EnumConstantDecl":
            return self.enums[n["referencedDecl"]["name"]]
        if k == "UnaryOperator" and n["opcode"] == "-":
            return -self.const_eval(kids(n)[0])
        if k == "BinaryOperator" and n["opcode"] in ("+", "-", "|", "&", "<<"):
            a, b = (self.const_eval(x) for x in kids(n))
            return {"+": a + b, "-": a - b, "|": a | b, "&": a & b, "<<": a << b}[n["opcode"]]
        bad(n, "enum initialiser")


# ----------------------------------------------------------------------------- AST scans
ASSIGN_OPS = {"=", "+=", "-=", "*=", "/=", "%=", "&=", "|=", "^=", "<<=", ">>="}


def walk(n):
    yield n
    for c in kids(n):
        if c:
            for x in walk(c):
                yield x


def callee_name(call):
    f = kids(call)[0]
    while f.get("kind") in ("ImplicitCastExpr", "ParenExpr"):
        f = kids(f)[0]
    if f.get("kind") != "DeclRefExpr" or f["referencedDecl"]["kind"] != "FunctionDecl":
        bad(call, "indirect call")
    return f["referencedDecl"]["name"]


def is_logging(s):
    """statement that does nothing but (conditionally) call a logging function"""
    def only_log(n):
        k = n.get("kind")
        if k == "NullStmt":
            return True
        if k == "CompoundStmt":
            return all(only_log(c) for c in kids(n))
        if k == "CallExpr":
            return callee_name(n) in LOG_FUNCS
        if k == "IfStmt" and len(kids(n)) == 2:
            return pure_expr(kids(n)[0]) and only_log(kids(n)[1])
        if k == "DoStmt":
            c = strip_parens(kids(n)[1])
            return c.get("kind") == "IntegerLiteral" and c["value"] == "0" and only_log(kids(n)[0])
        return False
    if not only_log(s):
        return False
    calls = [n for n in walk(s) if n.get("kind") == "CallExpr"]
    if not calls:
        return False
    for c in calls:
        for a in kids(c)[1:]:
            if not pure_expr(a):
                bad(c, "logging call with a side effect in its arguments")
    return True


def pure_expr(n):
    for x in walk(n):
        k = x.get("kind")
        if k in ("CallExpr", "CompoundAssignOperator", "StmtExpr"):
            return False
        if k == "BinaryOperator" and x["opcode"] in ASSIGN_OPS:
            return False
        if k == "UnaryOperator" and x["opcode"] in ("++", "--"):
            return False
    return True


def log_text(s):
    out = [x["value"] for x in walk(s) if x.get("kind") == "StringLiteral"]
    return out[-1] if out else ""


def contains(n, kinds, stop=()):
    """does n contain a node of one of `kinds`, not looking below nodes of kind `stop`"""
    for c in kids(n):
        if not c:
            continue
        if c.get("kind") in kinds:
            return True
        if c.get("kind") in stop:
            continue
        if contains(c, kinds, stop):
            return True
    return False


LOOPS = ("WhileStmt", "ForStmt", "DoStmt")


def can_fall(s):
    """can control reach the statement after s by falling out of s (conservative: True)"""
    if s is None:
        return True
    k = s.get("kind")
    if k in ("ReturnStmt", "BreakStmt", "ContinueStmt"):
        return False
    if k == "CompoundStmt":
        return all(can_fall(c) for c in kids(s))
    if k == "IfStmt":
        c = kids(s)
        return can_fall(c[1]) or (can_fall(c[2]) if len(c) > 2 else True)
    if k == "DoStmt" and not is_logging(s):
        return can_fall(kids(s)[0])
    if k == "SwitchStmt":
        groups, has_default = switch_groups(s)
        if not has_default:
            return True
        return any(contains({"inner": g}, ("BreakStmt",), LOOPS + ("SwitchStmt",)) for _, g in groups) \
            or can_fall({"kind": "CompoundStmt", "inner": groups[-1][1]})
    return True


def switch_groups(s):
    """[(labels or None for default, statements)], has_default; no fall-through allowed"""
    body = kids(s)[1]
    if body.get("kind") != "CompoundStmt":
        bad(s, "switch body that is not a block")
    groups, has_default = [], False
    for c in kids(body):
        labels = []
        first = c
        while first.get("kind") in ("CaseStmt", "DefaultStmt"):
            if first["kind"] == "CaseStmt":
                labels.append(kids(first)[0])
                first = kids(first)[1]
            else:
                labels.append(None)
                has_default = True
                first = kids(first)[0]
        if labels:
            if groups and can_fall({"kind": "CompoundStmt", "inner": groups[-1][1]}):
                bad(c, "switch case falling through into the next label")
            groups.append((labels, [first]))
        else:
            if not groups:
                bad(c, "statement before the first case label")
            groups[-1][1].append(c)
    return groups, has_default


# ----------------------------------------------------------------------------- one function
class Retry(Exception):
    pass


class Var:
    def __init__(self, name, kind, ty):
        # kind: val (integer or byte pointer) | structptr (record, in/out) | cstruct (record, read only)
        #       | scalarptr (pointee value, in/out) | mem (the byte array)
        self.name, self.kind, self.ty = name, kind, ty

    def coq(self):
        if self.kind == "mem":
            return "list N"
        if self.kind == "scalarptr":
            return self.ty.to.coq()
        return self.ty.coq()


def ind(text, n=2):
    return "\n".join((" " * n + l) if l else l for l in text.split("\n"))


def tuple_text(parts):
    return "tt" if not parts else parts[0] if len(parts) == 1 else "(%s)" % ", ".join(parts)


def pat_text(parts):
    return "_" if not parts else parts[0] if len(parts) == 1 else "'(%s)" % ", ".join(parts)


class Fn:
    def __init__(self, mod, decl):
        self.mod, self.tu, self.decl, self.name = mod, mod.tu, decl, decl["name"]
        self.flags = {"monadic": False, "uses_mem": False, "writes_mem": False, "fuel": False}
        self.ret = parse_type(decl["type"]["qualType"].split("(")[0])
        self.params = []
        for p in kids(decl):
            if p.get("kind") == "ParmVarDecl":
                self.params.append(self.classify(p))
        self.outs = [v.name for v in self.params if v.kind in ("structptr", "scalarptr")]

    def classify(self, p):
        ty, name = node_type(p), self.ident(p.get("name"), p)
        if ty.kind == "int":
            return Var(name, "val", ty)
        if ty.kind == "ptr" and ty.to.kind == "struct":
            self.mod.need_record(ty.to.name)
            return Var(name, "cstruct" if ty.to.const else "structptr", ty)
        if ty.kind == "ptr" and ty.to.kind == "int" and ty.to.bits == 8:
            return Var(name, "val", ty)
        if ty.kind == "ptr" and ty.to.kind == "int" and not ty.to.const:
            return Var(name, "scalarptr", ty)
        bad(p, "parameter of type %s" % p["type"]["qualType"])

    def ident(self, name, node):
        if name is None or name in RESERVED or name in self.mod.globals_used or "'" in name:
            bad(node, "identifier %r collides with a reserved name" % name)
        return name

    def need(self, flag):
        if not self.flags[flag]:
            self.flags[flag] = True
            raise Retry()

    # ---- result shapes
    def result_parts(self, value):
        parts = ([value] if value is not None else []) + list(self.outs)
        if self.flags["writes_mem"]:
            parts.append("mem'")
        return parts

    def result_type(self):
        parts = ([self.ret.coq()] if self.ret.kind != "void" else [])
        parts += [v.coq() for v in self.params if v.name in self.outs]
        if self.flags["writes_mem"]:
            parts.append("list N")
        t = " * ".join(parts) if parts else "unit"
        return t

    def wrap_ok(self, text):
        return "Ok %s" % text if self.flags["monadic"] else text

    def fault(self, what):
        self.need("monadic")
        return "Fault %s" % what

    # ---- prelude (hoisted binds) handling
    def hoist(self, rhs, ty, monadic=True):
        """bind the result of a faulting computation to a fresh temporary"""
        if monadic:
            self.need("monadic")
        self.ntmp += 1
        t = "t'%d" % self.ntmp
        self.pre[-1].append(("bind" if monadic else "let", rhs, t))
        return E(t, "*", ty, True)

    def open_pre(self):
        self.pre.append([])

    def close_pre(self, text):
        for kind, rhs, pat in reversed(self.pre.pop()):
            if kind == "bind":
                text = "bind (%s) (fun %s =>\n%s)" % (rhs, pat, text)
            else:
                text = "let %s := %s in\n%s" % (pat, rhs, text)
        return text

    # ---- variables
    def var_of(self, n):
        """the Var a DeclRefExpr (below casts / parens) names, or None"""
        n = strip_parens(n)
        while n.get("kind") in ("ImplicitCastExpr", "ParenExpr") and n.get("castKind") in (None, "LValueToRValue", "NoOp"):
            n = strip_parens(kids(n)[0])
        if n.get("kind") == "DeclRefExpr" and n["referencedDecl"]["kind"] in ("ParmVarDecl", "VarDecl"):
            return self.env.get(n["referencedDecl"]["name"])
        return None

    def global_struct(self, n):
        """name of the global const struct that `n` (GLOBAL or &GLOBAL) denotes, or None"""
        n = strip_parens(n)
        if n.get("kind") == "UnaryOperator" and n["opcode"] == "&":
            n = strip_parens(kids(n)[0])
        if n.get("kind") == "DeclRefExpr" and n["referencedDecl"]["kind"] == "VarDecl":
            name = n["referencedDecl"]["name"]
            if name not in self.env and name in self.tu.globals:
                return self.mod.need_global(name, n)
        return None

    # ---- expressions
    def ex(self, n):
        m = getattr(self, "ex_" + n.get("kind", "?"), None)
        if m is None:
            bad(n, "unsupported expression")
        return m(n)

    def ex_IntegerLiteral(self, n):
        return lit(int(n["value"]), node_type(n))

    ex_CharacterLiteral = ex_IntegerLiteral

    def ex_ParenExpr(self, n):
        return self.ex(kids(n)[0])

    ex_ConstantExpr = ex_ParenExpr

    def ex_DeclRefExpr(self, n):
        rd = n["referencedDecl"]
        if rd["kind"] == "EnumConstantDecl":
            v, ty = self.tu.enums[rd["name"]], node_type(n)
            return E("%s (* %s *)" % ("(%d)" % v if v < 0 else v, rd["name"]), ty.scope(), ty)
        v = self.env.get(rd.get("name"))
        if v is None:
            g = self.global_struct(n)
            if g:
                return E(g, "*", node_type(n), True)
            bad(n, "reference to %s %s" % (rd["kind"], rd.get("name")))
        if v.kind in ("val", "cstruct"):
            return E(v.name, "*", v.ty, True)
        bad(n, "pointer parameter %s used as a value" % v.name)

    def ex_ImplicitCastExpr(self, n):
        ck, inner = n["castKind"], kids(n)[0]
        if ck in ("LValueToRValue", "NoOp"):
            return self.ex(inner)
        if ck == "IntegralCast":
            to, i2 = node_type(n), strip_parens(inner)
            if to.kind != "int":
                bad(n, "cast to %s" % n["type"]["qualType"])
            if i2.get("kind") == "IntegerLiteral":
                v = int(i2["value"])
                if not to.signed:
                    v %= 1 << to.bits                     # conversion to unsigned is modular
                elif not -(1 << (to.bits - 1)) <= v < (1 << (to.bits - 1)):
                    bad(n, "literal does not fit the signed target type")
                return lit(v, to)
            return self.cast(self.ex(inner), to, n)
        if ck == "NullToPointer":
            return E("Null", "*", node_type(n), True)
        if ck == "BitCast":
            e = self.ex(inner)
            if not self.is_byte_ptr(e.ty):
                bad(n, "pointer cast")
            return e
        bad(n, "cast kind %s" % ck)

    ex_CStyleCastExpr = ex_ImplicitCastExpr

    def is_byte_ptr(self, ty):
        return ty.kind == "ptr" and ty.to.kind == "int" and ty.to.bits == 8 and not ty.to.signed

    def cast(self, e, to, n):
        fr = e.ty
        if fr.kind != "int":
            bad(n, "integral cast of a non-integer")
        if not fr.signed and not to.signed:
            if to.bits >= fr.bits:
                return E(e.text, e.scope, to, e.atomic)
            return E("u%d %s" % (to.bits, emb(e, "N")), "*", to)
        if not fr.signed and to.signed:
            z = E("Z.of_N %s" % emb(e, "N"), "*", to)
            return z if to.bits > fr.bits else E("cast_s %d %s" % (to.bits, emb(z, "Z")), "*", to)
        if fr.signed and not to.signed:
            return E("cast_u %d %s" % (to.bits, emb(e, "Z")), "*", to)
        if to.bits >= fr.bits:
            return E(e.text, e.scope, to, e.atomic)
        return E("cast_s %d %s" % (to.bits, emb(e, "Z")), "*", to)

    def ex_MemberExpr(self, n):
        base, ty = kids(n)[0], node_type(n)
        v = self.var_of(base)
        if v and v.kind in ("structptr", "cstruct") and n.get("isArrow"):
            return E("%s.(%s)" % (v.name, self.mod.proj(v.ty.to.name, n["name"], n)), "*", ty, True)
        g = self.global_struct(base)
        if g and not n.get("isArrow"):
            return E("%s.(%s)" % (g, self.mod.proj(node_type(strip_parens(base)).name, n["name"], n)), "*", ty, True)
        bad(n, "field access whose base is not a struct pointer parameter / const struct")

    def ex_UnaryOperator(self, n):
        op, a, ty = n["opcode"], kids(n)[0], node_type(n)
        if op == "*":
            v = self.var_of(a)
            if v and v.kind == "scalarptr":
                return E(v.name, "*", ty, True)
            return self.load(self.ex(a), lit(0, PRIMTY["unsigned int"]), n)
        if op == "&":
            g = self.global_struct(n)
            if g:
                return E(g, "*", ty, True)
            bad(n, "address-of that is not a call argument")
        if op == "!":
            return E("b2z %s" % emb(self.cond(n), "?"), "*", ty)
        if op == "+":
            return self.ex(a)
        e = self.ex(a)
        if ty.kind != "int" or ty.bits < 32:
            bad(n, "unary %s on %s" % (op, n["type"]["qualType"]))
        if op == "-":
            if ty.signed:
                return self.hoist("sint %d (- %s)" % (ty.bits, emb(e, "Z")), ty)
            return E("u%d (%d - %s)" % (ty.bits, 1 << ty.bits, emb(e, "N")), "*", ty)
        if op == "~":
            if ty.signed:
                return E("- %s - 1" % emb(e, "Z"), "Z", ty)
            return E("%d - %s" % ((1 << ty.bits) - 1, emb(e, "N")), "N", ty)
        bad(n, "unary operator %s inside an expression" % op)

    def ex_BinaryOperator(self, n):
        op, (a, b), ty = n["opcode"], kids(n), node_type(n)
        if op in ASSIGN_OPS or op == ",":
            bad(n, "assignment / comma inside an expression")
        if op in ("<", ">", "<=", ">=", "==", "!=", "&&", "||"):
            return E("b2z %s" % emb(self.cond(n), "?"), "*", ty)
        ta, tb = node_type(a), node_type(b)
        if "ptr" in (ty.kind, ta.kind, tb.kind):
            return self.ptr_arith(n, op, a, b, ty, ta, tb)
        if ty.kind != "int" or ty.bits < 32:
            bad(n, "arithmetic in type %s" % n["type"]["qualType"])
        ea, eb = self.ex(a), self.ex(b)
        if op in ("<<", ">>"):
            return self.shift(n, op, ea, eb, ty, b)
        if not ty.signed:
            A, B, w = emb(ea, "N"), emb(eb, "N"), "u%d" % ty.bits
            if op == "+":
                return E("%s (%s + %s)" % (w, A, B), "*", ty)
            if op == "-":
                return E("%s (%s + %d - %s)" % (w, A, 1 << ty.bits, B), "*", ty)
            if op == "*":
                return E("%s (%s * %s)" % (w, A, B), "*", ty)
            if op in ("/", "%"):
                return self.hoist("%s %s %s" % ("udiv" if op == "/" else "umod", A, B), ty)
            if op in ("&", "|", "^"):
                return E("%s %s %s" % ({"&": "N.land", "|": "N.lor", "^": "N.lxor"}[op], A, B), "*", ty)
        else:
            A, B, w = emb(ea, "Z"), emb(eb, "Z"), ty.bits
            if op in ("+", "-", "*"):
                return self.hoist("sint %d (%s %s %s)" % (w, A, op, B), ty)
            if op in ("/", "%"):
                return self.hoist("%s %d %s %s" % ("sdiv" if op == "/" else "smod", w, A, B), ty)
            if op in ("&", "|", "^"):
                return E("%s %s %s" % ({"&": "Z.land", "|": "Z.lor", "^": "Z.lxor"}[op], A, B), "*", ty)
        bad(n, "binary operator %s" % op)

    def shift(self, n, op, ea, eb, ty, bnode):
        b0 = strip_parens(bnode)
        while b0.get("kind") == "ImplicitCastExpr":
            b0 = strip_parens(kids(b0)[0])
        k = int(b0["value"]) if b0.get("kind") == "IntegerLiteral" else None
        if k is not None and 0 <= k < ty.bits:
            if not ty.signed:
                A = emb(ea, "N")
                return E("u%d (N.shiftl %s %d)" % (ty.bits, A, k) if op == "<<" else "N.shiftr %s %d" % (A, k), "*", ty)
            A = emb(ea, "Z")
            if op == ">>":
                return E("Z.shiftr %s %d" % (A, k), "*", ty)
            return self.hoist("sshl %d %s %d" % (ty.bits, A, k), ty)
        if not ty.signed:
            K = emb(self.index(eb), "N")
            return self.hoist("%s %d %s %s" % ("ushl" if op == "<<" else "ushr", ty.bits, emb(ea, "N"), K), ty)
        K = emb(eb, "Z") if eb.ty.signed else "(Z.of_N %s)" % emb(eb, "N")
        return self.hoist("%s %d %s %s" % ("sshl" if op == "<<" else "sshr", ty.bits, emb(ea, "Z"), K), ty)

    def index(self, e):
        """an integer used as array index / count, as N"""
        if e.ty.kind != "int":
            raise Unsupported("index that is not an integer")
        if not e.ty.signed:
            return e
        if e.text.isdigit():
            return E(e.text, "N", e.ty, True)
        return self.hoist("idx_of_Z %s" % emb(e, "Z"), PRIMTY["unsigned long"])

    def ptr_arith(self, n, op, a, b, ty, ta, tb):
        if ta.kind == "ptr" and tb.kind == "ptr" and op == "-":
            ea, eb = self.ex(a), self.ex(b)
            if not (self.is_byte_ptr(ta) and self.is_byte_ptr(tb)):
                bad(n, "difference of pointers that are not byte pointers")
            return self.hoist("ptr_diff %s %s" % (emb(ea, "?"), emb(eb, "?")), ty)
        if ty.kind == "ptr" and op in ("+", "-"):
            if tb.kind == "ptr":
                if op == "-":
                    bad(n, "integer - pointer")
                a, b = b, a
            ep, ei = self.ex(a), self.ex(b)
            if not self.is_byte_ptr(ep.ty) or ei.ty.kind != "int":
                bad(n, "arithmetic on a pointer that is not a byte pointer")
            if not ei.ty.signed and op == "+":
                return self.hoist("ptr_add %s %s" % (emb(ep, "?"), emb(ei, "N")), ty)
            z = emb(ei, "Z") if ei.ty.signed else "(Z.of_N %s)" % emb(ei, "N")
            return self.hoist("ptr_add_z %s %s" % (emb(ep, "?"), z if op == "+" else "(- %s)%%Z" % z), ty)
        bad(n, "pointer operation %s" % op)

    def load(self, pe, ie, n):
        if not self.is_byte_ptr(pe.ty):
            bad(n, "read through a pointer that is not `uint8_t *`")
        self.need("uses_mem")
        return self.hoist("load8 mem' %s %s" % (emb(pe, "?"), emb(self.index(ie), "N")), pe.ty.to)

    def ex_ArraySubscriptExpr(self, n):
        base, idx = kids(n)
        t = self.mod.global_array(base, self)
        if t:
            name, ety = t
            return self.hoist("%s %s %s" % ("loadZ" if ety.signed else "loadN", name, emb(self.index(self.ex(idx)), "N")), ety)
        return self.load(self.ex(base), self.ex(idx), n)

    def ex_ConditionalOperator(self, n):
        (c, a, b), ty = kids(n), node_type(n)
        cc = self.cond(c)
        self.open_pre()
        ea = self.ex(a)
        pa = self.pre.pop()
        self.open_pre()
        eb = self.ex(b)
        pb = self.pre.pop()
        s = ty.scope()
        amb = s if s != "*" else "?"
        if not pa and not pb:
            return E("if %s then %s else %s" % (emb(cc, amb, False), emb(ea, amb, False), emb(eb, amb, False)), s, ty)
        self.need("monadic")
        self.pre.append(pa)
        ta = self.close_pre("Ok %s" % emb(ea, "N"))
        self.pre.append(pb)
        tb = self.close_pre("Ok %s" % emb(eb, "N"))
        return self.hoist("if %s then\n%s\nelse\n%s" % (emb(cc, "N", False), ind(ta), ind(tb)), ty)

    def ex_UnaryExprOrTypeTraitExpr(self, n):
        t = n.get("argType", {}).get("qualType")
        if n.get("name") != "sizeof" or t is None:
            bad(n, "sizeof of an expression / alignof")
        size = SIZEOF.get(t) or (PRIM[t][1] // 8 if t in PRIM else None)
        if size is None:
            bad(n, "sizeof(%s)" % t)
        return lit(size, node_type(n))

    def ex_CallExpr(self, n):
        e = self.call(n)
        if e is None:
            bad(n, "value of a void call")
        return e

    # ---- conditions (Gallina bool)
    def cond(self, n):
        n0 = strip_parens(n)
        k = n0.get("kind")
        if k == "BinaryOperator" and n0["opcode"] in ("&&", "||"):
            a, b = kids(n0)
            ca = self.cond(a)
            self.open_pre()
            cb = self.cond(b)
            if self.pre[-1]:                       # right operand can fault: keep it lazy
                self.need("monadic")
                inner = self.close_pre("Ok %s" % emb(cb, "N"))
                if n0["opcode"] == "&&":
                    rhs = "if %s then\n%s\nelse Ok false" % (emb(ca, "N", False), ind(inner))
                else:
                    rhs = "if %s then Ok true else\n%s" % (emb(ca, "N", False), ind(inner))
                return self.hoist(rhs, BOOL)
            self.pre.pop()
            return E("%s %s %s" % (emb(ca, "N"), n0["opcode"], emb(cb, "N")), "N", BOOL)
        if k == "BinaryOperator" and n0["opcode"] in ("<", ">", "<=", ">=", "==", "!="):
            op, (a, b) = n0["opcode"], kids(n0)
            ea, eb = self.ex(a), self.ex(b)
            if ea.ty.kind == "ptr" or eb.ty.kind == "ptr":
                if op not in ("==", "!="):
                    bad(n0, "ordering comparison of pointers")
                t = "ptr_eqb %s %s" % (emb(ea, "?"), emb(eb, "?"))
                return E(t if op == "==" else "negb (%s)" % t, "*", BOOL)
            if ea.ty.kind != "int" or eb.ty.kind != "int" or ea.ty.signed != eb.ty.signed:
                bad(n0, "comparison of %s and %s" % (ea.ty.kind, eb.ty.kind))
            s = ea.ty.scope()
            A, B = emb(ea, s), emb(eb, s)
            t = {"<": "%s <? %s" % (A, B), "<=": "%s <=? %s" % (A, B), ">": "%s <? %s" % (B, A),
                 ">=": "%s <=? %s" % (B, A), "==": "%s =? %s" % (A, B), "!=": "negb (%s =? %s)" % (A, B)}[op]
            return E(t, s, BOOL)
        if k == "UnaryOperator" and n0["opcode"] == "!":
            c = self.cond(kids(n0)[0])
            return E("negb %s" % emb(c, c.scope if c.scope != "*" else "?"), c.scope, BOOL)
        if k in ("ImplicitCastExpr", "CStyleCastExpr") and n0["castKind"] in ("IntegralToBoolean", "PointerToBoolean"):
            return self.cond(kids(n0)[0])
        e = self.ex(n0)
        if e.ty.kind == "int":
            s = e.ty.scope()
            return E("negb (%s =? 0)" % emb(e, s), s, BOOL)
        if e.ty.kind == "ptr":
            return E("negb (ptr_is_null %s)" % emb(e, "?"), "*", BOOL)
        bad(n0, "condition of type %s" % e.ty.kind)
